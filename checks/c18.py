"""C18 — time-range queries read exactly the views covering the range.

spec/TimeViews.tla: Gregorian calendar arithmetic over hour indexes (closed form and
successor rule), the 10 quanta, time views with their names and intervals, the property of a
range decomposition (CoverOK = UnitsAllowed, Disjoint, CoversExactly) and one decomposition
that satisfies it (ViewsForRange).

 (M) spec/TimeRange.tla: for every quantum and every aligned range over windows on calendar
     edges, ViewsForRange satisfies CoverOK, every view round-trips, reading the views returns
     exactly the instants of the range; the two calendar definitions agree on 2017..2023.
 (B) harness/bind/mrtimeb TestC18Trace calls the real viewsByTimeRange / viewsByTime /
     timeOfView / minMaxViews for all 10 quanta x aligned starts around month / year / leap
     edges x bounded lengths (exhaustively) plus seeded random long ranges, all 24 hours, all
     days of leap and common years; TLC validates every recorded call against
     spec/TraceTimeViews.tla (POSTCONDITION on the number of accepted events).
 (A) TLC enumerates (quantum, from, to) over the windows; TestC18Query holds one column per
     finest-unit instant in a real time field (with and without standard view) and compares
     Row(f=r, from=, to=) and Rows(f, from=, to=) with the instants the specification lists.
"""
import json
import os
import re
from concurrent.futures import ThreadPoolExecutor

import vlib

LEVEL = "model_checking"
PKG = "bind/mrtimeb"


def _verdict(r):
    m = re.search(r'TRACE-REJECTED (\d+)', r.out_tail or "")
    if m:
        return False, int(m.group(1))
    if "TRACE-ACCEPTED" in (r.out_tail or ""):
        return True, -1
    return None, -1


def _validate_chunk(ctx, path):
    r = vlib.tlc("TraceTimeViews", "TraceTimeViews", ctx.scratch, files={"trace.ndjson": path}, workers=1, timeout=2400)
    return r


def _split(path, k, scratch, tag):
    lines = open(path).read().splitlines()
    n = len(lines)
    k = max(1, min(k, n))
    # interleave so that every chunk gets every kind of event and finishes at about the same time
    outs = []
    for i in range(k):
        p = os.path.join(scratch, "trace-%s-%d.ndjson" % (tag, i))
        with open(p, "w") as f:
            for ln in lines[i::k]:
                f.write(ln + "\n")
        outs.append(p)
    return outs, n


def validate(ctx, trace, label, chunks, env):
    """returns number of accepted events; appends failures for rejected ones"""
    paths, n = _split(trace, chunks, ctx.scratch, label.replace("/", "_"))
    with ThreadPoolExecutor(max_workers=len(paths)) as pool:
        results = list(pool.map(lambda p: _validate_chunk(ctx, p), paths))
    accepted = 0
    for p, r in zip(paths, results):
        ctx.tlc_runs.append(("TraceTimeViews", label, r))
        ok, prefix = _verdict(r)
        lines = open(p).read().splitlines()
        if ok is None:
            ctx.inconclusive.append("%s: TLC gave no verdict on the trace\n%s" % (label, (r.violation or r.out_tail)[-1500:]))
            r.violation = None
            continue
        r.violation = None
        if ok:
            accepted += len(lines)
            continue
        accepted += prefix
        ev = json.loads(lines[min(prefix, len(lines) - 1)])
        ctx.failures.append({
            "match": {"binding": "trace", "event": ev.get("ev", ""), "q": ev.get("q", ev.get("unit", "")),
                      "symptom": "trace_rejected"},
            "detail": "%s: recorded call rejected by TraceTimeViews (event %d of its chunk): %s" % (label, prefix, json.dumps(ev)[:1500]),
            "replay": ev, "_pkg": PKG, "_test": "TestC18Trace", "_env": {k: str(v) for k, v in env.items()}, "_race": False})
    return accepted, n


def run(ctx):
    thorough = ctx.tier == "thorough"
    ctx.rule = ("trace: event = one call of viewsByTimeRange (quantum x aligned start x length, exhaustive over the listed "
                "starts and lengths, plus seeded random long ranges), viewsByTime, timeOfView or minMaxViews; query: behaviour "
                "= (quantum, from, to) over windows on calendar edges [BFS in the thorough tier; H-finest quanta sampled in "
                "the quick tier] x standard-view option; distinct = distinct event / behaviour.")
    ctx.trusted += ["hour index <-> time.Time conversion (Unix seconds / 3600)",
                    "reading the digits of a view name (re-checked by TLC: ViewName of the numbers must equal the logged name)"]
    ctx.assumptions += ["range ends are aligned to the quantum's finest unit (the weakest reading of the property)",
                        "a view with no fragment reads as empty",
                        "Row/Rows are queried with both from and to (Row with only from uses the wall clock as to)",
                        "trace events with more than 150 views are not recorded (long decompositions are covered end to end)"]
    pool = ThreadPoolExecutor(max_workers=4)
    fm = pool.submit(ctx.modelcheck, "TimeRange", "C18_mc" if thorough else "C18_mc_q", timeout=1500, workers=3)
    if thorough:
        gens = [pool.submit(ctx.generate, "TimeRange", "C18_gen_all", mode="bfs", timeout=1500, workers=3)]
    else:
        gens = [pool.submit(ctx.generate, "TimeRange", "C18_gen_nh", mode="bfs", timeout=600, workers=2),
                pool.submit(ctx.generate, "TimeRange", "C18_gen_h", mode="simulate", num=45, depth=10, timeout=600)]

    # (B) record, then validate in parallel chunks
    trace = os.path.join(ctx.scratch, "c18-trace.ndjson")
    res = ctx.drive(PKG, "TestC18Trace", env={"VERIF_TRACE_OUT": trace}, label="C18/trace", timeout=900)
    if res is None or not os.path.exists(trace) or os.path.getsize(trace) == 0:
        raise vlib.Inconclusive("no trace recorded")
    acc, n = validate(ctx, trace, "C18/trace", 10 if thorough else 5, {})
    ctx.validated += acc
    vlib.log("trace: %d of %d recorded calls accepted by TraceTimeViews" % (acc, n))

    # binding self-test: a spoiled result must be rejected at that event
    bad = os.path.join(ctx.scratch, "c18-trace-bad.ndjson")
    vlib.drive(ctx.binary(PKG), "TestC18Trace", {"VERIF_TRACE_OUT": bad, "VERIF_CORRUPT_EVENT": 7, "VERIF_SEED": ctx.seed,
                                                 "VERIF_TIER": "quick"}, ctx.scratch, timeout=600)
    short = os.path.join(ctx.scratch, "c18-trace-bad-short.ndjson")
    if os.path.exists(bad):
        with open(short, "w") as f:
            f.writelines(open(bad).readlines()[:20])
        r = _validate_chunk(ctx, short)
        ok, prefix = _verdict(r)
        if ok is not False or prefix != 7:
            ctx.inconclusive.append("binding self-test: spoiled event 7 was not rejected (verdict %s at %s)" % (ok, prefix))
    else:
        ctx.inconclusive.append("binding self-test: no trace")

    # (A)
    allb = os.path.join(ctx.scratch, "c18-query.ndjson")
    with open(allb, "w") as out:
        for g in gens:
            out.write(open(g.result().behaviours).read())
    ctx.drive(PKG, "TestC18Query", beh=allb, label="C18/query", timeout=2400)

    m = fm.result()
    if m.violation:
        raise vlib.Inconclusive("TimeRange violates its own properties:\n%s" % m.violation[:2500])
    ctx.exhaustive = thorough
