"""C13 - mutex and bool fields hold at most one value per column, the last one written.

spec/Mutex.tla: bits of one mutex (bool) field + the ghost last[c] (row of the write that
decides column c); actions Set, Clear, Import(batch with repeats/conflicts), ClearImport,
ClearRow and the two refused requests (roaring import; bool batch naming row 2); invariants
AtMostOnePerColumn and LastWriterWins are model-checked on the same runs that generate the
behaviours (every stored state of either field type is an initial state, so depth 1 from all
of them is the whole transition relation). harness/bind/topnb TestC13 replays every behaviour on a one-node
server through PQL + API.Import and through the Field Go API, on one and on two shards, with
columns refined to blocks of concrete columns, and compares `changed`, Row(f=r) for every
row, Rows(f, column=c) for every concrete column and Rows(f) after every step."""
import os
import sys

sys.path.insert(0, os.path.join(os.path.dirname(os.path.dirname(os.path.abspath(__file__))), "tools"))
import vlib  # noqa: E402

sys.path.insert(0, os.path.dirname(os.path.abspath(__file__)))
import tncommon  # noqa: E402

LEVEL = "model_checking"

# (cfg, quick: (mode, traces, replayed sample, variants) | None, thorough: (...))
RUNS = [
    ("C13_d1", ("bfs", None, None, 2), ("bfs", None, None, 4)),
    ("C13_sim", ("simulate", 30, 1500, 2), ("simulate", 300, 10000, 2)),
    ("C13_d2", None, ("bfs", None, None, 1)),
]


OPS = {"mutex": ["Set", "Clear", "Import", "ClearImport", "ClearRow", "Roaring"],
       "bool": ["Set", "Clear", "Import", "ClearImport", "ClearRow", "Roaring", "BadRow"]}


def run(ctx):
    thorough = ctx.tier == "thorough"
    ctx.rule = ("behaviour = a stored state (every assignment of 2 abstract columns to a row or none) followed by "
                "1 (d1), 2 (d2) or 6 (sim) steps over Set/Clear (every row x column), Import (every sequence of "
                "<= 3 (row, column) entries, d2: <= 2), ClearImport (<= 2, d2: 1), ClearRow, refused roaring import, "
                "refused bool batch; d1/d2 enumerated by TLC BFS, sim by seeded simulation. Each behaviour is replayed "
                "under 1, 2 or 4 of the (PQL+API.Import | Field API) x (1 | 2 shards) combinations with a seeded "
                "refinement of columns to blocks of 1-3 concrete columns and of rows to row ids, 30 behaviours one "
                "after the other per field (emptied and re-loaded in between); one evaluation = one behaviour under "
                "one combination, every answer after every step compared.")
    ctx.trusted += ["refinement of abstract columns/rows and batch expansion (harness/bind/topnb/c13_test.go)"]
    ctx.assumptions += [
        "Rows() is not offered on bool fields; bool columns are observed through Row(f=true/false) only",
        "Field.Row is not offered on mutex/bool fields; the Field-API variant writes through Field.SetBit/ClearBit/Import and reads through PQL",
        "a batch entry for an abstract column becomes one entry per concrete column of its block, relative order per column preserved",
        "Store() into a mutex field and concurrent writers are outside the property's histories"]
    if thorough:
        for cfg in ("C13_mc",):
            m = ctx.modelcheck("Mutex", cfg, timeout=600, workers=2)
            if m.violation:
                raise vlib.Inconclusive("design invariant violated in %s:\n%s" % (cfg, m.violation[:2000]))
    sel = [(cfg,) + (t if thorough else q) for cfg, q, t in RUNS if (t if thorough else q)]
    gen = tncommon.generate_all(ctx, [(cfg, mode, num) for cfg, mode, num, nsample, nvar in sel], "Mutex")
    selftest_done = False
    for cfg, mode, num, nsample, nvar in sel:
        r = gen[cfg]
        beh, n = r.behaviours, r.n_behaviours
        if nsample:
            beh, n = tncommon.sample(beh, nsample, ctx.seed)
        ctx.notes.append("%s: %d behaviours generated, %d replayed x %d combinations" % (cfg, r.n_behaviours, n, nvar))
        env = {"VERIF_VARIANTS": nvar}
        ctx.drive("bind/topnb", "TestC13", beh=beh, env=env, label="C13/" + cfg, timeout=2400)
        if not selftest_done and mode == "simulate":
            # binding self-test: the expected rows of the last step of one behaviour per field
            # are swapped; the planted errors must be reported
            selftest_done = True
            before = len(ctx.failures)
            env2 = dict(env)
            env2["VERIF_CORRUPT"] = 1
            st, _ = tncommon.sample(beh, 300, ctx.seed + 1)
            res = ctx.drive("bind/topnb", "TestC13", beh=st, env=env2, label="C13/selftest", timeout=600)
            planted = ctx.failures[before:]
            del ctx.failures[before:]
            if res is not None and not planted:
                ctx.inconclusive.append("binding self-test: corrupted expectations were not detected")
            ctx.extra_cov["selftest_detected"] = len(planted)
    ctx.exhaustive = False   # d1 (and d2) are exhaustive in the abstract scope, the simulation and the refinement are sampled
    if not ctx.failures:
        for kind, ops in OPS.items():
            for op in ops:
                if not ctx.extra_cov.get("c13:%s:op:%s" % (kind, op)):
                    ctx.inconclusive.append("vacuous: action %s never replayed on a %s field" % (op, kind))
