"""C02 — bitmap reads stay consistent with every mutation applied (both collections).

spec/RoaringHist.tla: one bitmap, history of mutations and reads (reads are actions:
they move the last-container lookaside). harness TestC02 performs exactly the spec's
calls on the real bitmap (slice and B-tree), compares every result, then the final
state through every read path and after encode/decode (DESIGN.md 6/C02)."""

LEVEL = "model_checking"


def run(ctx):
    thorough = ctx.tier == "thorough"
    ctx.rule = ("behaviour = history of Depth calls over the alphabet {Add, Remove, AddN, RemoveN (batches with "
                "repeats), ImportSet/ImportClear(every non-empty subset, format, rowSize), Optimize, Reencode, reads} "
                "on a K x M abstract universe and a collection kind; BFS = all histories, simulate = seeded sample; "
                "each replayed under several gamma profiles. non-trivial = a mutation that changes the set followed "
                "by at least one more call; distinct by (history, profile).")
    ctx.trusted += ["gamma materialisation", "reference Pilosa/official encoders for import payloads (bind/roaringb/encref.go, build.go)"]
    runs = [
        # cfg, K, M, mode, num, depth
        ("C02_2x1_d3", 2, 1, "bfs", None, None),
        # -simulate prints Emit for every successor of a trace's last state (~ alphabet size
        # behaviours per trace), so num is small
        ("C02_2x2_sim", 2, 2, "simulate", 60 if not thorough else 250, 8),
        ("C02_3x1_sim", 3, 1, "simulate", 60 if not thorough else 400, 10),
    ]
    # copy-on-write paths: a held (derived) value freezes the containers, then mutations at the
    # array/bitmap and bitmap/run conversion points (profiles thresh, runs, longruns)
    hold = ("C02_1x3_hold_d4" if thorough else "C02_1x3_hold_q", 1, 3, "bfs", None, None)
    runs += [hold, ("C02_1x3_sim", 1, 3, "simulate", 60 if not thorough else 300, 8)]
    if thorough:
        # (C02_2x2_d3 as BFS is 1.4 M histories x profiles: too slow to finish; sampled instead)
        runs += [("C02_2x1_d4", 2, 1, "bfs", None, None), ("C02_2x2_d3", 2, 2, "simulate", 1500, 3)]
    for cfg, K, M, mode, num, depth in runs:
        r = ctx.generate("RoaringHist", cfg, mode=mode, num=num, depth=depth, timeout=1200)
        env = {"VERIF_K": K, "VERIF_M": M}
        if "hold" in cfg:
            env["VERIF_PROFILES"] = "thresh/low,runs/gap,longruns/low"
        ctx.drive("bind/roaringb", "TestC02", beh=r.behaviours, env=env, label="C02/" + cfg, timeout=3000)
    ctx.exhaustive = False
    ctx.notes.append("exhaustive over all histories of depth 3 on 2 containers x 1 slot (both collections); deeper and wider scopes sampled")
