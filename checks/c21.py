"""C21 — a resize plan copies every newly owned shard from a surviving owner; cleanup
removes only shards a node no longer owns.

spec/ResizePlanC21.tla: PlanComplete, SourcesValid, RefusedOnlyIfNoSource (PlanOK) and
CleanupOnlyUnowned over observed ownership; (M) TLC checks that the predicates are
satisfiable exactly when a surviving source exists for every newly owned shard.
Binding B (harness/bind/clusterb TestC21): for every cluster of <= 6 nodes over a 7-id
universe, every single add/remove, replicas 1..4 (jump hash; mod hash for a quarter), the
driver logs the owners before/after (cluster.shardNodes), the real fragSources plan or refusal
for shard sets within 0..7 (2 fields x 2 views), the job of unprotectedGenerateResizeJobByAction
on holders with 0/1/2 indexes, and the fragments left by holderCleaner.CleanHolder on a real
holder (through RESIZING -> NORMAL and directly); TLC validates every event against
spec/TraceResizePlanC21.tla."""
import os
import sys

sys.path.insert(0, os.path.dirname(os.path.abspath(__file__)))
import _clustertrace as ct  # noqa: E402
import vlib  # noqa: E402

LEVEL = "model_checking"


def _match(ev, case):
    return {"symptom": "trace_rejected", "kind": case.get("kind", ""), "act": case.get("act", ""),
            "n": str(len(case.get("old") or []) or case.get("n0", 0)), "r": str(case.get("r")), "hasher": case.get("hasher", "")}


def run(ctx):
    thorough = ctx.tier == "thorough"
    ctx.rule = ("case = (member list in join order, add|remove of one node, replicas, hasher) x (plan for a shard set | "
                "job on a holder | cleanup on a member of the resulting cluster with a set of local fragments); every "
                "recorded plan/job/cleanup is validated by TLC. distinct = distinct case; non-trivial = the plan has at "
                "least one entry.")
    ctx.trusted += ["ownership before/after is what cluster.shardNodes answers on the old/new member list (validated by C20)",
                    "grouping of resize sources by (target, index, shard) in the driver"]
    ctx.assumptions += ["shards with data within 0..7; 2 time fields x 2 views (a third one-view field in the two-index holder)",
                        "cleanup is driven on one node's real holder after the membership change (RESIZING -> NORMAL), not through "
                        "a networked multi-node resize (that protocol is C22)",
                        "the property does not require cleanup to remove every unowned shard, nor forbid extra plan entries with "
                        "valid sources (weakest reading)"]
    m = ctx.modelcheck("ResizePlanC21", "C21_mc", timeout=600, workers=2)
    if m.violation:
        raise vlib.Inconclusive("ResizePlanC21 violates its own properties:\n" + m.violation[:2000])

    base = os.path.join(ctx.scratch, "c21trace")
    res = ctx.drive(ct.PKG, "TestC21", env={"VERIF_TRACE_OUT": base}, label="C21/record", timeout=2400)
    if res is None:
        return
    ctx.validated -= int(res.get("validated", 0))  # counted when TLC accepts the events, not when they are recorded
    ct.validate(ctx, "TraceResizePlanC21", (res.get("coverage") or {}).get("trace_files") or [], base + ".cases",
                "TestC21", {}, "C21", _match, parallel=2, timeout=1500)

    kind = ["source", "missing", "refused"][ctx.seed % 3]
    cbase = os.path.join(ctx.scratch, "c21corrupt")
    n0, v0, e0, t0 = len(ctx.failures), ctx.validated, ctx.evaluations, ctx.nontrivial
    res = ctx.drive(ct.PKG, "TestC21", env={"VERIF_TRACE_OUT": cbase, "VERIF_CORRUPT": kind, "VERIF_MAXCASES": 150, "VERIF_TIER": "quick"},
                    label="C21/selftest", timeout=600)
    if res is not None:
        ct.validate(ctx, "TraceResizePlanC21", (res.get("coverage") or {}).get("trace_files") or [], cbase + ".cases",
                    "TestC21", {}, "C21/selftest", _match, parallel=1, timeout=600)
        rejected = len(ctx.failures) > n0
        del ctx.failures[n0:]
        ctx.validated, ctx.evaluations, ctx.nontrivial = v0, e0, t0
        if not rejected:
            ctx.inconclusive.append("binding self-test: TLC accepted a trace with a corrupted record (%s)" % kind)
        else:
            ctx.notes.append("binding self-test (%s): corrupted record rejected" % kind)
    ctx.exhaustive = False
