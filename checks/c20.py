"""C20 — every node computes the same replica set for every shard.

spec/Placement.tla is the placement rule as a function of the id SET, the replica count and
two observed hashes (FNV partition, jump hash), with the statement's properties (size,
distinctness, ring-slice shape, helper agreement) model-checked for the rule itself (M).
(G) spec/PlacementHist.tla generates membership HISTORIES (join / leave / "compute owners
now") that TestC20 replays on real cluster objects, recording the owners at every observation
point; they must equal those of a freshly built cluster of the same id set.
Binding B: harness/bind/clusterb TestC20 builds real clusters for every id set (<= 5 quick,
<= 8 thorough) x replicas 0..9, by every join order (<= 4 quick, <= 6 thorough; seeded
samples above), by histories with leaves and re-joins, through addNodeBasicSorted and through
addNode (topology), with every member as the local node, and logs partitionNodes for all 256
partitions plus ShardNodes / ownsShard / containsShards / validateShardOwnership /
shardsByNode over shard lists covering every partition; TLC validates every event against
spec/TracePlacement.tla."""
import os
import sys

sys.path.insert(0, os.path.dirname(os.path.abspath(__file__)))
import _clustertrace as ct  # noqa: E402
import vlib  # noqa: E402

LEVEL = "model_checking"


def _match(ev, case):
    ids = set(case.get("ord", []))
    return {"symptom": "trace_rejected", "event": ev.get("ev", ""), "n": str(len(ids)),
            "r": str(case.get("r")), "via": case.get("via", "")}


def run(ctx):
    thorough = ctx.tier == "thorough"
    ctx.rule = ("case = one real cluster: (history of joins/leaves, replica count, local node, membership path); "
                "events = partitionNodes for all 256 partitions (own) and the ownership helpers over shard lists "
                "covering all partitions (help); every event is validated by TLC against Placement. distinct = "
                "distinct (history, replicas, local node, path); non-trivial = more than one member.")
    ctx.trusted += ["Go string order (sort.Strings) defines 'sorted by id' for the universe line of the trace",
                    "lossless grouping of partitions/shards by the owner list the code returned (clusterb/c20_test.go)"]
    ctx.assumptions += ["gossip-managed membership only (static host lists carry no ids; excluded by the property)",
                        "the empty cluster is not a configuration (a node is always a member of its own cluster)",
                        "FNV partition and jump hash are observed inputs: required to be in range and identical for every "
                        "cluster object, not re-derived"]
    m = ctx.modelcheck("Placement", "C20_mc", timeout=600, workers=2)
    if m.violation:
        raise vlib.Inconclusive("the placement rule of the specification violates its own properties:\n" + m.violation[:2000])

    # (G) membership histories (join / leave / "compute owners now") from PlacementHist
    if thorough:
        h = ctx.generate("PlacementHist", "C20_hist_bfs", mode="bfs", timeout=900)
    else:
        h = ctx.generate("PlacementHist", "C20_hist_sim", mode="simulate", num=90, depth=8, timeout=600)
    base = os.path.join(ctx.scratch, "c20trace")
    res = ctx.drive(ct.PKG, "TestC20", beh=h.behaviours, env={"VERIF_TRACE_OUT": base}, label="C20/record", timeout=1500)
    if res is None:
        return
    ctx.validated -= int(res.get("validated", 0))  # counted when TLC accepts the events, not when they are recorded
    files = (res.get("coverage") or {}).get("trace_files") or []
    ct.validate(ctx, "TracePlacement", files, base + ".cases", "TestC20", {}, "C20", _match,
                parallel=2, timeout=1500)

    # binding self-test: a corrupted record must be rejected
    cbase = os.path.join(ctx.scratch, "c20corrupt")
    n0, v0, e0, t0 = len(ctx.failures), ctx.validated, ctx.evaluations, ctx.nontrivial
    res = ctx.drive(ct.PKG, "TestC20", env={"VERIF_TRACE_OUT": cbase, "VERIF_CORRUPT": ["ring", "owner", "owns", "digest"][ctx.seed % 4],
                                            "VERIF_MAXGROUPS": 120, "VERIF_TIER": "quick"}, label="C20/selftest", timeout=600)
    if res is not None:
        ct.validate(ctx, "TracePlacement", (res.get("coverage") or {}).get("trace_files") or [], cbase + ".cases",
                    "TestC20", {}, "C20/selftest", _match, parallel=1, timeout=600)
        rejected = len(ctx.failures) > n0
        del ctx.failures[n0:]
        ctx.validated, ctx.evaluations, ctx.nontrivial = v0, e0, t0
        if not rejected:
            ctx.inconclusive.append("binding self-test: TLC accepted a trace with a corrupted record")
        else:
            ctx.notes.append("binding self-test: corrupted record rejected")
    ctx.exhaustive = thorough
