"""C31 - configuration sources combine with fixed precedence and round-trip.

spec/Cli.tla (family "c31" = "c31one" + "c31all" + "c31rt") carries the server's option table
(name, flag type) and Resolve = flag > env > file > default.  TLC enumerates (a) every option
x every subset of {file, env, flag} (bool options: every assignment of values to the present
sources), (b) whole configurations in which every option gets a subset at once (eight
patterns; every option meets every subset while its section neighbours sit at others),
(c) render/parse of configurations: every option x {zero, alt, edge} value class alone, and
whole configurations mixing the classes.  harness/bind/clib TestC31 extracts the real option
table from the flag set of `pilosa server` (a difference = spec stale = inconclusive), drives
the real cobra command tree (`pilosa server --dry-run`, `pilosa config`) with a temporary
configuration file, PILOSA_* environment variables and flags, and compares the whole resolved
server.Config (the option under test and every other option) with the specification; renders
configurations with the real ctl.ConfigCommand / ctl.GenerateConfigCommand, checks that every
option is in the output, and reads the output back as the server's configuration file."""

LEVEL = "model_checking"

TYPES = ["string", "int", "uint64", "float64", "bool", "duration", "stringSlice"]


def run(ctx):
    # one TLC run for the three families (family "c31"): 432 + 8 + 131 behaviours + the table
    r = ctx.generate("Cli", "C31", mode="bfs", timeout=600)
    ctx.drive("bind/clib", "TestC31", beh=r.behaviours, label="C31/C31", timeout=1200)
    if ctx.tier == "thorough":  # the same behaviours under two more value refinements
        for j in (1, 2):
            ctx.drive("bind/clib", "TestC31", beh=r.behaviours, env={"VERIF_SEED": int(ctx.seed) + 100 * j},
                      label="C31/C31/values%d" % j, timeout=1200)
    missing = []
    for t in TYPES:
        for s in ("", "file", "env", "flag", "file+env", "file+flag", "env+flag", "file+env+flag"):
            if not ctx.extra_cov.get("resolve:%s:%s" % (t, s)):
                missing.append("resolve:%s:%s" % (t, s))
        for c in ("zero", "alt", "edge"):
            if not ctx.extra_cov.get("render:%s:%s" % (t, c)):
                missing.append("render:%s:%s" % (t, c))
    if missing:
        ctx.inconclusive.append("vacuous run: never reached: %s" % ", ".join(missing[:12]))
    ctx.rule = ("behaviour = (option, subset of {file, env, flag}[, bool values]) | whole configuration pattern | "
                "(option, value class) | whole configuration of value classes; TLC enumerates all of them (BFS) from the "
                "option table in the specification; values are refined per option type from the seed (distinct per source; "
                "lists of different lengths per source; strings with spaces, '=', '#', ',', Unicode; multi-unit and "
                "sub-millisecond durations; edge classes with quotes, backslashes, newlines, negative and 2^62 numbers). "
                "distinct = distinct behaviour; non-trivial = at least one source present / one non-default value.")
    ctx.trusted += ["value refinement and TOML writer of harness/bind/clib", "reflection over server.Config's toml tags to find the field of an option"]
    ctx.assumptions += ["the default of an option is its value in server.NewConfig()",
                        "a configuration file names an option by the toml path generate-config prints for it",
                        "list elements hold no comma and no double quote (flag and environment forms are one comma-separated CSV record)",
                        "options are observed at --dry-run: after resolution, before the server validates or normalises them"]
    ctx.exhaustive = True
