"""C12 - TopN reports true row counts.

spec/TopN.tla: rows[r] (sets of abstract columns, column c standing for 2^(c-1) concrete
columns) of one field with a ranked / LRU / none cache of size 1, 2, 3 or 50000 (set or mutex
field); one write action per path (Set, Clear, ClearRow, Store, bulk import set/clear, roaring
import set/clear, RecalculateCaches, restart) and the queries TopN(ids), TopN(filter row, ids),
TopN(ids, threshold), "RecalculateCaches; TopN(n)" and the same with a filter row, each with
the exact answer computed in TLA+. The cache is not modelled: the answers must be exact
whatever it went through; "Recalculate; TopN(n)" is demanded only while the non-empty rows
have always fitted in the cache (ghost `over`). harness/bind/topnb TestC12 replays every
behaviour on a one-node server through API.Query / API.Import / API.ImportRoaring /
API.RecalculateCaches, columns refined to blocks in several containers of one or two shards,
either asking only the behaviour's queries or additionally TopN(ids = all rows) after every
write."""
import os
import sys

sys.path.insert(0, os.path.join(os.path.dirname(os.path.dirname(os.path.abspath(__file__))), "tools"))
import vlib  # noqa: E402

sys.path.insert(0, os.path.dirname(os.path.abspath(__file__)))
import tncommon  # noqa: E402

LEVEL = "model_checking"

# (cfg, quick: (mode, traces, both variants) | None, thorough: (...))
RUNS = [
    ("C12_sim", ("simulate", 700, 0), ("simulate", 3000, 0)),
    ("C12_evict_d3", ("bfs", None, 0), ("bfs", None, 1)),
    ("C12_mutex_d2", ("bfs", None, 1), ("bfs", None, 1)),
    ("C12_filter_d1", ("bfs", None, 0), ("bfs", None, 1)),
    ("C12_evict_d4", None, ("bfs", None, 0)),
]

WRITES = ["Set", "Clear", "ClearRow", "Store", "ImportSet", "ImportClear", "RoaringSet", "RoaringClear"]
OPS = WRITES + ["Recalc", "Reopen", "TopIds", "TopIdsFilter", "TopIdsThr", "RecalcTopN", "RecalcTopNFilter", "end"]


def run(ctx):
    thorough = ctx.tier == "thorough"
    ctx.rule = ("behaviour = configuration (cache type x size x set/mutex) + stored contents + a history: C12_sim = 12 steps "
                "drawn by seeded TLC simulation, one randomly parameterised instance per action class and step, over all "
                "write paths, Recalculate, restart and the five query classes (4 rows x 3 abstract columns of weight 1,2,4); "
                "C12_evict_d3 = every history of 3 steps over roaring import set/clear of {1},{2,3},{1,2,3} into 2 rows "
                "and Recalculate, cache size 1 (d4: 4 steps, column sets {1},{1,2,3}); C12_mutex_d2 = every pair of steps over "
                "single-row imports and 'Recalculate; TopN' on a mutex field of 3 rows x 2 columns from 3 stored shapes, LRU cache of "
                "size 2, each replayed 8 times (map iteration order); evict runs for ranked and LRU; C12_filter_d1 = "
                "'Recalculate; TopN(f, Row(f=fr), n)' for n in {1,2} on every contents of 3 rows x 3 columns and every filter row "
                "for which the order of the rows by count differs from their order by filtered count, cache size 3 (TLC BFS). Behaviours of one configuration are replayed 8 per "
                "field (emptied in between) under a seeded refinement (row ids, column blocks in 1 or 2 shards, import order, "
                "roaring encoding), asking only the behaviour's queries (sparse) or also TopN(ids = all rows) after every "
                "write (full); one evaluation = one behaviour under one variant, every answer compared.")
    ctx.trusted += ["refinement of abstract columns/rows (harness/bind/topnb/c12_test.go)",
                    "reference official-roaring encoder (harness/bind/roaringb/build.go)"]
    ctx.assumptions += [
        "'rows fit in a freshly recalculated cache' is read as: the non-empty rows of the shard never outnumbered the cache size "
        "(including the stored contents the history starts from); TopN(n) is asked right after RecalculateCaches",
        "on two shards TopN(n) is compared only when n = 0 or n >= the number of non-empty rows (the property speaks of one shard), "
        "and TopN(ids, threshold) is not compared (the threshold applies per shard)",
        "ties between rows of equal count may be resolved either way; order among ids answers is not compared",
        "cache type none: TopN is refused ('field has no cache'); that is accepted, a wrong count would not be",
        "a requested row missing from a TopN(ids) answer counts as a reported count of 0"]
    sel = [(cfg,) + (t if thorough else q) for cfg, q, t in RUNS if (t if thorough else q)]
    # (M) the cache design (spec/TopNCache.tla): the repaired design keeps IdsExact / TopNComplete in
    # the small scope; thorough: also the larger scope, and the design before each repair must
    # still show its counterexample (the model can see the defect classes)
    mc = [("C12_cacheq", "mc", "TopNCache")]
    if thorough:
        mc = [("C12_cache", "mc", "TopNCache"), ("C12_mc", "mc", "TopN")]
        mc += [(c, "mc_expect", "TopNCache") for c in ("C12_cacheold_delta", "C12_cacheold_below", "C12_cacheold_tomb", "C12_cacheold_order")]
    gen = tncommon.generate_all(ctx, [(cfg, mode, num) for cfg, mode, num, both in sel] + mc, "TopN")
    first = True
    for cfg, mode, num, both in sel:
        r = gen[cfg]
        ctx.notes.append("%s: %d behaviours" % (cfg, r.n_behaviours))
        env = {"VERIF_BOTH_VARIANTS": both}
        if cfg == "C12_mutex_d2":
            env["VERIF_REPEAT"] = 8    # the outcome depends on Go's map iteration order
        ctx.drive("bind/topnb", "TestC12", beh=r.behaviours, env=env, label="C12/" + cfg, timeout=3000)
        if first:
            # binding self-test: the last compared answer of one behaviour per field is
            # expected with a count off by one; the planted errors must be reported
            first = False
            before = len(ctx.failures)
            st, _ = tncommon.sample(r.behaviours, 200, ctx.seed + 1)
            res = ctx.drive("bind/topnb", "TestC12", beh=st, env={"VERIF_CORRUPT": 1}, label="C12/selftest", timeout=600)
            planted = ctx.failures[before:]
            del ctx.failures[before:]
            if res is not None and len(planted) < 3:
                ctx.inconclusive.append("binding self-test: corrupted expectations were not detected (%d)" % len(planted))
            ctx.extra_cov["selftest_detected"] = len(planted)
    ctx.exhaustive = False
    if not ctx.failures:
        missing = [op for op in OPS if not ctx.extra_cov.get("c12:op:" + op)]
        missing += ["write_changed_counts:" + op for op in WRITES if not ctx.extra_cov.get("c12:write_changed_counts:" + op)]
        missing += [k for k in ("c12:topn_truncating", "c12:ids_nonempty_answer", "c12:none_refused") if not ctx.extra_cov.get(k)]
        if missing:
            ctx.inconclusive.append("vacuous: never replayed / never effective: " + ", ".join(missing))
