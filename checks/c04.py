"""C04 — encodings round-trip; imports equal decode-then-merge.

spec/RoaringCodec.tla enumerates (source set, target set, format, flags, collection,
clear, rowSize); harness TestC04 encodes with the real encoder / reference encoders,
decodes (twice on the same buffer), imports, and compares set, flags, changed count,
per-row deltas and that input bytes are untouched (DESIGN.md 6/C04)."""

LEVEL = "model_checking"

RUNS = [
    ("C04_roundtrip_2x2", 2, 2), ("C04_decode_2x2", 2, 2), ("C04_import_2x2", 2, 2),
    ("C04_import_1x3", 1, 3), ("C04_decode_1x3", 1, 3), ("C04_roundtrip_3x1", 3, 1), ("C04_import_3x1", 3, 1),
]


def run(ctx):
    thorough = ctx.tier == "thorough"
    ctx.rule = ("behaviour = (source subset, target subset, format in {pilosa (real encoder), pilosa_ref, official, "
                "official with runs}, flags, collection kind, clear, rowSize) and one of RoundTrip/Decode(twice)/Import; "
                "all enumerated by TLC (BFS) in the thorough tier, seeded simulation in the quick tier, each replayed "
                "under gamma profiles incl. full containers, the 4096/2048 thresholds and 2^16 containers. "
                "distinct by (behaviour, profile); non-trivial = non-empty source.")
    ctx.trusted += ["gamma materialisation", "reference encoders for the Pilosa and official roaring formats (bind/roaringb)"]
    ctx.assumptions += ["official format with run containers is generated only for fewer than 4 containers (no offset header in that case)"]
    for cfg, K, M in RUNS:
        mode, num = ("bfs", None) if thorough else ("simulate", 150)
        if "import" in cfg and not thorough:
            num = 25 if cfg == "C04_import_2x2" else 50   # the import family is the largest (x3 target preparations)
        r = ctx.generate("RoaringCodec", cfg, mode=mode, num=num, depth=2, timeout=900)
        ctx.drive("bind/roaringb", "TestC04", beh=r.behaviours, env={"VERIF_K": K, "VERIF_M": M},
                  label="C04/" + cfg, timeout=3000)
    ctx.exhaustive = thorough
