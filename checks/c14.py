"""C14 — integer (BSI) fields store values exactly; range queries and aggregates are exact.

spec/BSI.tla: val[col] over columns spread on 3 shards, bounds (Min,Max); write actions
Set / Import (batches with repeats, last wins) / ImportMap / Clear, query actions
Range(cmp,p) for every p in [Min-3,Max+3] + {-2^62, 2^62}, both between forms, != null,
Sum/Min/Max with and without a filter row; expected results computed in TLA+.
harness/bind/bsib TestC14 executes every behaviour through API.Query / API.ImportValue and
through the Field Go API (Value/Sum/Min/Max/Range) and re-reads the whole projected state
after every write (design/C14.md)."""

LEVEL = "model_checking"

# name: (Min, Max, NCols)
BOUNDS = {"m7p7": (-7, 7, 15), "p0p15": (0, 15, 16), "p3p12": (3, 12, 12), "m12m3": (-12, -3, 12),
          "m1p0": (-1, 0, 6), "p0p0": (0, 0, 6), "wide": (-5, 5, 12)}


def run(ctx):
    thorough = ctx.tier == "thorough"
    ctx.rule = ("behaviour = initial dataset (one column per value / negatives / positives / single value / empty / "
                "ties across shards, loaded by Set ascending, Set descending, one import, one import per column "
                "descending) followed by Depth-1 actions of spec/BSI.tla. q1 runs: every (dataset, query) pair "
                "(BFS) or every query on seeded datasets (quick); w runs: every (dataset, write) pair; sim runs: "
                "seeded histories of 7 writes and queries. Each behaviour is replayed under a seeded refinement "
                "(shards, column offsets, existence tracking, 1 or 3 nodes; wide: value map to magnitudes up to "
                "bit depth 63). distinct = distinct (behaviour, refinement); every replay compares every answer "
                "through PQL and (single node) through the Field Go API.")
    ctx.trusted += ["value/column refinement tables and the concrete Sum over the spec's contributing columns "
                    "(harness/bind/bsib/env.go, c14_test.go)"]
    ctx.assumptions += [
        "values are cleared through API.ImportValue with the clear option (PQL Clear on an int field addresses raw bits, not values)",
        "Field.Range answers nil (no row) for a predicate outside the declared bounds; that is accepted for out-of-bounds predicates only",
        "the extreme value reported by Min/Max over no columns is unspecified (only count = 0 is compared)",
        "sums of wide-profile values are compared modulo 2^64 (int64 arithmetic)",
    ]
    m = ctx.modelcheck("BSI", "C14_mc", timeout=600)
    if m.violation:
        raise_inconclusive(ctx, "oracle sanity invariants of BSI.tla violated:\n" + m.violation[:2000])

    import os
    only = [x for x in os.environ.get("VERIF_ONLY", "").split(",") if x]  # development aid: run a subset

    def gen(cfg, **kw):
        if only and cfg[4:] not in only:
            return None
        return ctx.generate("BSI", cfg, **kw)

    def drive(cfg, b, r, wide=False, every3=7, onewrite=0):
        if r is None:
            return
        mn, mx, nc = BOUNDS[b]
        ctx.drive("bind/bsib", "TestC14", beh=r.behaviours,
                  env={"VERIF_MIN": mn, "VERIF_MAX": mx, "VERIF_NCOLS": nc, "VERIF_WIDE": 1 if wide else 0,
                       "VERIF_EVERY3": every3, "VERIF_ONEWRITE": onewrite},
                  label="C14/" + cfg, timeout=3000)

    exhaustive = thorough
    # every query of the alphabet on a dataset
    q1 = ["m7p7", "p0p15", "p3p12", "m12m3", "m1p0", "p0p0"]
    if not thorough:
        # quick: (-7,7), (0,15) and two seed-chosen of the other four (each TLC start costs 5-15 s)
        q1 = q1[:2] + [q1[2 + ctx.seed % 4], q1[2 + (ctx.seed + 1 + ctx.seed // 4 % 2) % 4]]
    for b in q1:
        cfg = "C14_q1_" + b
        if thorough:
            r = gen(cfg, mode="bfs", timeout=1500)
        else:
            # simulate at depth 2 with Sample = FALSE: TLC emits every successor of the drawn
            # initial state, i.e. the whole query alphabet on `num` seeded datasets
            r = gen(cfg, mode="simulate", num=8, depth=2, timeout=600)
        drive(cfg, b, r)
    r = gen("C14_q1_wide", mode="simulate", num=60 if thorough else 8, depth=2, timeout=900)
    drive("C14_q1_wide", "wide", r, wide=True)
    # every write on a dataset (the driver re-reads the whole state after it)
    for b in (["m1p0", "p0p0"] if thorough else [["m1p0", "p0p0"][ctx.seed % 2]]):
        cfg = "C14_w_" + b
        if thorough:
            r = gen(cfg, mode="bfs", timeout=1500)
        else:
            r = gen(cfg, mode="simulate", num=1, depth=2, timeout=600)
        drive(cfg, b, r, every3=40)
    # histories
    sims = [("m7p7", 60, 400), ("p0p15", 50, 250), ("p3p12", 50, 200), ("m12m3", 50, 200),
            ("m1p0", 50, 200), ("p0p0", 30, 100), ("wide", 90, 800)]
    if not thorough:
        # quick: the wide profile and two seed-chosen others (each TLC start costs 5-10 s)
        k = ctx.seed % 5
        sims = [sims[0] if ctx.seed % 2 == 0 else sims[1 + (k + 2) % 5], sims[1 + k], sims[6]]
    for b, nq, nt in sims:
        cfg = "C14_sim_" + b
        r = gen(cfg, mode="simulate", num=nt if thorough else nq, depth=8, timeout=900)
        drive(cfg, b, r, wide=(b == "wide"), onewrite=1, every3=15)
    ctx.exhaustive = exhaustive
    ctx.notes.append("thorough: exhaustive over (dataset, load path, query) for the six small bounds and over "
                     "(dataset, write) for (-1,0) and (0,0); histories and the "
                     "wide (depth <= 63) profile are sampled")


def raise_inconclusive(ctx, msg):
    import vlib
    raise vlib.Inconclusive(msg)
