"""C23 — data and schema requests are refused while the cluster is not serving.

spec/ApiGate.tla: method table with request classes, gate-constant table, and the matrix of
the property text (Required(class, state)); (M) TLC checks the state machine's invariants.
Binding B (harness/bind/clusterb TestC23), three streams validated by spec/TraceApiGate.tla:
 entry  go/ast walk of api.go: for every exported *API method, the constant passed to the
        first api.validate call, whether its error returns, and what is called before it;
 gate   API.validate(constant) on a real server forced into each of the 4 states;
 call   every exported API method called with benign arguments on a real server in each
        forced state, with a digest of the holder before and after (refused => untouched).
A method or constant unknown to the tables (or known but gone) => SPEC-STALE => exit 2."""
import os
import re
import sys

sys.path.insert(0, os.path.dirname(os.path.abspath(__file__)))
import _clustertrace as ct  # noqa: E402
import vlib  # noqa: E402

LEVEL = "model_checking"


def _match(ev, case):
    return {"symptom": "trace_rejected", "kind": case.get("kind", ""), "method": case.get("method", ""),
            "state": case.get("state", ""), "gate": case.get("gate", "")}


def _stale(ctx, since):
    for _, _, r in ctx.tlc_runs[since:]:
        m = re.search(r'<<"SPEC-STALE", (\{.*?\})>>', r.out_tail or "")
        if m:
            return m.group(1)
    return None


def run(ctx):
    ctx.rule = ("case = (cluster state, exported API method, benign arguments) on a real server with the state forced, "
                "plus (state, apiMethod constant) for the gate itself, plus one source-shape record per exported method; "
                "distinct = distinct case; non-trivial = a call, or an entry that consults a gate.")
    ctx.trusted += ["holder digest (schema, fragments, available shards, rows 0..5, values, attributes) as 'data touched'",
                    "go/ast extraction of the first api.validate call of each method (clusterb/c23_test.go)"]
    ctx.assumptions += ["request classes of the statement: query, import, export, schema change, anti-entropy; info/status/"
                        "translate endpoints, Hosts/Node/Schema/MaxShards and Close are outside them (DESIGN 5.5)",
                        "schema reads (Index, Field, Views, ShardNodes, RecalculateCaches) and RemoveNode are constrained only "
                        "in RESIZING (sentence 3); FragmentData/ResizeAbort/ClusterMessage/SetCoordinator only there (admitted)",
                        "'admitted' = not refused with the method-not-allowed error (the call may fail for another reason)"]
    m = ctx.modelcheck("ApiGate", "C23_mc", timeout=600, workers=2)
    if m.violation:
        raise vlib.Inconclusive("ApiGate violates its own invariants:\n" + m.violation[:2000])

    base = os.path.join(ctx.scratch, "c23trace")
    res = ctx.drive(ct.PKG, "TestC23", env={"VERIF_TRACE_OUT": base}, label="C23/record", timeout=900)
    if res is None:
        return
    ctx.validated -= int(res.get("validated", 0))  # counted when TLC accepts the events, not when they are recorded
    since = len(ctx.tlc_runs)
    ct.validate(ctx, "TraceApiGate", (res.get("coverage") or {}).get("trace_files") or [], base + ".cases",
                "TestC23", {}, "C23", _match, parallel=3, timeout=600)
    st = _stale(ctx, since)
    if st:
        ctx.inconclusive.append("spec stale: api.go and the tables of spec/ApiGate.tla disagree on " + st)

    # binding self-test: a corrupted record must be rejected
    kind = ["call", "gate", "touched"][ctx.seed % 3]
    cbase = os.path.join(ctx.scratch, "c23corrupt")
    n0, v0, e0, t0 = len(ctx.failures), ctx.validated, ctx.evaluations, ctx.nontrivial
    res = ctx.drive(ct.PKG, "TestC23", env={"VERIF_TRACE_OUT": cbase, "VERIF_CORRUPT": kind}, label="C23/selftest", timeout=900)
    if res is not None:
        ct.validate(ctx, "TraceApiGate", (res.get("coverage") or {}).get("trace_files") or [], cbase + ".cases",
                    "TestC23", {}, "C23/selftest", _match, parallel=1, timeout=600)
        rejected = len(ctx.failures) > n0
        del ctx.failures[n0:]
        ctx.validated, ctx.evaluations, ctx.nontrivial = v0, e0, t0
        if not rejected:
            ctx.inconclusive.append("binding self-test: TLC accepted a trace with a corrupted record (%s)" % kind)
        else:
            ctx.notes.append("binding self-test (%s): corrupted record rejected" % kind)
    ctx.exhaustive = True
