"""C30 - exporting a field and importing the export reproduces it.

spec/Cli.tla (Family "c30") generates histories Populate(shard 0), Populate(shard 1),
Populate(shard 2), Clear, ExportImport over an abstract set field (rows x abstract columns
spread over three shards; any shard may stay without a fragment or be emptied again), for
every key mode (unkeyed, row keys, column keys, both), target placement (same / another
index) and import buffer size, and models the two commands' pipeline (shard walk, batches,
first-seen key allocation) so that TLC checks the round-trip property of the design itself
(C30RoundTrip).  harness/bind/clib TestC30 populates the source through API.Import on an
in-process server, runs the real ctl.ExportCommand and ctl.ImportCommand, and compares the
CSV (strict RFC 4180 reader), the target's bits and keys, and the re-export of the target
with the specification."""

import os

LEVEL = "model_checking"

NEED = ["nodes:1", "nodes:3", "replicas:2", "replicas:3", "mode:unkeyed", "mode:rowkeys", "mode:colkeys", "mode:both", "target:same",
        "shape:shard-without-fragment", "shape:emptied-fragment", "shape:partial-last-batch",
        "shape:full-last-batch", "shape:empty-field", "rowkey:comma", "rowkey:quote", "rowkey:newline",
        "rowkey:unicode", "rowkey:space", "colkey:comma", "colkey:quote", "colkey:unicode"]


def run(ctx):
    thorough = ctx.tier == "thorough"
    # exhaustive in the small: every content of 2 rows x 3 shards (all shard-sparsity patterns)
    bfs_cfg = "C30_full" if thorough else "C30_q"
    r = ctx.generate("Cli", bfs_cfg, mode="bfs", timeout=600)
    ctx.drive("bind/clib", "TestC30", beh=r.behaviours, env={"VERIF_SLOTS": 1}, label="C30/" + bfs_cfg, timeout=2400)
    # seeded sample of the large family: 3 rows x 2 columns per shard, clears, all buffers
    s = ctx.generate("Cli", "C30_sim", mode="simulate", num=4000 if thorough else 230, depth=6, timeout=600)
    # the sample is split: most of it on one node, the rest on 3-node clusters with 2 and with 3
    # replicas (the export has to fetch every shard from an owner, the import to deliver every
    # shard to ALL its owners, keyed imports go through the coordinator); after the import
    # command every owner's own fragment must hold the bits, and the owners' exports must agree
    lines = open(s.behaviours).read().splitlines(True)
    ncl = 800 if thorough else 60
    cut = max(1, len(lines) - ncl)
    mid = cut + (len(lines) - cut) * 3 // 5
    parts = [("1", lines[:cut], {"VERIF_SLOTS": 2}),
             ("3nodes-r2", lines[cut:mid], {"VERIF_SLOTS": 2, "VERIF_NODES": 3, "VERIF_REPLICAS": 2}),
             ("3nodes-r3", lines[mid:], {"VERIF_SLOTS": 2, "VERIF_NODES": 3, "VERIF_REPLICAS": 3})]
    for name, part, env in parts:
        path = os.path.join(ctx.scratch, "C30_sim_%s.ndjson" % name)
        open(path, "w").writelines(part)
        ctx.drive("bind/clib", "TestC30", beh=path, env=env, label="C30/C30_sim/" + name, timeout=2400)
    missing = [k for k in NEED if not ctx.extra_cov.get(k)]
    if missing:
        ctx.inconclusive.append("vacuous run: shapes never reached: %s" % ", ".join(missing))
    ctx.rule = ("behaviour = (key mode, target index, import buffer size, bits written per shard, bits cleared again) "
                "ending in one ExportImport; TLC enumerates all of them over 2 rows x 3 shards (BFS) and samples "
                "3 rows x 6 columns with clears (seeded simulation); each is refined by a seeded profile (row/column ids "
                "at shard and container edges over sparse shard maps, blocks of 1-3 concrete rows/columns per abstract one, "
                "key strings with commas, quotes, newlines, CR, spaces, Unicode, backslashes, '#', empty-looking and "
                "numeric-looking keys) and by command variants (file/stdout, file/stdin, --sort, --create-schema). "
                "distinct = distinct behaviour; non-trivial = the field holds a bit.")
    ctx.trusted += ["strict RFC 4180 reader and key generator of harness/bind/clib", "reads through Rows(), Field.Row, Row() and the translate store",
                    "github.com/pilosa/pilosa/test in-process server"]
    ctx.assumptions += ["the empty string is not a key (PQL and the wire format treat it as 'no key')",
                        "column-keyed sources use one shared index whose keys were placed in three shards by a pre-written translate log (a fresh index keeps all keyed columns in shard 0)",
                        "set fields (the property's scope); one node, and 3-node clusters with 2 and 3 replicas for part of the sample"]
    ctx.exhaustive = False
