"""X03 (extra check, not in MANIFEST) - attribute anti-entropy and cluster-wide attribute writes.

spec/AttrSync.tla: per node the column-attribute store of an index and the row-attribute stores
of two fields (ids 0, 99, 100, 101, 250 around the block boundaries, keys a/b, one value tag per
type incl. false), node-local writes (divergence), SetRowAttrs / SetColumnAttrs queries sent to
any node (every node applies them), and the anti-entropy pass of holderSyncer (syncIndex /
syncField) decomposed as the code does: CompareBlocks (own checksums), FetchDiff (the remote
answers with all records of its blocks that differ: attrBlocks.Diff + BlockData through
API.IndexAttrDiff / FieldAttrDiff and the http client), Merge (SetBulkAttrs: key-wise overlay,
the remote value wins, nothing is deleted), per store and per remote node in cluster order.
(M) TLC checks on all divergent contents of 2 and 3 nodes: KeysConverge (after one completed
pass per node all nodes hold the same (id, key) sets - the union; deleted keys come back),
Converges (equal values too when no key was held with two different values, or with two nodes),
ChecksumsAgree, UntouchedOutsideDiff, PassIsUnionMerge (stepwise pass = RunPass), QuerySetEverywhere,
QueryKeepsAgreement; two counterexample configs document what the rule does NOT give (conflicting
values on 3 nodes never settle for certain: XA_mc3_conflict; a cluster-wide set or another pass
overlapping a pass in progress: XA_mc_overlap).
(G)+binding A (harness/bind/attrsyncb TestAttrSync): TLC-generated histories (writes, then passes
in any order with cluster-wide sets and a late write in between) replayed on real in-process
clusters of 2 and 3 nodes; after every step every store of every node is read back and compared,
after every pass and at the end block checksums of every pair of nodes and, at the end, the
answers of the attr-diff endpoints through the http client."""
import os
import sys

sys.path.insert(0, os.path.dirname(os.path.abspath(__file__)))
import vlib  # noqa: E402

LEVEL = "model_checking"
PKG = "bind/attrsyncb"

MC_OK = ["XA_mc2q", "XA_mc2k", "XA_mc3"]   # + XA_mc2 (two keys, 79 k states) in the thorough tier
MC_CEX = [("XA_mc3_conflict", "Converges"), ("XA_mc_overlap", "")]


def run(ctx):
    thorough = ctx.tier == "thorough"
    ctx.rule = ("case = one TLC-generated history (NWrites node-local attribute writes into the column / row attribute "
                "stores of 2 or 3 nodes, then anti-entropy passes in any order - the node with the fewest passes first - "
                "interleaved with SetRowAttrs / SetColumnAttrs queries sent to any node and one late node-local write; BFS "
                "for a reduced alphabet, seeded simulation for ids {0,99,100,101,250} x keys {a,b} x "
                "{int,int',string,true,false,float,null}) replayed on a real cluster under a seeded value profile "
                "(plain, zero values, look-alikes, integers beyond 2^53) and variant (cached reads, writes through "
                "remote-marked queries, single/bulk SetRowAttrs path); distinct = distinct (history, profile, variant); "
                "non-trivial = a pass changed a store or a cluster-wide set ran.")
    ctx.trusted += ["test.MustNewCluster in-process clusters (anti-entropy timer off)",
                    "value refinement and PQL rendering of attribute values (bind/attrsyncb)"]
    ctx.assumptions += ["passes do not overlap each other or writes (TLC shows what overlapping costs: XA_mc_overlap)",
                        "with three or more nodes holding different values of one key, equal values are not demanded (only equal key sets and values drawn from the held ones): the rule has no order on values",
                        "an id whose keys were all deleted may or may not contribute to checksums (relation 'free')",
                        "64-bit checksum collisions are ignored"]
    only = os.environ.get("VERIF_X03_ONLY", "")  # development: "drive" skips the (M) runs
    if not only:
        for cfg in MC_OK + (["XA_mc2"] if thorough else []):
            m = ctx.modelcheck("AttrSync", cfg, timeout=600, workers=4)
            if m.violation:
                raise vlib.Inconclusive("the merge rule as modelled violates a property in %s:\n%s" % (cfg, m.violation[:2500]))
        for cfg, inv in MC_CEX:
            m = ctx.modelcheck("AttrSync", cfg, timeout=600, workers=4)
            if not m.violation or (inv and inv not in m.violation):
                ctx.inconclusive.append("%s no longer produces its counterexample (%s): the documented limits of the rule are not reached" % (cfg, inv or "any"))
            else:
                ctx.notes.append("%s: counterexample as documented (design limit, not a verdict)" % cfg)
    env = {"VERIF_WORKERS": 4}
    r = ctx.generate("AttrSync", "XA_bfs2", mode="bfs", timeout=600, workers=4)
    ctx.drive(PKG, "TestAttrSync", beh=r.behaviours, env=dict(env, VERIF_NPROFILES=(4 if thorough else 1)),
              label="X03/bfs2", timeout=1500)
    if thorough:
        r = ctx.generate("AttrSync", "XA_bfs3", mode="bfs", timeout=900, workers=4)
        ctx.drive(PKG, "TestAttrSync", beh=r.behaviours, env=dict(env, VERIF_NPROFILES=1), label="X03/bfs3", timeout=2400)
    for cfg, num in (("XA_sim2", 2500 if thorough else 200), ("XA_sim3", 3500 if thorough else 250)):
        r = ctx.generate("AttrSync", cfg, mode="simulate", num=num, depth=16, timeout=600)
        ctx.drive(PKG, "TestAttrSync", beh=r.behaviours, env=dict(env, VERIF_NPROFILES=(2 if thorough else 1)),
                  label="X03/" + cfg, timeout=2400)
        if cfg == "XA_sim3":
            # binding self-test: one falsified expectation per case must be reported
            n0, v0, e0, t0 = len(ctx.failures), ctx.validated, ctx.evaluations, ctx.nontrivial
            res = ctx.drive(PKG, "TestAttrSync", beh=r.behaviours, env=dict(env, VERIF_SELFTEST=1, VERIF_MAXCASES=24),
                            label="X03/selftest", timeout=900)
            del ctx.failures[n0:]
            ctx.validated, ctx.evaluations, ctx.nontrivial = v0, e0, t0
            cov = (res or {}).get("coverage") or {}
            det, missed = cov.get("selftest_detected", 0), cov.get("selftest_missed", 0)
            ctx.notes.append("binding self-test: %d of %d falsified expectations reported" % (det, det + missed))
            if det == 0 or missed > det // 3:
                ctx.inconclusive.append("binding self-test: only %d of %d falsified expectations reported" % (det, det + missed))
    for k in ("pass_changed", "queryset_col", "queryset_bulk_path", "queryset_single_path", "rel_eq", "rel_ne", "diff_record",
              "final_all_synced_agree_true", "write_store", "write_remote_query"):
        if not ctx.extra_cov.get(k):
            ctx.inconclusive.append("vacuous run: coverage key %s never reached" % k)
    ctx.exhaustive = False
