"""Shared by c20.py / c21.py / c23.py: validation of recorded trace chunks by TLC
(binding B) and conversion of a rejection into a failure that check can confirm by
replaying the offending case (the drivers of harness/bind/clusterb re-execute one case,
record its events and run TLC themselves when VERIF_REPLAY is set)."""
import concurrent.futures
import json
import os
import re

import vlib

PKG = "bind/clusterb"


def _verdict(r):
    m = re.search(r'TRACE-REJECTED (\d+)', r.out_tail or "")
    if m:
        return False, int(m.group(1))
    if "TRACE-ACCEPTED" in (r.out_tail or ""):
        return True, -1
    return None, -1


def validate(ctx, module, files, cases_path, test, env, label, match, parallel=3, timeout=900, extra_files=None):
    """files: trace chunk paths. match(event dict, case dict) -> Failure.Match dict.
    Returns the number of accepted events."""
    files = [f for f in files if os.path.exists(f) and os.path.getsize(f) > 0]
    if not files:
        ctx.inconclusive.append("%s: no trace recorded" % label)
        return 0
    cases = None

    def one(path):
        fl = {"trace.ndjson": path}
        fl.update(extra_files or {})
        return path, vlib.tlc(module, module, ctx.scratch, files=fl, workers=1, timeout=timeout)

    accepted = 0
    with concurrent.futures.ThreadPoolExecutor(max_workers=parallel) as ex:
        futs = [ex.submit(one, f) for f in files]
        results = []
        for fu in futs:
            try:
                results.append(fu.result())
            except vlib.Inconclusive as e:
                ctx.inconclusive.append("%s: %s" % (label, str(e)[:1500]))
    for path, r in results:
        ctx.tlc_runs.append((module, "%s/%s" % (label, os.path.basename(path)), r))
        ok, prefix = _verdict(r)
        nev = sum(1 for _ in open(path))
        vlib.log("trace %s %s: %d events, %s: %s, %.1fs" % (
            label, os.path.basename(path), nev, module,
            "accepted" if ok else ("REJECTED at %d" % prefix if ok is False else "no verdict"), r.wall_s))
        if ok is None or (r.violation and ok is not False):
            ctx.inconclusive.append("%s: TLC gave no verdict on %s\n%s" % (
                label, os.path.basename(path), (r.violation or r.out_tail)[-1500:]))
            continue
        if ok:
            accepted += nev
            ctx.validated += nev
            continue
        lines = open(path).read().splitlines()
        line = lines[min(prefix, len(lines) - 1)]
        ev = json.loads(line)
        if cases is None:
            cases = open(cases_path).read().splitlines()
        if "c" not in ev or ev["c"] >= len(cases):
            ctx.inconclusive.append("%s: %s rejected the trace at a header/unknown event %d: %s" % (
                label, module, prefix, line[:600]))
            continue
        case = json.loads(cases[ev["c"]])
        ctx.failures.append({
            "match": match(ev, case),
            "detail": "%s: recorded event %d of %s rejected by %s: %s" % (
                label, prefix, os.path.basename(path), module, line[:1500]),
            "replay": case, "_pkg": PKG, "_test": test,
            "_env": {k: str(v) for k, v in (env or {}).items()}, "_race": False})
    return accepted
