"""C26 — PQL text is parsed faithfully and forwarded queries keep their meaning.

spec/Pql.tla generates query ASTs as derivations (open / kw / close steps) with the value
the parser must deliver for every written value; harness/bind/wireb prints each
derivation with its own printer under several whitespace/quoting styles and string /
integer profiles, parses the text with pql.ParseString and compares the calls (values
and Go types) — TestC26Parse. Mode "fwd" of the same spec generates calls holding the Go
values the executor places in forwarded calls; parse(Call.String()) must be the same
call — TestC26Forward. TestC26Cluster runs a fixed program of keyed and unkeyed queries on
real 2-node clusters and compares the text remoteExec sends (verif hook at the send
site) with the call object the sender holds, and forwarded attributes on both nodes."""

LEVEL = "model_checking"


def run(ctx):
    thorough = ctx.tier == "thorough"
    ctx.rule = ("behaviour = derivation of a query (calls by grammar alternative, positional and keyword "
                "arguments, nested calls, written value of every kind) emitted by TLC from spec/Pql.tla with the "
                "expected parsed value of each argument; each is replayed under whitespace/quote styles x string "
                "profiles (ascii, escapes, BMP, astral, empty, mixed) x integer profiles (identity, int64 edges). "
                "distinct = distinct query text; non-trivial = at least one argument. Forwarding: derivations of "
                "calls holding executor-placed Go values; cluster: fixed program of 60+14 queries x string profiles.")
    ctx.trusted += ["the harness's own PQL printer and AST matcher (bind/wireb/pqlprint.go, pqlmatch.go)",
                    "verif hook pilosa.VerifForward at the remoteExec send site"]
    ctx.assumptions += [
        "forwarded values are compared up to PQL's type system: int64/uint64 of one value and "
        "[]int64/[]uint64/[]string/[]interface{} of the same elements are one value (the grammar has one integer "
        "and one list type; the receiving executor's accessors accept both); float, bool, nil, string, condition "
        "and call keep their type",
        "escapes inside single-quoted strings may come back raw (DESIGN 5.5); double-quoted strings unquote exactly",
        "not generated: empty lists (not in the grammar), integers outside int64, NaN/Inf, invalid escapes in "
        "double-quoted strings, duplicate arguments",
    ]
    exhaustive = True

    def parse_run(cfg, label, mode="bfs", num=None, depth=None, timeout=900, env=None):
        r = ctx.generate("Pql", cfg, mode=mode, num=num, depth=depth, timeout=timeout)
        ctx.drive("bind/wireb", "TestC26Parse", beh=r.behaviours, env=env, label="C26/parse/" + label, timeout=1500)

    def fwd_run(cfg, label, mode="bfs", num=None, depth=None, timeout=900):
        r = ctx.generate("Pql", cfg, mode=mode, num=num, depth=depth, timeout=timeout)
        ctx.drive("bind/wireb", "TestC26Forward", beh=r.behaviours, label="C26/fwd/" + label, timeout=1500)

    # every single-argument call of every form over the full value universe
    parse_run("C26_d1_full", "d1_full")
    # (the same run holds Pairs(k1=v1, k2=v2): every ordered pair of 17 value kinds)
    if thorough:
        # nesting: every call / one or two children / argument-call shape over the tiny universe
        # (76 k behaviours: replayed under the reduced variant set)
        parse_run("C26_d2_tiny2", "d2_tiny2", env={"VERIF_FEW_VARIANTS": 1})
    # deeper / wider queries: nest 3, three calls, three arguments (seeded sample); in the quick tier this
    # is also what covers nesting
    parse_run("C26_sim_mid", "sim_mid", mode="simulate", num=150 if thorough else 40, depth=16)
    exhaustive = False

    fwd_run("C26_fwd_full", "d1_full")
    if thorough:
        fwd_run("C26_fwd_sim", "sim", mode="simulate", num=60, depth=14)

    ctx.drive("bind/wireb", "TestC26Cluster", label="C26/cluster", timeout=900)
    ctx.exhaustive = exhaustive
