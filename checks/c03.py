"""C03 — derived bitmaps are isolated values.

spec/RoaringDerive.tla: a source (any provenance, incl. mapped over a byte buffer), a
second operand, up to two derived values (Clone, Freeze, Union, n-ary Union, Intersect,
Difference, Xor, OffsetRange; chains), then mutations of any side, Remap of the source
(snapshot) and Drop (close); TLC checks the frame property DerivedStable on the model and
emits the histories; harness TestC03 compares ALL live values after every step on real
bitmaps, scribbling the old buffer after Remap/Drop (DESIGN.md 6/C03). The fragment-level
part (rows handed out by a fragment, then snapshot/close) is in checks/c03 via
bind/fragb when available."""

LEVEL = "model_checking"


def run(ctx):
    thorough = ctx.tier == "thorough"
    ctx.rule = ("behaviour = (initial src, oth subsets; provenance of src) then a history over {Derive(slot, kind, from), "
                "Add/Remove/AddN/RemoveN/ImportSet/ImportClear/Optimize/UnionInPlace on any live value, Remap, Drop}; "
                "only behaviours with at least one derivation are replayed; all live values compared after every step. "
                "distinct by (history, initial sets, provenance, profile).")
    ctx.trusted += ["gamma materialisation", "reference Pilosa encoder for import payloads",
                    "overwriting a Go byte buffer models unmapping/reuse of the file mapping"]
    runs = [
        ("C03_d3", 2, 1, "bfs", None, None),
        ("C03_sim", 2, 2, "simulate", 40 if not thorough else 300, 7),
        ("C03_sim3", 3, 1, "simulate", 40 if not thorough else 300, 8),
    ]
    for cfg, K, M, mode, num, depth in runs:
        r = ctx.generate("RoaringDerive", cfg, mode=mode, num=num, depth=depth, timeout=1200)
        ctx.drive("bind/roaringb", "TestC03", beh=r.behaviours, env={"VERIF_K": K, "VERIF_M": M},
                  label="C03/" + cfg, timeout=3000)
    # fragment level: rows handed out by a real fragment (file + mmap + row cache), derived
    # from them or stored from them, under later writes, snapshot, reopen and close
    fruns = [
        # (each case opens a real fragment file: BFS of C03F_d3 = 4 x 10^5 behaviours is too slow;
        # the model-checked property Isolated covers the whole depth-3 space on the model)
        ("C03F_d3", 2, "simulate", 60 if not thorough else 500, 4),
        ("C03F_sim", 3, "simulate", 40 if not thorough else 300, 9),
    ]
    for cfg, ncols, mode, num, depth in fruns:
        r = ctx.generate("FragIso", cfg, mode=mode, num=num, depth=depth, timeout=1200)
        ctx.drive("bind/isob", "TestC03Frag", beh=r.behaviours, env={"VERIF_NCOLS": ncols},
                  label="C03/" + cfg, timeout=3000)
    if thorough:
        # (M) the frame property Isolated on the whole depth-3 space of the fragment-level model
        m = ctx.modelcheck("FragIso", "C03F_mc", timeout=900)
        if m.violation:
            ctx.inconclusive.append("TLC found a counterexample to Isolated on FragIso itself (spec bug):\n" + m.violation[:1500])
    ctx.exhaustive = False
    ctx.notes.append("exhaustive over all (init, derive, one perturbation) on 2 containers x 1 slot; deeper histories sampled")
