"""C17 — distributed results do not depend on placement or completion order.

spec/MapReduce.tla: partial results per shard, a grouping of the shards onto 1..3 nodes, a
coordinator, and the arrival of shard results at their node's reduce loop (LocalArrive), of
the node's completion (NodeDone) and of node responses at the coordinator (RemoteArrive);
reducers AddVC / SmallerVC / LargerVC (ties add counts) / PairsAdd / RowIDsMerge(limit) /
GroupMerge(limit) / + / RowMerge / Or.

 (M) TLC checks OrderIndependent for every partial result of a small domain, every grouping
     and coordinator and every arrival order (3 shards: every interleaving; 4 shards: every
     per-node order and response order), TieCountsAdd and, in the laws configuration,
     commutativity / associativity / identity of every reducer.
 (A, laws)   the real ValCount.add/smaller/larger, Pairs.Add, RowIDs.merge,
     mergeGroupCounts, Row.Merge are (1) applied to every TLC-generated (a, b, c) of the law
     configuration and (2) folded along TLC-generated (grouping, arrival order)s; every
     intermediate accumulator must equal the specification's.
 (A, system) TLC generates (dataset, cluster size, grouping, coordinator, arrival order); the
     harness realises the grouping on in-process clusters of 1..3 nodes (a table Hasher; all
     replica counts), forces the arrival orders through the executor's worker / mapper gates
     and runs Sum, Min, Max, TopN, TopN(n), Rows(limit), GroupBy(limit), Count, Row and
     ClearRow on the chosen coordinator; every answer must equal the specification's, which is
     computed from the dataset, not by reducing.
"""
import vlib

LEVEL = "model_checking"
PKG = "bind/mrtimeb"


def run(ctx):
    thorough = ctx.tier == "thorough"
    ctx.rule = ("laws: behaviour = (reducer, limit, a, b, c) [BFS, all] or (reducer, limit, partial result per shard, "
                "cluster size, shard->node, coordinator, arrival order) [seeded simulation]; system: behaviour = (dataset "
                "from the catalogue [3 shards: BFS in the thorough tier] or free [simulation], cluster size, shard->node, "
                "coordinator, per-node arrival orders, response order) x replica count; distinct = distinct behaviour.")
    ctx.trusted += ["table Hasher + in-process clusters (test.MustNewCluster) realise the placement (verified per case "
                    "through API.ShardNodes on every node)",
                    "gate hooks in executor.worker / executor.mapper order the arrivals (k-th passage waits for the k-th "
                    "passage of its predecessors, then a short sleep lets the predecessor's channel send land)"]
    ctx.assumptions += ["TopN order among equal counts is free; TopN(t, n) over the count matrix: true totals, descending, and "
                        "no row that is among the n best of some shard under every tie order is omitted for a worse one "
                        "(TopNOK; pass 1 asks each shard for its n best only, so the global top n is not demanded)",
                        "Count and ClearRow/Store reducers (uint64 +, ||) are inline closures: bound by the system test only",
                        "node failure / retry on secondary nodes is not exercised"]

    # all TLC runs start together (each is its own process); the drivers follow in order
    import os
    from concurrent.futures import ThreadPoolExecutor
    pool = ThreadPoolExecutor(max_workers=4 if thorough else 6)
    mcs = [("C17_mc3q", 600)] if not thorough else [("C17_mc3", 1500), ("C17_mc4", 1500)]
    fm = [pool.submit(ctx.modelcheck, "MapReduce", cfg, timeout=to, workers=3) for cfg, to in mcs]
    laws_cfg = "C17_laws" if thorough else "C17_laws_q"
    fl = pool.submit(ctx.generate, "MapReduce", laws_cfg, mode="bfs", timeout=900, workers=3)
    folds = [("C17_parts3", 6000 if thorough else 1500)]
    if thorough:
        folds.append(("C17_parts4", 4000))
    ff = [(cfg, pool.submit(ctx.generate, "MapReduce", cfg, mode="simulate", num=num, depth=70, timeout=1200))
          for cfg, num in folds]
    if thorough:
        runs = [("C17_cat3b", dict(mode="bfs", timeout=900, workers=3)),   # every placement and order, limit 3
                ("C17_cat3", dict(mode="simulate", num=100, depth=70, timeout=900)),  # both limits
                ("C17_free3", dict(mode="simulate", num=200, depth=70, timeout=900)),
                ("C17_cat4", dict(mode="simulate", num=200, depth=70, timeout=900)),
                ("C17_free4", dict(mode="simulate", num=150, depth=70, timeout=900))]
    else:
        runs = [("C17_cat3", dict(mode="simulate", num=120, depth=70, timeout=600)),
                ("C17_free3", dict(mode="simulate", num=50, depth=70, timeout=600)),
                ("C17_cat4", dict(mode="simulate", num=30, depth=70, timeout=600))]
    fs = [(cfg, pool.submit(ctx.generate, "MapReduce", cfg, **kw)) for cfg, kw in runs]

    # (A, laws) - the BFS run of the laws configuration also checks LawsHold / TieCountsAdd
    lenv = {"VERIF_G": 1, "VERIF_COLSPER": 1}
    ctx.drive(PKG, "TestC17Laws", beh=fl.result().behaviours, env=lenv, label="C17/laws")
    for cfg, f in ff:
        ctx.drive(PKG, "TestC17Laws", beh=f.result().behaviours, env=lenv, label="C17/" + cfg)

    # (A, system): one driver process (one set of clusters) for all the behaviour files
    allb = os.path.join(ctx.scratch, "c17-system.ndjson")
    with open(allb, "w") as out:
        for cfg, f in fs:
            out.write(open(f.result().behaviours).read())
    ctx.drive(PKG, "TestC17System", beh=allb, env={"VERIF_G": 2, "VERIF_COLSPER": 2, "VERIF_R": 3},
              label="C17/system", timeout=3000)

    # (M) the design
    for f in fm:
        m = f.result()
        if m.violation:
            raise vlib.Inconclusive("MapReduce violates its own properties:\n%s" % m.violation[:2500])
    ctx.exhaustive = False
