"""C16 - Rows, GroupBy, MinRow and MaxRow return exact, consistently paged results.

spec/Query.tla (Mode "c16") generates behaviours over set fields f, g and a time field t
(5 abstract columns refined over up to 3 shards, 4 rows): writes (Set, Clear, ClearRow,
bulk import, timestamped Set) interleaved with Rows (previous, limit, column, from/to),
GroupBy (1-3 child Rows, child limit/column, filter, limit, offset, previous), MinRow /
MaxRow (optional filter), and paging loops that run to exhaustion (Rows by previous,
GroupBy by previous and by offset). The specification computes every answer (ordered row
lists, ordered group lists with counts, min/max row) and, for loops, the unpaged result.
harness/bind/queryb TestC16 renders every call to PQL, runs it through API.Query on 1- and
3-node clusters and compares; at the end of a loop the concatenation of the real pages is
compared with the unpaged result (PagesConcatenate), and the final state is projected."""
import os
import sys

sys.path.insert(0, os.path.dirname(os.path.abspath(__file__)))
import qcommon  # noqa: E402

LEVEL = "model_checking"


def run(ctx):
    thorough = ctx.tier == "thorough"
    # C16_g3: GroupBy over three plain child Rows (deep iterator paths: wrap-around of the
    # middle field, previous rows absent from a shard) over sparse rows, paged by previous/offset
    jobs = [("C16_sim", "simulate", 3000 if thorough else 450, 8 if thorough else 5),
            ("C16_g3", "simulate", 1200 if thorough else 200, 4 if thorough else 3)]
    res = qcommon.generate_parallel(ctx, jobs)
    for cfg, _, _, _ in jobs:
        beh = qcommon.merge(ctx, res[cfg], cfg)
        env = qcommon.cfg_env(cfg)
        env["VERIF_EVERY3"] = 4
        ctx.drive("bind/queryb", "TestC16", beh=beh, env=env, label="C16/" + cfg, timeout=2400)
    if thorough:
        m = ctx.modelcheck("Query", "C16_mc", timeout=2400)
        if m.violation:
            ctx.inconclusive.append("the specification's own paging invariants (PagesConcatenate/PagesAreSlices) failed: " + m.violation[:1500])
    ctx.rule = ("behaviour = 21 steps chosen by TLC (seeded simulation) from writes, Rows / GroupBy / MinRow / MaxRow calls "
                "over every argument combination, and paging loops run to exhaustion; every call is one evaluation against "
                "the specification's exact ordered answer; distinct = distinct behaviour x refinement profile")
    ctx.trusted += ["PQL rendering and refinement tables (harness/bind/queryb)", "github.com/pilosa/pilosa/test cluster helpers"]
    ctx.assumptions += ["paging GroupBy by 'previous' is generated for plain child Rows calls only (a child limit/column combined with the child's previous is undocumented)",
                        "MinRow/MaxRow: the row id and a positive/zero count are compared, not the count's value (unfiltered calls report 1 by design)",
                        "time-range ends are aligned to the quantum's finest unit"]
    ctx.exhaustive = False
