"""C28 - all write paths for the same bits / values yield the same answers.

spec/Query.tla (Mode "c28") generates behaviours over a set field s, a mutex field m, a
bool field b, a time field t and an int field v: abstract batch writes (rectangular bit
batches set/clear, ordered mutex/bool batches with repeated columns, timestamped bits,
ordered value batches with repeated columns), each with a path assignment chosen by TLC,
interleaved with the query alphabet (Row, Count, Rows with/without column, TopN, time-range
Row and Rows, integer conditions, Sum/Min/Max) whose answers the specification computes.
harness/bind/queryb TestC28 replays every behaviour once per write-path policy (Set/Clear
queries; bulk import by ids, small and padded past the op-log threshold; roaring import in
Pilosa and in official encoding into every view; the specification's per-write mixture;
row keys; column keys) into identical fields of a fresh index and compares every answer -
and the projected final state - with the specification's, hence with each other."""
import os
import sys

sys.path.insert(0, os.path.dirname(os.path.abspath(__file__)))
import qcommon  # noqa: E402

LEVEL = "model_checking"


def run(ctx):
    thorough = ctx.tier == "thorough"
    jobs = [("C28_sim", "simulate", 800 if thorough else 200, 8 if thorough else 4)]
    res = qcommon.generate_parallel(ctx, jobs)
    beh = qcommon.merge(ctx, res["C28_sim"], "C28_sim")
    env = qcommon.cfg_env("C28_sim")
    env["VERIF_EVERY3"] = 5
    ctx.drive("bind/queryb", "TestC28", beh=beh, env=env, label="C28/C28_sim", timeout=2400)
    ctx.rule = ("behaviour = 17 steps chosen by TLC (seeded simulation) from batch writes to five field types and queries; "
                "each behaviour is replayed under 4 (quick) or 8 (thorough) write-path policies; one evaluation = one "
                "behaviour under one policy with every query answer and the final state compared")
    ctx.trusted += ["PQL / import request rendering (harness/bind/queryb/c28_test.go)",
                    "reference official-roaring encoder (harness/bind/roaringb/build.go)",
                    "view names of a timestamp per quantum (c28.timeViews)"]
    ctx.assumptions += ["TopN is compared after RecalculateCaches, on ranked caches of set and mutex fields, ties in any order",
                        "Min/Max: value compared, count only for presence (tie counts are C14/C17)",
                        "roaring import does not maintain the existence field (documented); Not() is not part of the C28 alphabet",
                        "bulk import cannot clear time views (documented: no timestamps with clear); time-field clears go through Clear queries or roaring clears of every written view",
                        "keyed variants send every request to the coordinator (replica translation is C24)",
                        "Rows() on a bool field is rejected by key translation and not compared"]
    ctx.exhaustive = False
