"""Shared helpers of the query-layer checks (C15, C16, C28): parallel seeded TLC generation
from spec/Query.tla and the environment a cfg implies for the queryb drivers."""
import os
import re
import sys
import threading

sys.path.insert(0, os.path.join(os.path.dirname(os.path.dirname(os.path.abspath(__file__))), "tools"))
import vlib  # noqa: E402


def cfg_env(cfg):
    """The dimension constants of a cfg, as the VERIF_* variables the drivers read."""
    txt = open(os.path.join(vlib.SPEC, cfg + ".cfg")).read()

    def const(name, default):
        m = re.search(r"^\s*%s\s*=\s*(\S+)\s*$" % name, txt, re.M)
        return m.group(1) if m else default
    tf = {"TRUE": 1, "FALSE": 0}
    return {
        "VERIF_NCOLS": const("NCols", "6"), "VERIF_NROWS": const("NRows", "3"), "VERIF_NT": const("NT", "3"),
        "VERIF_VABS": const("VAbs", "2"), "VERIF_EDGE": const("Edge", "3"),
        "VERIF_WINDOW": tf[const("Window", "FALSE")], "VERIF_EXIST": tf[const("Exist", "TRUE")],
    }


def generate_parallel(ctx, jobs):
    """jobs: list of (cfg, mode, num, nproc). Runs all TLC processes concurrently; a simulate
    job is split over nproc processes with seeds derived from VERIF_SEED. Returns
    {cfg: [ndjson paths]}. Raises Inconclusive on a TLC error or an empty output."""
    results = {}
    errors = []
    lock = threading.Lock()

    def one(cfg, mode, num, k, nproc):
        out = os.path.join(ctx.scratch, "%s.%d.ndjson" % (cfg, k))
        try:
            r = vlib.tlc("Query", cfg, ctx.scratch, mode=mode, num=num, depth=200,
                         seed=int(ctx.seed) * 101 + k * 7 + 1, timeout=900, out=out,
                         workers=(1 if mode == "simulate" else 4))
        except vlib.Inconclusive as e:
            with lock:
                errors.append(str(e))
            return
        with lock:
            ctx.tlc_runs.append(("Query", cfg, r))
            if r.violation:
                errors.append("TLC error in %s: %s" % (cfg, r.violation[:2000]))
            elif r.n_behaviours == 0:
                errors.append("TLC produced no behaviours for %s\n%s" % (cfg, r.out_tail))
            else:
                results.setdefault(cfg, []).append(out)
        vlib.log("TLC Query/%s[%d] %s: %d behaviours, %.1fs" % (cfg, k, mode, r.n_behaviours, r.wall_s))

    threads = []
    for cfg, mode, num, nproc in jobs:
        if mode != "simulate":
            nproc = 1
        for k in range(nproc):
            t = threading.Thread(target=one, args=(cfg, mode, max(1, num // nproc) if num else None, k, nproc))
            t.start()
            threads.append(t)
    for t in threads:
        t.join()
    if errors:
        raise vlib.Inconclusive("\n".join(errors))
    return results


def merge(ctx, paths, name):
    out = os.path.join(ctx.scratch, name + ".all.ndjson")
    seen = set()
    with open(out, "w") as o:
        for p in paths:
            for line in open(p):
                if line not in seen:
                    seen.add(line)
                    o.write(line)
    return out
