"""C08 — data and schema survive a clean restart unchanged.

spec/Schema.tla: one index (keys, trackExistence) with the field under test drawn from the
option domain {set|mutex (cache ranked|lru|none, size 1|50000), int (bounds (0,0), (-5,5),
(3,9), (-9,-3), (0,1023), wide), time (10 quanta x noStandardView), bool} x keys; histories
of data writes (Set/Clear/Import, timestamps, integer values incl. a first value 0, row and
column attributes, keyed rows/columns, three shards), schema operations (auxiliary field and
index created/deleted, f and the index deleted and re-created with other options) and
Restart anywhere; invariant RestartIsIdentity on the projection.
harness/bind/bsib TestC08 replays every behaviour on a real server (test.Command) in a
temporary data directory: after every step the server is compared with the spec's
projection; around every Restart (Command.Reopen: close + reopen of the same directory) a
large query alphabet is recorded before and after and must be identical (design/C08.md)."""

LEVEL = "model_checking"

FAMILIES = ["set", "mutex", "int", "time", "bool"]


def run(ctx):
    import os
    import vlib
    thorough = ctx.tier == "thorough"
    only = [x for x in os.environ.get("VERIF_ONLY", "").split(",") if x]  # development aid
    ctx.rule = ("behaviour = (index options, field configuration) followed by Depth-1 actions of spec/Schema.tla; "
                "opts: every configuration of the option domain x every index option pair, created and restarted; "
                "w1: every single write or attribute of the alphabet on a configuration (all int configurations in "
                "the thorough tier, seeded configurations otherwise) followed by a restart; sim: seeded "
                "histories of 6 writes / schema operations / restarts. Each behaviour is replayed under a seeded "
                "refinement (shards and offsets of the three columns, row ids, instants per quantum, wide values of "
                "bit depth 63); the driver always ends with a restart. distinct = distinct (behaviour, refinement); "
                "non-trivial = every replay (each crosses at least one close/reopen and compares the projection).")
    ctx.trusted += ["test.Command.Reopen (server close + reopen on the same data directory)",
                    "rendering of the projection's query alphabet and its canonical form (bind/bsib/c08_test.go)"]
    ctx.assumptions += [
        "the order of TopN entries with equal counts, and which of them survives a cut-off n, is free",
        "row attributes of bool fields cannot be addressed through PQL and are not generated",
        "Store() does not translate row keys and is generated for fields without keys only",
        "keys on int fields are not generated; the internal existence field's options are not part of the reported schema",
        "Field.Value is read only for columns of shards that hold data (the call itself opens a fragment)",
        "cacheSize of a field created with cache type none is compared before/after the restart only",
    ]
    m = ctx.modelcheck("Schema", "C08_mc", timeout=900)
    if m.violation:
        raise vlib.Inconclusive("RestartIsIdentity / TypeOK violated in Schema.tla itself:\n" + m.violation[:2000])

    def go(cfg, **kw):
        if only and cfg[4:] not in only:
            return
        r = ctx.generate("Schema", cfg, **kw)
        ctx.drive("bind/bsib", "TestC08", beh=r.behaviours, label="C08/" + cfg, timeout=3000)

    # every configuration: create, restart
    go("C08_opts", mode="bfs", timeout=600)
    if thorough:
        # every write of the alphabet on every int configuration (BFS) and on `num` seeded
        # configurations of the other types (a replay costs ~0.1 s: it crosses a server restart)
        go("C08_w1_int", mode="bfs", timeout=1200)
        for f, n in [("set", 16), ("mutex", 16), ("time", 16), ("bool", 4)]:
            go("C08_w1_" + f, mode="simulate", num=n, depth=2, timeout=900)
        go("C08_snap", mode="simulate", num=150, depth=4, timeout=900)
        go("C08_sim_int", mode="simulate", num=80, depth=6, timeout=900)
        go("C08_sim_rest", mode="simulate", num=80, depth=7, timeout=900)
        go("C08_sim_time", mode="simulate", num=80, depth=7, timeout=900)
    else:
        # a seed-chosen third of the single-write runs: simulation at depth 2 with
        # Sample = FALSE emits every write of the alphabet on `num` seeded configurations
        go("C08_w1_" + ["int", "set", "time", "mutex", "int", "bool"][ctx.seed % 6], mode="simulate", num=3, depth=2, timeout=600)
        # rows written, then Store / ClearRow / a snapshotting Set as the last write before the
        # restart (simulation at depth 4 emits every such last write for `num` seeded prefixes)
        go("C08_snap", mode="simulate", num=20, depth=4, timeout=600)
        go("C08_sim_int", mode="simulate", num=30, depth=6, timeout=600)
        go("C08_sim_rest" if ctx.seed % 2 == 0 else "C08_sim_time", mode="simulate", num=25, depth=7, timeout=600)
    ctx.exhaustive = False
    ctx.notes.append("exhaustive over the option domain (create + restart) in both tiers and over (int configuration, "
                     "one write) in the thorough tier; other (configuration, write) pairs and longer histories are sampled")
