"""C05 — replaying the operation log reproduces the in-memory bitmap.

spec/RoaringHist.tla carries the abstract op log; TLC checks ReplayMatches (replay of the
log over the snapshot = contents) on every state (M) and emits the histories; harness
TestC05 runs them on a real bitmap with an OpWriter and after EVERY step decodes
snapshot||log into a fresh bitmap and compares set and Ops()/opN with the live bitmap and
the spec (DESIGN.md 6/C05)."""

LEVEL = "model_checking"


def run(ctx):
    thorough = ctx.tier == "thorough"
    ctx.rule = ("behaviour = history of logged mutations {Add, Remove, AddN, RemoveN with repeats/absent values, "
                "ImportSet/ImportClear of every non-empty subset in both encodings (incl. imports that change nothing), "
                "Optimize, Reencode (snapshot)}; after every step the log is replayed. non-trivial = a changing "
                "mutation followed by another call; distinct by (history, profile).")
    ctx.trusted += ["gamma materialisation", "reference encoders for import payloads"]
    runs = [
        ("C05_2x2_sim", 2, 2, "simulate", 40 if not thorough else 120, 12),
        ("C05_2x2_d3", 2, 2, "simulate", 100 if not thorough else 1200, 3)   # BFS = 1.3 M histories: sampled,
    ]
    # (BFS of C05_2x1_d4 is 6.9 x 10^5 histories, each decoded after every step: sampled in
    # both tiers; ReplayMatches is still checked by TLC on every generated state)
    runs.append(("C05_2x1_d4", 2, 1, "simulate", 400 if not thorough else 3000, 4))
    for cfg, K, M, mode, num, depth in runs:
        r = ctx.generate("RoaringHist", cfg, mode=mode, num=num, depth=depth, timeout=1200)
        ctx.drive("bind/roaringb", "TestC05", beh=r.behaviours, env={"VERIF_K": K, "VERIF_M": M},
                  label="C05/" + cfg, timeout=3000)
    ctx.exhaustive = False
