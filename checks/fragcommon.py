"""Shared by c07.py and c10.py: seeded down-sampling of a behaviours file and cleanup of
the tmpfs directory the fragb driver keeps its fragment files in."""
import os
import random
import shutil


def sample(path, n, seed):
    """Keep a seeded sample of n behaviours (TLC's simulation prints every successor of
    the last state of every trace: many more, and more alike, than can be replayed)."""
    with open(path) as f:
        lines = f.readlines()
    if len(lines) <= n:
        return path, len(lines)
    rnd = random.Random(seed * 7919 + len(lines))
    keep = sorted(rnd.sample(range(len(lines)), n))
    out = path[:-7] + ".sample.ndjson"
    with open(out, "w") as f:
        for i in keep:
            f.write(lines[i])
    return out, n


def cleanup(ctx):
    shutil.rmtree(os.path.join("/dev/shm", os.path.basename(ctx.scratch) + ".fragb"), ignore_errors=True)


ALL_PATHS = ["setBit", "clearBit", "setRow", "clearRow", "bulk", "bulkMutex", "roaring",
             "setValue", "clearValue", "importValue"]
