"""Shared by c07.py and c10.py: seeded down-sampling of a behaviours file and cleanup of
the tmpfs directory the fragb driver keeps its fragment files in."""
import os
import random
import shutil


def sample(path, n, seed):
    """Keep a seeded sample of n behaviours (TLC's simulation prints every successor of
    the last state of every trace: many more, and more alike, than can be replayed)."""
    with open(path) as f:
        lines = f.readlines()
    if len(lines) <= n:
        return path, len(lines)
    rnd = random.Random(seed * 7919 + len(lines))
    keep = sorted(rnd.sample(range(len(lines)), n))
    out = path[:-7] + ".sample.ndjson"
    with open(out, "w") as f:
        for i in keep:
            f.write(lines[i])
    return out, n


def cleanup(ctx):
    shutil.rmtree(os.path.join("/dev/shm", os.path.basename(ctx.scratch) + ".fragb"), ignore_errors=True)


ALL_PATHS = ["setBit", "clearBit", "setRow", "clearRow", "bulk", "bulkMutex", "roaring",
             "setValue", "clearValue", "importValue"]


WRITES_SET = ["SetBit", "ClearBit", "SetRow", "ClearRow", "BulkSet", "BulkClear", "RoaringSet", "RoaringClear"]
WRITES_MUTEX = ["BulkMutex"]
WRITES_BSI = ["SetValue", "ClearValue", "ImportValue", "ImportValueClear"]
SNAPS = ["Snapshot", "BgSnapshot", "Reopen"]


def require_ops(ctx, ops, extra=()):
    """A run in which some action of the specification was never replayed is vacuous for
    that action: inconclusive, not held."""
    missing = [o for o in ops if not ctx.extra_cov.get("op_" + o)]
    missing += [k for k in extra if not ctx.extra_cov.get(k)]
    if missing:
        ctx.inconclusive.append("never replayed: " + ", ".join(missing))
