"""C09 — a crash at any point loses no acknowledged write and never blocks restart.

(G) spec/DurabilityHist.tla generates write histories (4 writes through the public API over
    set / mutex / time / int / keyed fields, with their abstract meaning);
(B) harness/bind/crashb executes each history on a real server in a child process under
    strace, tools/strace2fs.py rebuilds the data directory after EVERY state-changing
    syscall, a fresh process opens each image and the recovered state is judged with
    spec/DurabilityAbs.tla's RecoveredOK (restart succeeds; per (field, view, shard) the
    content is the acknowledged state or the acknowledged state plus all of the in-flight
    write) — only this produces a verdict;
(V) the recorded syscall sequence of every history is validated against
    spec/TraceDurability.tla (the implementation-level model of each write path's
    syscalls); a rejection is MODEL-DRIFT, never a verdict;
(M) TLC checks the implementation-level model spec/Durability.tla against the property at
    every crash point of every short history; counterexamples are hypotheses.
"""
import json
import os
import random
import shutil
import tempfile

import vlib

LEVEL = "fault_enumeration"


# the classes of spec/C09_hist.cfg BigCuts: where the translate writer's 4096-byte write
# boundary falls in an entry whose first pair is the key "big"
BIG_CUTS = ["inkey", "lastbyte", "between", "afterid", "aftersize", "firstbyte"]


def has_bigbatch(beh):
    """A keyed import that allocates "big" first and at least one more column key in the
    same translate entry: only then the write boundary can fall on the next pair."""
    have = ["base"]
    for st in beh:
        if st["op"] == "ImportKeyed":
            new = []
            for k in st.get("cks", []):
                if k not in have and k not in new:
                    new.append(k)
            if len(new) >= 2 and new[0] == "big":
                return True
        have = st["post"]["ck"]
    return False


def features(beh):
    """Coverage features of a history, for the stratified selection."""
    fs = set()
    if has_bigbatch(beh):
        fs.add("bigbatch")
    for st in beh:
        # size class "big batch": an import that writes the 300-column block (abstract column 8)
        if st["op"] == "ImportValue" and any(p[0] == 8 for p in st["pairs"]):
            fs.add("wide ImportValue" + (" maxopn" if st.get("maxopn") else ""))
        if st["op"] == "Import" and any(p[1] == 8 for p in st["pairs"]):
            fs.add("wide Import %s clear=%s" % (st["fld"], st["clear"]))
        op = st["op"]
        f = [op]
        for k in ("fld", "clear", "shard"):
            if k in st:
                f.append("%s=%s" % (k, st[k]))
        if op in ("SetKeyed",) and st.get("ck") == "big":
            f.append("big")
        if op == "ImportKeyed" and "big" in st.get("cks", []):
            f.append("big")
        fs.add(" ".join(f))
        fs.add(op + (" maxopn" if st.get("maxopn") else " default"))
    ops = [st["op"] for st in beh]
    for a, b in zip(ops, ops[1:]):
        fs.add("seq %s>%s" % (a, b))
    return fs


def select(path, out, n, seed):
    """Pick n histories from the generated pool: seeded shuffle, then greedy cover of
    (operation, field, clear, shard, MaxOpN, big key, adjacent operation pairs)."""
    pool = [json.loads(l) for l in open(path) if l.strip()]
    rnd = random.Random(seed)
    rnd.shuffle(pool)
    pool = pool[:max(20 * n, 400)]
    feats = [features(b) for b in pool]
    covered = set()
    chosen = []
    left = list(range(len(pool)))
    while left and len(chosen) < n:
        best = max(left, key=lambda i: len(feats[i] - covered))
        if not feats[best] - covered:
            best = left[0]
        chosen.append(best)
        covered |= feats[best]
        left.remove(best)
    # every history with such a translate entry is run once per write-boundary class
    # (at most 2 histories are multiplied, to keep the run time where it is)
    extra = []
    multiplied = 0
    for i in chosen:
        if multiplied < 2 and has_bigbatch(pool[i]):
            multiplied += 1
            for cut in BIG_CUTS:
                if cut == pool[i][0].get("bigcut"):
                    continue
                clone = json.loads(json.dumps(pool[i]))
                for st in clone:
                    st["bigcut"] = cut
                extra.append(clone)
    with open(out, "w") as f:
        for i in chosen:
            f.write(json.dumps(pool[i]) + "\n")
        for b in extra:
            f.write(json.dumps(b) + "\n")
    return len(chosen) + len(extra), len(covered)


def run(ctx):
    thorough = ctx.tier == "thorough"
    nhist = 200 if thorough else 10
    ctx.rule = ("history = 4 writes through the public API chosen by TLC from spec/DurabilityHist.tla "
                "(Set/Clear on set, mutex and time fields, int values, keyed writes incl. a key longer than the "
                "translate writer's buffer, roaring / bulk / keyed / value imports, Store, ClearRow; MaxOpN default or 3); "
                "case = (history, crash point) for every state-changing data-directory syscall recorded by strace while "
                "the history runs and the server closes; each case's directory image is opened by a fresh process and judged "
                "under every obligation (acknowledged prefix, in-flight write) that holds while the image is the "
                "directory state. distinct = distinct (history, crash point); non-trivial = a write is in flight or a "
                "leftover .snapshotting/.temp file is present.")
    ctx.trusted += ["strace 6.1 (-f -y -xx) and tools/strace2fs.py (syscall log -> directory images; the image after the "
                    "last syscall is checked against nothing but is byte-identical to the live directory in the self-test)",
                    "projection of a holder onto (row, column) pairs / int values / key ids (harness/bind/crashb/universe.go)"]
    ctx.assumptions += ["process-kill model: a completed syscall persists entirely, a syscall's effect is placed at its "
                        "completion as reported by strace",
                        "boltdb attribute stores and .cache files are outside the property; the recovering holder uses no "
                        "attribute store",
                        "the expected states S_k are the live server's own states after each acknowledged write (compared "
                        "with the specification's post states; a disagreement is reported as semantic drift, not as a C09 failure)"]
    ctx.exhaustive = False

    # (G) histories
    r = ctx.generate("DurabilityHist", "C09_hist", mode="simulate", num=(260 if thorough else 40), depth=4,
                     timeout=600)
    sel = os.path.join(ctx.scratch, "c09_histories.ndjson")
    n, ncov = select(r.behaviours, sel, nhist, ctx.seed)
    ctx.notes.append("selected %d histories covering %d features from %d generated" % (n, ncov, r.n_behaviours))

    # (B) crash images; work on tmpfs when there is one (fsync-heavy)
    work = None
    env = {}
    if os.path.isdir("/dev/shm") and os.access("/dev/shm", os.W_OK):
        work = tempfile.mkdtemp(prefix="verif-c09-", dir="/dev/shm")
        env["VERIF_C09_WORK"] = work
    trace = os.path.join(ctx.scratch, "c09_traces.json")
    env["VERIF_C09_TRACE"] = trace
    try:
        res = ctx.drive("bind/crashb", "TestC09", beh=sel, env=env, label="C09/crash-images", timeout=2400)
    finally:
        if work:
            shutil.rmtree(work, ignore_errors=True)
    if res is None:
        return
    drift = (res.get("coverage") or {}).get("histories_with_semantic_drift", 0)
    if drift:
        ctx.notes.append("semantic drift (live state after a write differs from DurabilityHist's post state) in %d histories: %s"
                         % (drift, (res["coverage"].get("semantic_drift_samples") or [""])[0][:600]))
    if (res.get("coverage") or {}).get("api_errors"):
        ctx.notes.append("API errors: %s" % res["coverage"]["api_errors"][:3])

    # (V) the recorded syscall sequences against the implementation-level model
    validate_traces(ctx, trace)

    # (M) the implementation-level model against the property, at every kill point
    model_check(ctx, thorough)


# --------------------------------------------------------------------------- (V)

DROP = {"Bolt", "WriteCache", "CreateCache", "SyncFragment", "SyncOther", "Open", "Mkdir"}
UNIT_ACTS = {"AppendOp", "AppendOpRoaring", "AppendOps", "AppendOpHeader", "AppendOpPayload", "CreateSnapTmp", "WriteSnapChunk",
             "RenameSnap", "CreateFragmentFile", "InitFragment"}
PLAIN_ACTS = {"CreateMetaTmp", "WriteMetaTmp", "RenameMeta", "TranslateWrite", "TranslateSync"}


def begin_event(step, evs_of_step):
    """The model's view of an API call: write kind, fields it may touch, entries per fragment."""
    op = step["op"]
    fld = step.get("fld")
    kind, key, budget = "bit", False, {}
    if op == "SetBit":
        if fld == "m":
            kind, budget = "multi", {"i/m": 1, "i/_exists": 1}     # clear of the old row + set, one write
        else:
            budget = {"i/" + fld: 1, "i/_exists": 1}
    elif op == "SetTime":
        budget = {"i/t": 1, "i/_exists": 1}
    elif op == "ClearBit":
        budget = {"i/" + fld: 1}
    elif op == "SetValue":
        kind, budget = "multi", {"i/v": 1, "i/_exists": 1}        # one entry per bit row, one write
    elif op in ("SetKeyed", "ImportKeyed"):
        # keys that exist already need no translate-log entry: whether one is written is
        # read off the trace (its protocol is then validated)
        key = any(e.get("act") == "TranslateWrite" for e in evs_of_step)
        budget = {"k/kf": 1, "k/_exists": 1}
    elif op == "ImportRoaring":
        kind, budget = "roaring", {"i/f": 1}
    elif op == "Import":
        if fld == "m" and not step.get("clear"):
            kind, budget = "batch2", {"i/m": 1, "i/_exists": 1}
        else:
            budget = {"i/" + fld: 1, "i/_exists": 1}
    elif op == "ImportValue":
        # the code chooses the small (op log) or the large (memory + awaited snapshot) path
        # from MaxOpN; the path taken is read off the trace, then validated
        small = any(e.get("act", "").startswith("AppendOp") and e.get("unit", "").startswith("i/v/") for e in evs_of_step)
        if small:
            kind, budget = "batch2", {"i/v": 1, "i/_exists": 1}
        else:
            kind, budget = "large", {"i/v": 0, "i/_exists": 1}
    elif op in ("Store", "ClearRow"):
        kind, budget = "rowop", {"i/" + (fld or "f"): 0}
    return {"e": "Begin", "kind": kind, "key": key, "fields": sorted(budget), "budget": budget,
            "meta": "i/v" if op in ("SetValue", "ImportValue") else "", "op": op}


def history_events(h):
    """events.json of one history -> model events between the OPEN and QUIET markers."""
    evs = h["events"]
    out = []
    started = False
    # events of each step, for the path look-ahead of ImportValue
    by_step = {}
    for e in evs:
        if e.get("kind") == "fs":
            by_step.setdefault(e.get("op", 0), []).append(e)
    for e in evs:
        if e.get("kind") == "mark":
            w = e["text"].split(" ")
            if w[1] == "OPEN":
                started = True
            elif w[1] == "QUIET":
                break
            elif w[1] == "BEGIN" and started:
                k = int(w[2])
                out.append(begin_event(h["steps"][k - 1], by_step.get(k, [])))
            elif w[1] in ("ACK", "ERR") and started:
                out.append({"e": "Ack"})
            continue
        if not started:
            continue
        act = e.get("act", "")
        if act in DROP or (act == "WriteOther" and e.get("path") == ".startup.log"):
            continue
        if act in UNIT_ACTS:
            u = e["unit"]
            # one write(2) = one AppendOp of the model, whether it carries one entry, a roaring
            # entry with its payload, or all entries of a multi-entry write
            out.append({"e": "AppendOp" if act in ("AppendOpRoaring", "AppendOps") else act, "u": u,
                        "fld": "/".join(u.split("/")[:2])})
        elif act in PLAIN_ACTS:
            out.append({"e": act})
        else:
            out.append({"e": "Unmodelled:" + act, "path": e.get("path", "")})
    return out


def validate_traces(ctx, trace_path):
    if not os.path.exists(trace_path):
        ctx.inconclusive.append("the driver recorded no syscall traces")
        return
    hists = json.load(open(trace_path))
    groups = {"default": [], "maxopn": []}
    for h in hists:
        g = "maxopn" if (h["steps"] and h["steps"][0].get("maxopn")) else "default"
        groups[g].append(h)
    accepted = 0
    drift = []
    for g, hs in groups.items():
        hs = list(hs)
        for attempt in range(4):
            if not hs:
                break
            lines, owner = [], []
            for h in hs:
                evs = [{"e": "Reset"}] + history_events(h)
                for e in evs:
                    lines.append(json.dumps(e))
                    owner.append(h["hist"])
            path = os.path.join(ctx.scratch, "trace_%s_%d.ndjson" % (g, attempt))
            open(path, "w").write("\n".join(lines) + "\n")
            r = vlib.tlc("TraceDurability", "TraceDurability_" + g, ctx.scratch, mode="bfs", workers=1,
                         files={"trace.ndjson": path}, timeout=900)
            ctx.tlc_runs.append(("TraceDurability", "TraceDurability_" + g, r))
            m = None
            for line in r.out_tail.splitlines():
                mm = __import__("re").search(r'"TRACE-CONSUMED", (\d+), (\d+)', line)
                if mm:
                    m = (int(mm.group(1)), int(mm.group(2)))
            if m is None:
                ctx.inconclusive.append("trace validation (%s) gave no result:\n%s" % (g, r.out_tail[-1500:]))
                break
            vlib.log("TLC(V) TraceDurability/%s: %d of %d events accepted, %d states, %.1fs"
                     % (g, m[0], m[1], r.distinct, r.wall_s))
            if m[0] == m[1]:
                accepted += len(hs)
                break
            bad = owner[m[0]]                      # history of the first event that could not be consumed
            ev = json.loads(lines[m[0]])
            hb = [h for h in hs if h["hist"] == bad][0]
            drift.append("history %d (%s): the model has no step for event #%d %s"
                         % (bad, " ; ".join(s["op"] for s in hb["steps"]), m[0], json.dumps(ev)))
            hs = [h for h in hs if h["hist"] != bad]
    ctx.validated += accepted
    ctx.extra_cov["traces_accepted_by_TraceDurability"] = accepted
    ctx.extra_cov["traces_rejected_by_TraceDurability"] = len(drift)
    for d in drift:
        print("MODEL-DRIFT property=C09 " + d[:600], flush=True)
        ctx.notes.append("MODEL-DRIFT: " + d)


# --------------------------------------------------------------------------- (M)

# cfg -> (expected counterexample?, what it says)
MC_QUICK = [
    ("C09_mc_quick", False, "code as it is now, 2 writes of every kind x 2 fragments (1 bit) x translate store: RestartSucceeds, AckedDurable, InflightAtomicPerShard, LeftoversIgnored at every kill point"),
    ("C09_mc_asfound_multi", True, "code as found: multi-entry writes (int Set, value import, mutex Set/import) one write(2) per entry: InflightAtomicPerShard fails"),
]
MC_THOROUGH = [
    ("C09_mc_fixed", False, "as C09_mc_quick with 2 bits per fragment, plus the refinement Durability => DurabilityAbs"),
    ("C09_mc_deep", False, "4 writes (1 bit, kinds bit/roaring/rowop)"),
    ("C09_mc_cutclass", True, "hypothetical: a translate entry cut between two pairs / after an id varint is not recognised as a torn tail by replayEntries: RestartSucceeds fails (TranslateWrite with the cut-position class as a parameter)"),
    ("C09_mc_notrunc", True, "hypothetical: .snapshotting opened without O_TRUNC - a leftover of one Crash/Recover epoch reaches the data file in the next (the invariants span epochs)"),
    ("C09_mc_asfound_restart", True, "code as found: a kill after the roaring header write blocks restart"),
    ("C09_mc_asfound_translate", True, "code as found: a kill inside a chunked translate entry blocks restart"),
    ("C09_mc_asfound_acked", True, "code as found: Store/ClearRow acknowledged before the snapshot"),
]


def model_check(ctx, thorough):
    for cfg, expect_cex, what in MC_QUICK + (MC_THOROUGH if thorough else []):
        r = ctx.modelcheck("DurabilityMC", cfg, timeout=900)
        got = bool(r.violation)
        if got != expect_cex:
            # the design model no longer says what design/C09.md records: a stale model, not a verdict
            ctx.inconclusive.append("(M) %s: %s counterexample (%s)\n%s"
                                    % (cfg, "unexpected" if got else "missing expected", what, (r.violation or "")[:1500]))
        ctx.notes.append("(M) %s: %s — %d distinct states, %s" % (cfg, what, r.distinct,
                                                               "counterexample (hypothesis, see design/C09.md)" if got else "no counterexample"))
