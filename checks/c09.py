"""C09 — a crash at any point loses no acknowledged write and never blocks restart.

(G) spec/DurabilityHist.tla generates write histories (4 writes through the public API over
    set / mutex / time / int / keyed fields, with their abstract meaning);
(B) harness/bind/crashb executes each history on a real server in a child process under
    strace, tools/strace2fs.py rebuilds the data directory after EVERY state-changing
    syscall, a fresh process opens each image and the recovered state is judged with
    spec/DurabilityAbs.tla's RecoveredOK (restart succeeds; per (field, view, shard) the
    content is the acknowledged state or the acknowledged state plus all of the in-flight
    write) — only this produces a verdict;
(V) the recorded syscall sequence of every history is validated against
    spec/TraceDurability.tla (the implementation-level model of each write path's
    syscalls); a rejection is MODEL-DRIFT, never a verdict;
(M) TLC checks the implementation-level model spec/Durability.tla against the property at
    every crash point of every short history; counterexamples are hypotheses.
"""
import json
import os
import random
import shutil
import tempfile

import vlib

LEVEL = "fault_enumeration"


def features(beh):
    """Coverage features of a history, for the stratified selection."""
    fs = set()
    for st in beh:
        op = st["op"]
        f = [op]
        for k in ("fld", "clear", "shard"):
            if k in st:
                f.append("%s=%s" % (k, st[k]))
        if op in ("SetKeyed",) and st.get("ck") == "big":
            f.append("big")
        if op == "ImportKeyed" and "big" in st.get("cks", []):
            f.append("big")
        fs.add(" ".join(f))
        fs.add(op + (" maxopn" if st.get("maxopn") else " default"))
    ops = [st["op"] for st in beh]
    for a, b in zip(ops, ops[1:]):
        fs.add("seq %s>%s" % (a, b))
    return fs


def select(path, out, n, seed):
    """Pick n histories from the generated pool: seeded shuffle, then greedy cover of
    (operation, field, clear, shard, MaxOpN, big key, adjacent operation pairs)."""
    pool = [json.loads(l) for l in open(path) if l.strip()]
    rnd = random.Random(seed)
    rnd.shuffle(pool)
    pool = pool[:max(20 * n, 400)]
    feats = [features(b) for b in pool]
    covered = set()
    chosen = []
    left = list(range(len(pool)))
    while left and len(chosen) < n:
        best = max(left, key=lambda i: len(feats[i] - covered))
        if not feats[best] - covered:
            best = left[0]
        chosen.append(best)
        covered |= feats[best]
        left.remove(best)
    with open(out, "w") as f:
        for i in chosen:
            f.write(json.dumps(pool[i]) + "\n")
    return len(chosen), len(covered)


def run(ctx):
    thorough = ctx.tier == "thorough"
    nhist = 200 if thorough else 10
    ctx.rule = ("history = 4 writes through the public API chosen by TLC from spec/DurabilityHist.tla "
                "(Set/Clear on set, mutex and time fields, int values, keyed writes incl. a key longer than the "
                "translate writer's buffer, roaring / bulk / keyed / value imports, Store, ClearRow; MaxOpN default or 3); "
                "case = (history, crash point) for every state-changing data-directory syscall recorded by strace while "
                "the history runs and the server closes; each case's directory image is opened by a fresh process and judged "
                "under every obligation (acknowledged prefix, in-flight write) that holds while the image is the "
                "directory state. distinct = distinct (history, crash point); non-trivial = a write is in flight or a "
                "leftover .snapshotting/.temp file is present.")
    ctx.trusted += ["strace 6.1 (-f -y -xx) and tools/strace2fs.py (syscall log -> directory images; the image after the "
                    "last syscall is checked against nothing but is byte-identical to the live directory in the self-test)",
                    "projection of a holder onto (row, column) pairs / int values / key ids (harness/bind/crashb/universe.go)"]
    ctx.assumptions += ["process-kill model: a completed syscall persists entirely, a syscall's effect is placed at its "
                        "completion as reported by strace",
                        "boltdb attribute stores and .cache files are outside the property; the recovering holder uses no "
                        "attribute store",
                        "the expected states S_k are the live server's own states after each acknowledged write (compared "
                        "with the specification's post states; a disagreement is reported as semantic drift, not as a C09 failure)"]
    ctx.exhaustive = False

    # (G) histories
    r = ctx.generate("DurabilityHist", "C09_hist", mode="simulate", num=(260 if thorough else 40), depth=4,
                     timeout=600)
    sel = os.path.join(ctx.scratch, "c09_histories.ndjson")
    n, ncov = select(r.behaviours, sel, nhist, ctx.seed)
    ctx.notes.append("selected %d histories covering %d features from %d generated" % (n, ncov, r.n_behaviours))

    # (B) crash images; work on tmpfs when there is one (fsync-heavy)
    work = None
    env = {}
    if os.path.isdir("/dev/shm") and os.access("/dev/shm", os.W_OK):
        work = tempfile.mkdtemp(prefix="verif-c09-", dir="/dev/shm")
        env["VERIF_C09_WORK"] = work
    trace = os.path.join(ctx.scratch, "c09_traces.json")
    env["VERIF_C09_TRACE"] = trace
    try:
        res = ctx.drive("bind/crashb", "TestC09", beh=sel, env=env, label="C09/crash-images", timeout=2400)
    finally:
        if work:
            shutil.rmtree(work, ignore_errors=True)
    if res is None:
        return
    drift = (res.get("coverage") or {}).get("histories_with_semantic_drift", 0)
    if drift:
        ctx.notes.append("semantic drift (live state after a write differs from DurabilityHist's post state) in %d histories: %s"
                         % (drift, (res["coverage"].get("semantic_drift_samples") or [""])[0][:600]))
    if (res.get("coverage") or {}).get("api_errors"):
        ctx.notes.append("API errors: %s" % res["coverage"]["api_errors"][:3])

    # (V) and (M)
    try:
        import importlib.util
        p = os.path.join(os.path.dirname(os.path.abspath(__file__)), "c09_model.py")
        if os.path.exists(p):
            spec = importlib.util.spec_from_file_location("c09_model", p)
            mod = importlib.util.module_from_spec(spec)
            spec.loader.exec_module(mod)
            mod.run(ctx, trace, thorough)
    except vlib.Inconclusive:
        raise
