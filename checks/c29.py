"""C29 — concurrent requests are race-free and linearizable.

spec/Linearize.tla is the sequential model of a few rows x columns of one or two fragments
(bit writes, imports, row store / clear, row / count / row-list / whole-fragment / TopN-by-id
reads, snapshot / cache flush / recalculate as no-ops) wrapped in the linearizability machine
Call / Lin (silent) / Ret.  harness/bind/concb (built with -race) runs seeded concurrent
workloads in a child process (GORACE=halt_on_error=1 exitcode=66): on shared fragments
through the verif export (with the snapshot-queue worker as a background actor) and through
API.Query / API.Import / API.ImportRoaring on an in-process server.

  * TestC29Race: larger workloads (4-8 clients x 15-40 requests, plus requests outside the
    model: TopN by rank, GroupBy, time / int / keyed / mutex fields, schema changes,
    attributes, block data, anti-entropy merges).  The race detector is the sensor for
    "no data race"; a panic or a missed deadline (deadlock) is a failure by itself.
  * TestC29Lin: small workloads (2-4 clients x <= 6 requests on 2 rows x 3 columns); the
    call / return history of each (global atomic stamps taken before the call and after the
    return) is validated by TLC against spec/TraceLinearize.tla, which searches for a
    linearization.  A rejected history is a linearizability violation if it is rejected
    again when the same workload is re-run (30 repetitions).
"""
import concurrent.futures
import json
import os
import re

import vlib

LEVEL = "exploration"

PKG = "bind/concb"
CHUNK = 250  # histories per TLC run


def _verdict(r):
    m = re.search(r'TRACE-REJECTED (\d+)', r.out_tail or "")
    if m:
        return False, int(m.group(1))
    if "TRACE-ACCEPTED" in (r.out_tail or ""):
        return True, -1
    return None, -1


def _histories(path):
    hs, cur = [], None
    if not os.path.exists(path):
        return hs
    for line in open(path).read().splitlines():
        if not line:
            continue
        if line.startswith('{"e":"reset"'):
            cur = []
            hs.append(cur)
        if cur is not None:
            cur.append(line)
    return hs


def _tlc(ctx, hs, label):
    path = os.path.join(ctx.scratch, "c29-%s.ndjson" % re.sub(r'\W', '_', label))
    with open(path, "w") as f:
        for h in hs:
            f.write("\n".join(h) + "\n")
    r = vlib.tlc("TraceLinearize", "TraceLinearize", ctx.scratch, files={"trace.ndjson": path},
                 workers=1, deque=True, timeout=900)
    ctx.tlc_runs.append(("TraceLinearize", label, r))
    ok, prefix = _verdict(r)
    if ok is None:
        raise vlib.Inconclusive("TLC gave no verdict on %s:\n%s" % (label, (r.violation or r.out_tail)[-1500:]))
    return ok, prefix, r


def _op_of(h, k):
    """operation whose return event (line k of history h) was rejected"""
    ev = json.loads(h[k])
    op = ""
    for line in h[:k]:
        c = json.loads(line)
        if c.get("e") == "call" and c.get("p") == ev.get("p"):
            op = c.get("op", "")
    return op


def _validate(ctx, hs, cases, label):
    """Returns (#accepted histories, [(history, offending line index)])."""
    rejected = []
    accepted = 0
    todo = list(hs)
    rounds = 0
    while todo:
        rounds += 1
        ok, prefix, r = _tlc(ctx, todo, "%s/%d" % (label, rounds))
        nev = sum(len(h) for h in todo)
        vlib.log("trace %s round %d: %d histories, %d events: %s, %d states, %.1fs" % (
            label, rounds, len(todo), nev, "accepted" if ok else "REJECTED at %d" % prefix, r.distinct, r.wall_s))
        if ok:
            accepted += len(todo)
            break
        # the history that contains event number `prefix` (0-based) cannot be linearized
        pos = 0
        for i, h in enumerate(todo):
            if prefix < pos + len(h):
                rejected.append((h, prefix - pos))
                accepted += i
                todo = todo[i + 1:]
                break
            pos += len(h)
        else:
            raise vlib.Inconclusive("TLC rejected %s beyond its last event" % label)
        if len(rejected) >= 6:
            # enough counterexamples; the histories behind them stay unvalidated
            ctx.notes.append("%s: stopped after 6 rejected histories, %d histories not validated" % (label, len(todo)))
            break
    return accepted, rejected


def run(ctx):
    thorough = ctx.tier == "thorough"
    # boltdb v1.3.1 (a dependency of the repository) does unsafe pointer arithmetic that the
    # pointer checks switched on by -race abort on; they are switched off for that package only
    vlib.GOENV["GOFLAGS"] = "-mod=mod -gcflags=github.com/boltdb/bolt=-d=checkptr=0"
    ctx.rule = ("case = one seeded concurrent workload (clients x requests, operation mix, fragment / API level, cache type, "
                "MaxOpN, snapshot-queue worker, column / row refinement, GOMAXPROCS 1/2/4/8, injected yields and sleeps) run in a "
                "-race build; race workloads are judged by the race detector, panics and a 90 s deadline; the history of every "
                "lin workload is validated by TLC against TraceLinearize (search for a linearization). distinct = distinct "
                "workload; non-trivial = at least two clients and three requests.")
    ctx.trusted += ["Go race detector (go test -race)", "global atomic stamps taken before each call and after each return (bind/concb/exec.go)",
                    "refinement of 2 abstract rows x 3 abstract columns to concrete rows / columns of shard 0 (bind/concb/workload.go)"]
    ctx.assumptions += ["schedules are those the Go scheduler produces under the race detector with GOMAXPROCS 1/2/4/8 and injected yields / sleeps: a sample, not all interleavings",
                        "TopN over several row ids is a composite of one atomic read per id (weakest reading); every other modelled request addresses one fragment and is atomic",
                        "requests outside the sequential model (race workloads' extras) are judged by the race detector only",
                        "a race detector report is accepted on first sight (DESIGN 5.1); a rejected history must be rejected again when its workload is re-run"]

    # (M) while the -race build of the harness runs
    with concurrent.futures.ThreadPoolExecutor(max_workers=1) as ex:
        fm = ex.submit(ctx.modelcheck, "Linearize", "C29_mc" if thorough else "C29_mcq", timeout=900, workers=2)
        ctx.binary(PKG, race=True)
        m = fm.result()
    if m.violation:
        raise vlib.Inconclusive("spec/Linearize.tla violates its own type invariant:\n" + m.violation[:2000])

    # ---- race workloads
    res = ctx.drive(PKG, "TestC29Race", race=True, label="C29/race", timeout=3000)
    if res is None:
        return

    # ---- lin workloads: record, then TLC
    base = os.path.join(ctx.scratch, "c29hist.ndjson")
    res = ctx.drive(PKG, "TestC29Lin", race=True, env={"VERIF_TRACE_OUT": base, "VERIF_SELFTEST": 3 if thorough else 1},
                    label="C29/lin", timeout=3000)
    if res is None:
        return
    ctx.validated -= int(res.get("validated", 0))  # counted when TLC accepts the history
    hs = _histories(base)
    cases = [json.loads(l) for l in open(base + ".cases").read().splitlines() if l] if os.path.exists(base + ".cases") else []
    by_idx = {c["idx"]: c for c in cases}
    if not hs:
        ctx.inconclusive.append("C29/lin: no history recorded")
        return
    # binding self-test (histories with one falsified result must be rejected), concurrently
    shs = _histories(base + ".selftest")
    pool = concurrent.futures.ThreadPoolExecutor(max_workers=1)
    fself = pool.submit(_validate, ctx, shs, [], "C29/selftest") if shs else None
    nrej = 0
    for k in range(0, len(hs), CHUNK):
        acc, rej = _validate(ctx, hs[k:k + CHUNK], cases, "C29/lin%d" % (k // CHUNK))
        ctx.validated += acc
        for h, line in rej:
            nrej += 1
            w = json.loads(h[0]).get("w")
            case = by_idx.get(w)
            if case is None:
                ctx.inconclusive.append("rejected history of unknown workload %r" % w)
                continue
            ctx.failures.append({
                "match": {"symptom": "not_linearizable", "level": case.get("level", ""), "op": _op_of(h, line)},
                "detail": "no linearization explains the recorded history of workload %d (%s level); rejected at %s:\n%s" % (
                    w, case.get("level"), h[line], "\n".join(h)[:4000]),
                "replay": {"workload": case, "symptom": "not_linearizable"},
                "_pkg": PKG, "_test": "TestC29Lin", "_env": {}, "_race": True})
    ctx.extra_cov["histories_validated"] = len(hs)
    ctx.extra_cov["histories_rejected"] = nrej

    if fself is None:
        ctx.inconclusive.append("binding self-test: no corrupted history was recorded")
    else:
        acc, rej = fself.result()
        if len(rej) != len(shs):
            ctx.inconclusive.append("binding self-test: TLC accepted %d of %d histories with a falsified result" % (acc, len(shs)))
        else:
            ctx.notes.append("binding self-test: %d histories with one falsified result, all rejected" % len(shs))
    pool.shutdown()
    ctx.exhaustive = False
