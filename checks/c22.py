"""C22 — cluster resize completes or aborts cleanly without stalling.

spec/ResizeAbs.tla is the property as a state machine; spec/Resize.tla is the
implementation-level specification (listener, job goroutine, handlers, c.mu / j.mu, the
job result channel, queue, environment faults).

 (M) TLC model-checks Resize (Variant "fixed" = the code after the C22 repairs) for
     AtMostOneJob, MembershipOnlyAfterAllOk, NoHandlerStuck, QuiescentClean, the
     refinement of ResizeAbs and, under fairness, LeavesResizing / JobEnds; and checks that
     the same properties are violated by Variant "orig" (the code before the repairs), so
     that they are not vacuous.
 (A) TLC generates environment schedules from Resize: at "sync" granularity (an event only
     when the coordinator is quiescent) and at "fine" granularity (events between any two
     steps of the listener / job goroutine, forced on the real code through the gate hooks);
     harness/bind/resizeb replays them on a real coordinator `cluster` and compares handler
     results, cluster state, member list, current job, job states and node maps, sent
     instructions and the listener's position after every step; handlers get a deadline.
     A third driver fires answers / duplicates / errors / aborts with real concurrency.
 (B) the hook events recorded during all those runs are validated by TLC against
     TraceResizeAbs (verdict) and TraceResize (MODEL-DRIFT note only).
"""
import json
import os
import re
import shutil

import vlib

LEVEL = "model_checking"
PKG = "bind/resizeb"


def _verdict(r):
    m = re.search(r'TRACE-REJECTED (\d+)', r.out_tail or "")
    if m:
        return False, int(m.group(1))
    if "TRACE-ACCEPTED" in (r.out_tail or ""):
        return True, -1
    return None, -1


def _head_sims(path, nsims, out):
    """copy the first nsims executions (reset..end) of a trace file"""
    n = 0
    with open(path) as f, open(out, "w") as g:
        for line in f:
            if '"ev":"reset"' in line:
                n += 1
                if n > nsims:
                    break
            g.write(line)
    return min(n, nsims)


def _validate(ctx, traces, plan, impl_sims):
    """traces: [(label, trace file, env of the driver run, validate at implementation level)].
    All executions are concatenated and validated by one TLC run per trace specification."""
    allp = os.path.join(ctx.scratch, "trace-all.ndjson")
    implp = os.path.join(ctx.scratch, "trace-impl.ndjson")
    cases = []  # one per execution of trace-all: (label, case json, env)
    with open(allp, "w") as g, open(implp, "w") as gi:
        for label, trace, env, impl in traces:
            if not trace or not os.path.exists(trace) or os.path.getsize(trace) == 0:
                ctx.inconclusive.append("%s: no trace recorded" % label)
                continue
            body = open(trace).read()
            g.write(body)
            for ln in open(trace + ".cases").read().splitlines():
                cases.append((label, ln, env))
            if impl:
                tmp = os.path.join(ctx.scratch, "impl-part.ndjson")
                _head_sims(trace, impl_sims, tmp)
                gi.write(open(tmp).read())
    if not cases:
        return
    r = vlib.tlc("TraceResizeAbs", "TraceResizeAbs", ctx.scratch, files={"trace.ndjson": allp, "ResizePlan.tla": plan},
                 workers=1, timeout=1200)
    ctx.tlc_runs.append(("TraceResizeAbs", "all drivers", r))
    ok, prefix = _verdict(r)
    lines = open(allp).read().splitlines()
    nev = len(lines)
    vlib.log("traces: %d executions, %d events, abstract spec: %s"
             % (len(cases), nev, "accepted" if ok else "REJECTED at %d" % prefix if ok is False else "no verdict"))
    if ok is None:
        ctx.inconclusive.append("TLC gave no verdict on the traces (abs)\n%s" % ((r.violation or r.out_tail)[-1500:]))
        return
    if ok:
        ctx.validated += nev
    else:
        k = sum(1 for ln in lines[:prefix + 1] if '"ev":"reset"' in ln) - 1
        label, cj, env = cases[max(k, 0)]
        case = json.loads(cj)
        case["trace_check"] = "abs"
        ev = lines[min(prefix, nev - 1)]
        ctx.failures.append({
            "match": {"symptom": "trace_rejected", "spec": "abs", "gran": case.get("gran", ""),
                      "event": json.loads(ev).get("ev", "")},
            "detail": "%s: recorded execution rejected by TraceResizeAbs at event %d: %s" % (label, prefix, ev),
            "replay": case, "_pkg": PKG, "_test": "TestC22", "_env": {k2: str(v) for k2, v in env.items()}, "_race": False})
        return
    # implementation-level specification: drift only
    if os.path.getsize(implp) == 0:
        return
    r2 = vlib.tlc("TraceResize", "TraceResize", ctx.scratch, files={"trace.ndjson": implp, "ResizePlan.tla": plan},
                  workers=1, deque=True, timeout=1200)
    ctx.tlc_runs.append(("TraceResize", "all drivers", r2))
    ok2, p2 = _verdict(r2)
    il = open(implp).read().splitlines()
    vlib.log("traces: %d events, implementation-level spec: %s"
             % (len(il), "accepted" if ok2 else "rejected at %d" % p2 if ok2 is False else "no verdict"))
    if ok2 is False:
        msg = "MODEL-DRIFT: execution accepted by ResizeAbs but not by Resize at event %d: %s" % (p2, il[min(p2, len(il) - 1)])
        print(msg, flush=True)
        ctx.notes.append(msg)
    elif ok2 is None and "Parsing or semantic analysis failed" in ((r2.violation or "") + (r2.out_tail or "")):
        # a trace specification that does not parse checks nothing (this went unnoticed once)
        ctx.inconclusive.append("TraceResize.tla does not parse: %s" % ((r2.violation or r2.out_tail)[-600:]))
    elif ok2 is None:
        ctx.notes.append("no verdict from TraceResize (implementation-level): %s" % ((r2.violation or r2.out_tail)[-600:]))


def _repo_trace(ctx, label, pkg, run_re, timeout):
    """Run the repository's own resize tests with hook recording on (build tag verif) and
    convert each coordinator's event stream to the trace format of TraceResizeAbs."""
    import subprocess
    raw = os.path.join(ctx.scratch, "repo-%s.raw" % label)
    env = dict(os.environ)
    env.update(vlib.GOENV)
    env.update({"VERIF_RESIZE_TRACE": raw, "TMPDIR": ctx.scratch})
    cmd = ["timeout", str(timeout), "go", "test", "-mod=mod", "-vet=off", "-count=1", "-tags", "verif", "-run", run_re, pkg]
    p = subprocess.run(cmd, cwd=vlib.REPO, env=env, stdout=subprocess.PIPE, stderr=subprocess.STDOUT, text=True)
    if p.returncode != 0 or not os.path.exists(raw):
        ctx.notes.append("repository tests %s %s with hooks on: rc=%s (not used)\n%s" % (pkg, run_re, p.returncode, p.stdout[-800:]))
        return None
    by = {}
    jobc = {}
    evs = [json.loads(l) for l in open(raw) if l.strip()]
    evs.sort(key=lambda e: e["seq"])
    for e in evs:
        c = e["c"]
        if e["point"] in ("job_start", "job_reject"):
            jobc[e["kv"][0]] = c
        if not c and e["kv"] and e["kv"][0] in jobc:
            c = jobc[e["kv"][0]]
        by.setdefault(c, []).append(e)
    out = os.path.join(ctx.scratch, "trace-repo-%s.ndjson" % label)
    nsim = 0
    with open(out, "w") as g:
        for c, es in by.items():
            if not any(e["point"] == "job_start" for e in es):
                continue
            first = next(k for k, e in enumerate(es) if e["point"] == "enqueue")
            members = []
            for e in es[:first]:
                if e["point"] == "members":
                    members = e["kv"][0]
            names, jobs = {}, {}

            def nm(x):
                return names.setdefault(x, "n%d" % len(names))

            def rec(ev, **kw):
                r = {"ev": ev, "j": 0, "n": "", "a": "", "s": "", "ids": [], "oks": [], "done": False}
                r.update(kw)
                g.write(json.dumps(r) + "\n")
            rec("reset", ids=[nm(x) for x in sorted(members)])
            state = "NORMAL"
            for e in es[first:]:
                pt, kv = e["point"], e["kv"]
                if pt.startswith("gate:") or pt.startswith("result_"):
                    continue
                if pt == "state":
                    state = kv[0]
                    rec("state", s=kv[0])
                elif pt == "members":
                    rec("members", ids=sorted(nm(x) for x in kv[0]))
                elif pt == "enqueue":
                    rec("enqueue", a=kv[0], n=nm(kv[1]))
                elif pt in ("job_start", "job_reject"):
                    j = jobs.setdefault(kv[0], len(jobs) + 1)
                    if pt == "job_start":
                        rec(pt, j=j, a=kv[1], n=nm(kv[2]), ids=sorted(nm(x) for x in kv[3]),
                            oks=sorted(nm(x) for x, d in kv[3].items() if d))
                    else:
                        rec(pt, j=j)
                elif pt == "job_end":
                    rec(pt, j=jobs.get(kv[0], 0), s=kv[1], done=bool(kv[2]))
                elif pt in ("complete_ok", "complete_err"):
                    rec(pt, j=jobs.get(kv[0], 0), n=nm(kv[1]))
                elif pt == "abort":
                    rec(pt, j=jobs.get(kv[0], 0))
            rec("end", s=state, done=True)
            nsim += 1
    if nsim == 0:
        ctx.notes.append("repository tests %s %s: no resize job recorded" % (pkg, run_re))
        return None
    return out


def run(ctx):
    thorough = ctx.tier == "thorough"
    ctx.rule = ("behaviour = an environment schedule generated by TLC from spec/Resize.tla (joins, re-joins, leaves, "
                "answers ok/err, duplicates, late answers, unknown job, abort, failed send), at sync granularity or "
                "interleaved with the listener's and job goroutine's steps (fine), or a seeded concurrent schedule "
                "(free); replayed on a real coordinator cluster with every observable compared after every step. "
                "distinct = distinct schedule; non-trivial = at least one resize job was created.")
    ctx.trusted += ["gate hooks hold the listener/job goroutines outside any lock (verif_hook_resize_on.go)",
                    "resize plans (which nodes get an instruction) are taken from the real code (TestC22Plan; subject of C21)",
                    "handler deadline 2 s = 'waits forever'"]
    ctx.assumptions += ["one coordinator; followers, network and operator are played by the harness",
                        "at most 2 queued node actions (the queue's capacity of 10 is never reached)",
                        "no anti-entropy abort channel; cluster states STARTING/DEGRADED not exercised",
                        "a follower that never answers is outside the property (the operator aborts)"]

    # 0. the resize plans of the harness's cluster configuration, from the real code
    plan = os.path.join(ctx.scratch, "ResizePlan.tla")
    res = ctx.drive(PKG, "TestC22Plan", env={"VERIF_PLAN_OUT": plan}, label="C22/plan", timeout=300)
    if res is None or not os.path.exists(plan):
        raise vlib.Inconclusive("could not tabulate the resize plans")
    if open(plan).read().split("PlanTab")[-1] != open(os.path.join(vlib.SPEC, "ResizePlan.tla")).read().split("PlanTab")[-1]:
        ctx.notes.append("resize plans differ from the committed spec/ResizePlan.tla (regenerated table used)")
    files = {"ResizePlan.tla": plan}

    # 1. (M) the design
    mcs = [("C22_mc_quick", False)] if not thorough else [("C22_mc_joiner", False), ("C22_mc_all", False), ("C22_mc_table", False)]
    for cfg, _ in mcs:
        m = ctx.modelcheck("Resize", cfg, files=files, timeout=1500, workers=4)
        if m.violation:
            raise vlib.Inconclusive("the specification of the repaired protocol violates its own properties (%s):\n%s"
                                    % (cfg, m.violation[:2500]))
    # lock order (c.mu before j.mu): the design has no cycle in the wait-for graph; a completion
    # handler that reads cluster state while it holds j.mu has one
    m = ctx.modelcheck("Resize", "C22_mc_locks_t" if thorough else "C22_mc_locks", files=files, timeout=1500, workers=4)
    if m.violation:
        raise vlib.Inconclusive("the lock model of the repaired protocol violates its own properties:\n%s" % m.violation[:2500])
    m = ctx.modelcheck("Resize", "C22_mc_locks_inv", files=files, timeout=600, workers=2)
    if not m.violation or "NoLockCycle" not in m.violation:
        raise vlib.Inconclusive("NoLockCycle is vacuous: the model with the lock-order inversion satisfies it")
    ctx.notes.append("HandlerReadsState=TRUE (j.mu then c.mu) violates: " + m.violation.splitlines()[0])
    ctx.tlc_runs[-1][2].violation = None  # expected counterexample
    m = ctx.modelcheck("Resize", "C22_mc_orig", files=files, timeout=600, workers=2)
    if not m.violation:
        raise vlib.Inconclusive("the properties are vacuous: the model of the unrepaired code satisfies them")
    ctx.notes.append("Variant=orig (code before the repairs) violates: " + m.violation.splitlines()[0])
    ctx.tlc_runs[-1][2].violation = None  # expected counterexample

    # 1b. (P) unbounded safety of the abstract machine: IndInv is inductive for any Jobs, Nodes and
    # any length (spec/ResizeAbsProof.tla, TLAPS).  A statement about the specification, never a
    # verdict about the code; a failed or missing proof makes the run inconclusive.  Two negative
    # controls (thorough tier, ~1 min each) show that the obligations constrain something: Start without its `no job runs` guard,
    # End(DONE) without its `every target node reported` guard.
    if True:
        ok, nobl, nfail, tail = vlib.tlapm("ResizeAbsProof", ctx.scratch, timeout=900)
        if ok is None and not thorough:
            # the proof is supplementary: a prover that cannot be run does not stop the quick tier
            ctx.notes.append("TLAPS gave no verdict on ResizeAbsProof (not run / timed out): %s" % tail[-300:])
        elif ok is not True:
            ctx.inconclusive.append("TLAPS did not prove ResizeAbsProof (%s): %s" % (
                "failed obligations" if ok is False else "no verdict", tail[-600:]))
        else:
            ctx.notes.append("TLAPS: all %d obligations of ResizeAbsProof proved (IndInv inductive for any Jobs/Nodes; "
                             "AtMostOneJob, NoHandlerStuck, DoneHadAllOks, MembershipStep)" % nobl)
            ctrls = [("start-unguarded", [("    /\\ arunning = {} /\\ Fresh(j)\n    /\\ arunning' = {j}",
                                           "    /\\ Fresh(j)\n    /\\ arunning' = arunning \\cup {j}")]),
                     ("done-unguarded", [("    /\\ res = \"DONE\" => atarget[j] \\subseteq aoks[j]\n", "")])]
            for name, edits in (ctrls if thorough else []):
                cok, cn, cf, ctail = vlib.tlapm("ResizeAbsProof", ctx.scratch, subst={"ResizeAbs.tla": edits}, timeout=900)
                if cok is False:
                    ctx.notes.append("TLAPS negative control %s: %d of %d obligations fail, as they must" % (name, cf, cn))
                else:
                    ctx.inconclusive.append("TLAPS negative control %s did not fail (%s): the proof is vacuous or the tool misbehaved: %s"
                                            % (name, cok, ctail[-300:]))

    # 2. (G)+(A)
    two = json.dumps({"Members": ["n0", "n1"], "ReplicaN": 2, "PartN": 12, "Hasher": "mod", "Shards": 8})
    runs = []
    # every interleaving of one ADD job (one node to answer) with abort / duplicate / error
    runs.append(("C22_gen_fine2", "fine", dict(mode="bfs", timeout=600), {"VERIF_CFG": two}, False))
    if thorough:
        # every interleaving of one REMOVE job (two nodes to answer) with abort / duplicate / error
        runs.append(("C22_gen_fine3", "fine", dict(mode="bfs", timeout=900), {}, True))
        runs.append(("C22_gen_sync4", "sync", dict(mode="bfs", timeout=1500), {}, True))
        runs.append(("C22_gen_sync7", "sync", dict(mode="simulate", num=2000, depth=200, timeout=900), {}, True))
        runs.append(("C22_gen_fine", "fine", dict(mode="simulate", num=2500, depth=26, timeout=900), {}, True))
    else:
        runs.append(("C22_gen_sync7", "sync", dict(mode="simulate", num=250, depth=200, timeout=600), {}, True))
        runs.append(("C22_gen_fine", "fine", dict(mode="simulate", num=250, depth=26, timeout=600), {}, True))
    traces = []
    for cfg, gran, kw, xenv, impl in runs:
        r = ctx.generate("Resize", cfg, files=files, **kw)
        tr = os.path.join(ctx.scratch, "trace-%s.ndjson" % cfg)
        env = {"VERIF_GRAN": gran, "VERIF_TRACE_OUT": tr, "VERIF_TRACE_MAX": 1500 if thorough else 300}
        env.update(xenv)
        ctx.drive(PKG, "TestC22", beh=r.behaviours, env=env, label="C22/" + cfg, timeout=2400)
        renv = {"VERIF_GRAN": gran}
        renv.update(xenv)
        traces.append(("C22/" + cfg, tr, renv, impl))
    tr = os.path.join(ctx.scratch, "trace-free.ndjson")
    env = {"VERIF_GRAN": "free", "VERIF_N": 1500 if thorough else 150, "VERIF_TRACE_OUT": tr,
           "VERIF_TRACE_MAX": 1500 if thorough else 300}
    ctx.drive(PKG, "TestC22", env=env, label="C22/free", timeout=2400)
    traces.append(("C22/free", tr, {"VERIF_GRAN": "free"}, True))
    # lock order: a completion handler held under j.mu while ResizeAbort / completeCurrentJob take
    # c.mu and wait for j.mu (gate:complete), and handler || abort started together
    tr = os.path.join(ctx.scratch, "trace-race.ndjson")
    env = {"VERIF_GRAN": "race", "VERIF_N": 400 if thorough else 80, "VERIF_TRACE_OUT": tr, "VERIF_TRACE_MAX": 400}
    ctx.drive(PKG, "TestC22", env=env, label="C22/race", timeout=2400)
    traces.append(("C22/race", tr, {"VERIF_GRAN": "race"}, True))

    # 3. (B)
    _validate(ctx, traces, plan, impl_sims=300 if thorough else 50)
    # the repository's own resize tests, hooks recording (abstract specification only: the
    # implementation-level constants describe the harness's cluster)
    repo_runs = []
    if thorough:
        repo_runs = [("root", ".", "TestCluster_ResizeStates", 600), ("server", "./server/", "TestClusterResize", 900)]
    for label, pkg, rx, to in repo_runs:
        tr = _repo_trace(ctx, label, pkg, rx, to)
        if tr is None:
            continue
        r = vlib.tlc("TraceResizeAbs", "TraceResizeAbs", ctx.scratch, files={"trace.ndjson": tr}, workers=1, timeout=600)
        ctx.tlc_runs.append(("TraceResizeAbs", "repo-" + label, r))
        ok, prefix = _verdict(r)
        nev = sum(1 for _ in open(tr))
        vlib.log("trace repo tests %s %s: %d events: %s" % (pkg, rx, nev, "accepted" if ok else "REJECTED at %d" % prefix if ok is False else "no verdict"))
        if ok:
            ctx.validated += nev
        elif ok is False:
            ev = open(tr).read().splitlines()[min(prefix, nev - 1)]
            # the repository's tests are not ours to replay deterministically: reported, never a verdict by itself
            ctx.inconclusive.append("execution of the repository's test %s %s rejected by TraceResizeAbs at event %d: %s" % (pkg, rx, prefix, ev))
        else:
            ctx.notes.append("repo trace %s: no verdict: %s" % (label, (r.violation or r.out_tail)[-500:]))
    ctx.exhaustive = False
