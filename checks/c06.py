"""C06 — malformed external input is rejected without crashing the server.

spec/Malformed.tla is (G) a generator of abstract inputs — a valid abstract roaring
encoding plus one or two structured corruptions, PQL token strings and deep nests,
cluster messages (type byte x body class), each with the entry point it is submitted
through — and (M) the abstract server the outcome classes refer to (lock, containers
inspected then applied, Accepted/Rejected, follow-up), whose invariants
RejectLeavesState / LockReleased / NeverCrash / Served TLC checks.

harness/bind/malb TestC06 materialises every case to bytes with its own encoders and
submits it through the named entry point (roaring.Bitmap, fragment file, in-process
server API, HTTP, gossip delegate) in child processes; the oracle is the outcome class
only: accepted or rejected, never crash or hang; on rejection the stored data is
unchanged; afterwards a valid request is served (DESIGN.md 6/C06)."""

import os

LEVEL = "exploration"


ENTRIES = ["unmarshal", "irb_set_slice", "irb_clear_slice", "irb_set_btree", "irb_clear_btree", "frag_open",
           "api_import_set", "api_import_clear", "api_import_views", "http_import_set", "http_import_clear",
           "api_import_env", "http_import_env",
           "api_query", "http_query", "api_msg", "http_msg", "gossip_msg", "gossip_merge"]


def run(ctx):
    thorough = ctx.tier == "thorough"
    ctx.rule = ("case = (entry point, abstract valid encoding [format, 1-3 containers of type array/bitmap/run, "
                "op-log tail], 0-2 structured corruptions [named field := adversarial value | truncation at a "
                "section boundary -1/0/+1 | unsorted/duplicate keys | op-tail damage]) or (entry point, PQL token "
                "string / deep nest) or (entry point, message type byte, body class) or (entry point, import request "
                "envelope: view map absent/present, 0-2 views [name x data class], clear flag), enumerated by TLC from "
                "spec/Malformed.tla: single corruptions exhaustively (BFS) within the tier's scope of shapes, "
                "pairs by seeded simulation. Each case is materialised to bytes by the harness's own encoders and "
                "submitted to the real code in a child process. distinct = distinct case record; non-trivial = "
                "carries at least one corruption (roaring) / any pql or msg case.")
    ctx.trusted += ["harness encoders of the Pilosa and official roaring formats and of the op log (bind/malb/encode.go)",
                    "guard-page placement of payloads (an over-read faults instead of reading the heap)",
                    "pql.ParseString used only to classify PQL text as syntactically malformed or not",
                    "the repository's protobuf serializer for the well-formed message bodies the malformed ones derive from"]
    ctx.assumptions += [
        "grammar-level enumeration of structured corruptions, not arbitrary random bytes (DESIGN.md 7)",
        "outcome class only: which inputs are accepted and what an accepted malformed input stores is not judged",
        "for PQL, 'a rejected request leaves stored data unchanged' is enforced for text that does not parse; a "
        "well-formed multi-call query whose later call fails has run its earlier calls (calls are sequential)",
        "an accepted cluster message may take the node out of service; the next case then gets a fresh server",
        "the gossip delegate reports no outcome: only crash/hang are judged there",
        "views and fragments that hold no bits are not stored data"]

    # (M) the abstract server
    m = ctx.modelcheck("Malformed", "C06_mc", timeout=300)
    if m.violation:
        ctx.inconclusive.append("the abstract server of spec/Malformed.tla violates its own properties:\n" + m.violation[:1500])
        return
    if thorough:
        # the as-found design (apply container by container, worker without recover) must
        # be refuted by the same properties: otherwise they are vacuous
        a = ctx.modelcheck("Malformed", "C06_mc_asfound", timeout=300)
        if not a.violation:
            ctx.inconclusive.append("C06_mc_asfound: the as-found server design satisfies the properties (vacuous model)")
            return
        ctx.notes.append("C06_mc_asfound: expected counterexample (apply-as-you-go / worker without recover) found")

    gens = []
    if not thorough:
        gens.append(("C06_q", dict(mode="bfs")))
        gens.append(("C06_sim", dict(mode="simulate", num=400, depth=12)))
    else:
        gens.append(("C06_q", dict(mode="bfs")))   # the quick scope is part of the thorough one
        gens.append(("C06_t_roaring", dict(mode="bfs")))
        gens.append(("C06_t_tails", dict(mode="bfs")))
        gens.append(("C06_t_rest", dict(mode="bfs")))
        gens.append(("C06_sim", dict(mode="simulate", num=7000, depth=12)))
    allb = os.path.join(ctx.scratch, "c06_all.ndjson")
    with open(allb, "w") as out:
        for cfg, kw in gens:
            r = ctx.generate("Malformed", cfg, timeout=900, **kw)
            with open(r.behaviours) as f:
                for line in f:
                    out.write(line)
    ctx.exhaustive = False
    res = ctx.drive("bind/malb", "TestC06", beh=allb, label="C06/all", timeout=3000)
    if res is not None and not res.get("failures"):
        # vacuity, judged on the deterministic CONTROL cases only (the same for every
        # seed: spec CtlEntries / IsControl in the harness): every entry point was
        # exercised and answered both outcome classes where it reports one
        cov = res.get("coverage") or {}
        for e in ENTRIES:
            if not cov.get("entry:" + e):
                ctx.inconclusive.append("no case reached entry point %s" % e)
            elif not e.startswith("gossip_"):
                for cl in ("accepted", "rejected"):
                    if not cov.get("ctl:%s:%s" % (e, cl)):
                        ctx.inconclusive.append("entry point %s answered no control case with %s" % (e, cl))
