"""C01 — roaring reads and set operations match set semantics.

spec/RoaringC01.tla enumerates (operands, provenances, one read/operation) with the
expected result from RoaringOps; harness/bind/roaringb TestC01 replays every behaviour
under several gamma profiles (DESIGN.md 2.4, 6/C01)."""

LEVEL = "model_checking"

# (cfg, family, K, M, quick: (mode, num), thorough: (mode, num))
RUNS = [
    ("C01_range_1x4", "range", 1, 4, ("simulate", 2500), ("bfs", None)),
    ("C01_read_1x4", "read", 1, 4, ("simulate", 800), ("bfs", None)),
    ("C01_binary_1x4", "binary", 1, 4, ("simulate", 3000), ("bfs", None)),
    ("C01_nary_1x3", "nary", 1, 3, ("simulate", 800), ("simulate", 5000)),
    ("C01_shiftflip_1x4", "shiftflip", 1, 4, ("simulate", 600), ("bfs", None)),
    ("C01_range_2x2", "range", 2, 2, ("simulate", 1200), ("bfs", None)),
    ("C01_binary_2x2", "binary", 2, 2, ("simulate", 1200), ("simulate", 8000)),
    ("C01_range_3x1", "range", 3, 1, ("simulate", 500), ("bfs", None)),
    ("C01_binary_3x1", "binary", 3, 1, ("simulate", 600), ("bfs", None)),
    ("C01_nary_3x1", "nary", 3, 1, ("simulate", 400), ("simulate", 4000)),
    ("C01_read_2x2", "read", 2, 2, ("simulate", 400), ("bfs", None)),
    ("C01_shiftflip_2x2", "shiftflip", 2, 2, ("simulate", 300), ("bfs", None)),
    ("C01_shiftflip_3x1", "shiftflip", 3, 1, ("simulate", 300), ("bfs", None)),
    ("C01_shiftflip_1x6", "shiftflip", 1, 6, ("simulate", 400), ("simulate", 4000)),
]


def run(ctx):
    thorough = ctx.tier == "thorough"
    ctx.rule = ("behaviour = (operand subsets A,B,C of a K x M abstract universe, provenance of each, "
                "one read/operation with abstract arguments); TLC enumerates them (BFS) or samples them "
                "(-simulate, seeded); each is replayed under several gamma profiles x cut-point variants. "
                "distinct = distinct (behaviour, profile, variant); non-trivial = operand A non-empty.")
    ctx.trusted += ["gamma materialisation (harness/gamma)", "reference official-roaring encoder (bind/roaringb/build.go)",
                    "Shift expectation v+1 computed in the harness"]
    ctx.assumptions += ["ranges with start > end and Flip ending at 2^64-1 are outside the API contract and not generated",
                        "official-format provenance limited to 32-bit values and fewer than 4 run containers"]
    exhaustive = True
    import os
    only = os.environ.get("VERIF_ONLY", "")   # development aid: run only the cfgs containing this substring
    for cfg, fam, K, M, q, t in RUNS:
        if only and only not in cfg:
            continue
        mode, num = t if thorough else q
        if mode == "simulate":
            exhaustive = False
        r = ctx.generate("RoaringC01", cfg, mode=mode, num=num, depth=2, timeout=600)
        ctx.drive("bind/roaringb", "TestC01", beh=r.behaviours,
                  env={"VERIF_FAMILY": fam, "VERIF_K": K, "VERIF_M": M}, label="C01/" + cfg,
                  timeout=2400)
    ctx.exhaustive = exhaustive
