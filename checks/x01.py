"""X01 (extra, not in MANIFEST) — cluster life cycle around the resize protocol.

spec/Lifecycle.tla: per-node cluster objects (state, coordinator, node list with node states and
coordinator flags, topology), one action per handler (Start/setup, Ready/setNodeState, gossip
NodeJoin/NodeLeave -> ReceiveEvent/nodeJoin, ClusterStatus -> mergeClusterStatus, NodeStateMessage ->
receiveNodeState, SetCoordinator/UpdateCoordinator, API.RemoveNode without data, Stop), a network that
reorders and duplicates; properties ExactlyOneCoordinator, SingleLeader, StateMatchesMembership,
ReachesServing, FollowersConverge, NoServeWhileNotReady.
(M) the intended design (Variant "fixed") satisfies all of them; the model of the code as it is
(Variant "code") must not (else the run is vacuous).
(G)+binding A (harness/bind/lifecycleb TestLifecycle): TLC-generated event sequences, incl. every
prefix that ends in a state violating a property, replayed on real cluster/Server/API objects over a
harness-owned network; every node's state / coordinator / node list / topology / joined flag, the
handler result, the messages sent and the API gate are compared after every step."""
import os
import sys

sys.path.insert(0, os.path.dirname(os.path.abspath(__file__)))
import vlib  # noqa: E402

LEVEL = "model_checking"
PKG = "bind/lifecycleb"

FAMILIES = [
    # label, bfs cfg, simulate cfg, env
    ("warm", "LC_gen_warm", "LC_gen_warm_sim", {"VERIF_LC_HASDATA": 1, "VERIF_LC_TOPO": "a,b,c"}),
    ("cold", "LC_gen_cold", "LC_gen_cold_sim", {"VERIF_LC_HASDATA": 1, "VERIF_LC_TOPO": "a,b,c"}),
    ("fresh", "LC_gen_fresh", "LC_gen_fresh_sim", {"VERIF_LC_HASDATA": 0, "VERIF_LC_TOPO": ""}),
]


def run(ctx):
    thorough = ctx.tier == "thorough"
    ctx.rule = ("case = one TLC-generated event sequence (start-up script + free events: stop/start, gossip join/leave incl. "
                "false alarms, status / node-state / coordinator messages delivered in any order or twice, SetCoordinator, "
                "RemoveNode) replayed on 3 real nodes; distinct = distinct sequence; non-trivial = all of them (every step "
                "compares every node)")
    ctx.trusted += ["harness network (queue of serialized messages, delivery through API.ClusterMessage)",
                    "confirmNodeDown answered by the harness (verif hook) from the node's actual liveness"]
    ctx.assumptions += ["hand-over is issued while no message is in flight, to a node that merged the latest status; membership "
                        "events and hand-over messages do not overlap; only nodes that are neither the configured nor the "
                        "current coordinator stop; joins of non-members with data (resize) belong to C22",
                        "a send to a stopped node fails (the sender's handler returns the error), the message is lost"]
    only = os.environ.get("VERIF_X01_ONLY", "")   # development / mutation trials: one family, no (M) runs
    # (M) intended design
    for cfg, to in () if only else (("LC_mc_fresh_fixed", 600),) + ((("LC_mc_warm_fixed", 1200), ("LC_mc_cold_fixed", 900)) if thorough else ()):
        m = ctx.modelcheck("Lifecycle", cfg, timeout=to, workers=4)
        if m.violation:
            raise vlib.Inconclusive("the intended design (Variant fixed) violates a property in %s:\n%s" % (cfg, m.violation[:2500]))
    # (M) the code as it is: must produce a counterexample (the open findings), else the properties are vacuous
    m = None if only else ctx.modelcheck("Lifecycle", "LC_mc_warm", timeout=600, workers=4)
    if only:
        ctx.notes.append("VERIF_X01_ONLY=%s: (M) runs skipped" % only)
    elif not m.violation:
        ctx.inconclusive.append("the model of the code as it is (Variant code) satisfies every property: known defects not reached")
    else:
        ctx.notes.append("Variant code: TLC counterexample as expected (design-defect hypotheses, confirmed on the code by the Viol replays)")

    for label, bfs, sim, env in FAMILIES:
        if only and label != only:
            continue
        e = dict(env)
        e["VERIF_LC_MAX"] = 6000 if thorough else 600
        if thorough or label != "cold":   # the exhaustive cold-start enumeration (114 k behaviours) is thorough-only
            r = ctx.generate("Lifecycle", bfs, mode="bfs", timeout=1200, workers=4)
            ctx.drive(PKG, "TestLifecycle", beh=r.behaviours, env=e, label="X01/%s/bfs" % label, timeout=1500)
        r = ctx.generate("Lifecycle", sim, mode="simulate", num=(400 if thorough else 60), depth=40, timeout=900, workers=2)
        ctx.drive(PKG, "TestLifecycle", beh=r.behaviours, env=e, label="X01/%s/sim" % label, timeout=1500)
        if label == "warm":
            # binding self-test: a corrupted expected value must be reported
            for kind in (("state", "res") if thorough else (("state", "res")[ctx.seed % 2],)):
                n0, v0, e0, t0 = len(ctx.failures), ctx.validated, ctx.evaluations, ctx.nontrivial
                e2 = dict(e)
                e2.update({"VERIF_LC_CORRUPT": kind, "VERIF_LC_MAX": 40})
                ctx.drive(PKG, "TestLifecycle", beh=r.behaviours, env=e2, label="X01/selftest/" + kind, timeout=600)
                caught = any((f.get("match") or {}).get("symptom") in ("mismatch", "result") for f in ctx.failures[n0:])
                del ctx.failures[n0:]
                ctx.validated, ctx.evaluations, ctx.nontrivial = v0, e0, t0
                if not caught:
                    ctx.inconclusive.append("binding self-test: corrupted expected %s not reported" % kind)
                else:
                    ctx.notes.append("binding self-test (%s): reported" % kind)
    ctx.exhaustive = False
