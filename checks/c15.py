"""C15 - bitmap queries return the set-algebra result over stored data.

spec/Query.tla (Mode "c15") generates behaviours: a stack machine builds PQL expression
trees (Row plain / time range / int condition, Union, Intersect, Difference, Xor, Not,
Shift; depth <= 3, arity <= 3) interleaved with Set / Clear / ClearRow / Store / bulk
import; the specification computes the value of the expression on top of the stack after
every step, the boolean every write returns, and the whole state at the end.
harness/bind/queryb TestC15 renders each step to PQL, runs it through API.Query on 1-node
and 3-node in-process clusters under a seeded refinement (columns straddling shard and
container edges, or a window of consecutive ids over a shard/container edge for Shift) and
compares columns, counts, booleans and the final state."""
import os
import sys

sys.path.insert(0, os.path.dirname(os.path.abspath(__file__)))
import qcommon  # noqa: E402

LEVEL = "model_checking"


def run(ctx):
    thorough = ctx.tier == "thorough"
    if thorough:
        jobs = [("C15_sim", "simulate", 3000, 6), ("C15_window", "simulate", 1500, 3),
                ("C15_noexist", "simulate", 300, 1), ("C15_shift_bfs", "bfs", None, 1),
                ("C15_bfs", "bfs", None, 1), ("C15_store", "bfs", None, 1)]
    else:
        jobs = [("C15_sim", "simulate", 600, 4), ("C15_window", "simulate", 300, 2),
                ("C15_noexist", "simulate", 80, 1), ("C15_shift_bfs", "simulate", 1000, 1),
                # exhaustive: Store of a (shifted) row, then Set of a bit already present on a column
                # no Set/import wrote - existence must record the column (seed C15-3)
                ("C15_store", "bfs", None, 1)]
    # row-level algebra over rows whose segment sets differ (spec/RowAlgebra.tla): every pair of rows
    # over 3 shards x 1 column and 2 shards x 2 columns (a segment may be present and empty) x
    # Union/Merge/Intersect/Difference/Xor, and every triple of 3x1 rows for the n-ary Union (u3),
    # exhaustive in both tiers; 4 shards for the asymmetric ops
    for cfg in (["C15_row_3x1", "C15_row_2x2", "C15_row_u3"] + (["C15_row_4x1"] if thorough else [])):
        r = ctx.generate("RowAlgebra", cfg, mode="bfs", timeout=900, workers=4)
        ctx.drive("bind/queryb", "TestC15Row", beh=r.behaviours, label="C15/" + cfg, timeout=1200)
    res = qcommon.generate_parallel(ctx, jobs)
    for cfg, _, _, _ in jobs:
        beh = qcommon.merge(ctx, res[cfg], cfg)
        ctx.drive("bind/queryb", "TestC15", beh=beh, env=qcommon.cfg_env(cfg), label="C15/" + cfg, timeout=2400)
    if thorough:
        m = ctx.modelcheck("Query", "C15_mc", timeout=2400)
        if m.violation:
            ctx.notes.append("(M) run C15_mc reported: " + m.violation[:500])
            ctx.inconclusive.append("the specification's own invariants (EvalMatches/AlgebraLaws/TypeOK) failed: " + m.violation[:1500])
    ctx.rule = ("behaviour = sequence of stack-machine steps (push leaf / apply operator / Not / Shift / drop) and writes "
                "(Set, Clear, ClearRow, Store, bulk import) chosen by TLC (seeded simulation; BFS over all datasets of two "
                "rows x all programs of 3 steps in the thorough tier); every step is one evaluation of the expression on "
                "top of the stack plus its Count against the specification's value; distinct = distinct behaviour x profile")
    ctx.rule += ("; row family: one behaviour = one binary Row operation on one pair of multi-shard rows (every pair enumerated), "
                 "columns, Count and unchanged operands compared under 3 column refinements")
    ctx.trusted += ["PQL rendering and refinement tables (harness/bind/queryb/render.go, env.go)",
                    "github.com/pilosa/pilosa/test in-process cluster helpers"]
    ctx.assumptions += ["time-range ends are aligned to the quantum's finest unit",
                        "Shift is generated only under the window refinement (consecutive ids)",
                        "an omitted 'from' is rendered as an explicit early timestamp for quanta without a year unit (the view walk from year 1 is correct but takes seconds)",
                        "a bit carried by Shift over a shard edge into an enclosing operator/Not/Store is the open finding C15-shift-shard-carry"]
    ctx.exhaustive = False
