"""C27 — internal messages and responses survive encoding unchanged.

spec/Wire.tla holds one record set per message / request / response / result type the
nodes exchange; TLC enumerates the values (every field takes at least two values — ASSUME
EveryFieldVaries). harness/bind/wireb builds each value by reflection over the real Go
structs (a struct field the spec does not know makes the run inconclusive: stale spec),
and TestC27RoundTrip requires Unmarshal(Marshal(v)) = v (nil = empty), also through
MarshalInternalMessage / getMessage with the type byte. TestC27Damage decodes damaged
encodings of those values (every truncation, byte flips, bytes of another type, random
bytes, every result-type tag with and without its payload, short / unknown cluster
messages): an error or a value, never a panic."""

LEVEL = "model_checking"


def run(ctx):
    thorough = ctx.tier == "thorough"
    ctx.rule = ("behaviour = one value of one message type, enumerated by TLC from the record sets of "
                "spec/Wire.tla (strings ''/'a'/Unicode, numbers 0/1/max/min, nil/empty/populated nested values, "
                "every query-result kind inside QueryResponse); distinct = distinct (type, value); damaged cases = "
                "(type, damaged bytes) derived from the valid encodings, distinct by bytes.")
    ctx.trusted += ["reflection builder and nil=empty comparison (bind/wireb/wire.go)",
                    "hand-made protobuf bytes for the result-tag cases (bind/wireb/c27_test.go)"]
    ctx.assumptions += [
        "nil = empty: a nil pointer / slice / map equals the empty struct / slice / map after decoding; a "
        "RowIdentifiers result may come back behind a pointer",
        "QueryRequest.Index travels in the URL path and IndexInfo.ShardWidth is a build constant reported by the HTTP "
        "schema endpoint only: both are known to the spec and always zero in generated values",
        "a FieldRow carries a row id or a row key, never both; attribute values are string/int64/bool/float64/nil; "
        "slices of pointers hold no nil element; FieldStatus.AvailableShards is never a nil bitmap",
        "the set of types handled by Serializer.Unmarshal is listed in the driver (wireTypes); the broadcast types "
        "are cross-checked against getMessage for every type byte",
    ]
    r = ctx.generate("Wire", "C27_full" if thorough else "C27_quick", mode="bfs", timeout=600)
    ctx.drive("bind/wireb", "TestC27RoundTrip", beh=r.behaviours, label="C27/roundtrip", timeout=900)
    ctx.drive("bind/wireb", "TestC27Damage", beh=r.behaviours, label="C27/damage", timeout=1500)
    ctx.exhaustive = True
