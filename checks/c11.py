"""C11 — anti-entropy repairs every replica to the per-bit majority.

spec/AntiEntropy.tla: R replicas x two views x four positions in two checksum blocks
((0,c0) (0,c1) (99,c0) | (100,c0)); a configuration (divergent view, initiator, contents of
every replica) is chosen step by step, then one pass runs decomposed as the code does it
(CompareBlocks, FetchBlockData, MergeBlock vote with per-replica sets / clears, PushSets(r),
PushClears(r)).  TLC checks MajorityEverywhere / SameView / ChecksumsAgree on the decomposed
pass (M) and emits every configuration with the contents the property demands (G).
harness/bind/aeb TestC11 writes each configuration straight into the nodes' own fragments of
a real in-process cluster (replicas = nodes = R), runs Server.SyncData() on the initiator and
reads every replica back (contents of both views, block checksums).
spec/AntiEntropyHolder.tla adds the shard / owner dimension (holderSyncer.SyncHolder): 3 or 4
nodes with ReplicaN = 2, four shards owned by ring slices that interleave with shards the
initiator does not own; a pass must repair exactly the shards its node owns and leave the
others as they were."""
import concurrent.futures
import os

import vlib

LEVEL = "model_checking"
PKG = "bind/aeb"


def run(ctx):
    thorough = ctx.tier == "thorough"
    ctx.rule = ("case = one configuration enumerated by TLC from spec/AntiEntropy.tla: replica count R, divergent view "
                "(standard / standard_2019), initiator, contents of each replica over 4 positions in 2 blocks (all 2^(4R) for "
                "R = 2 and, thorough, R = 3; seeded samples otherwise), refined to concrete shard / columns by a seeded profile; "
                "executed on a real R-node cluster by Server.SyncData(); distinct = distinct configuration; non-trivial = some "
                "block differs between replicas.")
    ctx.trusted += ["direct writes to a node's own fragment through the verif export (fragment.setBit / clearBit) to create divergence",
                    "in-process cluster of test.MustNewCluster with ReplicaN = number of nodes (real HTTP between nodes)"]
    ctx.assumptions += ["every replica already has the view and the fragment (created by an ordinary replicated write); only contents diverge",
                        "one pass started on one initiator with no concurrent writes",
                        "the view that does not diverge holds the same fixed bits on every replica",
                        "holder-level cases: ReplicaN = 2 on 3 / 4 nodes, set field, standard view only; the placement is observed (API.ShardNodes) and must be a ring slice"]

    plan = [("AntiEntropy", "C11_r2", "bfs", None), ("AntiEntropy", "C11_r3", "bfs" if thorough else "simulate", 300),
            ("AntiEntropy", "C11_r4", "simulate", 1500 if thorough else 40),
            # the shard / owner dimension: more nodes (3, 4) than replicas (2), four shards whose owners
            # interleave with shards the initiator does not own; a pass repairs exactly the owned shards
            ("AntiEntropyHolder", "C11_holder", "simulate", 1500 if thorough else 150)]

    def gen(spec, cfg, mode, num):
        if mode == "bfs":
            return ctx.generate(spec, cfg, mode="bfs", timeout=1500, workers=4)
        return ctx.generate(spec, cfg, mode="simulate", num=num, depth=40, timeout=900)

    # TLC runs side by side with the harness build and with the cluster runs (most of a small
    # TLC run is JVM start-up)
    with concurrent.futures.ThreadPoolExecutor(max_workers=3) as ex:
        futs = [(cfg, ex.submit(gen, spec, cfg, mode, num)) for spec, cfg, mode, num in plan]
        # (M) sensitivity: the specification with a known defect switched on must violate its invariants
        sens = [(cfg, ex.submit(ctx.modelcheck, "AntiEntropy", cfg, mode="simulate", num=400, depth=40, timeout=600))
                for cfg in ("C11_mc_clearsfromsets", "C11_mc_clearstostandard")]
        ctx.binary(PKG)
        for cfg, fu in futs:
            r = fu.result()
            ctx.drive(PKG, "TestC11", beh=r.behaviours, label="C11/" + cfg, timeout=2400)
        for cfg, fu in sens:
            if not fu.result().violation:
                ctx.inconclusive.append("%s: the defect variant of the specification satisfies every invariant (spec insensitive)" % cfg)

    # binding self-test: one falsified expected bit per case must be reported for every case
    n0, v0, e0, t0 = len(ctx.failures), ctx.validated, ctx.evaluations, ctx.nontrivial
    r3 = [r for s, c, r in ctx.tlc_runs if c == "C11_r3"][0]
    res = ctx.drive(PKG, "TestC11", beh=r3.behaviours, env={"VERIF_CORRUPT": 1, "VERIF_MAXCASES": 25}, label="C11/selftest", timeout=600)
    if res is not None:
        nf = int((res.get("coverage") or {}).get("failure_signatures") and sum((res["coverage"]["failure_signatures"]).values()) or 0)
        del ctx.failures[n0:]
        ctx.validated, ctx.evaluations, ctx.nontrivial = v0, e0, t0
        if nf < int(res.get("evaluations", 0)) or nf == 0:
            ctx.inconclusive.append("binding self-test: %d of %d cases with a falsified expected bit were reported" % (nf, res.get("evaluations", 0)))
        else:
            ctx.notes.append("binding self-test: %d cases with one falsified expected bit, all reported" % nf)
    ctx.exhaustive = thorough
