"""Shared by c12.py and c13.py: concurrent TLC generation and seeded down-sampling."""
import os
import random
import sys
import threading

sys.path.insert(0, os.path.join(os.path.dirname(os.path.dirname(os.path.abspath(__file__))), "tools"))
import vlib  # noqa: E402


def generate_all(ctx, jobs, spec):
    """Run the TLC jobs (cfg, mode, num) concurrently (the JVM start-up dominates on a busy
    machine); returns {cfg: TlcResult}. Raises Inconclusive on a TLC error or empty output."""
    out, errors, lock = {}, [], threading.Lock()

    def one(cfg, mode, num):
        try:
            r = vlib.tlc(spec, cfg, ctx.scratch, mode=mode, num=num, depth=40, seed=ctx.seed, timeout=900,
                         out=os.path.join(ctx.scratch, cfg + ".ndjson"), workers=(1 if mode == "simulate" else 2))
        except vlib.Inconclusive as e:
            with lock:
                errors.append(str(e))
            return
        with lock:
            ctx.tlc_runs.append((spec, cfg, r))
            if r.violation:
                errors.append("TLC reported an error in %s/%s:\n%s" % (spec, cfg, r.violation[:3000]))
            elif r.n_behaviours == 0:
                errors.append("TLC produced no behaviours for %s/%s\n%s" % (spec, cfg, r.out_tail))
            else:
                out[cfg] = r
        vlib.log("TLC %s/%s %s: %d behaviours, %d generated / %d distinct states, %.1fs"
                 % (spec, cfg, mode, r.n_behaviours, r.generated, r.distinct, r.wall_s))

    threads = [threading.Thread(target=one, args=j) for j in jobs]
    for i in range(0, len(threads), 4):
        for t in threads[i:i + 4]:
            t.start()
        for t in threads[i:i + 4]:
            t.join()
    if errors:
        raise vlib.Inconclusive("\n".join(errors))
    return out


def sample(path, n, seed):
    """TLC's simulation prints every successor of the last state of every trace (one
    behaviour per enabled action instance): keep a seeded sample of n of them."""
    with open(path) as f:
        lines = f.readlines()
    if len(lines) <= n:
        return path, len(lines)
    rnd = random.Random(seed * 7919 + len(lines))
    keep = sorted(rnd.sample(range(len(lines)), n))
    out = path[:-7] + ".sample.ndjson"
    with open(out, "w") as f:
        for i in keep:
            f.write(lines[i])
    return out, n

OPS = {"mutex": ["Set", "Clear", "Import", "ClearImport", "ClearRow", "Roaring"],
       "bool": ["Set", "Clear", "Import", "ClearImport", "ClearRow", "Roaring", "BadRow"]}
