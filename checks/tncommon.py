"""Shared by c12.py and c13.py: concurrent TLC generation and seeded down-sampling."""
import os
import random
import sys
import threading

sys.path.insert(0, os.path.join(os.path.dirname(os.path.dirname(os.path.abspath(__file__))), "tools"))
import vlib  # noqa: E402


def generate_all(ctx, jobs, spec):
    """Run the TLC jobs concurrently (the JVM start-up dominates on a busy machine). A job is
    (cfg, mode, num) with mode bfs | simulate (behaviour generation from `spec`), or
    (cfg, "mc", module) / (cfg, "mc_expect", module): a design-level model-checking run of
    `module` that must find no counterexample / must find one. Returns {cfg: TlcResult}.
    Raises Inconclusive on a TLC error, an empty output or an unexpected (M) outcome."""
    out, errors, lock = {}, [], threading.Lock()

    def one(cfg, mode, arg):
        mc = mode in ("mc", "mc_expect")
        mod = arg if mc else spec
        try:
            if mc:
                r = vlib.tlc(mod, cfg, ctx.scratch, mode="bfs", seed=ctx.seed, timeout=1500, out=None, workers=2)
            else:
                r = vlib.tlc(mod, cfg, ctx.scratch, mode=mode, num=arg, depth=40, seed=ctx.seed, timeout=900,
                             out=os.path.join(ctx.scratch, cfg + ".ndjson"), workers=(1 if mode == "simulate" else 2))
        except vlib.Inconclusive as e:
            with lock:
                errors.append(str(e))
            return
        with lock:
            ctx.tlc_runs.append((mod, cfg, r))
            if mode == "mc_expect":
                if not r.violation:
                    errors.append("%s/%s: the design model no longer reproduces the defect it was written to show" % (mod, cfg))
                out[cfg] = r
            elif r.violation:
                errors.append("TLC reported an error in %s/%s:\n%s" % (mod, cfg, r.violation[:3000]))
            elif not mc and r.n_behaviours == 0:
                errors.append("TLC produced no behaviours for %s/%s\n%s" % (mod, cfg, r.out_tail))
            else:
                out[cfg] = r
        vlib.log("TLC %s/%s %s: %d behaviours, %d generated / %d distinct states, %.1fs%s"
                 % (mod, cfg, mode, r.n_behaviours, r.generated, r.distinct, r.wall_s,
                    " (counterexample, as expected)" if mode == "mc_expect" and r.violation else ""))

    threads = [threading.Thread(target=one, args=j) for j in jobs]
    for i in range(0, len(threads), 5):
        for t in threads[i:i + 5]:
            t.start()
        for t in threads[i:i + 5]:
            t.join()
    if errors:
        raise vlib.Inconclusive("\n".join(errors))
    return out


def sample(path, n, seed):
    """TLC's simulation prints every successor of the last state of every trace (one
    behaviour per enabled action instance): keep a seeded sample of n of them."""
    with open(path) as f:
        lines = f.readlines()
    if len(lines) <= n:
        return path, len(lines)
    rnd = random.Random(seed * 7919 + len(lines))
    keep = sorted(rnd.sample(range(len(lines)), n))
    out = path[:-7] + ".sample.ndjson"
    with open(out, "w") as f:
        for i in keep:
            f.write(lines[i])
    return out, n

OPS = {"mutex": ["Set", "Clear", "Import", "ClearImport", "ClearRow", "Roaring"],
       "bool": ["Set", "Clear", "Import", "ClearImport", "ClearRow", "Roaring", "BadRow"]}
