#!/bin/sh
# seedloop.sh <outfile>: process every complete /tmp/seedout/<ID>-<n>/ not yet in /verif/seeded
out=${1:-/tmp/seedloop.log}
for d in /tmp/seedout/C*-*/; do
  n=$(basename "$d")
  [ -f "$d/patch.diff" ] && [ -f "$d/meta.json" ] || continue
  [ -d "/verif/seeded/$n" ] && continue
  id=${n%%-*}
  echo "=== $n" >> "$out"
  python3 /verif/tools/seedtest.py "$d" "$id" --keep-as "$n" >> "$out" 2>&1
done
