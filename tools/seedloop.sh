#!/bin/sh
# seedloop.sh [workers]: confirm every complete /tmp/seedout/<ID>-<n>/ not yet in /verif/seeded and
# run the property's check against it (tools/seedtest.py), several at a time. One log per seed
# in /tmp/seedlogs/. A lock directory per seed makes concurrent invocations safe.
workers=${1:-3}
mkdir -p /tmp/seedlogs /tmp/seedlock
ls -d /tmp/seedout/C*-*/ 2>/dev/null | while read d; do
  n=$(basename "$d")
  [ -f "$d/patch.diff" ] && [ -f "$d/meta.json" ] || continue
  [ -d "/verif/seeded/$n" ] && continue
  echo "$n"
done | xargs -P "$workers" -I{} sh -c '
  n={}; mkdir /tmp/seedlock/$n 2>/dev/null || exit 0
  id=${n%%-*}
  python3 /verif/tools/seedtest.py /tmp/seedout/$n $id --keep-as $n > /tmp/seedlogs/$n.log 2>&1
'
