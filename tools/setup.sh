#!/bin/sh
# setup: offline; warm the Go build cache for the harness and syntax-check the specs.
set -e
cd "$(dirname "$0")/.."
export GOFLAGS=-mod=mod GOPROXY=off GOSUMDB=off GOTOOLCHAIN=local
cp /repo/go.sum harness/go.sum 2>/dev/null || true
(cd harness && go build ./... && go vet -tags verif ./... >/dev/null 2>&1 || true)
(cd harness && go test -tags verif -count=1 -run '^$' ./... >/dev/null 2>&1 || true)
tmp=$(mktemp -d)
cp spec/*.tla "$tmp"/
fail=0
for f in "$tmp"/*.tla; do
  (cd "$tmp" && tla-sany "$(basename "$f")" >/dev/null 2>&1) || { echo "SANY failed: $(basename "$f")"; fail=1; }
done
rm -rf "$tmp"
mkdir -p evidence replays
exit 0
