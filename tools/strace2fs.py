#!/usr/bin/env python3
"""strace2fs — rebuild every crash image of a data directory from an strace log (C09).

Input: the log of
  strace -f -y -xx -s 200000 -e trace=openat,write,pwrite64,rename,renameat,renameat2,
         unlink,unlinkat,ftruncate,fsync,fdatasync,mkdir,mkdirat -o <log> <driver>
where the driver starts from a copy of --base at --root and writes "C09MARK ..." lines
to stderr (OPEN, BEGIN k op, ACK k, ERR k, QUIET, CLOSED).

Process-kill model: a completed syscall persists, nothing after the kill happens. A
syscall's effect is placed where strace reports its completion (the "resumed" line of an
interrupted call), which respects every happens-before order between threads.

Output in --out:
  events.json   every data-directory syscall and marker in order, classified with the
                action names of spec/Durability.tla (act, unit, op = in-flight step)
  points.json   the crash points: one per state-changing data-directory syscall after
                the OPEN marker (and one for the state at OPEN), with the image number,
                the action it follows, per unit the last action that changed it (`last`)
                and the obligations that hold while the image is the directory state:
                list of [acked, inflight] (inflight = 0: none)
  img/<n>/      the directory image of crash point n (omitted with --no-images)

Only paths below --root are reconstructed. `.data` files (boltdb attribute stores, out of
the property's scope and never opened by the recovering holder) are hard-linked between
images instead of copied.
"""
import argparse
import json
import os
import re
import shutil
import sys

HEXRUN = re.compile(r'((?:\\x[0-9a-f]{2})+)')


def unhex_bytes(s):
    """strace -xx string body -> bytes."""
    out = bytearray()
    i, n = 0, len(s)
    while i < n:
        if s[i] == '\\' and i + 3 < n and s[i + 1] == 'x':
            out.append(int(s[i + 2:i + 4], 16))
            i += 4
        else:
            out.append(ord(s[i]))
            i += 1
    return bytes(out)


def unhex_str(s):
    return unhex_bytes(s).decode('utf-8', 'surrogateescape')


LINE = re.compile(r'^(\d+)\s+(.*)$')
RESUMED = re.compile(r'^<\.\.\. (\w+) resumed>(.*)$')
CALL = re.compile(r'^(\w+)\((.*)\)\s+= (-?\d+|\?)(.*)$', re.S)
FDARG = r'(\d+)<((?:\\x[0-9a-f]{2})*)>'
STR = r'"((?:\\x[0-9a-f]{2})*)"(\.\.\.)?'
ATFD = r'(?:AT_FDCWD|\d+)<((?:\\x[0-9a-f]{2})*)>'


def parse(log):
    """Yield (pid, name, args, ret, tail) for every completed syscall in completion order."""
    pending = {}
    for raw in open(log, errors='surrogateescape'):
        m = LINE.match(raw.rstrip('\n'))
        if not m:
            continue
        pid, rest = int(m.group(1)), m.group(2)
        if rest.startswith('+++') or rest.startswith('---'):
            continue
        if rest.endswith('<unfinished ...>'):
            pending[pid] = rest[:-len('<unfinished ...>')].rstrip()
            continue
        r = RESUMED.match(rest)
        if r:
            head = pending.pop(pid, None)
            if head is None:
                continue
            rest = head + r.group(2)
        c = CALL.match(rest)
        if not c:
            raise SystemExit("strace2fs: cannot parse line: %.300s" % rest)
        yield pid, c.group(1), c.group(2), c.group(3), c.group(4)


FRAG = re.compile(r'^([^/]+)/([^/]+)/views/([^/]+)/fragments/(\d+)$')
SNAP = re.compile(r'^([^/]+)/([^/]+)/views/([^/]+)/fragments/(\d+)\.snapshotting$')
CACHE = re.compile(r'^([^/]+)/([^/]+)/views/([^/]+)/fragments/(\d+)\.cache$')
METATMP = re.compile(r'^([^/]+)/([^/]+)\.temp$')
META = re.compile(r'^([^/]+)/([^/]+)/\.meta$')


class Fs:
    def __init__(self, root, cur):
        self.root = os.path.normpath(root)
        self.cur = cur
        self.fds = {}       # fd -> [rel, append, offset]
        self.last_frag_act = {}  # rel -> last write classification

    def rel(self, path, dirpath=None):
        if not path.startswith('/'):
            path = os.path.join(dirpath or '/', path)
        path = os.path.normpath(path)
        if path == self.root:
            return ''
        if path.startswith(self.root + '/'):
            return path[len(self.root) + 1:]
        return None

    def real(self, rel):
        return os.path.join(self.cur, rel) if rel else self.cur

    def cow(self, rel):
        """Break a hard link shared with an image before modifying a file in place."""
        p = self.real(rel)
        try:
            st = os.stat(p)
        except FileNotFoundError:
            return
        if st.st_nlink > 1:
            tmp = p + '.cow~'
            shutil.copy2(p, tmp)
            os.replace(tmp, p)


def classify_write(fs, rel, data):
    """Action name of spec/Durability.tla for a write to rel."""
    m = FRAG.match(rel)
    if m:
        unit = '/'.join(m.groups())
        prev = fs.last_frag_act.get(rel)
        act = 'WriteOther'
        if prev == 'AppendOpHeader':
            act = 'AppendOpPayload'
        elif len(data) == 8 and data[0:2] == b'\x3c\x30':
            act = 'InitFragment'
        elif data and data[0] in (0, 1) and len(data) == 13:
            act = 'AppendOp'
        elif data and data[0] in (2, 3) and len(data) >= 13 and len(data) == 13 + 8 * int.from_bytes(data[1:9], 'little'):
            act = 'AppendOp'
        elif data and data[0] in (4, 5) and len(data) == 17:
            act = 'AppendOpHeader'
        elif data and data[0] in (4, 5) and len(data) == 17 + int.from_bytes(data[1:9], 'little'):
            act = 'AppendOpRoaring'
        elif data and data[0] in (0, 1, 2, 3) and len(data) > 13:
            act = 'AppendOps'   # several op-log entries in one write
        fs.last_frag_act[rel] = act
        return act, unit
    m = SNAP.match(rel)
    if m:
        return 'WriteSnapChunk', '/'.join(m.groups())
    m = CACHE.match(rel)
    if m:
        return 'WriteCache', '/'.join(m.groups())
    m = METATMP.match(rel)
    if m:
        return 'WriteMetaTmp', '/'.join(m.groups())
    if rel == '.keys':
        return 'TranslateWrite', 'keys'
    if rel.endswith('/.data'):
        return 'Bolt', rel
    return 'WriteOther', rel


def classify_path(rel):
    for rx, name in ((FRAG, 'frag'), (SNAP, 'snap'), (CACHE, 'cache'), (METATMP, 'metatmp'), (META, 'meta')):
        m = rx.match(rel)
        if m:
            return name, '/'.join(m.groups())
    if rel == '.keys':
        return 'keys', 'keys'
    if rel.endswith('/.data'):
        return 'bolt', rel
    return 'other', rel


def copy_image(cur, dst):
    """Copy the working directory to dst; boltdb files are hard-linked."""
    for dirpath, dirnames, filenames in os.walk(cur):
        r = os.path.relpath(dirpath, cur)
        d = dst if r == '.' else os.path.join(dst, r)
        os.makedirs(d, exist_ok=True)
        for f in filenames:
            s = os.path.join(dirpath, f)
            if f == '.data':
                os.link(s, os.path.join(d, f))
            else:
                shutil.copyfile(s, os.path.join(d, f))


def main():
    ap = argparse.ArgumentParser()
    ap.add_argument('--log', required=True)
    ap.add_argument('--root', required=True, help='data directory as seen by the traced process')
    ap.add_argument('--base', required=True, help='directory image the traced process started from')
    ap.add_argument('--out', required=True)
    ap.add_argument('--no-images', action='store_true')
    ap.add_argument('--only', type=int, default=None, help='materialise only crash point N')
    a = ap.parse_args()

    os.makedirs(a.out, exist_ok=True)
    cur = os.path.join(a.out, 'cur')
    if os.path.exists(cur):
        shutil.rmtree(cur)
    shutil.copytree(a.base, cur)
    fs = Fs(a.root, cur)
    events = []
    points = []
    opened = False          # OPEN marker seen
    closed = False
    acked = 0
    inflight = 0
    inflight_op = ''
    npoint = 0

    def obligations_add():
        if points:
            ob = [acked, inflight]
            if ob not in points[-1]['obligations']:
                points[-1]['obligations'].append(ob)

    def new_point(ev):
        nonlocal npoint
        p = {'n': npoint, 'event': ev['i'] if ev else -1, 'after': ev['act'] if ev else 'Open',
             'unit': ev.get('unit', '') if ev else '', 'nth': ev.get('nth', 0) if ev else 0,
             'inflight_at': inflight, 'op': inflight_op, 'obligations': [[acked, inflight]],
             'last': dict(last_by_unit)}
        points.append(p)
        if not a.no_images and (a.only is None or a.only == npoint):
            copy_image(cur, os.path.join(a.out, 'img', str(npoint)))
        npoint += 1

    nth_in_op = {}
    last_by_unit = {}   # unit -> [act, nth within the step, step] of the last state-changing syscall on it

    for pid, name, args, ret, tail in parse(a.log):
        if ret == '?' or int(ret) < 0:
            continue
        ev = None
        mutating = False
        if name == 'write':
            m = re.match(r'^' + FDARG + r', ' + STR + r', (\d+)$', args, re.S)
            if not m:
                raise SystemExit("strace2fs: bad write args: %.200s" % args)
            fd, path, body, trunc = int(m.group(1)), unhex_str(m.group(2)), m.group(3), m.group(4)
            n = int(ret)
            rel = fs.rel(path) if path.startswith('/') else None
            if rel is None:
                # not a data-directory file: a marker on the driver's stderr, or irrelevant
                text = unhex_bytes(body[:400]).decode('utf-8', 'replace') if body.startswith('\\x43\\x30\\x39\\x4d') else ''
                if text.startswith('C09MARK '):
                    w = text.strip().split(' ')
                    ev = {'kind': 'mark', 'act': w[1], 'text': text.strip()}
                    if w[1] == 'OPEN':
                        opened = True
                        events.append(dict(ev, i=len(events), pid=pid))
                        new_point(None)
                        continue
                    if w[1] == 'BEGIN':
                        inflight = int(w[2])
                        inflight_op = w[3] if len(w) > 3 else ''
                        nth_in_op.clear()
                    elif w[1] in ('ACK', 'ERR'):
                        acked = int(w[2])
                        inflight = 0
                        inflight_op = ''
                    elif w[1] == 'CLOSED':
                        closed = True
                    events.append(dict(ev, i=len(events), pid=pid))
                    obligations_add()
                continue
            if trunc:
                raise SystemExit("strace2fs: write payload truncated by strace -s (%d bytes to %s)" % (n, rel))
            data = unhex_bytes(body)[:n]
            info = fs.fds.get(fd)
            if info is None or info[0] != rel:
                info = [rel, True, 0]
                fs.fds[fd] = info
            fs.cow(rel)
            p = fs.real(rel)
            if info[1]:
                with open(p, 'ab') as f:
                    f.write(data)
            else:
                with open(p, 'r+b') as f:
                    f.seek(info[2])
                    f.write(data)
                info[2] += n
            act, unit = classify_write(fs, rel, data)
            ev = {'kind': 'fs', 'call': 'write', 'path': rel, 'len': n, 'act': act, 'unit': unit}
            mutating = n > 0
        elif name == 'pwrite64':
            m = re.match(r'^' + FDARG + r', ' + STR + r', (\d+), (\d+)$', args, re.S)
            if not m:
                raise SystemExit("strace2fs: bad pwrite64 args: %.200s" % args)
            path, body, trunc, off = unhex_str(m.group(2)), m.group(3), m.group(4), int(m.group(6))
            rel = fs.rel(path)
            if rel is None:
                continue
            if trunc:
                raise SystemExit("strace2fs: pwrite payload truncated by strace -s (%s)" % rel)
            data = unhex_bytes(body)[:int(ret)]
            fs.cow(rel)
            with open(fs.real(rel), 'r+b') as f:
                f.seek(off)
                f.write(data)
            kind, unit = classify_path(rel)
            ev = {'kind': 'fs', 'call': 'pwrite64', 'path': rel, 'len': int(ret), 'off': off,
                  'act': 'Bolt' if kind == 'bolt' else 'PwriteOther', 'unit': unit}
            mutating = True
        elif name == 'openat':
            m = re.match(r'^' + ATFD + r', ' + STR + r', ([A-Z_|0-9x]+)(?:, (\d+))?$', args, re.S)
            if not m:
                raise SystemExit("strace2fs: bad openat args: %.200s" % args)
            dirp, path, flags = unhex_str(m.group(1)), unhex_str(m.group(2)), m.group(4).split('|')
            rel = fs.rel(path, dirp)
            if rel is None:
                continue
            fd = int(ret)
            p = fs.real(rel)
            existed = os.path.lexists(p)
            kind, unit = classify_path(rel)
            act = 'Open'
            if 'O_CREAT' in flags and not existed:
                open(p, 'wb').close()
                mutating = True
                act = {'frag': 'CreateFragmentFile', 'snap': 'CreateSnapTmp' if 'O_TRUNC' in flags else 'CreateSnapTmpNoTrunc', 'cache': 'CreateCache',
                       'metatmp': 'CreateMetaTmp', 'keys': 'CreateKeys', 'bolt': 'Bolt'}.get(kind, 'CreateOther')
            elif 'O_TRUNC' in flags and existed and not os.path.isdir(p):
                if os.path.getsize(p) > 0:
                    mutating = True
                fs.cow(rel)
                open(p, 'wb').close()
                act = {'snap': 'CreateSnapTmp', 'cache': 'CreateCache', 'metatmp': 'CreateMetaTmp'}.get(kind, 'TruncOther')
            if not os.path.isdir(p):
                fs.fds[fd] = [rel, 'O_APPEND' in flags, 0]
            if kind == 'frag':
                fs.last_frag_act.pop(rel, None)
            ev = {'kind': 'fs', 'call': 'openat', 'path': rel, 'flags': '|'.join(flags), 'act': act, 'unit': unit}
        elif name in ('rename', 'renameat', 'renameat2'):
            if name == 'rename':
                m = re.match(r'^' + STR + r', ' + STR + r'$', args, re.S)
                old, new = (unhex_str(m.group(1)), unhex_str(m.group(3))) if m else (None, None)
                od = nd = None
            else:
                m = re.match(r'^' + ATFD + r', ' + STR + r', ' + ATFD + r', ' + STR + r'(?:, \w+)?$', args, re.S)
                if m:
                    od, old, nd, new = unhex_str(m.group(1)), unhex_str(m.group(2)), unhex_str(m.group(4)), unhex_str(m.group(5))
                else:
                    old = new = od = nd = None
            if old is None:
                raise SystemExit("strace2fs: bad %s args: %.200s" % (name, args))
            ro, rn = fs.rel(old, od), fs.rel(new, nd)
            if ro is None and rn is None:
                continue
            if ro is None or rn is None:
                raise SystemExit("strace2fs: rename across the data directory boundary: %s -> %s" % (old, new))
            os.replace(fs.real(ro), fs.real(rn))
            for info in fs.fds.values():
                if info[0] == ro:
                    info[0] = rn
            ko, uo = classify_path(ro)
            act = {'snap': 'RenameSnap', 'metatmp': 'RenameMeta'}.get(ko, 'RenameOther')
            kn, un = classify_path(rn)
            ev = {'kind': 'fs', 'call': name, 'path': ro, 'to': rn, 'act': act, 'unit': un if ko == 'metatmp' else uo}
            if kn == 'frag':
                fs.last_frag_act.pop(rn, None)
            mutating = True
        elif name in ('unlink', 'unlinkat'):
            if name == 'unlink':
                m = re.match(r'^' + STR + r'$', args, re.S)
                path, dirp = (unhex_str(m.group(1)), None) if m else (None, None)
            else:
                m = re.match(r'^' + ATFD + r', ' + STR + r', (\w+)$', args, re.S)
                path, dirp = (unhex_str(m.group(2)), unhex_str(m.group(1))) if m else (None, None)
            if path is None:
                raise SystemExit("strace2fs: bad %s args: %.200s" % (name, args))
            rel = fs.rel(path, dirp)
            if rel is None:
                continue
            p = fs.real(rel)
            if os.path.isdir(p) and not os.path.islink(p):
                os.rmdir(p)
            else:
                os.unlink(p)
            kind, unit = classify_path(rel)
            ev = {'kind': 'fs', 'call': name, 'path': rel, 'act': 'Unlink', 'unit': unit}
            mutating = True
        elif name == 'ftruncate':
            m = re.match(r'^' + FDARG + r', (\d+)$', args, re.S)
            if not m:
                raise SystemExit("strace2fs: bad ftruncate args: %.200s" % args)
            rel = fs.rel(unhex_str(m.group(2)))
            if rel is None:
                continue
            fs.cow(rel)
            p = fs.real(rel)
            before = os.path.getsize(p)
            os.truncate(p, int(m.group(3)))
            kind, unit = classify_path(rel)
            ev = {'kind': 'fs', 'call': name, 'path': rel, 'len': int(m.group(3)),
                  'act': 'Bolt' if kind == 'bolt' else 'Truncate', 'unit': unit}
            mutating = before != int(m.group(3))
        elif name in ('fsync', 'fdatasync'):
            m = re.match(r'^' + FDARG + r'$', args, re.S)
            if not m:
                continue
            rel = fs.rel(unhex_str(m.group(2)))
            if rel is None:
                continue
            kind, unit = classify_path(rel)
            act = {'keys': 'TranslateSync', 'frag': 'SyncFragment', 'bolt': 'Bolt'}.get(kind, 'SyncOther')
            ev = {'kind': 'fs', 'call': name, 'path': rel, 'act': act, 'unit': unit}
        elif name in ('mkdir', 'mkdirat'):
            if name == 'mkdir':
                m = re.match(r'^' + STR + r', (\d+)$', args, re.S)
                path, dirp = (unhex_str(m.group(1)), None) if m else (None, None)
            else:
                m = re.match(r'^' + ATFD + r', ' + STR + r', (\d+)$', args, re.S)
                path, dirp = (unhex_str(m.group(2)), unhex_str(m.group(1))) if m else (None, None)
            if path is None:
                raise SystemExit("strace2fs: bad %s args: %.200s" % (name, args))
            rel = fs.rel(path, dirp)
            if rel is None:
                continue
            os.makedirs(fs.real(rel), exist_ok=True)
            ev = {'kind': 'fs', 'call': name, 'path': rel, 'act': 'Mkdir', 'unit': rel}
            mutating = True
        else:
            continue
        ev['i'] = len(events)
        ev['pid'] = pid
        ev['op'] = inflight
        ev['mut'] = bool(mutating)
        if opened:
            key = (ev['act'], ev.get('unit', ''))
            nth_in_op[key] = nth_in_op.get(key, 0) + 1
            ev['nth'] = nth_in_op[key]
        events.append(ev)
        if opened and mutating:
            last_by_unit[ev.get('unit', '')] = [ev['act'], ev.get('nth', 0), ev['op']]
            new_point(ev)

    if not opened:
        raise SystemExit("strace2fs: no OPEN marker in the log")
    # how many syscalls of the same action the same step issued on the same unit in total:
    # `last` entries become [act, nth, step, total] (nth < total: the step was interrupted
    # inside its sequence of such syscalls on that unit)
    totals = {}
    for ev in events:
        if ev.get('kind') == 'fs' and ev.get('mut') and 'nth' in ev:
            k = (ev.get('op', 0), ev.get('unit', ''), ev['act'])
            totals[k] = max(totals.get(k, 0), ev['nth'])
    for p in points:
        for unit, l in p['last'].items():
            p['last'][unit] = [l[0], l[1], l[2], totals.get((l[2], unit, l[0]), l[1])]
    json.dump(events, open(os.path.join(a.out, 'events.json'), 'w'))
    json.dump({'points': points, 'closed': closed, 'acked': acked}, open(os.path.join(a.out, 'points.json'), 'w'))
    shutil.rmtree(cur, ignore_errors=True)
    print("strace2fs: %d events, %d crash points" % (len(events), len(points)))


if __name__ == '__main__':
    main()
