#!/bin/sh
# usage: thorough_some.sh <parallel> <ID>...   run the named thorough tiers from the current snapshot
p=$1; shift
printf '%s\n' "$@" | xargs -P "$p" -I{} sh -c 'start=$(date +%s); timeout 5400 ./check {} --tier thorough > thorough-{}.log 2>&1; rc=$?; echo "{} rc=$rc $(( $(date +%s) - start ))s $(grep -c VIOLATION thorough-{}.log) viol" >> thorough-summary.txt'
