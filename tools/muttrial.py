#!/usr/bin/env python3
"""muttrial.py — run hand-made mutation trials against checks, in a scratch worktree.

usage: muttrial.py <trials.json> [name-substring]
trials.json: [{"name":..., "file":..., "old":..., "new":..., "checks":["C01",...]}, ...]
For each trial: create a git worktree of /repo HEAD under /tmp, apply the textual edit,
make sure the package builds, run each check with VERIF_REPO pointing at the worktree,
report exit code and first VIOLATION line, remove the worktree. /repo is never touched.
"""
import json
import os
import subprocess
import sys
import shutil

V = os.path.dirname(os.path.dirname(os.path.abspath(__file__)))


def sh(cmd, **kw):
    return subprocess.run(cmd, shell=True, stdout=subprocess.PIPE, stderr=subprocess.STDOUT, text=True, **kw)


def main():
    trials = json.load(open(sys.argv[1]))
    flt = sys.argv[2] if len(sys.argv) > 2 else ""
    results = []
    for t in trials:
        if flt and flt not in t["name"]:
            continue
        wt = "/tmp/mut-%d-%s" % (os.getpid(), t["name"].replace("/", "_").replace(" ", "_")[:30])
        sh("git -C /repo worktree remove --force %s" % wt)
        r = sh("git -C /repo worktree add --detach %s HEAD" % wt)
        if r.returncode != 0:
            print("worktree failed", r.stdout)
            continue
        try:
            p = os.path.join(wt, t["file"])
            s = open(p).read()
            if s.count(t["old"]) < 1:
                print("TRIAL %s: pattern not found" % t["name"])
                results.append((t["name"], "pattern-not-found"))
                continue
            s = s.replace(t["old"], t["new"], 1)
            open(p, "w").write(s)
            pkg = "./" + os.path.dirname(t["file"]) if os.path.dirname(t["file"]) else "."
            b = sh("cd %s && go build -mod=mod %s" % (wt, pkg))
            if b.returncode != 0:
                print("TRIAL %s: does not build\n%s" % (t["name"], b.stdout[-800:]))
                results.append((t["name"], "no-build"))
                continue
            for cid in t["checks"]:
                env = dict(os.environ)
                env["VERIF_REPO"] = wt
                env["VERIF_EVIDENCE_DIR"] = "/tmp/mut-evidence"
                r = subprocess.run(["./check", cid], cwd=V, env=env, stdout=subprocess.PIPE,
                                   stderr=subprocess.STDOUT, text=True)
                viol = [l for l in r.stdout.splitlines() if l.startswith("VIOLATION")]
                det = [l for l in r.stdout.splitlines() if l.strip().startswith("detail:")]
                print("TRIAL %-40s %s exit=%d %s" % (t["name"], cid, r.returncode, (det[0][:200] if det else (viol[0] if viol else ""))))
                results.append((t["name"], cid, r.returncode))
                sys.stdout.flush()
        finally:
            sh("git -C /repo worktree remove --force %s" % wt)
            shutil.rmtree(wt, ignore_errors=True)
    sh("git -C /repo worktree prune")
    print(json.dumps(results))


if __name__ == "__main__":
    main()
