#!/usr/bin/env python3
"""seedsummary.py — write seeded/SUMMARY.md from seeded/<ID>-<n>/meta.json.

One row per independently seeded defect: what it needs to manifest, the outcome of the
property's quick check the first time it was run against it, and the outcome now (after
the check was strengthened, where it had escaped)."""
import glob
import json
import os

V = os.path.dirname(os.path.dirname(os.path.abspath(__file__)))
# first evaluations whose record was overwritten before seedtest.py learned to keep it
FIRST_MISSED = {"C01-1": "missed (no longruns shape, fixed profiles)", "C04-1": "missed at seed 0 (profile `full` not selected)"}

rows = []
for d in sorted(glob.glob(os.path.join(V, "seeded", "C*-*"))):
    n = os.path.basename(d)
    try:
        m = json.load(open(os.path.join(d, "meta.json")))
    except Exception:
        continue
    pid = n.split("-")[0]
    now = (m.get("checks") or {}).get(pid, {})
    earlier = [e for e in (m.get("earlier_outcomes") or []) if e]
    first = None
    if earlier:
        first = (earlier[0] or {}).get(pid, {})
    conf = m.get("confirmed") or {}
    ok = all(conf.get(k) for k in ("demo_clean_pass", "builds", "demo_patched_fails", "existing_tests_pass"))
    def fmt(o):
        if not o:
            return "—"
        return "caught" if o.get("caught") else "missed (exit %s)" % o.get("exit")
    f = FIRST_MISSED.get(n) or (fmt(first) if first else fmt(now))
    rows.append((n, str(m.get("needs", "")).replace("\n", " ").replace("|", "/")[:220], "yes" if ok else "NO", f, fmt(now),
                 str(now.get("first_detail", "")).replace("\n", " ").replace("|", "/")[:140]))

out = ["# Independently seeded defects and what the checks did with them", "",
       "Each seed was written by a sub-agent that saw only the property text and a scratch worktree;",
       "`confirmed` = the lead reproduced: demo passes clean, patch builds, demo fails patched, the",
       "affected packages' own tests pass patched (tools/seedtest.py). Outcomes are of `./check <ID>`",
       "(quick tier) with VERIF_REPO pointing at a worktree with the patch.", "",
       "| seed | needs | confirmed | first outcome | outcome now | first failing step reported |", "|---|---|---|---|---|---|"]
for r in rows:
    out.append("| %s | %s | %s | %s | %s | %s |" % r)
caught = sum(1 for r in rows if r[4] == "caught")
out += ["", "%d seeds, %d caught by the current checks." % (len(rows), caught)]
open(os.path.join(V, "seeded", "SUMMARY.md"), "w").write("\n".join(out) + "\n")
print("%d seeds, %d caught now" % (len(rows), caught))
for r in rows:
    if r[4] != "caught":
        print("NOT CAUGHT:", r[0], r[4])
