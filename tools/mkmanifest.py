#!/usr/bin/env python3
"""Assemble /verif/MANIFEST.json from checks/*.manifest.json fragments (one per claimed
property) and checks/not_applicable.json. Validates against the schema when jsonschema is
available."""
import glob, json, os, subprocess, sys
V = os.path.dirname(os.path.dirname(os.path.abspath(__file__)))
props = [json.loads(l)["id"] for l in open(os.path.join(V, "properties.jsonl"))]
checks = []
claimed = set()
for f in sorted(glob.glob(os.path.join(V, "checks", "c*.manifest.json"))):
    c = json.load(open(f))
    pid = c["property_id"]
    c.setdefault("quick_cmd", "./check %s --tier quick" % pid)
    c.setdefault("thorough_cmd", "./check %s --tier thorough" % pid)
    c.setdefault("evidence_file", "/verif/evidence/%s.json" % pid)
    c.setdefault("replay_cmd_template", "./check %s --replay {path}" % pid)
    c.setdefault("engine", "tla-mbt")
    checks.append(c)
    claimed.add(pid)
na_path = os.path.join(V, "checks", "not_applicable.json")
na = json.load(open(na_path)) if os.path.exists(na_path) else {}
not_app = []
for p in props:
    if p not in claimed:
        not_app.append({"property_id": p, "reason": na.get(p, "no check built yet in this round; see DESIGN.md §6 for the plan")})
def git(*a):
    try:
        return subprocess.check_output(["git", "-C", "/repo"] + list(a), text=True).strip()
    except Exception:
        return ""
hook_commits = [l.split()[0] for l in git("log", "--format=%h %s", "dd9c868..HEAD").splitlines() if l.split(" ", 1)[1].startswith("verif:")]
m = {
    "version": 1,
    "setup_cmd": "sh tools/setup.sh",
    "hooks": {
        "guard": "verif",
        "enable": "go test -c -tags verif (from /verif/harness, replace github.com/pilosa/pilosa => /repo)",
        "baseline_off_cmd": "cd /repo && go test -mod=mod -json -vet=off -count=1 -timeout 25m ./...",
        "source_commits": hook_commits,
        "add_only": True,
    },
    "engines": [{
        "name": "tla-mbt",
        "path": "/verif/check",
        "serves_properties": sorted(claimed),
        "kind_free_text": "explicit TLA+ specifications (spec/*.tla) model-checked and used as behaviour generators by TLC; behaviours replayed into the real code by Go drivers (harness/bind/*), recorded traces validated by Trace*.tla",
    }],
    "checks": checks,
    "notes": "See DESIGN.md. Exit 0 held / 1 VIOLATION (reproduced from the replay file) / 2 inconclusive. Genuine defects: known_findings.json (+ known_findings.d/).",
    "not_applicable": not_app,
}
out = os.path.join(V, "MANIFEST.json")
json.dump(m, open(out + ".tmp", "w"), indent=1)
try:
    import jsonschema
    jsonschema.validate(m, json.load(open("/root/.vp/MANIFEST.schema.json")))
    print("schema ok")
except ImportError:
    print("jsonschema not available; not validated")
os.replace(out + ".tmp", out)
print("claimed:", sorted(claimed))
