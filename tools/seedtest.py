#!/usr/bin/env python3
"""seedtest.py — confirm an independently seeded defect and run our checks against it.

usage: seedtest.py <seed-dir> <CHECK-ID>[,<CHECK-ID>...] [--pkgs ./roaring/,.] [--keep-as NAME]

<seed-dir> holds patch.diff, a demonstration test file zz_seed_*_test.go and meta.json
(written by a sub-agent that saw only the property text). In a scratch git worktree of
/repo HEAD (never /repo itself):
  1. the demonstration passes on the clean tree;
  2. the patch applies and builds; the demonstration FAILS with it;
  3. the repository's own tests of the affected packages still pass with it;
  4. each named check is run with VERIF_REPO=<worktree>; exit 1 + VIOLATION = caught.
With --keep-as the case is copied to /verif/seeded/<NAME>/ with the outcome in meta.json.
"""
import json
import os
import re
import shutil
import subprocess
import sys
import time

V = os.path.dirname(os.path.dirname(os.path.abspath(__file__)))


def sh(cmd, cwd=None, env=None, timeout=3600):
    p = subprocess.run(cmd, shell=True, cwd=cwd, env=env, stdout=subprocess.PIPE,
                       stderr=subprocess.STDOUT, text=True, timeout=timeout)
    return p.returncode, p.stdout


def main():
    sd = os.path.abspath(sys.argv[1])
    checks = sys.argv[2].split(",")
    pkgs = None
    keep = None
    a = sys.argv[3:]
    while a:
        if a[0] == "--pkgs":
            pkgs = a[1].split(",")
            a = a[2:]
        elif a[0] == "--keep-as":
            keep = a[1]
            a = a[2:]
        else:
            a = a[1:]
    patch = os.path.join(sd, "patch.diff")
    demos = [f for f in os.listdir(sd) if f.endswith("_test.go")]
    touched = re.findall(r"^\+\+\+ b/(\S+)", open(patch).read(), re.M)
    pkgdirs = sorted({os.path.dirname(t) for t in touched})
    if pkgs is None:
        pkgs = ["./" + d + ("/" if d else "") if d else "." for d in pkgdirs]
    demo_pkg = pkgdirs[0] if pkgdirs else ""
    meta_in = {}
    if os.path.exists(os.path.join(sd, "meta.json")):
        try:
            meta_in = json.load(open(os.path.join(sd, "meta.json")))
        except Exception:
            meta_in = {}
    # the demo may live in another package than the patch: meta.demo may say where
    m = re.search(r"(\./[\w/]+/|\s\.\s)", str(meta_in.get("demo", "")))
    wt = "/tmp/seedtest-%d" % os.getpid()
    sh("git -C /repo worktree remove --force %s" % wt)
    rc, out = sh("git -C /repo worktree add --detach %s HEAD" % wt)
    res = {"seed": os.path.basename(sd), "checks": {}, "ran": []}
    try:
        demo_names = []
        for d in demos:
            src = open(os.path.join(sd, d)).read()
            pm = re.search(r"^package (\w+)", src, re.M)
            # place the demo in the package directory whose package name matches
            target = demo_pkg
            for cand in [demo_pkg] + pkgdirs + ["", "roaring", "pql", "ctl", "server", "http", "boltdb", "encoding/proto", "cmd"]:
                pdir = os.path.join(wt, cand)
                if not os.path.isdir(pdir):
                    continue
                names = set()
                for f in os.listdir(pdir):
                    if f.endswith(".go"):
                        mm = re.search(r"^package (\w+)", open(os.path.join(pdir, f)).read(), re.M)
                        if mm:
                            names.add(mm.group(1))
                if pm and (pm.group(1) in names or pm.group(1).replace("_test", "") in names):
                    target = cand
                    break
            shutil.copy(os.path.join(sd, d), os.path.join(wt, target, d))
            demo_names.append((target, d))
        tests = set()
        for target, d in demo_names:
            tests |= set(re.findall(r"^func (Test\w+)\(", open(os.path.join(sd, d)).read(), re.M))
        runexpr = "^(" + "|".join(sorted(tests)) + ")$"
        dpk = "./" + demo_names[0][0] + "/" if demo_names[0][0] else "."
        democmd = "go test -mod=mod -vet=off -count=1 -run '%s' %s" % (runexpr, dpk)
        rc, out = sh(democmd, cwd=wt)
        res["demo_clean_pass"] = rc == 0
        res["ran"].append(democmd + " (clean tree) -> rc %d" % rc)
        rc, out = sh("git apply %s" % patch, cwd=wt)
        if rc != 0:
            # the seed was made on a slightly older commit: try a 3-way apply
            rc, out = sh("git apply --3way %s" % patch, cwd=wt)
        if rc != 0:
            res["error"] = "patch does not apply: " + out[-500:]
            print(json.dumps(res, indent=1))
            return
        rc, out = sh("go build -mod=mod ./...", cwd=wt)
        res["builds"] = rc == 0
        rc, out = sh(democmd, cwd=wt)
        res["demo_patched_fails"] = rc != 0
        res["ran"].append(democmd + " (patched) -> rc %d" % rc)
        # existing tests of affected packages, without the demo
        for target, d in demo_names:
            os.unlink(os.path.join(wt, target, d))
        ok = True
        for p in pkgs:
            t0 = time.time()
            rc, out = sh("go test -mod=mod -vet=off -count=1 %s" % p, cwd=wt)
            # server has one pre-existing failure (TestDuration)
            fails = [l for l in out.splitlines() if l.startswith("--- FAIL")]
            fails = [l for l in fails if "TestDuration" not in l]
            passed = rc == 0 or (p.startswith("./server") and not fails)
            ok = ok and passed
            res["ran"].append("go test %s (patched) -> %s in %.0fs" % (p, "pass" if passed else "FAIL " + ";".join(fails[:3]), time.time() - t0))
        res["existing_tests_pass"] = ok
        for cid in checks:
            env = dict(os.environ)
            env["VERIF_REPO"] = wt
            env["VERIF_EVIDENCE_DIR"] = "/tmp/seedtest-evidence-%d" % os.getpid()
            t0 = time.time()
            p = subprocess.run(["./check", cid], cwd=V, env=env, stdout=subprocess.PIPE, stderr=subprocess.STDOUT, text=True)
            viol = [l for l in p.stdout.splitlines() if l.startswith("VIOLATION")]
            det = [l.strip() for l in p.stdout.splitlines() if l.strip().startswith("detail:")]
            res["checks"][cid] = {"exit": p.returncode, "caught": p.returncode == 1 and bool(viol),
                                  "first_detail": det[0][:400] if det else "", "wall_s": round(time.time() - t0)}
            res["ran"].append("VERIF_REPO=<worktree with patch> ./check %s -> exit %d" % (cid, p.returncode))
            shutil.rmtree(env["VERIF_EVIDENCE_DIR"], ignore_errors=True)
    finally:
        sh("git -C /repo worktree remove --force %s" % wt)
        shutil.rmtree(wt, ignore_errors=True)
        sh("git -C /repo worktree prune")
    print(json.dumps(res, indent=1))
    if keep:
        dst = os.path.join(V, "seeded", keep)
        os.makedirs(dst, exist_ok=True)
        shutil.copy(patch, os.path.join(dst, "patch.diff"))
        for d in demos:
            shutil.copy(os.path.join(sd, d), os.path.join(dst, d))
        meta = dict(meta_in)
        # keep the outcome of earlier runs (a seed that escaped, then was caught after the
        # check was strengthened, shows both)
        old = os.path.join(dst, "meta.json")
        if os.path.exists(old):
            try:
                om = json.load(open(old))
                meta["earlier_outcomes"] = om.get("earlier_outcomes", []) + [om.get("checks")]
            except Exception:
                pass
        meta["confirmed"] = {k: res.get(k) for k in ("demo_clean_pass", "builds", "demo_patched_fails", "existing_tests_pass")}
        meta["what_we_ran"] = res["ran"]
        meta["checks"] = res["checks"]
        json.dump(meta, open(os.path.join(dst, "meta.json"), "w"), indent=1)


if __name__ == "__main__":
    main()
