#!/bin/sh
# vcommit.sh <repo-dir> <message> <path>...   commit only the given paths, serialised by a lock
# (several builders share /verif and /repo).
repo="$1"; MSG="$2"; export MSG; shift 2
exec flock "$repo/.git/verif-commit.lock" sh -c '
  cd "$0" || exit 1
  git add -- "$@" || exit 1
  if git diff --cached --quiet -- "$@"; then echo "nothing to commit"; exit 0; fi
  git commit -q -m "$MSG" -- "$@" && git log --oneline -1
' "$repo" "$@"
