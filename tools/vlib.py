#!/usr/bin/env python3
"""vlib — shared machinery for /verif/check.

Pipeline pieces (DESIGN.md §2.3, §4):
  tlc()        run TLC on a spec/cfg in a scratch dir (BFS or -simulate), collect
               BEH lines (behaviours emitted by the spec's Emit invariant), state
               counts and per-action coverage.
  build()      build a Go test binary of a harness package against the repo tree
               (VERIF_REPO, default /repo) with -tags verif.
  drive()      run the binary on a behaviours file; it writes a result JSON.
  Ctx.finish() match failures against known_findings.json, confirm the rest by
               replaying each in a fresh process, print KNOWN-FINDING / VIOLATION
               lines, write evidence, return the exit code.

Exit codes: 0 held, 1 violation (reproduced), 2 inconclusive.
"""
import hashlib
import json
import os
import re
import shutil
import subprocess
import sys
import tempfile
import time

VERIF = os.path.dirname(os.path.dirname(os.path.abspath(__file__)))
SPEC = os.path.join(VERIF, "spec")
HARNESS = os.path.join(VERIF, "harness")
EVIDENCE = os.path.join(VERIF, "evidence")
REPLAYS = os.path.join(VERIF, "replays")
if os.environ.get("VERIF_EVIDENCE_DIR"):
    # mutation trials against a scratch tree must not overwrite the real evidence
    EVIDENCE = os.path.join(os.environ["VERIF_EVIDENCE_DIR"], "evidence")
    REPLAYS = os.path.join(os.environ["VERIF_EVIDENCE_DIR"], "replays")
KNOWN = os.path.join(VERIF, "known_findings.json")
REPO = os.environ.get("VERIF_REPO", "/repo")
NCPU = os.cpu_count() or 4

GOENV = {
    "GOFLAGS": "-mod=mod",
    "GOPROXY": "off",
    "GOSUMDB": "off",
    "GOTOOLCHAIN": "local",
}


class Inconclusive(Exception):
    pass


def log(*a):
    print(*a, file=sys.stderr, flush=True)


# --------------------------------------------------------------------------- TLC

BEH_RE = re.compile(r'^<<"BEH", "(.*)">>$')


def _unescape(s):
    # TLC prints a TLA+ string: backslash and double quote are escaped.
    out = []
    i = 0
    n = len(s)
    while i < n:
        c = s[i]
        if c == "\\" and i + 1 < n:
            d = s[i + 1]
            if d == "\\" or d == '"':
                out.append(d)
                i += 2
                continue
            if d == "n":
                out.append("\n")
                i += 2
                continue
            if d == "t":
                out.append("\t")
                i += 2
                continue
        out.append(c)
        i += 1
    return "".join(out)


class TlcResult:
    def __init__(self):
        self.behaviours = None  # path to ndjson
        self.n_behaviours = 0
        self.generated = 0
        self.distinct = 0
        self.depth = 0
        self.coverage = {}
        self.violation = None  # text of an invariant/property violation, if any
        self.wall_s = 0.0
        self.cmd = ""
        self.mode = ""
        self.out_tail = ""


def tlc(spec, cfg, scratch, mode="bfs", workers=None, depth=None, num=None, seed=0,
        timeout=900, coverage=False, out=None, dedupe=True, extra=None, deque=False,
        files=None, max_beh=None):
    """Run TLC. spec: module name (file spec/<spec>.tla); cfg: file spec/<cfg>.cfg.
    mode bfs: exhaustive. mode simulate: -simulate num=<num> -depth <depth> -seed <seed>.
    Behaviours printed by the Emit invariant are written (deduplicated) to `out`.
    files: extra files (name -> path) copied next to the spec (e.g. trace.ndjson)."""
    r = TlcResult()
    r.mode = mode
    work = tempfile.mkdtemp(prefix="tlc-", dir=scratch)
    for f in os.listdir(SPEC):
        if f.endswith(".tla"):
            shutil.copy(os.path.join(SPEC, f), work)
    shutil.copy(os.path.join(SPEC, cfg + ".cfg"), os.path.join(work, cfg + ".cfg"))
    for name, path in (files or {}).items():
        shutil.copy(path, os.path.join(work, name))
    if workers is None:
        workers = 1 if mode == "simulate" else min(NCPU, 8)
    cmd = ["tlc", "-metadir", os.path.join(work, "meta"), "-config", cfg + ".cfg",
           "-workers", str(workers), "-noGenerateSpecTE"]
    if mode == "simulate":
        sim = "num=%d" % (num or 1000)
        cmd += ["-simulate", sim, "-depth", str(depth or 20), "-seed", str(seed)]
    if coverage:
        cmd += ["-coverage", "1"]
    if extra:
        cmd += list(extra)
    cmd += [spec + ".tla"]
    env = dict(os.environ)
    # bound the heap: the tlc wrapper's default is 25% of RAM per JVM, and several TLC runs
    # in parallel were killed by the memory limit of the sandbox's background runner
    jopts = "-Xss64m -Xmx%s" % os.environ.get("VERIF_TLC_HEAP", "8g")
    if deque:
        jopts += " -Dtlc2.tool.queue.IStateQueue=StateDeque"
    env["JAVA_TOOL_OPTIONS"] = (env.get("JAVA_TOOL_OPTIONS", "") + " " + jopts).strip()
    r.cmd = " ".join(cmd)
    t0 = time.time()
    seen = set()
    outf = open(out, "w") if out else None
    tail = []
    try:
        p = subprocess.Popen(["timeout", str(timeout)] + cmd, cwd=work, env=env,
                             stdout=subprocess.PIPE, stderr=subprocess.STDOUT, text=True,
                             errors="replace")
        viol = []
        in_viol = False
        for line in p.stdout:
            line = line.rstrip("\n")
            m = BEH_RE.match(line)
            if m:
                if outf is not None:
                    if max_beh is not None and r.n_behaviours >= max_beh:
                        continue
                    js = _unescape(m.group(1))
                    if dedupe:
                        h = hashlib.blake2b(js.encode(), digest_size=12).digest()
                        if h in seen:
                            continue
                        seen.add(h)
                    outf.write(js + "\n")
                    r.n_behaviours += 1
                continue
            tail.append(line)
            if len(tail) > 400:
                del tail[:200]
            mm = re.search(r"(\d+) states generated, (\d+) distinct states found", line)
            if mm:
                r.generated = int(mm.group(1))
                r.distinct = int(mm.group(2))
            mm = re.search(r"The depth of the complete state graph search is (\d+)", line)
            if mm:
                r.depth = int(mm.group(1))
            mm = re.search(r"Generated (\d+) traces", line)
            mm = re.match(r"^<(\w+) line \d+, col \d+ to line \d+, col \d+ of module (\w+)>: (\d+):(\d+)", line)
            if mm:
                r.coverage[mm.group(1)] = r.coverage.get(mm.group(1), 0) + int(mm.group(4))
            if ("is violated" in line or "Error: " in line) and "TLC threw" not in line:
                in_viol = True
            if in_viol and len(viol) < 200:
                viol.append(line)
        rc = p.wait()
    finally:
        if outf:
            outf.close()
    r.wall_s = time.time() - t0
    r.out_tail = "\n".join(tail[-60:])
    if out:
        r.behaviours = out
    shutil.rmtree(work, ignore_errors=True)
    if rc == 124:
        raise Inconclusive("TLC timed out after %ss: %s" % (timeout, r.cmd))
    if viol:
        r.violation = "\n".join(viol)
    if rc != 0 and not viol:
        raise Inconclusive("TLC failed rc=%d: %s\n%s" % (rc, r.cmd, r.out_tail))
    if mode == "simulate" and r.generated == 0:
        # simulation mode reports progress differently; count behaviours instead
        r.generated = r.n_behaviours
        r.distinct = r.n_behaviours
    return r


# ---------------------------------------------------------------------- TLAPS

def tlapm(module, scratch, subst=None, timeout=900, threads=8):
    """Run the TLA+ proof system on spec/<module>.tla in a fresh directory (no fingerprint cache).
    subst: {file: [(old, new), ...]} textual edits applied to the copies (negative controls).
    Returns (ok, n_obligations, n_failed, tail): ok True = all obligations proved, False = some
    failed, None = no verdict (tool error / timeout)."""
    work = tempfile.mkdtemp(prefix="tlapm-", dir=scratch)
    for f in os.listdir(SPEC):
        if f.endswith(".tla"):
            shutil.copy(os.path.join(SPEC, f), work)
    for f, edits in (subst or {}).items():
        src = open(os.path.join(work, f)).read()
        for old, new in edits:
            if old not in src:
                return None, 0, 0, "substitution target not found in %s: %r" % (f, old)
            src = src.replace(old, new)
        open(os.path.join(work, f), "w").write(src)
    t0 = time.time()
    try:
        p = subprocess.run(["tlapm", "--threads", str(threads), "--cleanfp", module + ".tla"], cwd=work,
                           stdout=subprocess.PIPE, stderr=subprocess.STDOUT, text=True, timeout=timeout)
        out = p.stdout
    except subprocess.TimeoutExpired as e:
        return None, 0, 0, "tlapm timed out after %ds" % timeout
    except OSError as e:
        return None, 0, 0, "tlapm could not be started: %s" % e
    finally:
        shutil.rmtree(os.path.join(work, ".tlacache"), ignore_errors=True)
    dt = time.time() - t0
    m = re.search(r"All (\d+) obligations? proved", out)
    if m:
        log("tlapm %s: all %s obligations proved, %.1fs" % (module, m.group(1), dt))
        return True, int(m.group(1)), 0, out[-1500:]
    m = re.search(r"(\d+)/(\d+) obligations? failed", out)
    if m:
        log("tlapm %s: %s of %s obligations failed, %.1fs" % (module, m.group(1), m.group(2), dt))
        return False, int(m.group(2)), int(m.group(1)), out[-3000:]
    return None, 0, 0, out[-1500:]


# ---------------------------------------------------------------------- Go harness

def _altmod(scratch):
    """go.mod for the harness with the replace directive pointing at REPO."""
    src = open(os.path.join(HARNESS, "go.mod")).read()
    src = src.replace("=> /repo", "=> " + REPO)
    path = os.path.join(scratch, "harness.mod")
    open(path, "w").write(src)
    shutil.copy(os.path.join(HARNESS, "go.sum"), os.path.join(scratch, "harness.sum"))
    return path


def build(pkg, scratch, tags="verif", race=False):
    """go test -c the harness package ./bind/<pkg> against REPO. Returns binary path."""
    out = os.path.join(scratch, pkg.replace("/", "_") + (".race" if race else "") + ".test")
    env = dict(os.environ)
    env.update(GOENV)
    cmd = ["go", "test", "-c", "-vet=off", "-tags", tags, "-o", out]
    if REPO != "/repo":
        cmd += ["-modfile", _altmod(scratch)]
    if race:
        # boltdb v1.3.1 trips the race build's pointer checks (checkptr) in its own page
        # arithmetic; that is not a data race and not the code under test
        cmd += ["-race", "-gcflags=github.com/boltdb/bolt=-d=checkptr=0"]
    cmd += ["./" + pkg]
    t0 = time.time()
    p = subprocess.run(cmd, cwd=HARNESS, env=env, stdout=subprocess.PIPE,
                       stderr=subprocess.STDOUT, text=True)
    if p.returncode != 0 or not os.path.exists(out):
        raise Inconclusive("harness build failed (%s):\n%s" % (" ".join(cmd), p.stdout[-4000:]))
    log("built %s in %.1fs" % (pkg, time.time() - t0))
    return out


def drive(binary, test, env, scratch, timeout=1500, cwd=None):
    """Run the test binary; the driver writes its result JSON to $VERIF_OUT."""
    out = tempfile.mktemp(prefix="res-", suffix=".json", dir=scratch)
    e = dict(os.environ)
    e.update({k: str(v) for k, v in env.items()})
    e["VERIF_OUT"] = out
    e["VERIF_SCRATCH"] = scratch
    e["TMPDIR"] = scratch
    cmd = ["timeout", "-k", "10", str(timeout), binary, "-test.run", "^" + test + "$",
           "-test.timeout", "0", "-test.count", "1"]
    p = subprocess.run(cmd, cwd=cwd or scratch, env=e, stdout=subprocess.PIPE,
                       stderr=subprocess.STDOUT, text=True, errors="replace")
    res = None
    if os.path.exists(out):
        try:
            res = json.load(open(out))
        except Exception:
            res = None
    return p.returncode, p.stdout, res


# ------------------------------------------------------------------ known findings

def load_known():
    out = []
    if os.path.exists(KNOWN):
        out += json.load(open(KNOWN)).get("findings", [])
    d = KNOWN[:-5] + ".d"
    if os.path.isdir(d):
        for f in sorted(os.listdir(d)):
            if f.endswith(".json"):
                out += json.load(open(os.path.join(d, f))).get("findings", [])
    return out


def match_known(pid, failure, known):
    """A failure is {"match": {k: v, ...}, ...}. An entry matches when every key of its
    "match" equals the failure's (strings compared exactly; a list in the entry means
    'one of')."""
    fm = failure.get("match", {})
    for k in known:
        if k.get("property") != pid or k.get("status", "open") != "open":
            continue
        ok = True
        for key, want in k.get("match", {}).items():
            got = fm.get(key)
            if isinstance(want, list):
                if got not in want:
                    ok = False
                    break
            elif got != want:
                ok = False
                break
        if ok:
            return k
    return None


# --------------------------------------------------------------------------- Ctx

class Ctx:
    def __init__(self, pid, tier, seed, level="model_checking"):
        self.pid = pid
        self.tier = tier
        self.seed = seed
        self.level = level
        self.t0 = time.time()
        self.scratch = tempfile.mkdtemp(prefix="verif-%s-" % pid)
        self.known = load_known()
        self.tlc_runs = []
        self.drives = []
        self.notes = []
        self.assumptions = []
        self.trusted = ["TLC 1.8.0", "JSON plumbing (tools/vlib.py, harness/behav)"]
        self.extra_cov = {}
        self.failures = []       # all failures from drivers
        self.samples = []
        self.evaluations = 0
        self.nontrivial = 0
        self.validated = 0
        self.exhaustive = None
        self.rule = ""
        self.inconclusive = []
        self.bins = {}

    # -- TLC
    def generate(self, spec, cfg, name=None, **kw):
        out = os.path.join(self.scratch, (name or cfg) + ".ndjson")
        r = tlc(spec, cfg, self.scratch, out=out, seed=self.seed, **kw)
        self.tlc_runs.append((spec, cfg, r))
        if r.violation:
            raise Inconclusive("TLC reported an error while generating %s/%s:\n%s"
                               % (spec, cfg, r.violation[:3000]))
        log("TLC %s/%s %s: %d behaviours, %d generated / %d distinct states, %.1fs"
            % (spec, cfg, r.mode, r.n_behaviours, r.generated, r.distinct, r.wall_s))
        if r.n_behaviours == 0:
            raise Inconclusive("TLC produced no behaviours for %s/%s\n%s" % (spec, cfg, r.out_tail))
        return r

    def modelcheck(self, spec, cfg, **kw):
        """(M) run: properties of the design. Returns TlcResult; r.violation is set when
        TLC found a counterexample (a hypothesis about the code, not a verdict)."""
        r = tlc(spec, cfg, self.scratch, out=None, seed=self.seed, **kw)
        self.tlc_runs.append((spec, cfg, r))
        log("TLC(M) %s/%s: %d generated / %d distinct states, depth %d, %.1fs%s"
            % (spec, cfg, r.generated, r.distinct, r.depth, r.wall_s,
               " COUNTEREXAMPLE" if r.violation else ""))
        return r

    # -- Go
    def binary(self, pkg, race=False):
        key = (pkg, race)
        if key not in self.bins:
            self.bins[key] = build(pkg, self.scratch, race=race)
        return self.bins[key]

    def drive(self, pkg, test, beh=None, env=None, timeout=1500, race=False, label=None):
        b = self.binary(pkg, race=race)
        e = {"VERIF_SEED": self.seed, "VERIF_TIER": self.tier, "VERIF_SPECDIR": SPEC,
             "VERIF_REPO": REPO}
        if beh:
            e["VERIF_BEH"] = beh
        e.update(env or {})
        t0 = time.time()
        rc, out, res = drive(b, test, e, self.scratch, timeout=timeout)
        dt = time.time() - t0
        lab = label or test
        if res is None:
            # the driver died without a result: inconclusive unless a replay says otherwise
            self.inconclusive.append("driver %s produced no result (rc=%s):\n%s" % (lab, rc, out[-3000:]))
            log("driver %s: NO RESULT rc=%s %.1fs" % (lab, rc, dt))
            return None
        res["_pkg"] = pkg
        res["_test"] = test
        res["_env"] = {k: str(v) for k, v in (env or {}).items()}
        res["_race"] = race
        self.drives.append((lab, res, dt))
        self.evaluations += int(res.get("evaluations", 0))
        self.nontrivial += int(res.get("distinct_nontrivial", 0))
        self.validated += int(res.get("validated", 0))
        for s in (res.get("samples") or [])[:3]:
            if len(self.samples) < 8:
                self.samples.append(s)
        for f in (res.get("failures") or []):
            f["_pkg"] = pkg
            f["_test"] = test
            f["_env"] = res["_env"]
            f["_race"] = race
            self.failures.append(f)
        for k, v in (res.get("coverage") or {}).items():
            if isinstance(v, (int, float)):
                self.extra_cov[k] = self.extra_cov.get(k, 0) + v
            else:
                self.extra_cov[k] = v
        if res.get("inconclusive"):
            self.inconclusive.append("%s: %s" % (lab, res["inconclusive"]))
        log("driver %s: %d evaluations, %d validated, %d failures, %.1fs"
            % (lab, res.get("evaluations", 0), res.get("validated", 0),
               len((res.get("failures") or [])), dt))
        return res

    # -- verdict
    def confirm(self, f):
        """Re-execute the failing case from its replay file in a fresh process."""
        os.makedirs(REPLAYS, exist_ok=True)
        body = {"property": self.pid, "pkg": f["_pkg"], "test": f["_test"], "env": f["_env"],
                "race": f.get("_race", False),
                "match": f.get("match", {}), "detail": f.get("detail", ""),
                "replay": f.get("replay")}
        js = json.dumps(body, sort_keys=True, indent=1)
        h = hashlib.sha1(js.encode()).hexdigest()[:12]
        path = os.path.join(REPLAYS, "%s-%s.json" % (self.pid, h))
        open(path, "w").write(js)
        ok = replay_file(path, self)
        return path, ok

    def finish(self):
        printed = set()
        unmatched = []
        known_hits = {}
        for f in self.failures:
            k = match_known(self.pid, f, self.known)
            if k is not None:
                known_hits.setdefault(k["id"], [k, 0])[1] += 1
            else:
                unmatched.append(f)
        for kid, (k, n) in sorted(known_hits.items()):
            print("KNOWN-FINDING: property=%s %s [%s, %d cases]" % (self.pid, k["what"], kid, n), flush=True)
        # every listed open finding of this property gets its line, also when this run's
        # sample did not happen to exercise it
        for k in self.known:
            if k.get("property") == self.pid and k.get("status", "open") == "open" and k["id"] not in known_hits:
                print("KNOWN-FINDING: property=%s %s [%s, not exercised by this run]" % (self.pid, k["what"], k["id"]), flush=True)
        # confirm unmatched failures, one per distinct signature, at most 6
        violations = []
        sigs = set()
        unreproduced = 0
        for f in unmatched:
            sig = json.dumps(f.get("match", {}), sort_keys=True)
            if sig in sigs:
                continue
            sigs.add(sig)
            if len(violations) >= 6:
                break
            path, ok = self.confirm(f)
            if ok:
                violations.append(path)
                print("VIOLATION property=%s replay=%s" % (self.pid, path), flush=True)
                log("  detail: %s" % (f.get("detail", "")[:600]))
            else:
                unreproduced += 1
                try:
                    os.unlink(path)
                except OSError:
                    pass
                self.inconclusive.append("failure did not reproduce from replay: %s" % f.get("detail", "")[:300])
        rc = 0
        if violations:
            rc = 1
        elif self.inconclusive:
            rc = 2
        self.write_evidence(len(violations), known_hits, len(unmatched))
        for m in self.inconclusive:
            log("INCONCLUSIVE: " + m[:2000])
        shutil.rmtree(self.scratch, ignore_errors=True)
        return rc

    def write_evidence(self, nviol, known_hits, n_unmatched):
        os.makedirs(EVIDENCE, exist_ok=True)
        states = sum(r.distinct for _, _, r in self.tlc_runs)
        trans = sum(r.generated for _, _, r in self.tlc_runs)
        cov = {
            "states": max(states, 0),
            "transitions": max(trans, 0),
            "traces_validated_against_impl": self.validated,
            "samples": self.samples[:8] or ["(no sample)"],
            "evaluations": self.evaluations,
            "distinct_nontrivial": self.nontrivial,
            "rule": self.rule,
            "checker_cmd": "; ".join(r.cmd for _, _, r in self.tlc_runs)[:2000],
            "trusted_base": self.trusted,
            "tlc_runs": [{"spec": s, "cfg": c, "mode": r.mode, "generated": r.generated,
                          "distinct": r.distinct, "depth": r.depth, "behaviours": r.n_behaviours,
                          "wall_s": round(r.wall_s, 1), "action_coverage": r.coverage,
                          "counterexample": bool(r.violation)}
                         for s, c, r in self.tlc_runs],
            "drivers": [{"name": lab, "evaluations": res.get("evaluations", 0),
                         "validated": res.get("validated", 0),
                         "failures": len((res.get("failures") or [])), "wall_s": round(dt, 1)}
                        for lab, res, dt in self.drives],
            "impl_coverage": self.extra_cov,
            "known_findings_hit": {k: v[1] for k, v in known_hits.items()},
            "failures_unmatched": n_unmatched,
            "inconclusive": self.inconclusive[:10],
            "notes": self.notes,
            "repo": REPO,
        }
        if self.exhaustive is not None:
            cov["exhaustive"] = bool(self.exhaustive)
        ev = {
            "property_id": self.pid,
            "tier": self.tier,
            "seed": int(self.seed),
            "level": self.level,
            "coverage": cov,
            "assumptions": self.assumptions,
            "wall_s": round(time.time() - self.t0, 2),
            "violations": nviol,
        }
        path = os.path.join(EVIDENCE, "%s.json" % self.pid)
        tmp = path + ".tmp"
        json.dump(ev, open(tmp, "w"), indent=1, default=str)
        os.replace(tmp, path)


def replay_file(path, ctx=None):
    """Re-run one failing case. Returns True when it fails again."""
    body = json.load(open(path))
    own = ctx is None
    scratch = tempfile.mkdtemp(prefix="verif-replay-") if own else ctx.scratch
    try:
        if ctx is not None:
            b = ctx.binary(body["pkg"], race=body.get("race", False))
        else:
            b = build(body["pkg"], scratch, race=body.get("race", False))
        env = dict(body.get("env", {}))
        env["VERIF_REPLAY"] = path
        env.setdefault("VERIF_SEED", "0")
        env["VERIF_SPECDIR"] = SPEC
        rc, out, res = drive(b, body["test"], env, scratch, timeout=600)
        if res is None:
            # a crash of the replay process itself counts as reproduction only when the
            # original failure was a crash
            crashed = body.get("match", {}).get("symptom") in ("crash", "panic", "hang", "deadlock")
            if own:
                print(out[-3000:])
            return crashed and rc != 0
        fails = (res.get("failures") or [])
        if own:
            for f in fails:
                print("replay failure:", f.get("detail", "")[:3000])
        return len(fails) > 0
    finally:
        if own:
            shutil.rmtree(scratch, ignore_errors=True)
