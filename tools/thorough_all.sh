#!/bin/sh
# run every thorough tier, 4 at a time, from the snapshot this script is started in
ls checks/c*.py | sed 's#checks/c\([0-9]*\).py#C\1#' | xargs -P 4 -I{} sh -c 'start=$(date +%s); timeout 5400 ./check {} --tier thorough > thorough-{}.log 2>&1; rc=$?; echo "{} rc=$rc $(( $(date +%s) - start ))s $(grep -c VIOLATION thorough-{}.log) viol" >> thorough-summary.txt'
