#!/bin/sh
# seedrerun.sh <workers> <ID-n>...: re-evaluate seeds after a check was strengthened; the earlier
# outcome is kept in seeded/<ID-n>/meta.json under earlier_outcomes.
w=$1; shift
mkdir -p /tmp/seedlogs
printf '%s\n' "$@" | xargs -P "$w" -I{} sh -c 'n={}; id=${n%%-*}; python3 /verif/tools/seedtest.py /tmp/seedout/$n $id --keep-as $n > /tmp/seedlogs/$n.rerun.log 2>&1'
