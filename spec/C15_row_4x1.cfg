CONSTANTS
  NShards = 4
  NCols = 1
  Ops = {"Difference", "Xor", "Merge"}
INIT Init
NEXT Next
INVARIANTS Emit Laws
CHECK_DEADLOCK FALSE
