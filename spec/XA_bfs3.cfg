CONSTANTS
  Nodes = {1,2,3}
  Kinds = {"col"}
  Ids = {100}
  AKeys = {"a"}
  Vals = {"i:1","i:2"}
  Depth = 7
  NWrites = 3
  MaxQueries = 0
  MaxLate = 0
  InitModes = {"empty"}
  Overlap = FALSE
  Rounds = 1
  StrictConflicts = FALSE
  Sample = FALSE
INIT Init
NEXT Next
CHECK_DEADLOCK FALSE
INVARIANT Emit
