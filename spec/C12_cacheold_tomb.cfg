CONSTANTS
  NRows = 3
  NCols = 2
  Kinds = {"lru"}
  Sizes = {2}
  Mutexes = {FALSE}
  FixDelta = TRUE
  FixBelow = TRUE
  FixTomb = FALSE
  FixZeroFirst = TRUE
INIT Init
NEXT Next
INVARIANTS IdsExact NoGarbage TopNComplete LruShape
CHECK_DEADLOCK FALSE
