CONSTANTS
  NRows = 4
  NCols = 3
  Kinds = {"ranked", "lru", "none"}
  Sizes = {1, 2, 3, 50000}
  Mutexes = {FALSE, TRUE}
  MutexSizes = {1, 2, 50000}
  Ops = {"Set", "Clear", "ClearRow", "Store", "ImportSet", "ImportClear", "RoaringSet", "RoaringClear", "Recalc", "Reopen", "TopIds", "TopIdsFilter", "TopIdsThr", "RecalcTopN", "RecalcTopNFilter"}
  Inits = "few"
  BRows = {1, 2, 3, 4}
  BSets = {{1}, {2}, {3}, {1, 2}, {1, 3}, {2, 3}, {1, 2, 3}}
  MaxRect = 2
  BIds = "all"
  Thrs = {3, 5}
  FilterSkew = FALSE
  TopNs = {0, 1, 2, 3, 4}
  RecalcWeight = 1
  Rand = TRUE
  Depth = 12
INIT Init
NEXT Next
INVARIANT Emit
CHECK_DEADLOCK FALSE
