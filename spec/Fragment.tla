------------------------------ MODULE Fragment ------------------------------
(***************************************************************************)
(* One shard of one field view (pilosa.fragment, /repo/fragment.go).       *)
(*                                                                         *)
(* Abstract state: bits \subseteq Rows \X Cols - the set of set bits.  A BSI *)
(* fragment (Kind = "bsi") stores an integer per column in the documented   *)
(* encoding (row 0 = exists, row 1 = sign, row 2+i = bit i of |v|); its      *)
(* value view is derived from bits (Val).  `pending` is the fragment's       *)
(* snapshotting flag (a background snapshot is queued), `maxopn` the         *)
(* configured snapshot threshold class ("tiny": every change requests a      *)
(* snapshot and every value import takes the large path; "huge": never).     *)
(* Ghost variables rowc/rowv (row cache) and ckc/ckv (block checksum cache)  *)
(* model the two caches the write paths must invalidate; the invariants      *)
(* ReadsReflectWrites and ChecksumFresh say the caches never disagree with   *)
(* bits (C07, C10 for the design; the constants RowInval / CkInval name the  *)
(* write paths that invalidate).                                            *)
(*                                                                         *)
(* One action per fragment write path / snapshot step / read; every action  *)
(* computes the value the caller must observe (chg, out) and the post state.*)
(* Snapshots and reopen never change bits - that is the point of C07.       *)
(*                                                                         *)
(* Cols are abstract columns; the harness refines column c to a block of     *)
(* concrete columns (c \div 2 selects the first / last container of the      *)
(* shard row).  Rows are real row ids (HashBlockSize = 100).                *)
(***************************************************************************)
EXTENDS Integers, Sequences, FiniteSets, TLC, Json

CONSTANTS
    Kind,       \* "set" | "mutex" | "bool" | "bsi"
    Rows,       \* row ids; for "bsi" 0 .. BitDepth+1
    Cols,       \* abstract columns, a subset of 0..9
    Ops,        \* names of the enabled actions
    Scope,      \* "mini" | "small" | "full": size of the argument families
    Depth,      \* length of generated behaviours; 0 = (M) mode (no hist)
    ShapeName,  \* "free" | "bwb" | "bwwb" (C10 bias) | "clr2": forced op classes per step
    InitMode,   \* "empty" | "some" | "any"
    MaxOpNs,    \* subset of {"tiny", "huge"}
    Provs,      \* how the initial contents got there: "ops" | "snap" | "reopen"
    RowInval,   \* write paths that invalidate the row cache   (ghost, design)
    CkInval     \* write paths that invalidate block checksums (ghost, design)

VARIABLES bits, pending, maxopn, rowc, rowv, ckc, ckv, hist

vars  == <<bits, pending, maxopn, rowc, rowv, ckc, ckv, hist>>
mview == <<bits, pending, maxopn, rowc, rowv, ckc, ckv>>

Gen  == Depth > 0
None == -99

Univ       == Rows \X Cols
BlockOf(r) == r \div 100
BlockIds   == {BlockOf(r) : r \in Rows}
Code(x)    == x[1] * 10 + x[2]
Codes(S)   == {Code(x) : x \in S}

RowCols(b, r)   == {c \in Cols : <<r, c>> \in b}
RowsOf(b)       == {r \in Rows : RowCols(b, r) # {}}
BlockBits(b, k) == {x \in b : BlockOf(x[1]) = k}
BlocksOf(b)     == {k \in BlockIds : BlockBits(b, k) # {}}
ColBits(c)      == {<<r, c>> : r \in Rows}

B2S(x) == IF x THEN "T" ELSE "F"

\* ---- mutex / bool: at most one row per column
AtMostOne(b) == \A c \in Cols : Cardinality({r \in Rows : <<r, c>> \in b}) <= 1
MSet(b, r, c) == (b \ ColBits(c)) \cup {<<r, c>>}

\* ---- BSI encoding (sign-magnitude, documented in fragment.go)
BitDepth == Cardinality(Rows) - 2
VMax     == 2^BitDepth - 1
Vals     == (0 - VMax) .. VMax
Abs(v)   == IF v < 0 THEN 0 - v ELSE v
MagBits(c, v) == {<<2 + i, c>> : i \in {j \in 0 .. (BitDepth - 1) : (Abs(v) \div 2^j) % 2 = 1}}
Enc(c, v)     == {<<0, c>>} \cup (IF v < 0 THEN {<<1, c>>} ELSE {}) \cup MagBits(c, v)
Exists(b, c)  == <<0, c>> \in b
Mag(b, c)     == LET S == {j \in 0 .. (BitDepth - 1) : <<2 + j, c>> \in b}
                     RECURSIVE Sum(_)
                     Sum(T) == IF T = {} THEN 0 ELSE LET j == CHOOSE k \in T : TRUE IN 2^j + Sum(T \ {j})
                 IN Sum(S)
Val(b, c)     == IF ~Exists(b, c) THEN None
                 ELSE IF <<1, c>> \in b THEN 0 - Mag(b, c) ELSE Mag(b, c)
SetVal(b, c, v)   == (b \ ColBits(c)) \cup Enc(c, v)
\* clearing a value clears exists and sign; the magnitude rows of a column that does
\* not exist are not observable through value() (the harness masks them: weakest reading)
ClearVal(b, c, v) == (b \ ColBits(c)) \cup MagBits(c, v)
ValidBSI(b) == \A c \in Cols : ~Exists(b, c) => ({r \in Rows : <<r, c>> \in b} \subseteq 2 .. (BitDepth + 1))

\* ---- argument families
ColSets ==
    IF Scope = "full" THEN SUBSET Cols
    ELSE IF Scope = "mini" THEN {{}, {CHOOSE c \in Cols : \A d \in Cols : c <= d}, Cols}
    ELSE {S \in SUBSET Cols : S = {} \/ S = Cols \/ Cardinality(S) = 1
                               \/ (Cardinality(S) = 2 /\ \E a, b \in S : a \div 2 # b \div 2)}
RowSets ==
    IF Scope = "full" THEN SUBSET Rows \ {{}}
    ELSE {S \in SUBSET Rows : Cardinality(S) = 1 \/ S = Rows}
\* roaring import payloads: row set x column set
RoaringSets == {RS \X CS : RS \in RowSets, CS \in (ColSets \ {{}})}
\* pairs used in bulk import batches
BatchPairs ==
    IF Scope = "full" THEN Univ
    ELSE IF Scope = "mini" THEN {x \in Univ : (x[2] = 0 /\ x[1] = 0) \/ (x[2] = 3 /\ x[1] # 0)}
    ELSE {x \in Univ : (x[2] = 0) \/ (x[2] = 3 /\ x[1] # 0) \/ (x[2] = 1 /\ x[1] = 0)}
Batches ==
    [1 .. 1 -> BatchPairs] \cup [1 .. 2 -> BatchPairs]
    \cup {<<x, y, x>> : x, y \in {p \in BatchPairs : p[2] = 0}}
ValPairs == IF Scope = "full" THEN Cols \X Vals
            ELSE IF Scope = "mini" THEN {0, 3} \X {0 - VMax, 1}
            ELSE {0, 3} \X {0 - VMax, 0, 1, VMax}
ValBatches == [1 .. 1 -> ValPairs] \cup [1 .. 2 -> ValPairs]
RowStarts == Rows \cup {r + 1 : r \in Rows}

RECURSIVE Fold(_, _, _, _)
Fold(F(_, _), b, sq, i) == IF i > Len(sq) THEN b ELSE Fold(F, F(b, sq[i]), sq, i + 1)

AddPair(b, p)  == b \cup {p}
DelPair(b, p)  == b \ {p}
MSetPair(b, p) == MSet(b, p[1], p[2])
SetValPair(b, p)   == SetVal(b, p[1], p[2])
ClearValPair(b, p) == ClearVal(b, p[1], p[2])

SeqCodes(sq) == [i \in 1 .. Len(sq) |-> Code(sq[i])]
SeqCols(sq)  == [i \in 1 .. Len(sq) |-> sq[i][1]]
SeqVals(sq)  == [i \in 1 .. Len(sq) |-> sq[i][2]]

\* ---- shapes (bias of generated histories)
WriteOps == {"SetBit", "ClearBit", "SetRow", "ClearRow", "BulkSet", "BulkClear", "BulkMutex",
             "RoaringSet", "RoaringClear", "SetValue", "ClearValue", "ImportValue", "ImportValueClear"}
ShapeOK(op) ==
    LET i == Len(hist) IN   \* hist[1] is the Init record
    CASE ShapeName = "free" -> TRUE
      [] ShapeName = "bwb"  -> IF i % 2 = 1 THEN op = "Blocks" ELSE op # "Blocks"
      [] ShapeName = "bwwb" -> IF i % 3 = 1 THEN op = "Blocks" ELSE op # "Blocks"
      \* a clear that may leave an emptied container behind, then a whole-row / same-row write
      [] ShapeName = "clr2" -> IF i = 1 THEN op \in {"RoaringClear", "BulkClear", "ClearBit"}
                               ELSE IF i = 2 THEN op \in {"ClearRow", "ClearBit", "SetRow", "SetBit"}
                               ELSE TRUE
      [] OTHER -> TRUE

\* ---- the step: record what the caller must observe, update ghosts
\* path = "" for non-writes.
Step(op, path, r, c, xs, sq, fl, chg, out, nb, np) ==
    LET AR == {q \in Rows : RowCols(bits, q) # RowCols(nb, q)}
        AB == {BlockOf(q) : q \in AR}
        isread == path = ""
        \* ghost caches after the step (reads fill, writes invalidate per design)
        rc1 == IF op = "Row" THEN rowc \cup {r}
               ELSE IF op = "Reopen" THEN {}
               ELSE IF isread THEN rowc
               ELSE IF path \in RowInval THEN rowc \ AR ELSE rowc
        rv1 == IF op = "Row" /\ r \notin rowc THEN [rowv EXCEPT ![r] = RowCols(bits, r)] ELSE rowv
        cc1 == IF op = "Blocks" THEN ckc \cup BlocksOf(bits)
               ELSE IF op = "Reopen" THEN {}
               ELSE IF isread THEN ckc
               ELSE IF path \in CkInval THEN ckc \ AB ELSE ckc
        cv1 == IF op = "Blocks"
               THEN [k \in BlockIds |-> IF k \in BlocksOf(bits) /\ k \notin ckc THEN Codes(BlockBits(bits, k)) ELSE ckv[k]]
               ELSE ckv
        hit == IF op = "Row" THEN r \in rowc
               ELSE IF op = "Blocks" THEN (ckc \cap BlocksOf(bits)) # {}
               ELSE IF isread THEN FALSE
               ELSE (rowc \cap AR) # {} \/ (ckc \cap AB) # {}
    IN
    /\ op \in Ops
    /\ ShapeOK(op)
    /\ bits' = nb
    /\ pending' = np
    /\ rowc' = rc1 /\ rowv' = rv1 /\ ckc' = cc1 /\ ckv' = cv1
    /\ UNCHANGED maxopn
    /\ hist' = IF Gen
               THEN Append(hist, [op |-> op, r |-> r, c |-> c, xs |-> xs, sq |-> sq, fl |-> fl,
                                  chg |-> chg, out |-> out, post |-> Codes(nb), pend |-> np, hit |-> hit])
               ELSE hist

\* a logged write that changed something requests a snapshot when MaxOpN is tiny
PendAfter(changed) == pending \/ (changed /\ maxopn = "tiny")

\* ---- write paths -----------------------------------------------------------
SetBit ==
    \E r \in Rows, c \in Cols :
        LET nb == IF Kind \in {"mutex", "bool"} THEN MSet(bits, r, c) ELSE bits \cup {<<r, c>>}
        IN Step("SetBit", "setBit", r, c, {}, <<>>, "", B2S(<<r, c>> \notin bits), {}, nb, PendAfter(nb # bits))

ClearBit ==
    \E r \in Rows, c \in Cols :
        LET nb == bits \ {<<r, c>>}
        IN Step("ClearBit", "clearBit", r, c, {}, <<>>, "", B2S(<<r, c>> \in bits), {}, nb, PendAfter(nb # bits))

\* setRow replaces row r by the given columns; its result is documented as always true
\* (not compared).  setRow and clearRow are not logged: they request a snapshot through the
\* queue and return after the background worker has taken it (so nothing is pending
\* afterwards; the harness plays the worker during the call).  (Which Row object carries the columns -
\* a fresh one, one used before, a row read from this fragment - is a replay variant.)
SetRow ==
    \E r \in Rows, cs \in ColSets :
        LET nb == (bits \ {<<r, c>> : c \in Cols}) \cup {<<r, c>> : c \in cs}
        IN Step("SetRow", "setRow", r, -1, cs, <<>>, "", "-", {}, nb, FALSE)

ClearRow ==
    \E r \in Rows :
        LET nb == bits \ {<<r, c>> : c \in Cols}
        IN Step("ClearRow", "clearRow", r, -1, {}, <<>>, "", B2S(RowCols(bits, r) # {}), {}, nb, FALSE)

BulkSet ==
    \E sq \in Batches :
        LET nb == Fold(AddPair, bits, sq, 1)
        IN Step("BulkSet", "bulk", -1, -1, {}, SeqCodes(sq), "", "-", {}, nb, PendAfter(nb # bits))

BulkClear ==
    \E sq \in Batches :
        LET nb == Fold(DelPair, bits, sq, 1)
        IN Step("BulkClear", "bulk", -1, -1, {}, SeqCodes(sq), "", "-", {}, nb, PendAfter(nb # bits))

\* a set-import into a mutex / bool fragment: every entry is a mutex set, in order
BulkMutex ==
    \E sq \in Batches :
        LET nb == Fold(MSetPair, bits, sq, 1)
        IN Step("BulkMutex", "bulkMutex", -1, -1, {}, SeqCodes(sq), "", "-", {}, nb, PendAfter(nb # bits))

\* fl = encoding of the payload: "pilosa" | "official"
RoaringSet ==
    \E S \in RoaringSets, f \in {"pilosa", "official"} :
        LET nb == bits \cup S
        IN Step("RoaringSet", "roaring", -1, -1, Codes(S), <<>>, f, "-", {}, nb, PendAfter(nb # bits))

RoaringClear ==
    \E S \in RoaringSets, f \in {"pilosa", "official"} :
        LET nb == bits \ S
        IN Step("RoaringClear", "roaring", -1, -1, Codes(S), <<>>, f, "-", {}, nb, PendAfter(nb # bits))

\* ---- BSI write paths
SetValue ==
    \E c \in Cols, v \in Vals :
        LET nb == SetVal(bits, c, v)
        IN Step("SetValue", "setValue", v, c, {}, <<>>, "", B2S(nb # bits), {}, nb, PendAfter(nb # bits))

\* clearValue(col, value): the caller passes the value it believes is stored
ClearValue ==
    \E c \in Cols, v \in Vals :
        LET nb == ClearVal(bits, c, v)
        IN Step("ClearValue", "clearValue", v, c, {}, <<>>, "",
                IF Exists(bits, c) THEN "T" ELSE "-", {}, nb, PendAfter(nb # bits))

\* importValue: last entry of a column wins; the large path (maxopn = "tiny") snapshots
\* through the queue and waits for it
ImportValue ==
    \E sq \in ValBatches :
        LET nb == Fold(SetValPair, bits, sq, 1)
        IN Step("ImportValue", "importValue", -1, -1, {}, <<SeqCols(sq), SeqVals(sq)>>, maxopn, "-", {}, nb,
                IF maxopn = "tiny" THEN FALSE ELSE pending)

ImportValueClear ==
    \E sq \in ValBatches :
        LET nb == Fold(ClearValPair, bits, sq, 1)
        IN Step("ImportValueClear", "importValue", -1, -1, {}, <<SeqCols(sq), SeqVals(sq)>>, maxopn, "-", {}, nb,
                IF maxopn = "tiny" THEN FALSE ELSE pending)

\* ---- snapshots and restart: bits never change ------------------------------
Snapshot   == Step("Snapshot", "", -1, -1, {}, <<>>, "", "-", {}, bits, pending)
Enqueue    == ~pending /\ Step("Enqueue", "", -1, -1, {}, <<>>, "", "-", {}, bits, TRUE)
BgSnapshot == pending /\ Step("BgSnapshot", "", -1, -1, {}, <<>>, "", "-", {}, bits, FALSE)
\* close waits for the background worker, then the file is opened again
Reopen     == Step("Reopen", "", -1, -1, {}, <<>>, "", "-", {}, bits, FALSE)

\* ---- reads -----------------------------------------------------------------
ReadRow == \E r \in Rows : Step("Row", "", r, -1, {}, <<>>, "", "-", RowCols(bits, r), bits, pending)
ReadBit == \E r \in Rows, c \in Cols : Step("Bit", "", r, c, {}, <<>>, "", B2S(<<r, c>> \in bits), {}, bits, pending)

FirstN(S, n) == {r \in S : Cardinality({q \in S : q < r}) < n}
\* rows(start, filters): c = column filter or -1; xs = row-list filter or {-1}; fl = limit "0" (none) | "1" | "2"
ReadRows ==
    \E st \in RowStarts, c \in Cols \cup {-1}, rin \in {{-1}} \cup RowSets, lim \in 0 .. 2 :
        /\ (Scope = "small" => Cardinality({x \in {1, 2, 3} : (x = 1 /\ lim # 0) \/ (x = 2 /\ rin # {-1}) \/ (x = 3 /\ c # -1)}) <= 1)
        /\ LET base == {r \in Rows : /\ r >= st
                                     /\ RowCols(bits, r) # {}
                                     /\ (c = -1 \/ <<r, c>> \in bits)
                                     /\ (rin = {-1} \/ r \in rin)}
               res  == IF lim = 0 THEN base ELSE FirstN(base, lim)
           IN Step("Rows", "", st, c, rin, <<>>, ToString(lim), "-", res, bits, pending)

ReadForEach   == Step("ForEachBit", "", -1, -1, {}, <<>>, "", "-", Codes(bits), bits, pending)
ReadBlocks    == Step("Blocks", "", -1, -1, {}, <<>>, "", "-", BlocksOf(bits), bits, pending)
ReadBlockData == \E k \in BlockIds : Step("BlockData", "", k, -1, {}, <<>>, "", "-", Codes(BlockBits(bits, k)), bits, pending)
\* value(col): r = the value or None
ReadValue     == \E c \in Cols : Step("Value", "", Val(bits, c), c, {}, <<>>, "", B2S(Exists(bits, c)), {}, bits, pending)

\* (the guards are repeated here so that a disabled action costs nothing)
En(op) == op \in Ops /\ ShapeOK(op)
Next ==
    /\ (Gen => Len(hist) < Depth + 1)
    /\ \/ En("SetBit") /\ SetBit
       \/ En("ClearBit") /\ ClearBit
       \/ En("SetRow") /\ SetRow
       \/ En("ClearRow") /\ ClearRow
       \/ En("BulkSet") /\ BulkSet
       \/ En("BulkClear") /\ BulkClear
       \/ En("BulkMutex") /\ BulkMutex
       \/ En("RoaringSet") /\ RoaringSet
       \/ En("RoaringClear") /\ RoaringClear
       \/ En("SetValue") /\ SetValue
       \/ En("ClearValue") /\ ClearValue
       \/ En("ImportValue") /\ ImportValue
       \/ En("ImportValueClear") /\ ImportValueClear
       \/ En("Snapshot") /\ Snapshot
       \/ En("Enqueue") /\ Enqueue
       \/ En("BgSnapshot") /\ BgSnapshot
       \/ En("Reopen") /\ Reopen
       \/ En("Row") /\ ReadRow
       \/ En("Bit") /\ ReadBit
       \/ En("Rows") /\ ReadRows
       \/ En("ForEachBit") /\ ReadForEach
       \/ En("Blocks") /\ ReadBlocks
       \/ En("BlockData") /\ ReadBlockData
       \/ En("Value") /\ ReadValue

\* ---- initial contents
ValidInit(b) ==
    CASE Kind \in {"mutex", "bool"} -> AtMostOne(b)
      [] Kind = "bsi" -> \A c \in Cols : Exists(b, c) \/ ({r \in Rows : <<r, c>> \in b} = {})
      [] OTHER -> TRUE
Diag == {x \in Univ : \E i \in 0 .. 9 : x[2] = i /\ Cardinality({r \in Rows : r < x[1]}) = i % Cardinality(Rows)}
BsiOf(f) == UNION {IF f[c] = None THEN {} ELSE Enc(c, f[c]) : c \in Cols}
InitSets ==
    CASE InitMode = "empty" -> {{}}
      [] InitMode = "some" ->
            IF Kind = "bsi" THEN {{}, BsiOf([c \in Cols |-> IF c % 2 = 0 THEN VMax ELSE 0 - 1])}
            ELSE IF Kind \in {"mutex", "bool"} THEN {{}, Diag}
            ELSE {{}, Diag, Univ}
      [] OTHER ->
            IF Kind = "bsi" THEN {BsiOf(f) : f \in [Cols -> Vals \cup {None}]}
            ELSE {b \in SUBSET Univ : ValidInit(b)}

Init ==
    /\ bits \in InitSets
    /\ maxopn \in MaxOpNs
    /\ rowc = {} /\ rowv = [r \in Rows |-> {}]
    /\ ckc = {} /\ ckv = [k \in BlockIds |-> {}]
    /\ \E p \in Provs :
         \* loading the initial contents is itself a logged write; with a tiny MaxOpN it
         \* requested a snapshot, which only a reopen (close waits for the worker) has seen taken
         /\ pending = (maxopn = "tiny" /\ bits # {} /\ p # "reopen")
         /\ hist = IF Gen
                THEN << [op |-> "Init", r |-> -1, c |-> -1, xs |-> {}, sq |-> <<>>, fl |-> p, chg |-> maxopn,
                         out |-> {}, post |-> Codes(bits), pend |-> pending, hit |-> FALSE] >>
                ELSE << >>

Spec == Init /\ [][Next]_vars

\* ---- properties of the design (M) -------------------------------------------
TypeOK ==
    /\ bits \subseteq Univ
    /\ pending \in BOOLEAN
    /\ (Kind \in {"mutex", "bool"} => AtMostOne(bits))
    /\ (Kind = "bsi" => ValidBSI(bits))

\* C07: a cached row is the row
ReadsReflectWrites == \A r \in rowc : rowv[r] = RowCols(bits, r)
\* C10: a cached block checksum was computed from the block's current bits
ChecksumFresh == \A k \in ckc : ckv[k] = Codes(BlockBits(bits, k))
\* the BSI value view round-trips through the encoding
ValueRoundTrip == Kind = "bsi" => \A c \in Cols, v \in Vals : Val(SetVal(bits, c, v), c) = v

\* ---- behaviour emission (binding A)
Emit == (Gen /\ Len(hist) = Depth + 1) => PrintT(<<"BEH", ToJson(hist)>>)
=============================================================================
