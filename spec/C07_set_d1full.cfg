CONSTANTS
  Kind = "set"
  Rows = {0, 99, 100}
  Cols = {0, 1, 2, 3}
  Ops = {"SetBit","ClearBit","SetRow","ClearRow","BulkSet","BulkClear","RoaringSet","RoaringClear","Snapshot","Enqueue","BgSnapshot","Reopen","Row","Bit","Rows","ForEachBit","Blocks","BlockData"}
  Scope = "full"
  Depth = 1
  ShapeName = "free"
  InitMode = "some"
  MaxOpNs = {"huge"}
  Provs = {"ops"}
  RowInval = {"setBit","clearBit","setRow","clearRow","bulk","bulkMutex","roaring","setValue","clearValue","importValue"}
  CkInval = {"setBit","clearBit","setRow","clearRow","bulk","bulkMutex","roaring","setValue","clearValue","importValue"}
INIT Init
NEXT Next
INVARIANT TypeOK
INVARIANT ReadsReflectWrites
INVARIANT ChecksumFresh
INVARIANT Emit
CHECK_DEADLOCK FALSE
