-------------------------- MODULE TraceLinearize --------------------------
(***************************************************************************)
(* C29 (V): search for a linearization of recorded histories.              *)
(*                                                                         *)
(* trace.ndjson, one event per line, many histories concatenated:          *)
(*   {"e":"reset","init":[[codes of fragment 0],[codes of fragment 1]]}    *)
(*   {"e":"call","p":g,"op":..,"f":..,"r":..,"c":..,"S":[..]}              *)
(*   {"e":"ret","p":g,"res":[..]}                                          *)
(* Events are ordered by a global atomic sequence number taken immediately *)
(* BEFORE the call and immediately AFTER the return, so every recorded     *)
(* interval contains the real one (widening only removes real-time         *)
(* constraints: a linearizable execution stays linearizable).              *)
(*                                                                         *)
(* Consume takes the next event through Linearize's Call / Ret; the silent *)
(* steps Lin / LinPart are tried only when the next event is a return      *)
(* (a Lin step commutes to the right over call events, so every            *)
(* linearization has this lazy form); each pending call is linearized at   *)
(* most once, so silent steps are bounded by the number of pending calls.  *)
(* Acceptance: the high-water mark of consumed events (TLCSet register 1,  *)
(* -workers 1) reaches the end of the trace.  On rejection it is the index *)
(* of the return event no linearization can explain.                       *)
(***************************************************************************)
EXTENDS Linearize, Json

VARIABLE i

Trace == ndJsonDeserialize("trace.ndjson")
N == Len(Trace)

ToSet(s) == {s[k] : k \in 1 .. Len(s)}

tvars == <<bits, pend, ncalls, i>>

TInit ==
    /\ bits = [f \in Frags |-> {}]
    /\ pend = [p \in Procs |-> Idle]
    /\ ncalls = 0
    /\ i = 0
    /\ TLCSet(1, 0)

Reset(ev) ==
    /\ bits' = [f \in Frags |-> ToSet(ev.init[f + 1])]
    /\ pend' = [p \in Procs |-> Idle]
    /\ ncalls' = 0

Event(ev) ==
    CASE ev.e = "reset" -> Reset(ev)
      [] ev.e = "call"  -> Call(ev.p, [op |-> ev.op, f |-> ev.f, r |-> ev.r, c |-> ev.c, S |-> ToSet(ev.S)])
      [] ev.e = "ret"   -> Ret(ev.p, ToSet(ev.res))
      [] OTHER          -> FALSE

Consume ==
    /\ i < N
    /\ Event(Trace[i + 1])
    /\ i' = i + 1
    /\ TLCSet(1, IF i' > TLCGet(1) THEN i' ELSE TLCGet(1))

Quiet ==
    /\ i < N /\ Trace[i + 1].e = "ret"
    /\ Silent
    /\ UNCHANGED i

TNext == Consume \/ Quiet

Accepted ==
    IF TLCGet(1) = N THEN PrintT("TRACE-ACCEPTED")
    ELSE PrintT("TRACE-REJECTED " \o ToString(TLCGet(1)))
=============================================================================
