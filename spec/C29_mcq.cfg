SPECIFICATION LSpec
CONSTANTS
  Rows = {0, 1}
  Cols = {0}
  Frags = {0}
  Procs = {0, 1}
  MaxCalls = 2
INVARIANT TypeOK
CHECK_DEADLOCK FALSE
