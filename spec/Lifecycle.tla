----------------------------- MODULE Lifecycle -----------------------------
(***************************************************************************)
(* Cluster life cycle around the resize protocol (extra check X01):        *)
(* cluster state as a function of membership / topology events,            *)
(* coordinator identity and hand-over, ClusterStatus merging on followers, *)
(* composed with the API gate of ApiGate.tla.                              *)
(*                                                                         *)
(* One record V[n] per node = that node's `cluster` object:                *)
(*   st    cluster.state            co   cluster.Coordinator               *)
(*   ids   ids of cluster.nodes     ns   Node.State of each listed node    *)
(*   cf    ids whose Node.IsCoordinator is set                             *)
(*   topo  Topology.nodeIDs (also the .topology file: saved on change)     *)
(*   tns   Topology.nodeStates      joined  cluster.joined                 *)
(*   ready the node has run setNodeState(READY) (holder open)              *)
(* One action per handler (code anchors in design/X01.md).  msgs is the    *)
(* network: a set of messages, delivered in any order, possibly twice.     *)
(* A message is identified by (step that sent it, kind, recipient).        *)
(***************************************************************************)
EXTENDS Integers, Sequences, FiniteSets, TLC, Json

CONSTANTS Nodes,      \* node ids
          Coord0,     \* the node configured as coordinator
          InitTopo,   \* content of every node's .topology file at the beginning
          ReplicaN,
          HasData,    \* the holders contain data (an index exists)
          Script,     \* forced prefix: sequence of [op, at, x] records
          Depth,      \* behaviour length (including the prefix)
          MaxStop, MaxDup, MaxSetCoord, MaxRemove, MaxFalse, MaxNoop,
          Variant     \* "code": Topology.nodeStates as the code maintains it
                      \* "fixed": nodeStates follows the node list (intended)

VARIABLES up, V, msgs, hist, leader, lastSent, lastMerged, evq, bud,
          pv    \* names of the properties violated in the previous state (generation only)

vars == <<up, V, msgs, hist, leader, lastSent, lastMerged, evq, bud, pv>>
view == <<up, V, msgs, leader, lastSent, lastMerged, evq, bud, Len(hist)>>

NoNs == [i \in Nodes |-> ""]

Blank(n) == [st |-> "", co |-> "", ids |-> {}, ns |-> NoNs, cf |-> {}, topo |-> InitTopo,
             tns |-> NoNs, joined |-> FALSE, ready |-> FALSE]

Msg(k, to, step, st, nodes, id, s) ==
    [k |-> k, to |-> to, step |-> step, st |-> st, nodes |-> nodes, id |-> id, s |-> s, topo |-> {}]

NodesOf(v) == {[id |-> i, s |-> v.ns[i], c |-> (i \in v.cf)] : i \in v.ids}
\* intended ("fixed"): the status also carries the topology, so that followers can tell a node
\* that is down from a node that was removed
StatusTo(v, to, step) == [Msg("status", to, step, v.st, NodesOf(v), "", "") EXCEPT
                             !.topo = IF Variant = "fixed" THEN v.topo ELSE {}]
Bcast(v, self, step) == {StatusTo(v, t, step) : t \in v.ids \ {self}}

(* ---- cluster.go: allNodesReady / haveTopologyAgreement / determineClusterState *)
\* code: Topology.nodeStates (kept up to date only on the node that was coordinator when the
\* states were reported); intended: the node list, which the statuses replicate
AllReady(v) == IF Variant = "fixed" THEN \A i \in v.ids : v.ns[i] = "READY"
               ELSE \A i \in v.ids : v.tns[i] = "READY"
Determine(v) ==
    IF v.st = "RESIZING" THEN "RESIZING"
    ELSE IF v.topo = v.ids /\ AllReady(v) THEN "NORMAL"
    ELSE IF Cardinality(v.topo) - Cardinality(v.ids) < ReplicaN /\ AllReady(v) THEN "DEGRADED"
    ELSE "STARTING"
NeedAgreement(v) == v.st \in {"STARTING", "DEGRADED"} /\ v.topo # v.ids

(* ---- cluster.go: addNode (addNodeBasicSorted + Topology.addID + nodeStates) *)
AddNode(v, m) ==
    LET v1 == IF m.c THEN [v EXCEPT !.co = m.id] ELSE v
        same == m.id \in v1.ids /\ v1.ns[m.id] = m.s /\ ((m.id \in v1.cf) = m.c)
        v2 == [v1 EXCEPT !.ids = @ \cup {m.id}, !.ns[m.id] = m.s,
                         !.cf = IF m.c THEN @ \cup {m.id} ELSE @ \ {m.id}]
        v3 == IF Variant = "fixed" THEN [v2 EXCEPT !.tns[m.id] = m.s] ELSE v2
    IN IF same THEN v1
       ELSE IF m.id \in v2.topo THEN v3
       ELSE [v2 EXCEPT !.topo = @ \cup {m.id}, !.tns[m.id] = m.s]

(* cluster.go: removeNode *)
RemoveNode(v, id) == [v EXCEPT !.ids = @ \ {id}, !.cf = @ \ {id}, !.ns[id] = "", !.topo = @ \ {id}]

(* cluster.go: unprotectedUpdateCoordinator *)
UpdCoord(v, id) == [v EXCEPT !.co = id, !.cf = {id} \cap v.ids]

SetSt(v, s) == [v EXCEPT !.st = s]

Step == Len(hist) + 1
InScript == Step <= Len(Script)
Forced(op, at, x) == InScript => (Script[Step].op = op /\ Script[Step].at = at /\ Script[Step].x = x)
Free == ~InScript
\* scope: membership events and hand-over do not overlap
HandoverQuiet == ~\E m \in msgs : m.k \in {"setcoord", "updcoord"}

PostOf(v) == [st |-> v.st, co |-> v.co, nodes |-> NodesOf(v), topo |-> v.topo, joined |-> v.joined]

\* Messages addressed to a node that is not running are lost and the sender sees an error.
SendRes(out) == IF \E m \in out : ~up[m.to] THEN "err" ELSE "ok"
Live(out) == {m \in out : up[m.to]}

Record(op, at, x, mk, res, v, out) ==
    hist' = Append(hist, [op |-> op, at |-> at, x |-> x, mk |-> mk, res |-> res,
                          post |-> PostOf(v), sent |-> {[k |-> m.k, to |-> m.to] : m \in Live(out)}])

NoKey == [step |-> 0, k |-> "", to |-> ""]
KeyOf(m) == [step |-> m.step, k |-> m.k, to |-> m.to]

\* lastSent[n].s: step of the last status sent to n; lastSent[n].c: step of the last change
\* of n's own view (state, coordinator, node list)
NoteSent(h, v, out) ==
    lastSent' = [n \in Nodes |->
                   [s |-> IF \E m \in Live(out) : m.k = "status" /\ m.to = n THEN Step ELSE lastSent[n].s,
                    c |-> IF n = h /\ PostOf(v) # PostOf(V[h]) THEN Step ELSE lastSent[n].c]]

\* The common tail of every handler of node n.
Finish(op, n, x, mk, res, v, out, consumed) ==
    /\ V' = [V EXCEPT ![n] = v]
    /\ msgs' = (msgs \ consumed) \cup Live(out)
    /\ NoteSent(n, v, out)
    /\ Record(op, n, x, mk, IF res = "ok" THEN SendRes(out) ELSE res, v, out)

(***************************************************************************)
(* receiveNodeState(id, s) on node n with view v -> [v, out]                *)
(***************************************************************************)
RecvNodeState(n, v, id, s) ==
    IF v.co # n THEN [v |-> v, out |-> {}]
    ELSE IF v.tns[id] = s /\ (Variant = "fixed" /\ id \in v.ids => v.ns[id] = s) THEN [v |-> v, out |-> {}]
    ELSE LET v1 == [v EXCEPT !.tns[id] = s, !.ns[id] = IF id \in v.ids THEN s ELSE @]
             v2 == SetSt(v1, Determine(v1))
         IN [v |-> v2, out |-> Bcast(v2, n, Step)]

(***************************************************************************)
(* Start(n): NewServer -> cluster.setup (loadTopology, considerTopology,   *)
(* addNode(self)).  State STARTING, own node DOWN.                         *)
(***************************************************************************)
Start(n) ==
    /\ ~up[n]
    /\ Forced("Start", n, "") /\ HandoverQuiet
    /\ (n = Coord0 /\ InitTopo # {}) => n \in V[n].topo
    /\ LET v0 == [Blank(n) EXCEPT !.topo = V[n].topo, !.st = "STARTING",
                                  !.co = IF n = Coord0 THEN n ELSE ""]
           v1 == AddNode(v0, [id |-> n, s |-> "DOWN", c |-> (n = Coord0)])
       IN /\ Finish("Start", n, "", NoKey, "ok", v1, {}, {})
          /\ up' = [up EXCEPT ![n] = TRUE]
          /\ evq' = IF n = leader THEN evq ELSE (evq \ {<<"leave", n>>}) \cup {<<"join", n>>}
    /\ UNCHANGED <<leader, lastMerged, bud>>

(***************************************************************************)
(* Ready(n): Server.Open after waitForStarted: Holder.Open, then           *)
(* setNodeState(READY) = setMyNodeState + (coordinator: receiveNodeState;  *)
(* else NodeStateMessage to the coordinator node).                         *)
(***************************************************************************)
Ready(n) ==
    /\ up[n] /\ ~V[n].ready
    /\ V[n].co = n \/ (V[n].joined /\ V[n].co \in V[n].ids)
    /\ Forced("Ready", n, "")
    /\ LET v1 == [V[n] EXCEPT !.ns[n] = "READY", !.ready = TRUE]
       IN IF v1.co = n
          THEN LET r == RecvNodeState(n, v1, n, "READY")
               IN Finish("Ready", n, "", NoKey, "ok", r.v, r.out, {})
          ELSE Finish("Ready", n, "", NoKey, "ok", v1,
                      {Msg("nodestate", v1.co, Step, "", {}, n, "READY")}, {})
    /\ UNCHANGED <<up, leader, lastMerged, evq, bud>>

(***************************************************************************)
(* JoinEvent(at, x): gossip NodeJoin of x delivered to node at              *)
(* (API.ClusterMessage -> Server.receiveMessage -> ReceiveEvent -> nodeJoin)*)
(* The event carries x's own node value (state, coordinator flag).         *)
(***************************************************************************)
JoinEvent(at, x) ==
    /\ up[at] /\ up[x] /\ at # x
    /\ Forced("JoinEvent", at, x) /\ HandoverQuiet
    /\ LET v == V[at]
           meta == [id |-> x, s |-> V[x].ns[x], c |-> (x \in V[x].cf)]
           noop == v.co # at
       IN /\ Free /\ noop => bud.noop < MaxNoop
          /\ bud' = IF Free /\ noop THEN [bud EXCEPT !.noop = @ + 1] ELSE bud
          /\ evq' = IF at = leader /\ ~noop THEN evq \ {<<"join", x>>} ELSE evq
          /\ IF noop THEN Finish("JoinEvent", at, x, NoKey, "ok", v, {}, {})
             ELSE IF NeedAgreement(v) THEN
                IF x \notin v.topo THEN Finish("JoinEvent", at, x, NoKey, "err", v, {}, {})
                ELSE LET v1 == AddNode(v, meta)
                     IN IF ~HasData
                        THEN IF v1.topo = v1.ids
                             THEN LET v2 == SetSt(v1, "NORMAL")
                                  IN Finish("JoinEvent", at, x, NoKey, "ok", v2, Bcast(v2, at, Step), {})
                             ELSE Finish("JoinEvent", at, x, NoKey, "ok", v1, {}, {})
                        ELSE IF v1.topo = v1.ids /\ AllReady(v1)
                             THEN LET v2 == SetSt(v1, "NORMAL")
                                  IN Finish("JoinEvent", at, x, NoKey, "ok", v2, Bcast(v2, at, Step), {})
                             ELSE Finish("JoinEvent", at, x, NoKey, "ok", v1, {StatusTo(v1, x, Step)}, {})
             ELSE IF x \in v.ids THEN
                \* code: only the URI is refreshed.  intended ("fixed"): a member that joins
                \* again has restarted; its reported node state is taken over
                LET v1 == IF Variant = "fixed" THEN [v EXCEPT !.ns[x] = meta.s, !.tns[x] = meta.s] ELSE v
                    v2 == SetSt(v1, Determine(v1))
                IN Finish("JoinEvent", at, x, NoKey, "ok", v2, Bcast(v2, at, Step), {})
             ELSE \* a node that is not a member: added directly only when there is no data
                /\ ~HasData
                /\ LET v2 == SetSt(AddNode(v, meta), "NORMAL")
                   IN Finish("JoinEvent", at, x, NoKey, "ok", v2, Bcast(v2, at, Step), {})
    /\ UNCHANGED <<up, leader, lastMerged>>

(***************************************************************************)
(* LeaveEvent(at, x): gossip NodeLeave (ReceiveEvent).  The coordinator     *)
(* probes x (confirmNodeDown); only a node that is really down is dropped  *)
(* from the node list (not from the topology) and marked DOWN.             *)
(***************************************************************************)
LeaveEvent(at, x) ==
    /\ up[at] /\ at # x
    /\ Forced("LeaveEvent", at, x) /\ HandoverQuiet
    /\ LET v == V[at]
           noop == v.co # at \/ up[x] \/ x \notin v.ids
           false == v.co = at /\ up[x]
       IN /\ Free /\ false => bud.fl < MaxFalse
          /\ Free /\ noop /\ ~false => bud.noop < MaxNoop
          /\ bud' = IF ~Free THEN bud
                    ELSE IF false THEN [bud EXCEPT !.fl = @ + 1]
                    ELSE IF noop THEN [bud EXCEPT !.noop = @ + 1] ELSE bud
          /\ evq' = IF at = leader /\ v.co = at /\ ~up[x] THEN evq \ {<<"leave", x>>} ELSE evq
          /\ IF noop THEN Finish("LeaveEvent", at, x, NoKey, "ok", v, {}, {})
             ELSE LET v1 == [v EXCEPT !.ids = @ \ {x}, !.cf = @ \ {x}, !.ns[x] = "", !.tns[x] = "DOWN"]
                      v2 == SetSt(v1, Determine(v1))
                  IN Finish("LeaveEvent", at, x, NoKey, "ok", v2, Bcast(v2, at, Step), {})
    /\ UNCHANGED <<up, leader, lastMerged>>

(***************************************************************************)
(* Deliver(m): API.ClusterMessage on the recipient.                         *)
(***************************************************************************)
\* mergeClusterStatus
Merge(f, v, m) ==
    LET selfRec == {r \in m.nodes : r.id = f}
        mismatch == \E r \in selfRec : r.s # v.ns[f]
        RECURSIVE addAll(_, _)
        addAll(w, rest) == IF rest = {} THEN w
                           ELSE LET r == CHOOSE r \in rest : TRUE IN addAll(AddNode(w, r), rest \ {r})
        \* at most one listed node has the flag, so the order of the additions does not matter
        v1 == addAll(v, m.nodes)
        official == {r.id : r \in m.nodes}
        gone == {i \in v1.ids : i # f /\ i \notin official}
        RECURSIVE dropAll(_, _)
        dropAll(w, rest) == IF rest = {} THEN w
                            ELSE LET i == CHOOSE i \in rest : TRUE
                                     \* code: removeNode (node list and topology); intended: a node the
                                     \* coordinator no longer lists may only be down, it stays in the topology
                                     d == IF Variant = "fixed" THEN [RemoveNode(w, i) EXCEPT !.topo = w.topo]
                                          ELSE RemoveNode(w, i)
                                 IN dropAll(d, rest \ {i})
        v2 == dropAll(v1, gone)
        v3 == [v2 EXCEPT !.st = m.st, !.joined = TRUE,
                         !.topo = IF Variant = "fixed" THEN m.topo \cup {f} ELSE @]
        \* the mismatch goroutine: setNodeState(own previous state)
        v4 == IF mismatch THEN [v3 EXCEPT !.ns[f] = v.ns[f]] ELSE v3
        out == IF mismatch /\ v4.co # f /\ v4.co \in v4.ids
               THEN {Msg("nodestate", v4.co, Step, "", {}, f, v.ns[f])} ELSE {}
    IN [v |-> v4, out |-> out]

Handle(m, consume) ==
    /\ up[m.to]
    /\ LET n == m.to
           v == V[n]
       IN CASE m.k = "status" ->
                 IF v.co = n THEN /\ Finish("Deliver", n, "", KeyOf(m), "ok", v, {}, consume)
                                  /\ UNCHANGED <<leader, lastMerged>>
                 ELSE LET r == Merge(n, v, m)
                      IN /\ Finish("Deliver", n, "", KeyOf(m), "ok", r.v, r.out, consume)
                         /\ lastMerged' = [lastMerged EXCEPT ![n] = m.step]
                         /\ UNCHANGED leader
            [] m.k = "nodestate" ->
                 LET r == RecvNodeState(n, v, m.id, m.s)
                 IN /\ Finish("Deliver", n, "", KeyOf(m), "ok", r.v, r.out, consume)
                    /\ UNCHANGED <<leader, lastMerged>>
            [] m.k = "updcoord" ->
                 /\ Finish("Deliver", n, "", KeyOf(m), "ok", UpdCoord(v, m.id), {}, consume)
                 /\ UNCHANGED <<leader, lastMerged>>
            [] m.k = "setcoord" ->
                 \* cluster.setCoordinator: local update, UpdateCoordinatorMessage to all, then status to all
                 IF m.id # n THEN /\ Finish("Deliver", n, "", KeyOf(m), "err", v, {}, consume)
                                  /\ UNCHANGED <<leader, lastMerged>>
                 ELSE LET v1 == UpdCoord(v, n)
                          upd == {Msg("updcoord", t, Step, "", {}, n, "") : t \in v1.ids \ {n}}
                      IN /\ IF \E u \in upd : ~up[u.to]
                            THEN Finish("Deliver", n, "", KeyOf(m), "ok", v1, upd, consume)
                            ELSE Finish("Deliver", n, "", KeyOf(m), "ok", v1, upd \cup Bcast(v1, n, Step), consume)
                         /\ leader' = n
                         /\ UNCHANGED lastMerged

Deliver(m) ==
    /\ m \in msgs
    /\ InScript => (Script[Step].op = "Deliver" /\ Script[Step].at = m.to /\ Script[Step].x = m.k
                    /\ \A o \in msgs : (o.to = m.to /\ o.k = m.k) => o.step >= m.step)
    /\ Handle(m, {m})
    /\ UNCHANGED <<up, evq, bud>>

Dup(m) ==
    /\ Free /\ m \in msgs /\ m.k \in {"status", "updcoord", "nodestate"}
    /\ bud.dup < MaxDup
    /\ Handle(m, {})
    /\ bud' = [bud EXCEPT !.dup = @ + 1]
    /\ UNCHANGED <<up, evq>>

(***************************************************************************)
(* SetCoordinator(at, new): API.SetCoordinator on node at.                  *)
(***************************************************************************)
SetCoordinator(at, new) ==
    /\ up[at] /\ Free
    /\ msgs = {}     \* scope: the operator hands over while no message is in flight ...
    /\ V[new].co = new \/ lastMerged[new] = lastSent[new].s   \* ... to a node whose view is the latest
    /\ bud.setc < MaxSetCoord
    /\ V[at].joined \/ V[at].co = at
    /\ up[new] /\ (V[new].joined \/ V[new].co = new)
    /\ bud' = [bud EXCEPT !.setc = @ + 1]
    /\ LET v == V[at]
       IN IF new \notin v.ids THEN /\ Finish("SetCoordinator", at, new, NoKey, "err", v, {}, {})
                                   /\ UNCHANGED leader
          ELSE IF new # at THEN /\ Finish("SetCoordinator", at, new, NoKey, "ok", v,
                                          {Msg("setcoord", new, Step, "", {}, new, "")}, {})
                                /\ UNCHANGED leader
          ELSE LET v1 == UpdCoord(v, at)
                   upd == {Msg("updcoord", t, Step, "", {}, at, "") : t \in v1.ids \ {at}}
               IN /\ IF \E u \in upd : ~up[u.to]
                     THEN Finish("SetCoordinator", at, new, NoKey, "ok", v1, upd, {})
                     ELSE Finish("SetCoordinator", at, new, NoKey, "ok", v1, upd \cup Bcast(v1, at, Step), {})
                  /\ leader' = at
    /\ UNCHANGED <<up, lastMerged, evq>>

(***************************************************************************)
(* RemoveNode(at, x): API.RemoveNode -> nodeLeave, without data: direct     *)
(* removal from node list and topology.                                    *)
(***************************************************************************)
RemoveNodeAPI(at, x) ==
    /\ up[at] /\ Free /\ ~HasData /\ HandoverQuiet
    /\ bud.rem < MaxRemove
    /\ bud' = [bud EXCEPT !.rem = @ + 1]
    /\ LET v == V[at]
           refuse == \/ x \notin v.ids \cup v.topo
                     \/ v.co # at
                     \/ v.st \notin {"NORMAL", "DEGRADED"}
                     \/ x = at
       IN /\ ~refuse => Cardinality(v.ids \ {x}) >= 1
          /\ IF refuse THEN Finish("RemoveNode", at, x, NoKey, "err", v, {}, {})
             ELSE LET v1 == RemoveNode(v, x)
                      v2 == SetSt(v1, Determine(v1))
                  IN Finish("RemoveNode", at, x, NoKey, "ok", v2, Bcast(v2, at, Step), {})
          /\ evq' = IF refuse THEN evq ELSE evq \ {<<"join", x>>, <<"leave", x>>}
    /\ UNCHANGED <<up, leader, lastMerged>>

(***************************************************************************)
(* Stop(n): the process dies.  Only the .topology file survives.           *)
(***************************************************************************)
Stop(n) ==
    /\ up[n] /\ Free /\ HandoverQuiet
    /\ n # leader /\ n # Coord0
    /\ bud.stop < MaxStop
    /\ bud' = [bud EXCEPT !.stop = @ + 1]
    /\ up' = [up EXCEPT ![n] = FALSE]
    /\ V' = [V EXCEPT ![n] = [Blank(n) EXCEPT !.topo = V[n].topo]]
    /\ msgs' = {m \in msgs : m.to # n}
    /\ lastSent' = [lastSent EXCEPT ![n] = [s |-> 0, c |-> 0]]
    /\ lastMerged' = [lastMerged EXCEPT ![n] = 0]
    /\ evq' = IF n \in V[leader].ids \/ <<"join", n>> \in evq
              THEN (evq \ {<<"join", n>>}) \cup (IF n \in V[leader].ids THEN {<<"leave", n>>} ELSE {})
              ELSE evq
    /\ hist' = Append(hist, [op |-> "Stop", at |-> n, x |-> "", mk |-> NoKey, res |-> "ok",
                             post |-> PostOf(V'[n]), sent |-> {}])
    /\ UNCHANGED leader

Init ==
    /\ up = [n \in Nodes |-> FALSE]
    /\ V = [n \in Nodes |-> Blank(n)]
    /\ msgs = {}
    /\ hist = <<>>
    /\ leader = Coord0
    /\ lastSent = [n \in Nodes |-> [s |-> 0, c |-> 0]]
    /\ lastMerged = [n \in Nodes |-> 0]
    /\ evq = {}
    /\ pv = {}
    /\ bud = [stop |-> 0, dup |-> 0, setc |-> 0, rem |-> 0, fl |-> 0, noop |-> 0]

Next ==
    /\ Len(hist) < Depth
    /\ \/ \E n \in Nodes : Start(n) \/ Ready(n) \/ Stop(n)
       \/ \E a, x \in Nodes : JoinEvent(a, x) \/ LeaveEvent(a, x) \/ SetCoordinator(a, x) \/ RemoveNodeAPI(a, x)
       \/ \E m \in msgs : Deliver(m) \/ Dup(m)

Spec == Init /\ [][Next /\ UNCHANGED pv]_vars      \* (M) runs; generation uses SpecG below

Emit == Len(hist) = Depth => PrintT(<<"BEH", ToJson(hist)>>)

(***************************************************************************)
(* Properties (M)                                                           *)
(***************************************************************************)
Settled(n) == ~\E m \in msgs : m.to = n
Member(n) == up[n] /\ (V[n].joined \/ V[n].co = n)
Admits(n) == V[n].st \in {"NORMAL", "DEGRADED"}     \* ApiGate!Required(query/import/schema, st) = admit
ListReady(v) == \A i \in v.ids : v.ns[i] = "READY"
LeaderOK == up[leader] /\ V[leader].co = leader

TypeOK == \A n \in Nodes : /\ V[n].cf \subseteq V[n].ids
                           /\ V[n].ids \subseteq V[n].topo
                           /\ up[n] => n \in V[n].ids

\* every node that takes part has exactly one coordinator flag in its node list, on the
\* node it names as coordinator (followers: once the messages addressed to them are in)
ExactlyOneCoordinator ==
    \A n \in Nodes : Member(n) /\ (V[n].co = n \/ Settled(n)) =>
        /\ Cardinality(V[n].cf) = 1
        /\ V[n].cf = {V[n].co}

\* once the hand-over messages are delivered exactly one running node thinks it coordinates
SingleLeader ==
    (~\E m \in msgs : m.k \in {"updcoord", "setcoord"}) =>
        \A n \in Nodes : (up[n] /\ V[n].co = n) => n = leader

\* the coordinator's state is the one its membership / topology implies
StateMatchesMembership ==
    LeaderOK =>
      LET v == V[leader] IN
        /\ v.st \in {"STARTING", "NORMAL", "DEGRADED"}
        /\ v.st = "NORMAL" => v.topo = v.ids
        /\ (v.st = "NORMAL" /\ HasData) => ListReady(v)
        \* DEGRADED: some topology node is absent or (having come back) not READY yet,
        \* but fewer than ReplicaN of them
        /\ v.st = "DEGRADED" => LET rl == {i \in v.ids : v.ns[i] = "READY"}
                                IN /\ v.topo # rl
                                   /\ Cardinality(v.topo \ rl) < ReplicaN

\* ... and it does reach NORMAL / DEGRADED when everything has been delivered
Quiet == msgs = {} /\ evq = {}
ReachesServing ==
    (LeaderOK /\ Quiet /\ V[leader].ready) =>
      LET v == V[leader]
          live == {n \in v.topo : up[n]}
      IN /\ (live = v.topo /\ \A n \in live : V[n].ready) => v.st = "NORMAL"
         /\ (live # v.topo /\ Cardinality(v.topo \ live) < ReplicaN /\ \A n \in live : V[n].ready
             /\ v.ids = live) => v.st = "DEGRADED"

\* a follower that merged the latest status sent to it agrees with the coordinator
FollowersConverge ==
    \A f \in Nodes :
      (/\ LeaderOK /\ f # leader /\ up[f] /\ V[f].co # f /\ V[f].joined
       /\ Settled(f) /\ lastSent[f].s # 0 /\ lastMerged[f] = lastSent[f].s
       /\ lastSent[f].s >= lastSent[leader].c
       /\ f \in V[leader].ids /\ Admits(leader)) =>
          /\ V[f].ids = V[leader].ids
          /\ V[f].co = leader
          /\ V[f].cf = {leader}
          /\ V[f].st = V[leader].st
          /\ \A i \in V[f].ids \ {f} : V[f].ns[i] = V[leader].ns[i]

\* composition with the API gate: a node admits data requests only while every shard
\* has a live owner and (with data) every listed member has opened its holder
NoServeWhileNotReady ==
    /\ \A n \in Nodes : (up[n] /\ ~V[n].joined /\ ~V[n].ready /\ V[n].co # n) => ~Admits(n)
    /\ (LeaderOK /\ Admits(leader)) =>
          LET v == V[leader]
              \* topology nodes that cannot serve now, except those whose stop / restart the
              \* coordinator has not been told about yet
              notAvail == {i \in v.topo : ~(i \in v.ids /\ up[i] /\ V[i].ready)
                                          /\ <<"join", i>> \notin evq /\ <<"leave", i>> \notin evq}
          IN /\ Cardinality(v.topo \ v.ids) < ReplicaN
             /\ HasData => Cardinality(notAvail) < ReplicaN
             /\ (HasData /\ v.st = "NORMAL") => notAvail = {}

(***************************************************************************)
(* Generation: besides the maximal behaviours (Emit), every prefix that     *)
(* ends in a state violating a property is emitted with a final pseudo-step *)
(* "Viol" naming the violated properties.  The driver replays the prefix on *)
(* the real nodes (every step compared) and, if the real nodes are in the   *)
(* model's state, reports the violation as one of the real code.            *)
(***************************************************************************)
Name(b, s) == IF b THEN {} ELSE {s}
ViolNames == Name(TypeOK, "TypeOK") \cup Name(ExactlyOneCoordinator, "ExactlyOneCoordinator")
             \cup Name(SingleLeader, "SingleLeader") \cup Name(StateMatchesMembership, "StateMatchesMembership")
             \cup Name(ReachesServing, "ReachesServing") \cup Name(FollowersConverge, "FollowersConverge")
             \cup Name(NoServeWhileNotReady, "NoServeWhileNotReady")
SpecG == Init /\ [][Next /\ pv' = ViolNames]_vars
EmitViol == (Len(hist) > Len(Script) /\ ~(ViolNames \subseteq pv)) =>
    PrintT(<<"BEH", ToJson(Append(hist, [op |-> "Viol", at |-> leader, x |-> V[leader].st, mk |-> NoKey, res |-> "",
                                         post |-> PostOf(V[leader]), sent |-> {}, inv |-> ViolNames \ pv]))>>)

(* forced prefixes *)
S(op, at, x) == [op |-> op, at |-> at, x |-> x]
ScriptNone == <<>>
\* restart of a 3-node cluster with data and a full .topology, up to NORMAL everywhere
ScriptWarm3 == <<S("Start", "a", ""), S("Ready", "a", ""),
                 S("Start", "b", ""), S("JoinEvent", "a", "b"), S("Deliver", "b", "status"),
                 S("Ready", "b", ""), S("Deliver", "a", "nodestate"), S("Deliver", "b", "status"),
                 S("Start", "c", ""), S("JoinEvent", "a", "c"), S("Deliver", "c", "status"),
                 S("Ready", "c", ""), S("Deliver", "a", "nodestate"),
                 S("Deliver", "b", "status"), S("Deliver", "c", "status")>>
\* a fresh 3-node cluster without data (empty .topology), up to NORMAL everywhere
ScriptFresh3 == <<S("Start", "a", ""), S("Ready", "a", ""),
                  S("Start", "b", ""), S("JoinEvent", "a", "b"), S("Deliver", "b", "status"),
                  S("Ready", "b", ""), S("Deliver", "a", "nodestate"), S("Deliver", "b", "status"),
                  S("Start", "c", ""), S("JoinEvent", "a", "c"), S("Deliver", "b", "status"), S("Deliver", "c", "status"),
                  S("Ready", "c", ""), S("Deliver", "a", "nodestate"),
                  S("Deliver", "b", "status"), S("Deliver", "c", "status")>>
=============================================================================
