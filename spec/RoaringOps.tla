---------------------------- MODULE RoaringOps ----------------------------
(***************************************************************************)
(* Set-level meaning of every read and every operation of roaring.Bitmap   *)
(* (roaring/roaring.go).  A bitmap is a finite set of naturals; the small  *)
(* ordered universe U = 0..K*M-1 is K containers of M slots (element i is   *)
(* in container i \div M).  The harness refines every abstract element to a *)
(* block of concrete uint64 values (DESIGN.md 2.4), so the results defined  *)
(* here are what the real calls must return, block for block.               *)
(***************************************************************************)
EXTENDS Integers, Sequences, FiniteSets

CONSTANTS K,   \* number of abstract containers
          M    \* abstract slots per container

U     == 0 .. (K*M - 1)
Cuts  == 0 .. (K*M)        \* abstract range bounds: cut c separates elements < c from >= c
KCuts == 0 .. K            \* container-aligned bounds
None  == -1

ContainerOf(x) == x \div M

SetMin(S) == IF S = {} THEN None ELSE CHOOSE x \in S : \A y \in S : x <= y
SetMax(S) == IF S = {} THEN None ELSE CHOOSE x \in S : \A y \in S : x >= y

\* ---- reads (Bitmap.Contains, Count, CountRange, Min, Max, Slice, SliceRange,
\*      Iterator.Seek+Next, OffsetRange, Any)
RContains(S, x)        == x \in S
RCount(S)              == S                                   \* sized through gamma
RCountRange(S, lo, hi) == {x \in S : lo <= x /\ x < hi}       \* [lo,hi)
RSlice(S)              == S
RSliceRange(S, lo, hi) == {x \in S : lo <= x /\ x < hi}
RSeek(S, lo)           == {x \in S : lo <= x}                  \* Seek(lo) then Next until eof
RMin(S)                == SetMin(S)                           \* (lo of block, ok) ; None => ok = FALSE
RMax(S)                == SetMax(S)                           \* hi of block ; None => 0
RAny(S)                == S # {}
\* OffsetRange(offset, start, end): containers kl <= k < kh, re-based
ROffsetRange(S, kl, kh) == {x \in S : kl <= ContainerOf(x) /\ ContainerOf(x) < kh}

\* ---- operations
OUnion(S, T)       == S \cup T
OIntersect(S, T)   == S \cap T
ODifference(S, T)  == S \ T
OXor(S, T)         == (S \ T) \cup (T \ S)
\* Shift(1): every value +1 (the harness drops a carry out of 2^64)
OShift(S)          == {x + 1 : x \in S}
\* Flip(lo, hi): negate the closed range [lo,hi] of abstract elements
OFlip(S, lo, hi)   == (S \ (lo..hi)) \cup ((lo..hi) \ S)

\* ---- mutations; each returns <<new set, set of changed elements>>
MAdd(S, xs)    == <<S \cup xs, xs \ S>>
MRemove(S, xs) == <<S \ xs, xs \cap S>>

SeqToSet(s) == {s[i] : i \in DOMAIN s}

\* all sequences over D of length 1..n
RECURSIVE SeqsUpTo(_, _)
SeqsUpTo(D, n) == IF n = 0 THEN {} ELSE
                    SeqsUpTo(D, n-1) \cup [1..n -> D]

\* rows for ImportRoaringBits(rowSize): a row is rowSize consecutive containers
RowOf(x, rowSize) == ContainerOf(x) \div rowSize
=============================================================================
