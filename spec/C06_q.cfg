CONSTANTS
  Families = {"roaring", "pql", "msg", "env"}
  Entries = {"unmarshal", "irb_set_btree", "irb_clear_slice", "frag_open"}
  SrvEntries = {"api_import_set", "api_import_views", "http_import_clear"}
  CtlEntries = {"unmarshal", "irb_set_slice", "irb_clear_slice", "irb_set_btree", "irb_clear_btree", "frag_open", "api_import_set", "api_import_clear", "api_import_views", "http_import_set", "http_import_clear"}
  PqlEntries = {"api_query", "http_query"}
  EnvEntries = {"api_import_env", "http_import_env"}
  MsgEntries = {"api_msg", "http_msg", "gossip_msg", "gossip_merge"}
  Formats = {"pilosa", "official", "official_runs"}
  Shapes <- ShapesQuick
  SrvShapes <- ShapesSrvQuick
  Tails <- TailsQuick
  MinCors = 0
  MaxCors = 1
  Tokens = {"ROWLP", "RP", "COMMA", "ARG", "DQ", "LT", "SETCALL", "LB", "BIG", "STOREB"}
  MinToks = 1
  MaxToks = 3
  Nests <- NestsQuick
  MsgTypes = {0, 1, 2, 3, 4, 5, 6, 7, 8, 9, 10, 11, 12, 13, 14, 15, 16, 17, 18, 255}
  MsgBodies = {"none", "empty", "onebyte", "onebyte_ff", "trunc1", "trunchalf", "other", "other2", "valid", "nested"}
  Design = "validate_first"
INIT GenInit
NEXT GenNext
INVARIANT CaseOK
INVARIANT Emit
CHECK_DEADLOCK FALSE
