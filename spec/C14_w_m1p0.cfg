CONSTANTS
  MinNeg = 1
  MinPos = 0
  MaxNeg = 0
  MaxPos = 0
  NCols = 6
  Datasets = {"all", "empty", "ties0"}
  Vias = {"set", "imp"}
  Classes = {"W"}
  Depth = 2
  Sample = FALSE
  Paths = {"small", "large"}
INIT Init
NEXT Next
INVARIANT Emit
CHECK_DEADLOCK FALSE
