CONSTANTS
  Families = {"roaring"}
  Entries = {"unmarshal", "irb_set_slice", "irb_clear_slice", "irb_set_btree", "irb_clear_btree", "frag_open"}
  SrvEntries = {"api_import_set", "api_import_clear", "api_import_views", "http_import_set", "http_import_clear"}
  CtlEntries = {}
  PqlEntries = {}
  EnvEntries = {}
  MsgEntries = {}
  Formats = {"pilosa", "official", "official_runs"}
  Shapes <- ShapesAll
  SrvShapes <- ShapesSrvMid
  Tails <- TailsNone
  MinCors = 0
  MaxCors = 1
  Tokens = {}
  MinToks = 1
  MaxToks = 0
  Nests <- NestsNone
  MsgTypes = {}
  MsgBodies = {}
  Design = "validate_first"
INIT GenInit
NEXT GenNext
INVARIANT CaseOK
INVARIANT Emit
CHECK_DEADLOCK FALSE
