CONSTANTS
  NRows = 3
  NCols = 2
  Kinds = {"mutex", "bool"}
  MaxBatch = 3
  MaxClearBatch = 2
  Ops = {"Set", "Clear", "Import", "ClearImport", "ClearRow", "Roaring", "BadRow"}
  Inits = "all"
  Depth = 1
INIT Init
NEXT Next
INVARIANTS Emit TypeOK AtMostOnePerColumn LastWriterWins
CHECK_DEADLOCK FALSE
