----------------------------- MODULE Malformed -----------------------------
(***************************************************************************)
(* C06 - malformed external input is rejected without crashing the server. *)
(*                                                                         *)
(* Two parts in one module (selected by INIT/NEXT in the .cfg):            *)
(*                                                                         *)
(* (G) GenInit/GenNext - the generator of abstract inputs.  A case is      *)
(*   roaring: an abstract VALID encoding (format, 1-3 containers each of   *)
(*     type array/bitmap/run, for Pilosa files an op-log tail of 0-2 ops)  *)
(*     plus MinCors..MaxCors STRUCTURED corruptions chosen by TLC: a named *)
(*     header/descriptor/offset/run-count/cardinality/op field set to a    *)
(*     value of an adversarial domain, a truncation at a section boundary  *)
(*     -1/0/+1 or to a tiny absolute length, unsorted/duplicate keys, op   *)
(*     tail damage;                                                        *)
(*   pql: a token string over the grammar's alphabet, or a deep nest;      *)
(*   msg: a cluster message (type byte x body class);                      *)
(*   env: the ENVELOPE of an import-roaring request: 0-2 views (name x data *)
(*     class), the clear flag, an absent or an empty view map;             *)
(*   each together with the entry point it is submitted through.           *)
(*   The harness materialises the case to bytes with its own encoders.     *)
(*   The oracle is the outcome CLASS only: Accepted or Rejected - never    *)
(*   Crash or Hang; a case with no corruption must be Accepted.            *)
(*                                                                         *)
(* (M) SrvInit/SrvNext - the abstract server the outcome classes refer to: *)
(*   a request takes the target's lock, inspects the containers of the     *)
(*   payload (each found well-formed or not), applies them, answers        *)
(*   Accepted or Rejected, releases the lock; then a valid follow-up       *)
(*   request is served.  Properties: RejectLeavesState, LockReleased,      *)
(*   NeverCrash, Served.  Design = "validate_first" is what the property   *)
(*   demands; "as_found" is the code as first read (apply container by     *)
(*   container, worker without recover): its counterexamples are the       *)
(*   hypotheses the harness replays on the real code.                      *)
(***************************************************************************)
EXTENDS Integers, Sequences, FiniteSets, TLC, Json

CONSTANTS Families,    \* subset of {"roaring", "pql", "msg", "env"}: generator families of this run
          Entries,     \* roaring family: entry points enumerated with Shapes and Tails
          SrvEntries,  \* roaring family: entry points enumerated with SrvShapes (no tails)
          CtlEntries,  \* roaring family: entry points that get (at least) the CONTROL cases:
                       \* the valid encoding of every format and one certainly malformed
                       \* one - independent of any sampling (SrvShapes, no tails)
          PqlEntries, MsgEntries,
          EnvEntries,  \* envelope family: entry points of import-roaring requests
          Formats,     \* subset of {"pilosa","official","official_runs"}
          Shapes, SrvShapes,  \* sets of sequences over {"a","b","r"} (container types)
          Tails,       \* set of sequences over op kinds (op-log tail of a Pilosa file)
          MinCors, MaxCors,   \* number of corruptions per case
          Tokens, MinToks, MaxToks,   \* PQL token alphabet (symbolic names) and string length
          Nests,       \* set of <<kind, depth>> deep-nesting cases
          MsgTypes, MsgBodies,
          Design       \* server model: "validate_first" | "as_found"

VARIABLES c,      \* the case being built
          stage,  \* "base" | "fmt" | "shape" | "tail" | "cor" | "fin" | "done"
          hist,   \* << case >> once finished (what is emitted)
          srv     \* the abstract server (part M)

vars == <<c, stage, hist, srv>>

OpKinds == {"add", "rem", "addb", "remb", "addr", "remr"}
TailEntries == {"unmarshal", "frag_open"}   \* entries that read an op-log tail

NoCase == [fam |-> "none", entry |-> "", fmt |-> "", shape |-> << >>, tail |-> << >>,
           cors |-> << >>, toks |-> << >>, nestkind |-> "", nest |-> 0,
           mtype |-> 0, mbody |-> "",
           form |-> "", clear |-> FALSE, views |-> << >>,
           mpath |-> "", mmode |-> ""]

Cor(k, s, i, v) == [kind |-> k, sec |-> s, idx |-> i, val |-> v]

(* Scopes (a .cfg cannot write sequences; it substitutes these: Shapes <- ShapesQuick) *)
CTypes == {"a", "b", "r"}
SeqsUpTo(S, n) == UNION {[1..k -> S] : k \in 1..n}
ShapesQuick == {<<"r">>, <<"b", "a">>, <<"r", "b", "a">>}
ShapesMid   == SeqsUpTo(CTypes, 2) \cup {<<"r", "b", "a">>, <<"a", "r", "r">>, <<"b", "b", "r">>}
ShapesAll   == SeqsUpTo(CTypes, 3)
ShapesSrvQuick == {<<"b", "a">>, <<"r", "b", "a">>}
ShapesSrvMid   == {<<"a">>, <<"b">>, <<"r">>, <<"b", "a">>, <<"a", "r">>, <<"r", "b", "a">>}
TailsNone   == {<< >>}
TailsMid    == {<< >>} \cup SeqsUpTo(OpKinds, 1)
               \cup {<<"add", "addr">>, <<"remb", "remr">>, <<"addr", "addr">>, <<"addb", "rem">>}
TailsQuick  == {<< >>, <<"addb", "addr">>}
TailsAll    == {<< >>} \cup SeqsUpTo(OpKinds, 2)
NestsNone   == {}
NestKinds   == {"balanced", "unclosed", "overclosed", "quote", "bracket", "calls"}
NestsQuick  == NestKinds \X {1, 64, 4096}
NestsAll    == NestKinds \X {1, 2, 64, 1024, 4096, 65536}

-----------------------------------------------------------------------------
(* Adversarial values.  Symbolic: the harness resolves them against the    *)
(* materialised byte string (len = its length in bytes; val = the field's  *)
(* valid value) and truncates to the field's width.                        *)
Adv == {"zero", "one", "lenm1", "len", "lenp1", "max16", "max32", "valm1", "valp1"}
Adv64 == Adv \cup {"b59", "b59p1", "i63", "max64"}

HasRun(s) == \E i \in 1..Len(s) : s[i] = "r"
ShapeOK(f, s) == CASE f = "official"      -> ~HasRun(s)
                   [] f = "official_runs" -> HasRun(s)
                   [] OTHER               -> TRUE

HdrFields(f) == CASE f = "pilosa"        -> {"magic", "version", "keyn"}
                  [] f = "official"      -> {"magic", "cookiehi", "keyn"}
                  [] f = "official_runs" -> {"magic", "cookiehi", "runbits"}

ContFields(f, t) ==
    (CASE f = "pilosa"        -> {"key", "type", "card", "offset"}
       [] f = "official"      -> {"key", "card", "offset"}
       [] f = "official_runs" -> {"key", "card"})
    \cup (IF t = "r" THEN {"runcount"} ELSE {})

ValsOf(fld) ==
    CASE fld = "magic"    -> {"zero", "one", "max16", "magic_pilosa", "cookie_norun", "cookie_run"}
      [] fld = "version"  -> {"one", "max16"}
      [] fld = "type"     -> {"zero", "t1", "t2", "t3", "t4", "max16"}
      [] fld = "runbits"  -> {"zero", "max16", "valp1"}
      [] fld = "cookiehi" -> {"zero", "one", "valm1", "valp1", "max16"}
      [] OTHER            -> Adv

OpFields(k) == {"optype", "oplen", "opsum"} \cup (IF k \in {"addr", "remr"} THEN {"opn", "nested"} ELSE {})
OpValsOf(fld) ==
    CASE fld = "optype" -> {"t6", "max16"}
      [] fld = "oplen"  -> Adv64
      [] fld = "opsum"  -> {"valp1", "zero"}
      [] fld = "opn"    -> {"zero", "max32"}
      [] fld = "nested" -> {"magic0", "keyn_max16", "trunc1", "offs_len", "runcount_max"}

HasOffsets(f) == f \in {"pilosa", "official"}

FieldCors(x) ==
    LET n == Len(x.shape) IN
    UNION {{Cor("field", fld, 0, v) : v \in ValsOf(fld)} : fld \in HdrFields(x.fmt)}
    \cup UNION {UNION {{Cor("field", fld, i, v) : v \in ValsOf(fld)} : fld \in ContFields(x.fmt, x.shape[i])}
                : i \in 1..n}

Deltas == {"m1", "at", "p1"}
TruncCors(x) ==
    LET n == Len(x.shape) IN
    {Cor("trunc", "hdr", 0, d) : d \in Deltas}
    \cup {Cor("trunc", "desc", i, d) : i \in 1..n, d \in Deltas}
    \cup (IF HasOffsets(x.fmt) THEN {Cor("trunc", "offs", i, d) : i \in 1..n, d \in Deltas} ELSE {})
    \cup {Cor("trunc", "data", i, d) : i \in 1..n, d \in Deltas}
    \cup {Cor("trunc", "op", j, d) : j \in 1..Len(x.tail), d \in Deltas}
    \cup {Cor("trunc", "ophdr", j, d) : j \in 1..Len(x.tail), d \in Deltas}
    \cup {Cor("trunc", "abs", k, "at") : k \in {0, 1, 2, 3, 4, 7}}

KeyCors(x) == IF Len(x.shape) >= 2
              THEN {Cor("keys", "", 0, "unsorted"), Cor("keys", "", 0, "dup")}
              ELSE {}

TailCors(x) ==
    UNION {UNION {{Cor("op", fld, j, v) : v \in OpValsOf(fld)} : fld \in OpFields(x.tail[j])}
           : j \in 1..Len(x.tail)}

\* the certainly malformed control: three bytes are no roaring data in any format
CtlCor == Cor("trunc", "abs", 3, "at")

Corruptions(x) == FieldCors(x) \cup TruncCors(x) \cup KeyCors(x) \cup TailCors(x)

-----------------------------------------------------------------------------
(* (G) the generator *)

\* The roaring base is chosen in small steps (entry, format, shape, tail) so that a
\* simulation step has few successors; BFS visits the same set of cases.
RoaringEntry ==
    /\ stage = "base"
    /\ \E e \in Entries \cup SrvEntries \cup CtlEntries :
          c' = [NoCase EXCEPT !.fam = "roaring", !.entry = e]
    /\ stage' = "fmt"

ShapesFor(e) == IF e \in Entries THEN Shapes ELSE SrvShapes
TailsFor(e, f) == IF e \in Entries /\ e \in TailEntries /\ f = "pilosa" THEN Tails ELSE {<< >>}

RoaringFormat ==
    /\ stage = "fmt"
    /\ \E f \in Formats :
          /\ \E s \in ShapesFor(c.entry) : ShapeOK(f, s)
          /\ c' = [c EXCEPT !.fmt = f]
    /\ stage' = "shape"

RoaringShape ==
    /\ stage = "shape"
    /\ \E s \in ShapesFor(c.entry) :
          /\ ShapeOK(c.fmt, s)
          /\ c' = [c EXCEPT !.shape = s]
    /\ stage' = "tail"

RoaringTail ==
    /\ stage = "tail"
    /\ \E t \in TailsFor(c.entry, c.fmt) : c' = [c EXCEPT !.tail = t]
    /\ stage' = "cor"

RoaringBase == RoaringEntry \/ RoaringFormat \/ RoaringShape \/ RoaringTail

PqlBase0 ==
    \/ \E e \in PqlEntries :
          /\ c' = [NoCase EXCEPT !.fam = "pql", !.entry = e]
          /\ stage' = "cor"
    \/ \E e \in PqlEntries, nd \in Nests :
          /\ c' = [NoCase EXCEPT !.fam = "pql", !.entry = e, !.nestkind = nd[1], !.nest = nd[2]]
          /\ stage' = "fin"

\* message types whose well-formed message is harmless to deliver to a running node:
\* the controls of the msg family (CreateShard, CreateView, RecalculateCaches, NodeStatus)
ValidControlTypes == {0, 5, 13, 15}

\* Body kind "nested": a WELL-FORMED protobuf body of the right type, written field by
\* field by the harness's own protobuf writer, in which exactly one nested sub-message
\* field (named by its path) is absent, or present but empty.  NestedPaths lists, per
\* message type, every path to a nested message field of internal/private.proto
\* (repeated fields: absent = no element, empty = one empty element).
NodePaths(p) == {p, p \o ".URI"}
SchemaPaths(p) == {p, p \o ".Indexes", p \o ".Indexes.Fields", p \o ".Indexes.Fields.Meta",
                   p \o ".Indexes.Options"}
NodeStatusPaths(pre) == NodePaths(pre \o "Node") \cup SchemaPaths(pre \o "Schema")
                        \cup {pre \o "Indexes", pre \o "Indexes.Fields"}
ClusterStatusPaths(pre) == NodePaths(pre \o "Nodes")
NestedPaths(ty) ==
    CASE ty = 1  -> {"Meta"}
      [] ty = 3  -> {"Meta"}
      [] ty = 7  -> ClusterStatusPaths("")
      [] ty = 8  -> NodePaths("Node") \cup NodePaths("Coordinator")
                    \cup {"Sources"} \cup NodePaths("Sources.Node")
                    \cup {"NodeStatus"} \cup NodeStatusPaths("NodeStatus.")
                    \cup {"ClusterStatus"} \cup ClusterStatusPaths("ClusterStatus.")
      [] ty = 9  -> NodePaths("Node")
      [] ty = 10 -> NodePaths("New")
      [] ty = 11 -> NodePaths("New")
      [] ty = 14 -> NodePaths("Node")
      [] ty = 15 -> NodeStatusPaths("")
      [] OTHER   -> {}
NestedModes == {"absent", "empty"}

MsgBase0 ==
    \/ \E e \in MsgEntries, ty \in MsgTypes, b \in MsgBodies \ {"nested"} :
          /\ (b = "none" => ty = 0)      \* a zero-length message has no type byte
          /\ (b = "valid" => ty \in ValidControlTypes)
          /\ c' = [NoCase EXCEPT !.fam = "msg", !.entry = e, !.mtype = ty, !.mbody = b]
          /\ stage' = "fin"
    \/ /\ "nested" \in MsgBodies
       /\ \E e \in MsgEntries, ty \in MsgTypes :
             \E pa \in NestedPaths(ty), mo \in NestedModes :
                /\ c' = [NoCase EXCEPT !.fam = "msg", !.entry = e, !.mtype = ty, !.mbody = "nested",
                                       !.mpath = pa, !.mmode = mo]
                /\ stage' = "fin"

\* ---- the envelope of an import-roaring request (ImportRoaringRequest{Clear, Views}):
\* how many views, under which names, with which class of data, the clear flag alone,
\* no view map at all.  "" is the standard view, "2019" a time view, "standard" a name
\* that collides with the standard view's, "Bad/Name" an invalid one.  Data classes:
\* valid (a bit no earlier case set), zero (zero-length), short (1 byte), garbage (8
\* bytes, unknown magic).  Views are added in the order of EnvNames (a map has no order).
EnvNames == <<"", "standard", "2019", "Bad/Name">>
EnvData  == {"valid", "zero", "short", "garbage"}
EnvForms == {"nilmap", "map"}       \* Views absent / present (possibly empty)
NameIdx(nm) == CHOOSE i \in 1..Len(EnvNames) : EnvNames[i] = nm

EnvBase ==
    /\ stage = "base"
    /\ \E e \in EnvEntries, fm \in EnvForms, cl \in BOOLEAN :
          c' = [NoCase EXCEPT !.fam = "env", !.entry = e, !.form = fm, !.clear = cl]
    /\ stage' = "views"

EnvAddView ==
    /\ stage = "views"
    /\ c.form = "map"                  \* an absent map carries no views
    /\ Len(c.views) < 2
    /\ \E i \in 1..Len(EnvNames), d \in EnvData :
          /\ \A j \in 1..Len(c.views) : NameIdx(c.views[j].name) < i
          /\ c' = [c EXCEPT !.views = Append(@, [name |-> EnvNames[i], data |-> d])]
    /\ UNCHANGED stage

PqlBase ==
    /\ stage = "base"
    /\ PqlBase0

MsgBase ==
    /\ stage = "base"
    /\ MsgBase0

Base ==
    /\ \/ "roaring" \in Families /\ RoaringBase
       \/ "pql" \in Families /\ PqlBase
       \/ "msg" \in Families /\ MsgBase
       \/ "env" \in Families /\ (EnvBase \/ EnvAddView)
    /\ UNCHANGED <<hist, srv>>

Corrupt ==
    /\ stage = "cor"
    /\ \/ /\ c.fam = "roaring"
          /\ Len(c.cors) < MaxCors
          /\ \E k \in IF c.entry \in Entries \cup SrvEntries THEN Corruptions(c) ELSE {CtlCor} :
                /\ \A j \in 1..Len(c.cors) : c.cors[j] # k
                /\ c' = [c EXCEPT !.cors = Append(@, k)]
       \/ /\ c.fam = "pql"
          /\ Len(c.toks) < MaxToks
          /\ \E t \in Tokens : c' = [c EXCEPT !.toks = Append(@, t)]
    /\ UNCHANGED <<stage, hist, srv>>

Finish ==
    /\ \/ stage = "fin"
       \/ stage = "views"
       \/ stage = "cor" /\ c.fam = "roaring" /\ Len(c.cors) >= MinCors
       \/ stage = "cor" /\ c.fam = "pql" /\ Len(c.toks) >= MinToks
    /\ hist' = << c >>
    /\ stage' = "done"
    /\ UNCHANGED <<c, srv>>

SrvIdle == [pc |-> "idle", data |-> {}, snap |-> {}, lock |-> FALSE, outcome |-> "none",
            oks |-> << >>, pos |-> 0, served |-> 0]

GenInit == c = NoCase /\ stage = "base" /\ hist = << >> /\ srv = SrvIdle
GenNext == Base \/ Corrupt \/ Finish

\* the expected outcome class of an emitted case (what the harness enforces)
MustAccept(x) == x.fam = "roaring" /\ x.cors = << >>
CaseOK == hist # << >> =>
            /\ hist[1].fam \in {"roaring", "pql", "msg", "env"}
            /\ hist[1].entry \in Entries \cup SrvEntries \cup CtlEntries \cup PqlEntries \cup MsgEntries \cup EnvEntries
            /\ (hist[1].fam = "env" => Len(hist[1].views) <= 2 /\ (hist[1].form = "nilmap" => hist[1].views = << >>))
            /\ (hist[1].fam = "roaring" =>
                  /\ ShapeOK(hist[1].fmt, hist[1].shape)
                  /\ Len(hist[1].cors) \in MinCors..MaxCors
                  /\ \A i, j \in 1..Len(hist[1].cors) : i # j => hist[1].cors[i] # hist[1].cors[j])

Emit == Len(hist) = 1 => PrintT(<<"BEH", ToJson(hist)>>)

-----------------------------------------------------------------------------
(* (M) the abstract server.  data: set of abstract bits stored in the      *)
(* target; a request is a sequence oks of verdicts, one per container of   *)
(* its payload (TRUE = the decoder finds the container well-formed);       *)
(* container i carries bit i.  served counts completed requests.           *)

MaxN == 3
Requests == UNION {[1..n -> BOOLEAN] : n \in 1..MaxN}
AllOK(r) == \A i \in 1..Len(r) : r[i]

Receive ==
    /\ srv.pc = "idle" /\ srv.served < 2 /\ ~srv.lock
    /\ \E r \in Requests :
          /\ (srv.served = 1 => AllOK(r))      \* the follow-up request is a valid one
          /\ srv' = [srv EXCEPT !.pc = IF Design = "validate_first" THEN "validate" ELSE "apply",
                                !.lock = TRUE, !.snap = srv.data, !.oks = r, !.pos = 1,
                                !.outcome = "none"]

Validate ==
    /\ srv.pc = "validate"
    /\ srv' = IF AllOK(srv.oks)
              THEN [srv EXCEPT !.pc = "apply"]
              ELSE [srv EXCEPT !.pc = "unlock", !.outcome = "Rejected"]

Apply ==
    /\ srv.pc = "apply"
    /\ IF srv.pos > Len(srv.oks)
       THEN srv' = [srv EXCEPT !.pc = "unlock", !.outcome = "Accepted"]
       ELSE IF srv.oks[srv.pos]
            THEN srv' = [srv EXCEPT !.data = @ \cup {srv.pos}, !.pos = @ + 1]
            ELSE \* only reachable in the as_found design
                 \/ srv' = [srv EXCEPT !.pc = "unlock", !.outcome = "Rejected"]
                 \/ srv' = [srv EXCEPT !.pc = "crashed", !.outcome = "Crash"]  \* worker without recover

Unlock ==
    /\ srv.pc = "unlock"
    /\ srv' = [srv EXCEPT !.pc = "idle", !.lock = FALSE, !.served = @ + 1]

SrvInit == c = NoCase /\ stage = "srv" /\ hist = << >> /\ srv = SrvIdle
SrvNext == (Receive \/ Validate \/ Apply \/ Unlock) /\ UNCHANGED <<c, stage, hist>>
SrvSpec == SrvInit /\ [][SrvNext]_vars /\ WF_vars(SrvNext)

SrvTypeOK == /\ srv.pc \in {"idle", "validate", "apply", "unlock", "crashed"}
             /\ srv.data \subseteq 1..MaxN
             /\ srv.outcome \in {"none", "Accepted", "Rejected", "Crash"}

\* a rejected request leaves the stored data as it was when the request arrived
RejectLeavesState == (srv.pc = "unlock" /\ srv.outcome = "Rejected") => srv.data = srv.snap
\* whenever the server is idle again its lock is free (so the next request is served)
LockReleased == srv.pc = "idle" => ~srv.lock
\* no request ends in a crash
NeverCrash == srv.pc # "crashed" /\ srv.outcome # "Crash"
\* an accepted request applied every container
AcceptAppliesAll == (srv.pc = "unlock" /\ srv.outcome = "Accepted") =>
                       srv.data = srv.snap \cup (1..Len(srv.oks))
\* the request and the valid follow-up are both answered (no hang, lock released)
Served == <>(srv.pc = "idle" /\ srv.served = 2)
\* the valid follow-up is accepted
FollowUpAccepted == (srv.served = 1 /\ srv.pc = "unlock") => srv.outcome = "Accepted"
=============================================================================
