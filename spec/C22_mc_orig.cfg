CONSTANTS
  Members = {"n0","n1","n2"}
  Coord = "n0"
  Joiners = {"n3"}
  Leavers = {"n2"}
  Rejoiners = {"n1"}
  Profile = "joiner"
  Variant = "orig"
  Gran = "fine"
  MaxJobs = 3
  MaxQueue = 2
  BJoin = 2
  BRejoin = 0
  BLeave = 0
  BDup = 1
  BErr = 1
  BUnknown = 1
  BAbort = 1
  BSendFail = 1
  Depth = 0
  Locks = FALSE
  HandlerReadsState = FALSE
SPECIFICATION FairSpec
INVARIANT TypeOK
INVARIANT AtMostOneJob
INVARIANT DoneOnlyIfOk
INVARIANT NoHandlerStuck
INVARIANT QuiescentClean
INVARIANT CanStepAgrees
PROPERTY MembershipOnlyAfterAllOk
PROPERTY RefinesAbs
CHECK_DEADLOCK FALSE
PROPERTY LeavesResizing
PROPERTY JobEnds
PROPERTY AbsLive
