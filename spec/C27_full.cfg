CONSTANTS
  Level = "full"
INIT Init
NEXT Next
INVARIANT TypeOK
INVARIANT Emit
CHECK_DEADLOCK FALSE
