CONSTANTS
  S = 3
  N = 3
  Mode = "parts"
  Kinds = {"Sum","Min","Max","Rows","Count","Row","Bool"}
  Lims = {1,2}
  Vals <- ValsB
  MaxCnt = 1
  R = 2
  G = 1
  TR = 3
  TMax = 3
  ColsPer = 1
  Canon = TRUE
  DataSrc = "free"
INIT Init
NEXT Next
INVARIANT TypeOK
INVARIANT OrderIndependent
INVARIANT TieCountsAdd
VIEW MView
CHECK_DEADLOCK FALSE
