CONSTANTS
  K = 1
  M = 3
  Depth = 4
  Kinds = {"slice"}
  Formats = {"pilosa"}
  MaxBatch = 1
  RowSizes = {0}
  Alphabet = {"Add","AddN","Remove","Hold","Optimize","Count"}
INIT Init
NEXT Next
INVARIANT TypeOK
INVARIANT ReplayMatches
INVARIANT ChangedExact
INVARIANT Emit
CHECK_DEADLOCK FALSE
