CONSTANTS
  NRows = 3
  NCols = 2
  Kinds = {"ranked"}
  Sizes = {1}
  Mutexes = {FALSE}
  FixDelta = TRUE
  FixBelow = FALSE
  FixTomb = TRUE
  FixZeroFirst = TRUE
INIT Init
NEXT Next
INVARIANTS IdsExact NoGarbage TopNComplete LruShape
CHECK_DEADLOCK FALSE
