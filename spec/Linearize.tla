----------------------------- MODULE Linearize -----------------------------
(***************************************************************************)
(* C29: the sequential reference model of a few rows x columns of one or   *)
(* two fragments, and the definition of "linearizable" as a state machine. *)
(*                                                                         *)
(* Abstract state: bits[f] = set of codes r*10+c (row r, column c) held by *)
(* fragment f - the same set semantics as spec/Fragment.tla (RowCols,      *)
(* RowsOf, AddPair/DelPair, SetRow = replace, ClearRow = delete, reads =   *)
(* projections).  Every operation is addressed to ONE fragment.            *)
(*                                                                         *)
(* A client p (goroutine) performs  Call(p, o)  - invocation, nothing      *)
(* happens yet;  Lin(p) - the silent linearization point: the operation is *)
(* applied atomically to bits and its result is fixed;  Ret(p, res) - the  *)
(* response, which must carry exactly the fixed result.  A recorded        *)
(* history of call / return events is linearizable iff it is the visible   *)
(* part of a behaviour of this machine (TraceLinearize.tla searches for    *)
(* one).  Real-time order is respected by construction: Lin(p) lies        *)
(* between p's call and p's return.                                        *)
(*                                                                         *)
(* Weakest reading (DESIGN 5.5): TopN over several row ids is not one      *)
(* atomic read in any documented sense (fragment.top looks the rows up one *)
(* by one), so it is a composite of one atomic read per id, in any order   *)
(* (LinPart); over a single id it is atomic.  Snapshot, FlushCache and     *)
(* RecalculateCache are no-ops on the abstract state.  SetRow (Store)      *)
(* always answers "changed" (documented, Fragment.tla).  Imports do not    *)
(* report a result.                                                        *)
(*                                                                         *)
(* Results are always SETS OF INTEGERS so that TLC can compare them:       *)
(* a boolean = {0} / {1}, a count = {n}, a row = its columns, a row list = *)
(* its rows, TopN = codes id*10+count (count > 0 only), All = all codes,   *)
(* no result = {}.                                                         *)
(***************************************************************************)
EXTENDS Integers, Sequences, FiniteSets, TLC

CONSTANTS Rows,      \* abstract row ids (0..9)
          Cols,      \* abstract column ids (0..9)
          Frags,     \* fragment ids
          Procs,     \* client ids
          MaxCalls   \* (M) runs only: bound on the number of invocations

VARIABLES bits,      \* [Frags -> SUBSET Codes]
          pend,      \* [Procs -> call record]
          ncalls     \* number of invocations so far ((M) bound; traces ignore it)

lvars == <<bits, pend, ncalls>>

Code(r, c)    == r * 10 + c
Codes         == {Code(r, c) : r \in Rows, c \in Cols}
RowCodes(r)   == {Code(r, c) : c \in Cols}
RowCols(b, r) == {c \in Cols : Code(r, c) \in b}
RowsOf(b)     == {r \in Rows : RowCols(b, r) # {}}
Bool(x)       == IF x THEN {1} ELSE {0}

WriteOps == {"SetBit", "ClearBit", "ImportSet", "ImportClear", "SetRow", "ClearRow"}
ReadOps  == {"Row", "Count", "Rows", "All"}
NoOps    == {"Snapshot", "FlushCache", "Recalculate", "Blocks", "Noise"}
AtomicOps == WriteOps \cup ReadOps \cup NoOps
AllOps   == AtomicOps \cup {"TopN"}

\* a call record; r, c are -1 and S is {} where the operation has no such argument.
\*   S: ImportSet/ImportClear = codes; SetRow = columns; TopN = row ids
Idle == [st |-> "idle", op |-> "", f |-> 0, r |-> -1, c |-> -1, S |-> {}, res |-> {}, todo |-> {}]

WellFormed(o) ==
    /\ o.op \in AllOps /\ o.f \in Frags
    /\ CASE o.op \in {"SetBit", "ClearBit"}        -> o.r \in Rows /\ o.c \in Cols /\ o.S = {}
         [] o.op \in {"ImportSet", "ImportClear"}  -> o.r = -1 /\ o.c = -1 /\ o.S \subseteq Codes /\ o.S # {}
         [] o.op = "SetRow"                        -> o.r \in Rows /\ o.c = -1 /\ o.S \subseteq Cols
         [] o.op \in {"ClearRow", "Row", "Count"}  -> o.r \in Rows /\ o.c = -1 /\ o.S = {}
         [] o.op = "TopN"                          -> o.r = -1 /\ o.c = -1 /\ o.S \subseteq Rows /\ o.S # {}
         [] OTHER                                  -> o.r = -1 /\ o.c = -1 /\ o.S = {}

\* the sequential semantics of the atomic operations: result and post-state of fragment o.f
Result(o, b) ==
    CASE o.op = "SetBit"    -> Bool(Code(o.r, o.c) \notin b)
      [] o.op = "ClearBit"  -> Bool(Code(o.r, o.c) \in b)
      [] o.op = "SetRow"    -> {1}
      [] o.op = "ClearRow"  -> Bool(RowCols(b, o.r) # {})
      [] o.op = "Row"       -> RowCols(b, o.r)
      [] o.op = "Count"     -> {Cardinality(RowCols(b, o.r))}
      [] o.op = "Rows"      -> RowsOf(b)
      [] o.op = "All"       -> b
      [] OTHER              -> {}

Post(o, b) ==
    CASE o.op = "SetBit"      -> b \cup {Code(o.r, o.c)}
      [] o.op = "ClearBit"    -> b \ {Code(o.r, o.c)}
      [] o.op = "ImportSet"   -> b \cup o.S
      [] o.op = "ImportClear" -> b \ o.S
      [] o.op = "SetRow"      -> (b \ RowCodes(o.r)) \cup {Code(o.r, c) : c \in o.S}
      [] o.op = "ClearRow"    -> b \ RowCodes(o.r)
      [] OTHER                -> b

TopPart(b, r) == LET n == Cardinality(RowCols(b, r)) IN IF n > 0 THEN {r * 10 + n} ELSE {}

(* ------------------------------ actions ------------------------------ *)

Call(p, o) ==
    /\ pend[p].st = "idle"
    /\ WellFormed(o)
    /\ pend' = [pend EXCEPT ![p] = [st |-> "called", op |-> o.op, f |-> o.f, r |-> o.r, c |-> o.c,
                                    S |-> o.S, res |-> {}, todo |-> IF o.op = "TopN" THEN o.S ELSE {}]]
    /\ ncalls' = ncalls + 1
    /\ UNCHANGED bits

\* the linearization point of an atomic operation
Lin(p) ==
    /\ pend[p].st = "called" /\ pend[p].op \in AtomicOps
    /\ LET o == pend[p] IN
         /\ pend' = [pend EXCEPT ![p].st = "lined", ![p].res = Result(o, bits[o.f])]
         /\ bits' = [bits EXCEPT ![o.f] = Post(o, bits[o.f])]
    /\ UNCHANGED ncalls

\* one of the atomic row reads of a TopN over row ids
LinPart(p, r) ==
    /\ pend[p].st = "called" /\ pend[p].op = "TopN" /\ r \in pend[p].todo
    /\ LET o == pend[p] IN
         pend' = [pend EXCEPT ![p].res = o.res \cup TopPart(bits[o.f], r),
                              ![p].todo = o.todo \ {r},
                              ![p].st = IF o.todo = {r} THEN "lined" ELSE "called"]
    /\ UNCHANGED <<bits, ncalls>>

Silent == \E p \in Procs : Lin(p) \/ (\E r \in Rows : LinPart(p, r))

Ret(p, res) ==
    /\ pend[p].st = "lined"
    /\ pend[p].res = res
    /\ pend' = [pend EXCEPT ![p] = Idle]
    /\ UNCHANGED <<bits, ncalls>>

(* --------------------------- (M) the design --------------------------- *)

LInit ==
    /\ bits \in [Frags -> SUBSET Codes]
    /\ pend = [p \in Procs |-> Idle]
    /\ ncalls = 0

\* a reduced call alphabet for the (M) run (every operation kind, one or two argument choices)
MCalls ==
    LET f0 == CHOOSE f \in Frags : TRUE
        r0 == CHOOSE r \in Rows : TRUE
        c0 == CHOOSE c \in Cols : TRUE
        mk(op, r, c, S) == [op |-> op, f |-> f0, r |-> r, c |-> c, S |-> S]
    IN  {mk("SetBit", r0, c0, {}), mk("ClearBit", r0, c0, {}), mk("ClearRow", r0, -1, {}),
         mk("SetRow", r0, -1, {c0}), mk("Row", r0, -1, {}), mk("Count", r0, -1, {}),
         mk("Rows", -1, -1, {}), mk("All", -1, -1, {}), mk("Snapshot", -1, -1, {}),
         mk("FlushCache", -1, -1, {}), mk("Recalculate", -1, -1, {}),
         mk("TopN", -1, -1, Rows)}
      \cup {mk("ImportSet", -1, -1, {Code(r, c0) : r \in Rows}), mk("ImportClear", -1, -1, RowCodes(r0))}

LNext ==
    \/ \E p \in Procs, o \in MCalls : ncalls < MaxCalls /\ Call(p, o)
    \/ Silent
    \/ \E p \in Procs : Ret(p, pend[p].res)

LSpec == LInit /\ [][LNext]_lvars

TypeOK ==
    /\ bits \in [Frags -> SUBSET Codes]
    /\ \A p \in Procs :
         /\ pend[p].st \in {"idle", "called", "lined"}
         /\ pend[p].st # "idle" => WellFormed(pend[p])
         /\ pend[p].todo \subseteq Rows
         /\ pend[p].st = "lined" => pend[p].todo = {}
=============================================================================
