CONSTANTS
  MinNeg = 1
  MinPos = 0
  MaxNeg = 0
  MaxPos = 0
  NCols = 6
  Datasets = {"all", "wrap", "neg", "pos", "nonneg", "single", "empty", "ties", "ties0"}
  Vias = {"set", "setd", "imp", "imp1d"}
  Classes = {"W", "Q"}
  Depth = 2
  Sample = FALSE
  Paths = {"small", "large"}
INIT Init
NEXT Next
INVARIANTS TypeOK OracleOK
CHECK_DEADLOCK FALSE
VIEW MCView
