CONSTANTS
  QSet = {"Y","YM","YMD","M","MD","D"}
  Gen = TRUE
INIT Init
NEXT Next
INVARIANT SpecCoverOK
INVARIANT Emit
CHECK_DEADLOCK FALSE
