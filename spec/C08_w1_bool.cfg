CONSTANTS
  Family = {"bool"}
  IndexCfgsSel = "all"
  Depth = 2
  MaxRestarts = 0
  Classes = {"data", "attr"}
  Sample = FALSE
INIT Init
NEXT Next
INVARIANT Emit
CHECK_DEADLOCK FALSE
