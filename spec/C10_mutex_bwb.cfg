CONSTANTS
  Kind = "mutex"
  Rows = {0, 99, 100}
  Cols = {0, 1, 2, 3}
  Ops = {"SetBit","ClearBit","ClearRow","BulkMutex","BulkClear","Snapshot","BgSnapshot","Reopen","Blocks"}
  Scope = "mini"
  Depth = 5
  ShapeName = "bwb"
  InitMode = "any"
  MaxOpNs = {"tiny","huge"}
  Provs = {"ops","snap","reopen"}
  RowInval = {"setBit","clearBit","setRow","clearRow","bulk","bulkMutex","roaring","setValue","clearValue","importValue"}
  CkInval = {"setBit","clearBit","setRow","clearRow","bulk","bulkMutex","roaring","setValue","clearValue","importValue"}
INIT Init
NEXT Next
INVARIANT TypeOK
INVARIANT ReadsReflectWrites
INVARIANT ChecksumFresh
INVARIANT Emit
CHECK_DEADLOCK FALSE
