CONSTANTS
  K = 2
  M = 1
  Depth = 4
  Kinds = {"slice","btree"}
  Formats = {"pilosa"}
  MaxBatch = 1
  RowSizes = {0}
  Alphabet = {"Add","Remove","AddN","ImportSet","ImportClear","Optimize","Reencode","Contains","Count","Views"}
INIT Init
NEXT Next
INVARIANT TypeOK
INVARIANT ReplayMatches
INVARIANT ChangedExact
INVARIANT Emit
CHECK_DEADLOCK FALSE
