CONSTANTS
  Mode = "parse"
  Level = "mid"
  Depth = 4
  MaxNest = 1
  MaxCalls = 1
  MaxKw = 2
  MaxCh = 0
INIT Init
NEXT Next
INVARIANT TypeOK
INVARIANT WellFormed
INVARIANT BtwcLaw
INVARIANT Emit
CHECK_DEADLOCK FALSE
