CONSTANTS
  Rows = {0, 1}
  NCols = 3
  Depth = 9
  Alphabet = {"Hold","Derive","Store","SetCol","ClearCol","Import","ClearRow","MutHeld","MergeHeld","Snapshot","Reopen","Close"}
INIT Init
NEXT Next
PROPERTY Isolated
INVARIANT Emit
CHECK_DEADLOCK FALSE
