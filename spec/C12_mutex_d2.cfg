CONSTANTS
  NRows = 3
  NCols = 2
  Kinds = {"lru"}
  Sizes = {2}
  Mutexes = {TRUE}
  MutexSizes = {2}
  Ops = {"ImportSet", "RecalcTopN"}
  Inits = "few"
  BRows = {1, 2, 3}
  BSets = {{1}, {2}}
  MaxRect = 1
  BIds = "whole"
  Thrs = {3}
  FilterSkew = FALSE
  TopNs = {0}
  RecalcWeight = 1
  Rand = FALSE
  Depth = 2
INIT Init
NEXT Next
INVARIANTS Emit TypeOK OracleOK
CHECK_DEADLOCK FALSE
