CONSTANTS
  NS = {"c","r"}
  NK = 3
  BatchSet = "repl"
  Callers = {1}
  Ops = {"Translate","Restart","RApply","RRecv","RReassign","RStop","RResume","RCut"}
  Depth = 4
  Recheck = TRUE
  DropInFlight = TRUE
  MaxSeq = 99
  MaxRestart = 99
  Sample = FALSE
INIT Init
NEXT Next
INVARIANT Emit
CHECK_DEADLOCK FALSE
