SPECIFICATION Spec
CONSTANTS
  R = 3
  ClearsFromSets = FALSE
  ClearsToStandard = TRUE
INVARIANT TypeOK
INVARIANT MajorityEverywhere
INVARIANT SameView
INVARIANT ChecksumsAgree
CHECK_DEADLOCK FALSE
