CONSTANTS
  Nodes = {1,2,3}
  Kinds = {"col"}
  Ids = {100}
  AKeys = {"a"}
  Vals = {"i:1","i:2"}
  Depth = 0
  NWrites = 0
  MaxQueries = 0
  MaxLate = 0
  InitModes = {"any"}
  Overlap = FALSE
  Rounds = 1
  StrictConflicts = TRUE
  Sample = FALSE
INIT Init
NEXT Next
CHECK_DEADLOCK FALSE
VIEW mview
INVARIANT TypeOK
INVARIANT Converges
INVARIANT KeysConverge
INVARIANT ChecksumsAgree
PROPERTY UntouchedOutsideDiff
PROPERTY PassIsUnionMerge
PROPERTY QuerySetEverywhere
PROPERTY QueryKeepsAgreement
