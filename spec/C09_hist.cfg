CONSTANTS
  Depth = 4
  MaxOpNs = {0, 3}
  NoNoops = TRUE
  BigCuts = {"inkey", "lastbyte", "between", "afterid", "aftersize", "firstbyte"}
  Families = {"bit", "time", "clear", "value", "keyed", "roaring", "import", "importkeyed", "importvalue", "rowop"}
INIT Init
NEXT Next
INVARIANT MutexOK
INVARIANT ValueFn
INVARIANT KeysOK
INVARIANT Emit
CHECK_DEADLOCK FALSE
