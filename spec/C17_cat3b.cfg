CONSTANTS
  S = 3
  N = 3
  Mode = "data"
  Kinds = {"Sum","Min","Max","TopN","Rows","GroupBy","Count","Row","Bool"}
  Lims = {3}
  Vals <- ValsC
  MaxCnt = 2
  R = 3
  G = 2
  TR = 3
  TMax = 3
  ColsPer = 2
  Canon = TRUE
  DataSrc = "cat"
INIT Init
NEXT Next
INVARIANT OrderIndependent
INVARIANT DataConsistent
INVARIANT NodeAnswers
INVARIANT TopNSatisfiable
INVARIANT Emit
CHECK_DEADLOCK FALSE
