CONSTANTS
  MinNeg = 7
  MinPos = 0
  MaxNeg = 0
  MaxPos = 7
  NCols = 15
  Datasets = {"all", "empty", "ties0"}
  Vias = {"set", "imp"}
  Classes = {"W"}
  Depth = 2
  Sample = FALSE
INIT Init
NEXT Next
INVARIANT Emit
CHECK_DEADLOCK FALSE
