CONSTANTS
  Mode = "c16"
  NCols = 1
  Window = FALSE
  Edge = 3
  NRows = 2
  NT = 1
  VAbs = 1
  Exist = TRUE
  Depth = 5
  MaxD = 2
  MaxArity = 2
  MaxStack = 2
  MaxBatch = 1
  MaxSeq = 1
  InitAll = 0
  Warm = 1
  ClassSet = {"import", "startrows", "startgroup", "page"}
  LeafKinds = {"row"}
  Script = "none"
INIT Init
NEXT Next
VIEW MView
INVARIANT PagesAreSlices
INVARIANT PagesConcatenate
CHECK_DEADLOCK FALSE
