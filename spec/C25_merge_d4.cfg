CONSTANTS
  Ids = {100}
  AKeys = {"a","b"}
  Vals = {"i:1","i:2"}
  Stores = {1}
  Ops = {"SetAttrs","Read","Reopen"}
  MaxUpd = 1
  MaxBulk = 2
  ProbeBlocks = {0,1,2}
  Depth = 5
  CopyOnRead = TRUE
  InitModes = {"empty"}
  InitIds = {100}
  InitVal = "i:1"
  Sample = FALSE
INIT Init
NEXT Next
INVARIANT Emit
CHECK_DEADLOCK FALSE
