CONSTANTS
  Families = {}
  Entries = {}
  SrvEntries = {}
  CtlEntries = {}
  PqlEntries = {}
  EnvEntries = {}
  MsgEntries = {}
  Formats = {}
  Shapes <- TailsNone
  SrvShapes <- TailsNone
  Tails <- TailsNone
  MinCors = 0
  MaxCors = 0
  Tokens = {}
  MinToks = 1
  MaxToks = 0
  Nests <- NestsNone
  MsgTypes = {}
  MsgBodies = {}
  Design = "validate_first"
SPECIFICATION SrvSpec
INVARIANT SrvTypeOK
INVARIANT RejectLeavesState
INVARIANT LockReleased
INVARIANT NeverCrash
INVARIANT AcceptAppliesAll
INVARIANT FollowUpAccepted
PROPERTY Served
CHECK_DEADLOCK FALSE
