CONSTANTS
  Mode = "c15"
  NCols = 3
  Window = FALSE
  Edge = 2
  NRows = 2
  NT = 1
  VAbs = 1
  Exist = TRUE
  Depth = 5
  MaxD = 3
  MaxArity = 3
  MaxStack = 3
  MaxBatch = 1
  MaxSeq = 1
  InitAll = 2
  Warm = 0
  ClassSet = {"push", "apply", "unary"}
  LeafKinds = {"row", "empty"}
  Script = "none"
INIT Init
NEXT Next
INVARIANT Emit
CHECK_DEADLOCK FALSE
