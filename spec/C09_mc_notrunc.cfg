CONSTANTS
  a = a
  b = b
  Frags = {a, b}
  Bits = {1, 2}
  MaxWrites = 2
  MaxOpN = 1
  NoOpnSnapshot = FALSE
  Kinds = {"bit", "rowop"}
  KeyChunks = 2
  CutClasses = {"inkey", "between", "afterid", "aftersize"}
  UnrecognisedCuts = {}
  TornTailFails = FALSE
  RoaringTwoWrites = FALSE
  RowOpAsync = FALSE
  MultiSeparateWrites = FALSE
  SnapTmpTruncated = FALSE
  Contentless = FALSE
INIT Init
NEXT Next
SYMMETRY FragPerms
INVARIANT TypeOK
INVARIANT RestartSucceeds
INVARIANT AckedDurable
INVARIANT InflightAtomicPerShard
CHECK_DEADLOCK FALSE
