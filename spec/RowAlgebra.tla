----------------------------- MODULE RowAlgebra -----------------------------
(* C15 (anchor "Row.Union/Intersect/Difference/Xor/Merge, rowSegment ops", row.go) -- the
   row-level set algebra over rows that span several shards.

   The executor evaluates every operator shard by shard, so through PQL the two operands of
   a row operation always hold the same single shard (that path is Query.tla's).  The `Row`
   values handed to callers (query results, `Row` Go API, reduce steps) hold a *sequence of
   segments*, one per shard that ever contributed, and the binary operations walk the two
   sequences with a merge iterator.  What matters to that walk is which shards have a
   segment on either side - including a segment that is present but empty - not only which
   columns are set.  So a row is modelled as

       [seg  : the shards that have a segment,
        bits : the set columns, as <<shard, column in shard>>, all inside seg]

   and one behaviour is one operation on one pair of rows, with the mathematical result.
   Every pair of rows over NShards shards x NCols columns is enumerated (BFS); the harness
   (harness/bind/queryb TestC15Row) builds the two rows with exactly those segments, applies
   the operation and compares columns, count, and that the operands were not changed
   (Merge: the receiver becomes the union, the argument is unchanged).                   *)
EXTENDS Integers, Sequences, FiniteSets, TLC, Json

CONSTANTS NShards, NCols, Ops

VARIABLES hist

Shards == 0..(NShards-1)
Cols   == 0..(NCols-1)
Bits   == Shards \X Cols

Rows == {r \in [seg : SUBSET Shards, bits : SUBSET Bits] : \A b \in r.bits : b[1] \in r.seg}

Res(op, a, b) ==
  CASE op = "Union"      -> a.bits \cup b.bits
    [] op = "Merge"      -> a.bits \cup b.bits
    [] op = "Intersect"  -> a.bits \cap b.bits
    [] op = "Difference" -> a.bits \ b.bits
    [] op = "Xor"        -> (a.bits \ b.bits) \cup (b.bits \ a.bits)

Init == hist = <<>>

Do(op, a, b) ==
  hist' = << [op |-> op, aseg |-> a.seg, abits |-> a.bits, bseg |-> b.seg, bbits |-> b.bits,
              want |-> Res(op, a, b)] >>

\* the n-ary union has its own k-way walk over the segment sequences (Row.Union(others...))
Do3(a, b, c) ==
  hist' = << [op |-> "Union3", aseg |-> a.seg, abits |-> a.bits, bseg |-> b.seg, bbits |-> b.bits,
              cseg |-> c.seg, cbits |-> c.bits, want |-> a.bits \cup b.bits \cup c.bits] >>

Next == /\ hist = <<>>
        /\ \/ \E op \in Ops \ {"Union3"}, a \in Rows, b \in Rows : Do(op, a, b)
           \/ "Union3" \in Ops /\ \E a \in Rows, b \in Rows, c \in Rows : Do3(a, b, c)

(* (M) the laws a caller relies on, checked on every generated case *)
Laws ==
  hist # <<>> =>
    LET h == hist[1] IN
      /\ h.op # "Union3" => h.want \subseteq (h.abits \cup h.bbits)
      /\ h.op = "Difference" => (h.want \cap h.bbits = {} /\ h.want \subseteq h.abits)
      /\ h.op = "Intersect"  => (h.want \subseteq h.abits /\ h.want \subseteq h.bbits)
      /\ h.op \in {"Union", "Merge"} => (h.abits \subseteq h.want /\ h.bbits \subseteq h.want)
      /\ h.op = "Xor" => h.want \cap (h.abits \cap h.bbits) = {}

Emit == Len(hist) = 1 => PrintT(<<"BEH", ToJson(hist)>>)
=============================================================================
