CONSTANTS
  Kind = "bsi"
  Rows = {0, 1, 2, 3}
  Cols = {0}
  Ops = {"SetValue","ClearValue","ImportValue","ImportValueClear","Snapshot","Enqueue","BgSnapshot","Reopen","Row","Value","Blocks"}
  Scope = "full"
  Depth = 0
  ShapeName = "free"
  InitMode = "empty"
  MaxOpNs = {"tiny","huge"}
  Provs = {"ops"}
  RowInval = {"setBit","clearBit","setRow","clearRow","bulk","bulkMutex","roaring","setValue","clearValue","importValue"}
  CkInval = {"setBit","clearBit","setRow","clearRow","bulk","bulkMutex","roaring","setValue","clearValue","importValue"}
INIT Init
NEXT Next
VIEW mview
INVARIANT TypeOK
INVARIANT ReadsReflectWrites
INVARIANT ChecksumFresh
INVARIANT ValueRoundTrip
CHECK_DEADLOCK FALSE
