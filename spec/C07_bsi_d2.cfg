CONSTANTS
  Kind = "bsi"
  Rows = {0, 1, 2, 3}
  Cols = {0, 1, 2, 3}
  Ops = {"SetValue","ClearValue","ImportValue","ImportValueClear","Snapshot","Enqueue","BgSnapshot","Reopen","Row","Value","ForEachBit","BlockData"}
  Scope = "small"
  Depth = 2
  ShapeName = "free"
  InitMode = "some"
  MaxOpNs = {"tiny","huge"}
  Provs = {"ops"}
  RowInval = {"setBit","clearBit","setRow","clearRow","bulk","bulkMutex","roaring","setValue","clearValue","importValue"}
  CkInval = {"setBit","clearBit","setRow","clearRow","bulk","bulkMutex","roaring","setValue","clearValue","importValue"}
INIT Init
NEXT Next
INVARIANT TypeOK
INVARIANT ReadsReflectWrites
INVARIANT ChecksumFresh
INVARIANT Emit
CHECK_DEADLOCK FALSE
