----------------------------- MODULE TimeRange -----------------------------
(***************************************************************************)
(* C18, binding A - time-range queries end to end.                          *)
(*                                                                         *)
(* A behaviour: choose a quantum q; the field holds one column per instant  *)
(* of q's finest unit inside a few windows placed on calendar edges (year   *)
(* end, leap day, non-leap February, month ends): column i was set with a   *)
(* timestamp inside instant i (and row 1+i in addition to the common row    *)
(* 0); then choose an aligned range [from, to) - inside a window, across    *)
(* windows (views without a fragment in between), from/to on window edges.  *)
(* Expected: Row(f=0, from, to) = the columns whose instant starts in the   *)
(* range; Rows(f, from, to) = their rows.                                   *)
(* (M) the specification's own decomposition ViewsForRange satisfies        *)
(* CoverOK for every such range, every view in it round-trips, and the two  *)
(* definitions of the calendar agree on 2017..2023.                         *)
(***************************************************************************)
EXTENDS TimeViews, Json

CONSTANTS QSet,      \* quanta under test
          Gen        \* TRUE: keep the history (behaviour generation)

VARIABLES phase, q, inst, from, to, hist
vars == <<phase, q, inst, from, to, hist>>
MView == <<phase, q, from, to>>

WindowsFor(u) ==
    CASE u = "H" -> {<<Hour(2019, 12, 31, 0), Hour(2020, 1, 2, 0)>>, <<Hour(2020, 2, 28, 12), Hour(2020, 3, 1, 12)>>,
                     <<Hour(2021, 2, 28, 20), Hour(2021, 3, 1, 4)>>}   \* same month, day, hour as a year before
      [] u = "D" -> {<<Hour(2019, 12, 29, 0), Hour(2020, 1, 3, 0)>>, <<Hour(2020, 2, 27, 0), Hour(2020, 3, 3, 0)>>,
                     <<Hour(2021, 2, 27, 0), Hour(2021, 3, 2, 0)>>}
      [] u = "M" -> {<<Hour(2019, 10, 1, 0), Hour(2020, 4, 1, 0)>>, <<Hour(2020, 12, 1, 0), Hour(2021, 3, 1, 0)>>}
      [] u = "Y" -> {<<Hour(2018, 1, 1, 0), Hour(2023, 1, 1, 0)>>}

\* the starts of the unit-u views in [a, b) (a aligned)
RECURSIVE Starts(_, _, _)
Starts(u, a, b) == IF a >= b THEN {} ELSE {a} \cup Starts(u, ViewHi(ViewAt(u, a)), b)
InstantsOf(qq) == UNION {Starts(Finest(qq), w[1], w[2]) : w \in WindowsFor(Finest(qq))}
BoundsOf(qq) == InstantsOf(qq) \cup {w[2] : w \in WindowsFor(Finest(qq))}

RECURSIVE SortSet(_)
SortSet(T) == IF T = {} THEN << >>
              ELSE LET m == CHOOSE x \in T : \A y \in T : x <= y IN <<m>> \o SortSet(T \ {m})

\* besides its own column, an instant shares further columns with other instants: column
\* n + m - 1 (m in 1..2n) was set - on row 0 - once per instant of Multi(n)[m], i.e. with two or
\* three timestamps: neighbours (same day / month / year more often than not) and instants 5 and
\* 10 further on, wrapping around (other days, months, years, windows).  A column is in a
\* range iff any of its timestamps is.
Multi(n) == [m \in 1..(2*n) |-> IF m <= n THEN {m, (m % n) + 1}
                                 ELSE {m - n, ((m - n + 4) % n) + 1, ((m - n + 9) % n) + 1}]

Init == /\ phase = "q" /\ q = "" /\ inst = << >> /\ from = 0 /\ to = 0 /\ hist = << >>

Rec(r) == IF Gen THEN Append(hist, r) ELSE hist

ChooseQ ==
    /\ phase = "q"
    /\ \E qq \in QSet :
         /\ q' = qq
         /\ inst' = SortSet(InstantsOf(qq))
         /\ hist' = Rec([op |-> "Field", q |-> qq,
                         inst |-> [i \in 1..Len(inst') |-> <<inst'[i], ViewHi(ViewAt(Finest(qq), inst'[i]))>>],
                         multi |-> Multi(Len(inst'))])
    /\ phase' = "from" /\ UNCHANGED <<from, to>>

ChooseFrom ==
    /\ phase = "from"
    /\ \E a \in BoundsOf(q) :
         /\ \E b \in BoundsOf(q) : a < b
         /\ from' = a /\ hist' = Rec([op |-> "From", from |-> a])
    /\ phase' = "to" /\ UNCHANGED <<q, inst, to>>

\* (M) runs bound the length of the ranges whose decomposition TLC computes (TLC interprets
\* the calendar arithmetic of every view; the long ranges are exercised on the real code)
SpanLimit(u) == CASE u = "H" -> 60 [] u = "D" -> 24 * 80 [] u = "M" -> 24 * 800 [] u = "Y" -> 24 * 4000

InRange(a, b) == {i \in 1..Len(inst) : a <= inst[i] /\ inst[i] < b}

ChooseTo ==
    /\ phase = "to"
    /\ \E b \in BoundsOf(q) :
         /\ from < b
         /\ Gen \/ (b - from) <= SpanLimit(Finest(q))
         /\ to' = b
         /\ hist' = Rec([op |-> "Range", q |-> q, from |-> from, to |-> b,
                         cols |-> {i - 1 : i \in InRange(from, b)} \cup
                                  {Len(inst) + m - 1 : m \in {x \in 1..(2*Len(inst)) : Multi(Len(inst))[x] \cap InRange(from, b) # {}}}])
    /\ phase' = "done" /\ UNCHANGED <<q, inst, from>>

Next == ChooseQ \/ ChooseFrom \/ ChooseTo
Spec == Init /\ [][Next]_vars

\* ------------------------------------------------------------ (M)
CalendarAgrees == phase = "q" => CalendarOK(DayNo(2017, 1, 1), DayNo(2023, 12, 31))
BoundsAligned == phase = "from" => \A b \in BoundsOf(q) : Aligned(q, b)
SpecCoverOK == phase = "done" =>
    LET vs == ViewsForRange(q, from, to) IN
    /\ CoverOK(q, from, to, vs)
    /\ \A i \in 1..Len(vs) : RoundTrip(vs[i])
\* reading the decomposition returns exactly the columns of the range
ReadsExactly == phase = "done" =>
    LET vs == ViewsForRange(q, from, to) IN
    {i \in 1..Len(inst) : \E k \in 1..Len(vs) : ViewLo(vs[k]) <= inst[i] /\ inst[i] < ViewHi(vs[k])} = InRange(from, to)

Emit == phase = "done" => PrintT(<<"BEH", ToJson(hist)>>)
=============================================================================
