--------------------------- MODULE RoaringDerive ---------------------------
(***************************************************************************)
(* C03 - derived bitmaps are isolated values.                              *)
(*                                                                         *)
(* Values: a source bitmap src (with a provenance: fresh, optimized,       *)
(* frozen, decoded-and-mapped over a byte buffer, slice or B-tree), a      *)
(* second operand oth, and up to two derived values d1, d2 obtained by      *)
(* Clone, Freeze, Union, Intersect, Difference, Xor, OffsetRange - from src *)
(* or from an earlier derived value (chains).  Afterwards any side is       *)
(* mutated (point and batch adds/removes, roaring imports, in-place union,  *)
(* optimize), the source is remapped to a new buffer (what a snapshot does: *)
(* RemapRoaringStorage; the old buffer is then invalid) or dropped.         *)
(*                                                                         *)
(* Isolation is the frame condition of every action: an action changes only *)
(* the value it names.  The action property DerivedStable states it; TLC    *)
(* checks it on the model, and the harness compares ALL live values with    *)
(* the specification after every step of every behaviour on real bitmaps    *)
(* (roaring/container_stash.go Freeze/Thaw/unmapOrClone, flagFrozen and     *)
(* flagMapped; Freeze calls in Union/Intersect/Difference/Xor/OffsetRange;  *)
(* RemapRoaringStorage).                                                    *)
(***************************************************************************)
EXTENDS RoaringOps, TLC, Json

CONSTANTS Depth,
          SrcProvs,     \* provenance of src: "fresh","optimized","frozen","mapped","btree","btree_mapped"
          DeriveKinds,  \* subset of {"Clone","Freeze","Union","Intersect","Difference","Xor","OffsetRange","Union3"}
          Alphabet

VARIABLES src, oth, d1, d2,      \* contents; a derived slot is Dead until derived
          prov,                  \* provenance of src
          srcAlive,              \* FALSE after Drop (source closed / released)
          hist

vars == <<src, oth, d1, d2, prov, srcAlive, hist>>

Dead == {-2}   \* marker for an unused derived slot (not a subset of U)

En(name) == name \in Alphabet

Init ==
    /\ src \in SUBSET U
    /\ oth \in SUBSET U
    /\ d1 = Dead /\ d2 = Dead
    /\ prov \in SrcProvs
    /\ srcAlive = TRUE
    \* the first record carries the initial contents (op "Init")
    /\ hist = << [op |-> "Init", args |-> << >>, prov |-> prov, src |-> src, oth |-> oth,
                  d1 |-> d1, d2 |-> d2, srcAlive |-> TRUE] >>

\* every step records the full expected contents of all values after the step
Rec(op, args) ==
    hist' = Append(hist, [op |-> op, args |-> args, prov |-> prov,
                          src |-> src', oth |-> oth', d1 |-> d1', d2 |-> d2',
                          srcAlive |-> srcAlive'])

Val(name) == CASE name = "src" -> src [] name = "oth" -> oth [] name = "d1" -> d1 [] name = "d2" -> d2

DeriveResult(kind, X) ==
    CASE kind = "Clone"       -> X
      [] kind = "Freeze"      -> X
      [] kind = "Union"       -> OUnion(X, oth)
      [] kind = "Union3"      -> OUnion(X, oth)       \* Union(oth, oth): the n-ary path (Freeze + UnionInPlace)
      [] kind = "Intersect"   -> OIntersect(X, oth)
      [] kind = "Difference"  -> ODifference(X, oth)
      [] kind = "Xor"         -> OXor(X, oth)
      [] kind = "OffsetRange" -> X                   \* whole range, offset 0: shares every container

\* d1 := kind(src) ; d2 := kind(src) or kind(d1)
Derive1(kind) ==
    /\ En("Derive") /\ srcAlive /\ d1 = Dead
    /\ d1' = DeriveResult(kind, src)
    /\ UNCHANGED <<src, oth, d2, prov, srcAlive>>
    /\ Rec("Derive", <<"d1", kind, "src">>)

Derive2(kind, from) ==
    /\ En("Derive") /\ d1 # Dead /\ d2 = Dead
    /\ (from = "src" => srcAlive)
    /\ d2' = DeriveResult(kind, Val(from))
    /\ UNCHANGED <<src, oth, d1, prov, srcAlive>>
    /\ Rec("Derive", <<"d2", kind, from>>)

\* mutation of one named value; everything else must stay as it is
Targets == {"src", "oth", "d1", "d2"}

Live(t) == CASE t = "src" -> srcAlive [] t = "oth" -> TRUE [] t = "d1" -> d1 # Dead [] t = "d2" -> d2 # Dead

Assign(t, X) ==
    /\ src' = IF t = "src" THEN X ELSE src
    /\ oth' = IF t = "oth" THEN X ELSE oth
    /\ d1'  = IF t = "d1" THEN X ELSE d1
    /\ d2'  = IF t = "d2" THEN X ELSE d2
    /\ UNCHANGED <<prov, srcAlive>>

Mutate(t) ==
    /\ Live(t)
    /\ \/ \E x \in U : En("Add") /\ Assign(t, Val(t) \cup {x}) /\ Rec("Add", <<t, x>>)
       \/ \E x \in U : En("Remove") /\ Assign(t, Val(t) \ {x}) /\ Rec("Remove", <<t, x>>)
       \/ \E T \in (SUBSET U) \ {{}} :
            \/ En("AddN") /\ Assign(t, Val(t) \cup T) /\ Rec("AddN", <<t, T>>)
            \/ En("RemoveN") /\ Assign(t, Val(t) \ T) /\ Rec("RemoveN", <<t, T>>)
            \/ En("ImportSet") /\ Assign(t, Val(t) \cup T) /\ Rec("ImportSet", <<t, T>>)
            \/ En("ImportClear") /\ Assign(t, Val(t) \ T) /\ Rec("ImportClear", <<t, T>>)
       \/ En("Optimize") /\ Assign(t, Val(t)) /\ Rec("Optimize", <<t>>)
       \/ \E o \in Targets \ {t} : Live(o) /\ En("UnionInPlace")
            /\ Assign(t, Val(t) \cup Val(o)) /\ Rec("UnionInPlace", <<t, o>>)

\* snapshot of the source: re-encode, RemapRoaringStorage(new bytes), old bytes invalid
Remap ==
    /\ En("Remap") /\ srcAlive
    /\ UNCHANGED <<src, oth, d1, d2, prov, srcAlive>>
    /\ Rec("Remap", << >>)

\* the source goes away (its buffer is scribbled, the bitmap is never used again)
Drop ==
    /\ En("Drop") /\ srcAlive
    /\ srcAlive' = FALSE
    /\ UNCHANGED <<src, oth, d1, d2, prov>>
    /\ Rec("Drop", << >>)

Next ==
    /\ Len(hist) < Depth
    /\ \/ \E k \in DeriveKinds : Derive1(k)
       \/ \E k \in DeriveKinds : \E from \in {"src", "d1"} : Derive2(k, from)
       \/ \E t \in Targets : Mutate(t)
       \/ Remap
       \/ Drop

Spec == Init /\ [][Next]_vars

TypeOK == src \subseteq U /\ oth \subseteq U /\ (d1 = Dead \/ d1 \subseteq U) /\ (d2 = Dead \/ d2 \subseteq U)

\* C03 as an action property: a derived value changes only by a mutation that names it
DerivedStable ==
    [][ /\ (d1 # Dead /\ d1' # d1) => hist'[Len(hist')].args[1] = "d1"
        /\ (d2 # Dead /\ d2' # d2) => hist'[Len(hist')].args[1] = "d2"
        /\ (src' # src) => hist'[Len(hist')].args[1] = "src"
        /\ (oth' # oth) => hist'[Len(hist')].args[1] = "oth" ]_vars

\* behaviours worth replaying: something was derived
Emit == (Len(hist) = Depth /\ d1 # Dead) => PrintT(<<"BEH", ToJson(hist)>>)
=============================================================================
