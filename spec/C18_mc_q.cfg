CONSTANTS
  QSet = {"Y","YM","YMD","MD","D","M"}
  Gen = FALSE
INIT Init
NEXT Next
INVARIANT CalendarAgrees
INVARIANT BoundsAligned
INVARIANT SpecCoverOK
INVARIANT ReadsExactly
VIEW MView
CHECK_DEADLOCK FALSE
