CONSTANTS
  Ids = {100}
  AKeys = {"a"}
  Vals = {"i:1","i:2","s:x","b:T","f:1"}
  Stores = {1}
  Ops = {"SetAttrs","Read","Reopen"}
  MaxUpd = 1
  MaxBulk = 2
  ProbeBlocks = {0,1,2}
  Depth = 4
  CopyOnRead = TRUE
  InitModes = {"empty","cold"}
  InitIds = {100}
  InitVal = "i:1"
  Sample = FALSE
INIT Init
NEXT Next
INVARIANT Emit
CHECK_DEADLOCK FALSE
