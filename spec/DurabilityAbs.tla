--------------------------- MODULE DurabilityAbs ---------------------------
(***************************************************************************)
(* C09 as a state machine - nothing but the property.                      *)
(*                                                                         *)
(* "If the server process is killed right after any file-system operation  *)
(* during any history of writes, the next start succeeds, and every write  *)
(* acknowledged before the kill is present in the shards and the           *)
(* key-translation store.  Of the write in flight, each shard of each view *)
(* holds either none or all of that write's changes to it [...] and        *)
(* nothing else changes.  Files left by interrupted snapshots never affect *)
(* the recovered state."                                                   *)
(*                                                                         *)
(* A unit is one shard of one view of one field (one fragment file), or    *)
(* one namespace of the key-translation store.  `durable[u]` is what a     *)
(* restart would read from unit u.  A write is a target content per unit;  *)
(* it becomes durable unit by unit (Commit), each unit atomically, and is  *)
(* acknowledged only when every unit has it.  Crash keeps `durable`,       *)
(* Recover always succeeds and reads exactly `durable`; leftover files     *)
(* (`garbage`) exist but no action reads them.                             *)
(*                                                                         *)
(* The implementation-level specification Durability.tla refines this      *)
(* module (durable <- what fragment.Open / TranslateFile.Open would parse  *)
(* from the files); real crash images are judged with RecoveredOK below.   *)
(***************************************************************************)
EXTENDS Integers, FiniteSets, TLC

CONSTANTS Units,      \* set of units
          Contents,   \* set of possible contents of a unit
          Init0       \* [Units -> Contents] content before the history

VARIABLES durable,    \* [Units -> Contents]  what a restart reads
          pre,        \* [Units -> Contents]  state of all acknowledged writes
          post,       \* [Units -> Contents]  pre, or the target of the write in flight
          up,         \* BOOLEAN              process running
          seen,       \* [Units -> Contents]  what the last Recover returned
          garbage     \* SUBSET Units         units with a leftover temporary file

avars == <<durable, pre, post, up, seen, garbage>>

InFlight == pre # post

AInit ==
    /\ durable = Init0 /\ pre = Init0 /\ post = Init0 /\ seen = Init0
    /\ up = TRUE /\ garbage = {}

\* a write starts: any target content
Begin ==
    /\ up /\ ~InFlight
    /\ post' \in [Units -> Contents] /\ post' # pre
    /\ UNCHANGED <<durable, pre, up, seen, garbage>>

\* one unit receives ALL of the in-flight write's changes to it, atomically (a rename may
\* consume the unit's temporary file in the same step)
Commit(u) ==
    /\ up /\ InFlight /\ durable[u] # post[u]
    /\ durable' = [durable EXCEPT ![u] = post[u]]
    /\ garbage' \in {garbage, garbage \ {u}}
    /\ UNCHANGED <<pre, post, up, seen>>

\* the write is acknowledged only when every unit holds it
Ack ==
    /\ up /\ InFlight /\ durable = post
    /\ pre' = post
    /\ UNCHANGED <<durable, post, up, seen, garbage>>

\* a snapshot (or another temp-file protocol) starts, is interrupted, or completes without
\* changing what the unit reads as; the temporary file is never read
Leave(u) ==
    /\ up
    /\ garbage' = garbage \cup {u}
    /\ UNCHANGED <<durable, pre, post, up, seen>>
Clean(u) ==
    /\ up /\ u \in garbage
    /\ garbage' = garbage \ {u}
    /\ UNCHANGED <<durable, pre, post, up, seen>>

\* the kill: completed steps persist, the in-flight write stays as far as it got
Crash ==
    /\ up
    /\ up' = FALSE
    /\ pre' = durable /\ post' = durable
    /\ UNCHANGED <<durable, seen, garbage>>

\* the next start always succeeds and reads exactly the durable content, whatever
\* temporary files are lying around
Recover ==
    /\ ~up
    /\ up' = TRUE
    /\ seen' = durable
    /\ UNCHANGED <<durable, pre, post, garbage>>

ANext ==
    \/ Begin
    \/ \E u \in Units : Commit(u) \/ Leave(u) \/ Clean(u)
    \/ Ack \/ Crash \/ Recover

ASpec == AInit /\ [][ANext]_avars

----------------------------------------------------------------------------
\* The property, as invariants of this machine (true by construction; TLC checks them
\* as a sanity test of the formulation) and as the judgement applied to real images.

\* every unit holds none or all of the in-flight write's changes, nothing else
AtomicPerUnit == \A u \in Units : durable[u] \in {pre[u], post[u]}

\* with nothing in flight the durable state is exactly the acknowledged one
AckedDurable == ~InFlight => durable = pre

\* a restart returns exactly what was durable, whatever `garbage` is (LeftoversIgnored)
RecoverReadsDurable == [][(~up /\ up') => seen' = durable]_avars

TypeOKAbs ==
    /\ durable \in [Units -> Contents] /\ pre \in [Units -> Contents]
    /\ post \in [Units -> Contents] /\ up \in BOOLEAN /\ garbage \subseteq Units

\* Judgement of a recovered image: `opened` says whether the restart succeeded, `rec` is
\* the content read after it (a function on Units), `a` the state of the acknowledged
\* writes, `b` the state if the in-flight write had completed (b = a when none was in
\* flight).
RecoveredOK(opened, rec, a, b) ==
    /\ opened
    /\ \A u \in Units : rec[u] \in {a[u], b[u]}
=============================================================================
