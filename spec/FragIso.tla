------------------------------ MODULE FragIso ------------------------------
(***************************************************************************)
(* C03, fragment level - rows handed out by a shard, rows derived from     *)
(* them, and rows stored from them are isolated values.                     *)
(*                                                                         *)
(* State: the shard's rows frag[r] (sets of abstract columns), two held     *)
(* values h1, h2 (pilosa.Row objects a caller obtained and keeps), whether  *)
(* the fragment is open.  Actions (fragment.go / row.go):                   *)
(*   Hold(s, r)        s := fragment.row(r)   (rowFromStorage, OffsetRange, *)
(*                     rowCache)                                            *)
(*   Derive(k, r)      h2 := h1 k fragment.row(r), k in Union, Intersect,   *)
(*                     Difference, Xor  (row.go, rowSegment ops)            *)
(*   Store(r, s)       fragment.setRow(held s, r)  (shares containers)      *)
(*   SetCol/ClearCol   bit writes (setBit/clearBit or bulkImport)           *)
(*   Import(r,T,clear) fragment.importRoaring                               *)
(*   ClearRow(r)       fragment.clearRow                                    *)
(*   MutHeld(s, c)     Row.SetBit on the held value (ensureWritable)        *)
(*   MergeHeld         h1.Merge(h2)                                         *)
(*   Snapshot          fragment.Snapshot (rewrites the file, remaps)        *)
(*   Reopen            Close + Open                                         *)
(*   Close             fragment.Close (the mapping goes away)               *)
(* Frame conditions are the property: a held value changes only by an       *)
(* action on itself; the shard changes only by its own writes.  The harness *)
(* compares frag (while open), h1 and h2 after every step on a real         *)
(* fragment with a real file and mmap.                                      *)
(***************************************************************************)
EXTENDS Integers, Sequences, FiniteSets, TLC, Json

CONSTANTS Rows,     \* row ids, e.g. {0, 1}
          NCols,    \* abstract columns 0..NCols-1
          Depth,
          Alphabet

Cols == 0 .. (NCols - 1)
Dead == {-2}

VARIABLES frag, h1, h2, open, hist
vars == <<frag, h1, h2, open, hist>>

En(n) == n \in Alphabet

Init ==
    /\ frag \in [Rows -> SUBSET Cols]
    /\ h1 = Dead /\ h2 = Dead
    /\ open = TRUE
    /\ hist = << [op |-> "Init", args |-> << >>, frag |-> frag, h1 |-> h1, h2 |-> h2, open |-> TRUE] >>

Rec(op, args) ==
    hist' = Append(hist, [op |-> op, args |-> args, frag |-> frag', h1 |-> h1', h2 |-> h2', open |-> open'])

Held(s) == IF s = 1 THEN h1 ELSE h2
SetHeld(s, X) == /\ h1' = IF s = 1 THEN X ELSE h1
                 /\ h2' = IF s = 2 THEN X ELSE h2

Hold(s, r) ==
    /\ En("Hold") /\ open
    /\ SetHeld(s, frag[r])
    /\ UNCHANGED <<frag, open>>
    /\ Rec("Hold", <<s, r>>)

Derive(k, r) ==
    /\ En("Derive") /\ open /\ h1 # Dead
    /\ LET X == frag[r] IN
       h2' = CASE k = "Union"      -> h1 \cup X
               [] k = "Intersect"  -> h1 \cap X
               [] k = "Difference" -> h1 \ X
               [] k = "Xor"        -> (h1 \ X) \cup (X \ h1)
    /\ UNCHANGED <<frag, h1, open>>
    /\ Rec("Derive", <<k, r>>)

Store(r, s) ==
    /\ En("Store") /\ open /\ Held(s) # Dead
    /\ frag' = [frag EXCEPT ![r] = Held(s)]
    /\ UNCHANGED <<h1, h2, open>>
    /\ Rec("Store", <<r, s>>)

SetCol(r, c) ==
    /\ En("SetCol") /\ open
    /\ frag' = [frag EXCEPT ![r] = @ \cup {c}]
    /\ UNCHANGED <<h1, h2, open>>
    /\ Rec("SetCol", <<r, c>>)

ClearCol(r, c) ==
    /\ En("ClearCol") /\ open
    /\ frag' = [frag EXCEPT ![r] = @ \ {c}]
    /\ UNCHANGED <<h1, h2, open>>
    /\ Rec("ClearCol", <<r, c>>)

Import(r, T, clear) ==
    /\ En("Import") /\ open
    /\ frag' = [frag EXCEPT ![r] = IF clear THEN @ \ T ELSE @ \cup T]
    /\ UNCHANGED <<h1, h2, open>>
    /\ Rec("Import", <<r, T, clear>>)

ClearRow(r) ==
    /\ En("ClearRow") /\ open
    /\ frag' = [frag EXCEPT ![r] = {}]
    /\ UNCHANGED <<h1, h2, open>>
    /\ Rec("ClearRow", <<r>>)

MutHeld(s, c) ==
    /\ En("MutHeld") /\ Held(s) # Dead
    /\ SetHeld(s, Held(s) \cup {c})
    /\ UNCHANGED <<frag, open>>
    /\ Rec("MutHeld", <<s, c>>)

MergeHeld ==
    /\ En("MergeHeld") /\ h1 # Dead /\ h2 # Dead
    /\ h1' = h1 \cup h2
    /\ UNCHANGED <<frag, h2, open>>
    /\ Rec("MergeHeld", << >>)

Snapshot ==
    /\ En("Snapshot") /\ open
    /\ UNCHANGED <<frag, h1, h2, open>>
    /\ Rec("Snapshot", << >>)

Reopen ==
    /\ En("Reopen") /\ open
    /\ UNCHANGED <<frag, h1, h2, open>>
    /\ Rec("Reopen", << >>)

Close ==
    /\ En("Close") /\ open
    /\ open' = FALSE
    /\ UNCHANGED <<frag, h1, h2>>
    /\ Rec("Close", << >>)

Next ==
    /\ Len(hist) < Depth
    /\ \/ \E s \in {1, 2} : \E r \in Rows : Hold(s, r)
       \/ \E k \in {"Union", "Intersect", "Difference", "Xor"} : \E r \in Rows : Derive(k, r)
       \/ \E r \in Rows : \E s \in {1, 2} : Store(r, s)
       \/ \E r \in Rows : \E c \in Cols : SetCol(r, c) \/ ClearCol(r, c)
       \/ \E r \in Rows : \E T \in (SUBSET Cols) \ {{}} : \E clear \in BOOLEAN : Import(r, T, clear)
       \/ \E r \in Rows : ClearRow(r)
       \/ \E s \in {1, 2} : \E c \in Cols : MutHeld(s, c)
       \/ MergeHeld
       \/ Snapshot
       \/ Reopen
       \/ Close

Spec == Init /\ [][Next]_vars

\* the property as an action property: held values change only by actions on themselves,
\* the shard only by its own writes
Isolated ==
    [][ LET o == hist'[Len(hist')].op IN
        /\ (h1 # Dead /\ h1' # h1) => o \in {"Hold", "MutHeld", "MergeHeld"}
        /\ (h2 # Dead /\ h2' # h2) => o \in {"Hold", "Derive", "MutHeld"}
        /\ (frag' # frag) => o \in {"Store", "SetCol", "ClearCol", "Import", "ClearRow"} ]_vars

\* replay only behaviours in which a value was held
Emit == (Len(hist) = Depth /\ (h1 # Dead \/ h2 # Dead)) => PrintT(<<"BEH", ToJson(hist)>>)
=============================================================================
