CONSTANTS
  Mode = "c16"
  NCols = 5
  Window = FALSE
  Edge = 3
  NRows = 4
  NT = 2
  VAbs = 1
  Exist = TRUE
  Depth = 26
  MaxD = 2
  MaxArity = 2
  MaxStack = 2
  MaxBatch = 2
  MaxSeq = 1
  InitAll = 0
  Warm = 9
  ClassSet = {"import", "importt", "groupby3", "startgroup3", "page"}
  LeafKinds = {"row"}
  Script = "none"
INIT Init
NEXT Next
INVARIANT Emit
CHECK_DEADLOCK FALSE
INVARIANT PagesConcatenate
