CONSTANTS
  NS = {"c","r"}
  NK = 4
  BatchSet = "full"
  Callers = {1,2}
  Ops = {"TRead","Translate","Restart","RApply","RRecv","RReassign","RStop","RResume","RCut"}
  Depth = 10
  Recheck = TRUE
  DropInFlight = TRUE
  MaxSeq = 99
  MaxRestart = 99
  Sample = TRUE
INIT Init
NEXT Next
INVARIANT Emit
CHECK_DEADLOCK FALSE
