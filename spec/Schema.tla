------------------------------ MODULE Schema ------------------------------
(* C08 -- data and schema survive a clean restart unchanged.

   One index "i" (options keys, trackExistence) with the field under test "f" (configuration
   drawn from the option domain below), an auxiliary set field "g" and an auxiliary index "j";
   histories of schema operations (create/delete of f, g, i, j -- f and i are re-created with a
   *different* configuration) and data writes of every kind the field type admits, with
   Restart (close + reopen of the data directory) anywhere in the history.

   The abstract state is the projection the property talks about: the schema with its options,
   the bits of the standard view and of every time point, the integer values, row and column
   attributes, the set of existing columns, the shards holding data.  Restart leaves it
   unchanged (RestartIsIdentity); every record of a behaviour carries the projection, the
   driver compares the real server with it after every step, and compares a much larger
   query alphabet (TopN, Rows, GroupBy, ranges, time ranges, available shards, translations)
   before and after every Restart.

   Rows, columns, time points and integer values are abstract; the harness maps columns
   0..2 to three shards (or to keys), time points 1..2 to instants aligned with the
   quantum, and the values of the "wide" bounds to magnitudes of bit depth 63.            *)
EXTENDS Integers, Sequences, FiniteSets, TLC, Json

CONSTANTS Family,       \* field types offered to Init: subset of {"set","mutex","int","time","bool"}
          IndexCfgsSel, \* "all" or "plain": index option combinations offered to Init
          Depth,        \* length of an emitted behaviour
          MaxRestarts,  \* Restart actions per behaviour (the driver always adds a final one)
          Classes,      \* action classes: "data", "attr", "aux", "schema", "restart", "snap"
          Sample        \* TRUE: draw action parameters at random (simulation)

VARIABLES icfg, fcfg, bits, vals, rattr, cattr, ex, hasG, gcols, hasJ, remote, nrestart, hist

vars == <<icfg, fcfg, bits, vals, rattr, cattr, ex, hasG, gcols, hasJ, remote, nrestart, hist>>

NoVal == -99999
Rows  == 1..3       \* row 3 and column 3 are first used after a restart (fresh keys / ids:
Cols  == 0..3       \* a translation store that lost its state would hand out an id twice)
Times == 0..2        \* 0: no timestamp (standard view only)

---------------------------------------------------------------------------
(* option domain *)
Caches  == {"ranked", "lru", "none"}
Sizes   == {1, 50000}
Quanta  == {"Y", "M", "D", "H", "YM", "MD", "DH", "YMD", "MDH", "YMDH"}
Bounds  == {"zero", "sym", "pos", "neg", "k", "wide"}   \* (0,0) (-5,5) (3,9) (-9,-3) (0,1023) wide

Cfg(type, cache, size, bounds, quantum, nostd, keys) ==
    [type |-> type, cache |-> cache, size |-> size, bounds |-> bounds, quantum |-> quantum,
     nostd |-> nostd, keys |-> keys]

FieldCfgs(type) ==
  CASE type = "set"   -> {Cfg("set", c, s, "-", "-", FALSE, k) : c \in Caches, s \in Sizes, k \in BOOLEAN}
    [] type = "mutex" -> {Cfg("mutex", c, s, "-", "-", FALSE, k) : c \in Caches, s \in Sizes, k \in BOOLEAN}
    [] type = "int"   -> {Cfg("int", "-", 0, b, "-", FALSE, FALSE) : b \in Bounds}
    [] type = "time"  -> {Cfg("time", "-", 0, "-", q, n, k) : q \in Quanta, n \in BOOLEAN, k \in BOOLEAN}
    [] type = "bool"  -> {Cfg("bool", "-", 0, "-", "-", FALSE, FALSE)}

NoField == Cfg("none", "-", 0, "-", "-", FALSE, FALSE)

(* configurations f is re-created with after DeleteField / DeleteIndex *)
AltCfgs == {Cfg("set", "ranked", 50000, "-", "-", FALSE, FALSE), Cfg("int", "-", 0, "sym", "-", FALSE, FALSE),
            Cfg("int", "-", 0, "pos", "-", FALSE, FALSE), Cfg("time", "-", 0, "-", "YMD", TRUE, FALSE),
            Cfg("mutex", "none", 1, "-", "-", FALSE, TRUE), Cfg("set", "lru", 1, "-", "-", FALSE, TRUE)}

IndexCfgs == IF IndexCfgsSel = "all" THEN [keys : BOOLEAN, exist : BOOLEAN]
             ELSE {[keys |-> FALSE, exist |-> TRUE], [keys |-> TRUE, exist |-> FALSE]}
NoIndex == [keys |-> FALSE, exist |-> FALSE]

(* integer values offered per bounds (abstract; "wide" is mapped by the harness) *)
ValsOf(b) == CASE b = "zero" -> {0}
               [] b = "sym"  -> {-5, -1, 0, 1, 5}
               [] b = "pos"  -> {3, 4, 9}
               [] b = "neg"  -> {-9, -4, -3}
               [] b = "k"    -> {0, 1, 2, 512, 1023}
               [] b = "wide" -> {-2, -1, 0, 1, 2}
               [] OTHER      -> {}

---------------------------------------------------------------------------
(* projection *)
RECURSIVE SumOver(_, _)
SumOver(v, S) == IF S = {} THEN 0
                 ELSE LET c == CHOOSE x \in S : TRUE IN v[c] + SumOver(v, S \ {c})
NotNull(v) == {c \in Cols : v[c] # NoVal}
Least(S)    == CHOOSE x \in S : \A y \in S : x <= y
Greatest(S) == CHOOSE x \in S : \A y \in S : x >= y
Agg(v) == LET S == NotNull(v) IN
          IF S = {} THEN [sum |-> <<0, 0>>, min |-> <<0, 0>>, max |-> <<0, 0>>]
          ELSE LET lo == Least({v[c] : c \in S})  hi == Greatest({v[c] : c \in S}) IN
               [sum |-> <<SumOver(v, S), Cardinality(S)>>,
                min |-> <<lo, Cardinality({c \in S : v[c] = lo})>>,
                max |-> <<hi, Cardinality({c \in S : v[c] = hi})>>]

EmptyVals == [c \in Cols |-> NoVal]
NoAttr    == [x \in Rows |-> 0]
NoCAttr   == [c \in Cols |-> 0]

Proj(ic, fc, b, v, ra, ca, e, hg, gc, hj, rem) ==
    [icfg |-> ic, fcfg |-> fc,
     rows  |-> [r \in Rows |-> {c \in Cols : <<r, c, 0>> \in b}],
     trows |-> [r \in Rows |-> [t \in 1..2 |-> {c \in Cols : <<r, c, t>> \in b}]],
     vals  |-> {<<c, v[c]>> : c \in NotNull(v)}, agg |-> Agg(v),
     rattr |-> ra, cattr |-> ca, ex |-> e, hasG |-> hg, gcols |-> gc, hasJ |-> hj, remote |-> rem]

Cur == Proj(icfg, fcfg, bits, vals, rattr, cattr, ex, hasG, gcols, hasJ, remote)

---------------------------------------------------------------------------
Init == \E type \in Family : \E fc \in FieldCfgs(type) : \E ic \in IndexCfgs :
          /\ icfg = ic /\ fcfg = fc
          /\ bits = {} /\ vals = EmptyVals /\ rattr = NoAttr /\ cattr = NoCAttr /\ ex = {}
          /\ hasG = FALSE /\ gcols = {} /\ hasJ = FALSE /\ remote = {} /\ nrestart = 0
          /\ hist = << [op |-> "init", st |-> Proj(ic, fc, {}, EmptyVals, NoAttr, NoCAttr, {}, FALSE, {}, FALSE, {})] >>

Pick(S) == IF Sample THEN {RandomElement(S)} ELSE S

(* every step record carries the projection after the step *)
Step(rec) == hist' = Append(hist, rec @@ [st |-> Cur'])

IsBits == fcfg.type \in {"set", "mutex", "bool", "time"}
Late(r, c) == /\ (r = 3 => nrestart > 0 /\ fcfg.type # "bool")
              /\ (c = 3 => nrestart > 0)
Single == fcfg.type \in {"mutex", "bool"}

(* the bits a Set adds: the time point (time fields) and the standard view (unless disabled) *)
Added(r, c, t) == (IF t > 0 THEN {<<r, c, t>>} ELSE {})
                  \cup (IF fcfg.type = "time" /\ fcfg.nostd THEN {} ELSE {<<r, c, 0>>})
TimeOK(t) == IF fcfg.type = "time" THEN (t > 0 \/ ~fcfg.nostd) ELSE t = 0

ApplySet(b, r, c, t) == (IF Single THEN {x \in b : x[2] # c} ELSE b) \cup Added(r, c, t)

SetBit(r, c, t) ==
    /\ IsBits /\ TimeOK(t) /\ Late(r, c)
    /\ bits' = ApplySet(bits, r, c, t)
    /\ ex' = IF icfg.exist THEN ex \cup {c} ELSE ex
    /\ UNCHANGED <<icfg, fcfg, vals, rattr, cattr, hasG, gcols, hasJ, remote, nrestart>>
    /\ Step([op |-> "SetBit", r |-> r, c |-> c, t |-> t])

ClearBit(r, c) ==
    /\ IsBits /\ Late(r, c)
    /\ bits' = {x \in bits : ~(x[1] = r /\ x[2] = c)}
    /\ UNCHANGED <<icfg, fcfg, vals, rattr, cattr, ex, hasG, gcols, hasJ, remote, nrestart>>
    /\ Step([op |-> "ClearBit", r |-> r, c |-> c])

(* Store(Row(f=rs), f=rd) (set fields) and ClearRow(f=r): both rewrite the fragment's storage
   file (snapshot) instead of appending to its op log; SnapSet is a Set that reaches MaxOpN and
   triggers a snapshot (the driver lowers MaxOpN for the call).  A fragment whose last write
   before a clean shutdown was one of these has an empty op log when it is closed. *)
Store(rs, rd) ==
    /\ fcfg.type = "set" /\ ~fcfg.keys     \* (Store does not translate a row key: not generated for keyed fields)
    /\ rs # rd /\ Late(rs, 0) /\ Late(rd, 0)
    /\ bits' = {x \in bits : x[1] # rd} \cup {<<rd, x[2], 0>> : x \in {y \in bits : y[1] = rs /\ y[3] = 0}}
    /\ UNCHANGED <<icfg, fcfg, vals, rattr, cattr, ex, hasG, gcols, hasJ, remote, nrestart>>
    /\ Step([op |-> "Store", rs |-> rs, rd |-> rd])

ClearRow(r) ==
    /\ fcfg.type \in {"set", "mutex", "time"} /\ Late(r, 0)
    /\ bits' = {x \in bits : x[1] # r}
    /\ UNCHANGED <<icfg, fcfg, vals, rattr, cattr, ex, hasG, gcols, hasJ, remote, nrestart>>
    /\ Step([op |-> "ClearRow", r |-> r])

SnapSet(r, c) ==
    /\ fcfg.type \in {"set", "mutex"} /\ Late(r, c)
    /\ bits' = ApplySet(bits, r, c, 0)
    /\ ex' = IF icfg.exist THEN ex \cup {c} ELSE ex
    /\ UNCHANGED <<icfg, fcfg, vals, rattr, cattr, hasG, gcols, hasJ, remote, nrestart>>
    /\ Step([op |-> "SnapSet", r |-> r, c |-> c])

(* API.Import of two bits (applied in order) *)
ImportBits(r1, c1, t1, r2, c2, t2) ==
    /\ IsBits /\ TimeOK(t1) /\ TimeOK(t2) /\ Late(r1, c1) /\ Late(r2, c2)
    /\ bits' = ApplySet(ApplySet(bits, r1, c1, t1), r2, c2, t2)
    /\ ex' = IF icfg.exist THEN ex \cup {c1, c2} ELSE ex
    /\ UNCHANGED <<icfg, fcfg, vals, rattr, cattr, hasG, gcols, hasJ, remote, nrestart>>
    /\ Step([op |-> "ImportBits", b |-> << <<r1, c1, t1>>, <<r2, c2, t2>> >>])

SetVal(c, v) ==
    /\ fcfg.type = "int" /\ Late(1, c)
    /\ vals' = [vals EXCEPT ![c] = v]
    /\ ex' = IF icfg.exist THEN ex \cup {c} ELSE ex
    /\ UNCHANGED <<icfg, fcfg, bits, rattr, cattr, hasG, gcols, hasJ, remote, nrestart>>
    /\ Step([op |-> "SetVal", c |-> c, v |-> v])

ImportVals(c1, v1, c2, v2) ==
    /\ fcfg.type = "int" /\ Late(1, c1) /\ Late(1, c2)
    /\ vals' = [[vals EXCEPT ![c1] = v1] EXCEPT ![c2] = v2]
    /\ ex' = IF icfg.exist THEN ex \cup {c1, c2} ELSE ex
    /\ UNCHANGED <<icfg, fcfg, bits, rattr, cattr, hasG, gcols, hasJ, remote, nrestart>>
    /\ Step([op |-> "ImportVals", b |-> << <<c1, v1>>, <<c2, v2>> >>])

SetRowAttr(r, a) ==
    /\ IsBits /\ fcfg.type # "bool"      \* PQL has no way to name a bool row in SetRowAttrs
    /\ Late(r, 0)
    /\ rattr' = [rattr EXCEPT ![r] = a]
    /\ UNCHANGED <<icfg, fcfg, bits, vals, cattr, ex, hasG, gcols, hasJ, remote, nrestart>>
    /\ Step([op |-> "SetRowAttr", r |-> r, a |-> a])

SetColAttr(c, a) ==
    /\ Late(1, c)
    /\ cattr' = [cattr EXCEPT ![c] = a]
    /\ UNCHANGED <<icfg, fcfg, bits, vals, rattr, ex, hasG, gcols, hasJ, remote, nrestart>>
    /\ Step([op |-> "SetColAttr", c |-> c, a |-> a])

(* auxiliary field g (set, row 1) and index j *)
CreateG == /\ ~hasG /\ hasG' = TRUE /\ gcols' = {}
           /\ UNCHANGED <<icfg, fcfg, bits, vals, rattr, cattr, ex, hasJ, remote, nrestart>>
           /\ Step([op |-> "CreateG"])
DeleteG == /\ hasG /\ hasG' = FALSE /\ gcols' = {}
           /\ UNCHANGED <<icfg, fcfg, bits, vals, rattr, cattr, ex, hasJ, remote, nrestart>>
           /\ Step([op |-> "DeleteG"])
SetG(c) == /\ hasG /\ Late(1, c) /\ gcols' = gcols \cup {c}
           /\ ex' = IF icfg.exist THEN ex \cup {c} ELSE ex
           /\ UNCHANGED <<icfg, fcfg, bits, vals, rattr, cattr, hasG, hasJ, remote, nrestart>>
           /\ Step([op |-> "SetG", c |-> c])
CreateJ == /\ ~hasJ /\ hasJ' = TRUE
           /\ UNCHANGED <<icfg, fcfg, bits, vals, rattr, cattr, ex, hasG, gcols, remote, nrestart>>
           /\ Step([op |-> "CreateJ"])
DeleteJ == /\ hasJ /\ hasJ' = FALSE
           /\ UNCHANGED <<icfg, fcfg, bits, vals, rattr, cattr, ex, hasG, gcols, remote, nrestart>>
           /\ Step([op |-> "DeleteJ"])

(* shards of f known to hold data on other nodes (Field.AddRemoteAvailableShards /
   API.DeleteAvailableShard): persisted in the field's .available.shards file *)
RemoteShards == {8, 9}
AddRemote(s) == /\ remote' = remote \cup {s}
                /\ UNCHANGED <<icfg, fcfg, bits, vals, rattr, cattr, ex, hasG, gcols, hasJ, nrestart>>
                /\ Step([op |-> "AddRemote", s |-> s])
DelRemote(s) == /\ s \in remote /\ remote' = remote \ {s}
                /\ UNCHANGED <<icfg, fcfg, bits, vals, rattr, cattr, ex, hasG, gcols, hasJ, nrestart>>
                /\ Step([op |-> "DelRemote", s |-> s])

(* DeleteField(f) followed by CreateField(f) with another configuration: nothing of the old
   field (data, row attributes, options) may come back, now or after a restart *)
RecreateF(fc) ==
    /\ fc # fcfg
    /\ fcfg' = fc /\ bits' = {} /\ vals' = EmptyVals /\ rattr' = NoAttr /\ remote' = {}
    /\ UNCHANGED <<icfg, cattr, ex, hasG, gcols, hasJ, nrestart>>
    /\ Step([op |-> "RecreateF", cfg |-> fc])

(* DeleteIndex(i) followed by CreateIndex(i) with other options and CreateField(f) *)
RecreateI(ic, fc) ==
    /\ icfg' = ic /\ fcfg' = fc
    /\ bits' = {} /\ vals' = EmptyVals /\ rattr' = NoAttr /\ cattr' = NoCAttr /\ ex' = {}
    /\ hasG' = FALSE /\ gcols' = {} /\ remote' = {}
    /\ UNCHANGED <<hasJ, nrestart>>
    /\ Step([op |-> "RecreateI", icfg |-> ic, cfg |-> fc])

Restart ==
    /\ nrestart < MaxRestarts
    /\ hist[Len(hist)].op # "Restart"
    /\ nrestart' = nrestart + 1
    /\ UNCHANGED <<icfg, fcfg, bits, vals, rattr, cattr, ex, hasG, gcols, hasJ, remote>>
    /\ Step([op |-> "Restart"])

FVals == ValsOf(fcfg.bounds)

Data ==
    \/ \E r \in Pick(Rows), c \in Pick(Cols), t \in Pick(Times) : SetBit(r, c, t)
    \/ \E r \in Pick(Rows), c \in Pick(Cols), t \in Pick(1..2) : Sample /\ SetBit(r, c, t)
    \/ \E t \in Pick(Times) : Sample /\ (SetBit(3, 3, t) \/ SetBit(3, 0, t) \/ SetBit(1, 3, t))
    \/ \E r \in Pick(Rows), c \in Pick(Cols) : ClearBit(r, c)
    \/ \E rs \in Pick(Rows), rd \in Pick(Rows) : Store(rs, rd)
    \/ \E r \in Pick(Rows) : ClearRow(r)
    \/ \E r \in Pick(Rows), c \in Pick(Cols) : SnapSet(r, c)
    \/ \E r1 \in Pick(Rows), c1 \in Pick(Cols), t1 \in Pick(Times), r2 \in Pick(Rows), c2 \in Pick(Cols), t2 \in Pick(Times) :
          Sample /\ ImportBits(r1, c1, t1, r2, c2, t2)
    \/ \E r1 \in 1..2, c1 \in 0..2, t1 \in Times, t2 \in Times :
          ~Sample /\ ImportBits(r1, c1, t1, 3 - r1, (c1 + 1) % 3, t2)
    \/ \E r1 \in 1..2, c1 \in 0..2, t1 \in Times : ~Sample /\ ImportBits(r1, c1, t1, 3 - r1, c1, t1)
    \/ \E c \in Pick(Cols) : FVals # {} /\ \E v \in Pick(FVals) : SetVal(c, v)
    \/ \E c1 \in Pick(Cols), c2 \in Pick(Cols) : Sample /\ FVals # {} /\ \E v1 \in Pick(FVals), v2 \in Pick(FVals) :
          ImportVals(c1, v1, c2, v2)
    \/ \E c1 \in 0..2, v1 \in FVals, v2 \in FVals : ~Sample /\ ImportVals(c1, v1, (c1 + 1) % 3, v2)
    \/ \E c1 \in 0..2, v1 \in FVals : ~Sample /\ ImportVals(c1, v1, c1, Least(FVals))

(* the history shape of a fragment closed with an empty op log: rows written, then a write that
   snapshots as the last write before the restart *)
SnapFinal == \/ \E rs \in 1..2, rd \in 1..2 : Store(rs, rd)
             \/ \E r1 \in 1..2 : ClearRow(r1)
             \/ \E r2 \in 1..2, c2 \in 0..2 : SnapSet(r2, c2)
SnapShape ==
    \/ (Len(hist) = 1 /\ \E c \in 0..2 : SetBit(1, c, 0))
    \/ (Len(hist) = 2 /\ \E c \in 0..2 : SetBit(2, c, 0))
    \/ (Len(hist) = 3 /\ SnapFinal)

Attrs ==
    \/ \E r \in Pick(Rows), a \in Pick(1..2) : SetRowAttr(r, a)
    \/ \E c \in Pick(Cols), a \in Pick(1..2) : SetColAttr(c, a)

Aux ==
    \/ CreateG \/ DeleteG \/ CreateJ \/ DeleteJ
    \/ \E c \in Pick(Cols) : SetG(c)
    \/ \E s \in Pick(RemoteShards) : AddRemote(s)
    \/ \E s \in Pick(RemoteShards) : DelRemote(s)

SchemaOps ==
    \/ \E fc \in Pick(AltCfgs) : RecreateF(fc)
    \/ \E ic \in Pick(IndexCfgs), fc \in Pick(AltCfgs \cup {fcfg}) : RecreateI(ic, fc)

Next == /\ Len(hist) < Depth
        /\ \/ ("data" \in Classes /\ Data)
           \/ ("snap" \in Classes /\ SnapShape)
           \/ ("attr" \in Classes /\ Attrs)
           \/ ("aux" \in Classes /\ Aux)
           \/ ("schema" \in Classes /\ SchemaOps)
           \/ ("restart" \in Classes /\ Restart)

Spec == Init /\ [][Next]_vars

Emit == Len(hist) = Depth => PrintT(<<"BEH", ToJson(hist)>>)

---------------------------------------------------------------------------
(* the property: Restart changes nothing of the projection *)
RestartIsIdentity ==
    [][hist'[Len(hist')].op = "Restart" => hist'[Len(hist')].st = hist[Len(hist)].st]_vars

TypeOK == /\ \A c \in Cols : vals[c] = NoVal \/ vals[c] \in FVals
          /\ (fcfg.type # "int" => vals = EmptyVals)
          /\ (fcfg.type = "int" => bits = {})
          /\ (Single => \A x \in bits, y \in bits : x[2] = y[2] => x[1] = y[1])
          /\ (~icfg.exist => ex = {})
MCView == <<icfg, fcfg, bits, vals, rattr, cattr, ex, hasG, gcols, hasJ, remote, nrestart, Len(hist)>>
=============================================================================
