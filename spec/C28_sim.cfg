CONSTANTS
  Mode = "c28"
  NCols = 5
  Window = FALSE
  Edge = 3
  NRows = 3
  NT = 2
  VAbs = 2
  Exist = TRUE
  Depth = 18
  MaxD = 2
  MaxArity = 2
  MaxStack = 2
  MaxBatch = 4
  MaxSeq = 2
  InitAll = 0
  Warm = 4
  ClassSet = {"wset", "wmx", "wtime", "wval", "query", "query2", "query3", "query4"}
  LeafKinds = {"row"}
INIT Init
NEXT Next
INVARIANT Emit
INVARIANT MutexOK
CHECK_DEADLOCK FALSE
