--------------------------- MODULE PlacementHist ---------------------------
(***************************************************************************)
(* C20, generator (binding A side of the check): membership HISTORIES.       *)
(* Placement says the owners of a shard depend only on the resulting id set  *)
(* and the replica setting -- whatever sequence of joins and leaves led to    *)
(* it and whatever was computed on the way.  This module enumerates such      *)
(* sequences over N abstract nodes: join / leave / obs, where obs means "the  *)
(* node computes owners now" (partitionNodes for every partition, shardNodes, *)
(* ownsShard, containsShards).  Each step carries the member set the cluster  *)
(* must have after it.  harness/bind/clusterb TestC20 replays every behaviour *)
(* on a real cluster object, compares the member set after every step, and   *)
(* records at every obs (and at the end) what the code computed; TLC then     *)
(* validates those records against Placement (TracePlacement: a "same" event  *)
(* must equal the answer of a freshly built cluster of the same id set).      *)
(***************************************************************************)
EXTENDS Integers, Sequences, FiniteSets, TLC, Json

CONSTANTS N,       \* abstract nodes 1..N
          Depth,   \* history length
          Reps     \* replica settings

VARIABLES members, hist, r

Step(op, k, m) == hist' = Append(hist, [op |-> op, k |-> k, r |-> r, m |-> m])

Init == members = {} /\ hist = << >> /\ r \in Reps

Join(k) == k \notin members /\ members' = members \cup {k} /\ Step("join", k, members')
Leave(k) == k \in members /\ Cardinality(members) >= 2
            /\ members' = members \ {k} /\ Step("leave", k, members')
Obs == members # {} /\ hist[Len(hist)].op # "obs"
       /\ UNCHANGED members /\ Step("obs", 0, members)

Next == /\ Len(hist) < Depth
        /\ UNCHANGED r
        /\ \/ \E k \in 1..N : Join(k) \/ Leave(k)
           \/ Obs

Emit == Len(hist) = Depth => PrintT(<<"BEH", ToJson(hist)>>)
=============================================================================
