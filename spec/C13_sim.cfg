CONSTANTS
  NRows = 3
  NCols = 2
  Kinds = {"mutex", "bool"}
  MaxBatch = 3
  MaxClearBatch = 2
  Ops = {"Set", "Clear", "Import", "ClearImport", "ClearRow", "Roaring", "BadRow"}
  Inits = "all"
  Depth = 6
INIT Init
NEXT Next
INVARIANT Emit
CHECK_DEADLOCK FALSE
