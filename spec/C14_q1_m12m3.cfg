CONSTANTS
  MinNeg = 12
  MinPos = 0
  MaxNeg = 3
  MaxPos = 0
  NCols = 12
  Datasets = {"all", "wrap", "neg", "pos", "nonneg", "low", "low1", "single", "empty", "ties", "ties0"}
  Vias = {"set", "imp1d"}
  Classes = {"Q"}
  Depth = 2
  Sample = FALSE
  Paths = {"small", "large"}
INIT Init
NEXT Next
INVARIANT Emit
CHECK_DEADLOCK FALSE
