----------------------------- MODULE TimeViews -----------------------------
(***************************************************************************)
(* C18 / C19 - time quanta, time views and the calendar they live in.       *)
(*                                                                         *)
(* Time is a count of hours: hour index 0 is 1970-01-01T00:00 UTC (so an    *)
(* hour index is Unix seconds / 3600).  The Gregorian calendar is defined   *)
(* twice - in closed form (DayNo / Civil) and by the successor rule with    *)
(* month lengths and leap years (NextDay) - and CalendarOK relates the two. *)
(*                                                                         *)
(* A time view is [u, y, m, d, h]: the unit "Y" | "M" | "D" | "H" and the    *)
(* calendar fields down to that unit (the others are 1, 1, 0).  It denotes  *)
(* the interval [ViewLo, ViewHi) of hour indexes and is called ViewName     *)
(* ("standard_2019", "standard_201902", ..08, ..0815; code: viewByTimeUnit).*)
(* A quantum is a set of units (code: TimeQuantum, 10 valid values).        *)
(*                                                                         *)
(* The property (C18): for a range [from, to) aligned to the quantum's      *)
(* finest unit, the views a range query reads (code: viewsByTimeRange) are   *)
(* of units the quantum has, pairwise disjoint, and cover exactly the range *)
(* (CoverOK).  Cover is one such decomposition (greedy, coarsest first), so  *)
(* the demand is satisfiable; the code may choose any other.                *)
(* This module has no variables; TimeRange (C18 behaviours), TimeClear      *)
(* (C19) and TraceTimeViews (C18 trace validation) extend it.               *)
(***************************************************************************)
EXTENDS Integers, Sequences, FiniteSets, TLC

\* ------------------------------------------------------------ calendar
Leap(y) == (y % 4 = 0 /\ y % 100 # 0) \/ y % 400 = 0
DaysInMonth(y, m) == IF m = 2 THEN (IF Leap(y) THEN 29 ELSE 28)
                     ELSE IF m \in {4, 6, 9, 11} THEN 30 ELSE 31

\* days since 1970-01-01 of a civil date, closed form (years >= 1)
DayNo(y, m, d) ==
    LET yy == IF m <= 2 THEN y - 1 ELSE y
        era == yy \div 400
        yoe == yy - era * 400
        mp == (m + 9) % 12
        doy == (153 * mp + 2) \div 5 + d - 1
        doe == yoe * 365 + yoe \div 4 - yoe \div 100 + doy
    IN era * 146097 + doe - 719468

\* the civil date of a day number, closed form
Civil(dn) ==
    LET z == dn + 719468
        era == z \div 146097
        doe == z - era * 146097
        yoe == (doe - doe \div 1460 + doe \div 36524 - doe \div 146096) \div 365
        doy == doe - (365 * yoe + yoe \div 4 - yoe \div 100)
        mp == (5 * doy + 2) \div 153
        d == doy - (153 * mp + 2) \div 5 + 1
        m == IF mp < 10 THEN mp + 3 ELSE mp - 9
        y == yoe + era * 400
    IN [y |-> IF m <= 2 THEN y + 1 ELSE y, m |-> m, d |-> d]

\* the successor rule
NextDay(c) == IF c.d < DaysInMonth(c.y, c.m) THEN [c EXCEPT !.d = @ + 1]
              ELSE IF c.m < 12 THEN [y |-> c.y, m |-> c.m + 1, d |-> 1]
              ELSE [y |-> c.y + 1, m |-> 1, d |-> 1]

\* (M) both definitions agree on a window of days
CalendarOK(lo, hi) ==
    /\ Civil(0) = [y |-> 1970, m |-> 1, d |-> 1]
    /\ \A dn \in lo..hi :
         LET c == Civil(dn) IN
         /\ c.m \in 1..12 /\ c.d \in 1..DaysInMonth(c.y, c.m)
         /\ DayNo(c.y, c.m, c.d) = dn
         /\ Civil(dn + 1) = NextDay(c)

Hour(y, m, d, h) == 24 * DayNo(y, m, d) + h
TimeOf(hi) == LET c == Civil(hi \div 24) IN [y |-> c.y, m |-> c.m, d |-> c.d, h |-> hi % 24]

\* ------------------------------------------------------------ quanta and views
Units == {"Y", "M", "D", "H"}
Rank(u) == CASE u = "Y" -> 1 [] u = "M" -> 2 [] u = "D" -> 3 [] u = "H" -> 4
QUnits == [Y |-> {"Y"}, YM |-> {"Y", "M"}, YMD |-> {"Y", "M", "D"}, YMDH |-> {"Y", "M", "D", "H"},
           M |-> {"M"}, MD |-> {"M", "D"}, MDH |-> {"M", "D", "H"},
           D |-> {"D"}, DH |-> {"D", "H"}, H |-> {"H"}]
Quanta == DOMAIN QUnits
UnitsOf(q) == QUnits[q]
Finest(q) == CHOOSE u \in UnitsOf(q) : \A w \in UnitsOf(q) : Rank(w) <= Rank(u)
Coarsest(q) == CHOOSE u \in UnitsOf(q) : \A w \in UnitsOf(q) : Rank(w) >= Rank(u)

MkView(u, y, m, d, h) == [u |-> u, y |-> y, m |-> m, d |-> d, h |-> h]
\* the view of unit u that contains hour index hi
ViewAt(u, hi) ==
    LET t == TimeOf(hi) IN
    MkView(u, t.y, IF u = "Y" THEN 1 ELSE t.m, IF u \in {"Y", "M"} THEN 1 ELSE t.d, IF u = "H" THEN t.h ELSE 0)
ValidView(v) ==
    /\ v.u \in Units /\ v.y \in 1..9999 /\ v.m \in 1..12 /\ v.d \in 1..DaysInMonth(v.y, v.m) /\ v.h \in 0..23
    /\ (v.u = "Y" => v.m = 1) /\ (v.u \in {"Y", "M"} => v.d = 1) /\ (v.u # "H" => v.h = 0)

\* ViewToInterval: the hours a view denotes
ViewLo(v) == Hour(v.y, v.m, v.d, v.h)
ViewHi(v) == CASE v.u = "Y" -> Hour(v.y + 1, 1, 1, 0)
               [] v.u = "M" -> IF v.m = 12 THEN Hour(v.y + 1, 1, 1, 0) ELSE Hour(v.y, v.m + 1, 1, 0)
               [] v.u = "D" -> ViewLo(v) + 24
               [] v.u = "H" -> ViewLo(v) + 1

Pad2(n) == IF n < 10 THEN "0" \o ToString(n) ELSE ToString(n)
Pad4(n) == IF n < 10 THEN "000" \o ToString(n) ELSE IF n < 100 THEN "00" \o ToString(n)
           ELSE IF n < 1000 THEN "0" \o ToString(n) ELSE ToString(n)
TimePart(v) == Pad4(v.y) \o (IF v.u = "Y" THEN "" ELSE Pad2(v.m) \o
               (IF v.u = "M" THEN "" ELSE Pad2(v.d) \o (IF v.u = "D" THEN "" ELSE Pad2(v.h))))
ViewName(v) == "standard_" \o TimePart(v)

\* the views a bit set at hour hi goes to (code: viewsByTime)
ViewsForTime(q, hi) == {ViewAt(u, hi) : u \in UnitsOf(q)}

\* a time is aligned to the quantum when it starts a view of the finest unit
Aligned(q, hi) == ViewLo(ViewAt(Finest(q), hi)) = hi

\* NameRoundTrip: the view containing any hour of a view's interval, at the view's
\* unit, is the view itself, and distinct views have distinct names
RoundTrip(v) == /\ ValidView(v) /\ ViewAt(v.u, ViewLo(v)) = v /\ ViewAt(v.u, ViewHi(v) - 1) = v
                /\ ViewLo(v) < ViewHi(v)

\* ------------------------------------------------------------ the property of a range decomposition
SeqRange(q) == {q[i] : i \in 1..Len(q)}
RECURSIVE SumLen(_, _)
SumLen(vs, i) == IF i > Len(vs) THEN 0 ELSE (ViewHi(vs[i]) - ViewLo(vs[i])) + SumLen(vs, i + 1)

UnitsAllowed(q, vs) == \A i \in 1..Len(vs) : ValidView(vs[i]) /\ vs[i].u \in UnitsOf(q)
\* (views listed in chronological order need only be compared with their neighbour)
Disjoint(vs) ==
    IF \A i \in 1..(Len(vs) - 1) : ViewLo(vs[i]) <= ViewLo(vs[i+1])
    THEN \A i \in 1..(Len(vs) - 1) : ViewHi(vs[i]) <= ViewLo(vs[i+1])
    ELSE \A i \in 1..Len(vs) : \A j \in (i+1)..Len(vs) :
            ViewHi(vs[i]) <= ViewLo(vs[j]) \/ ViewHi(vs[j]) <= ViewLo(vs[i])
CoversExactly(from, to, vs) ==
    /\ \A i \in 1..Len(vs) : from <= ViewLo(vs[i]) /\ ViewHi(vs[i]) <= to
    /\ SumLen(vs, 1) = to - from
\* vs: sequence of views read for the range [from, to) under quantum q
CoverOK(q, from, to, vs) == UnitsAllowed(q, vs) /\ Disjoint(vs) /\ CoversExactly(from, to, vs)

\* one decomposition that satisfies it: at every point the coarsest view that starts
\* there and fits (ViewsForRange)
Fits(q, a, b) == {v \in {ViewAt(u, a) : u \in UnitsOf(q)} : ViewLo(v) = a /\ ViewHi(v) <= b}
RECURSIVE Cover(_, _, _)
Cover(q, a, b) ==
    IF a >= b THEN << >>
    ELSE LET F == Fits(q, a, b)
             best == CHOOSE v \in F : \A w \in F : Rank(v.u) <= Rank(w.u)
         IN <<best>> \o Cover(q, ViewHi(best), b)
ViewsForRange(q, from, to) == Cover(q, from, to)

\* what a range query over per-view contents returns (vc: function view -> set of
\* columns, defined on the views in X; a view without a fragment reads as empty)
ReadRange(q, from, to, vc, X) ==
    UNION {IF v \in X THEN vc[v] ELSE {} : v \in SeqRange(ViewsForRange(q, from, to))}
=============================================================================
