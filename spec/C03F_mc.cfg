CONSTANTS
  Rows = {0, 1}
  NCols = 2
  Depth = 4
  Alphabet = {"Hold","Derive","Store","SetCol","ClearCol","Import","ClearRow","MutHeld","MergeHeld","Snapshot","Reopen","Close"}
INIT Init
NEXT Next
PROPERTY Isolated
CHECK_DEADLOCK FALSE
