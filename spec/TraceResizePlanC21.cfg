CONSTANTS
  MCNodes = {"a"}
  MCShards = {0}
INIT TInit
NEXT TNext
POSTCONDITION Accepted
CHECK_DEADLOCK FALSE
