CONSTANTS
  Members = {"n0","n1","n2"}
  Coord = "n0"
  Joiners = {"n3"}
  Leavers = {"n2"}
  Rejoiners = {"n1"}
  Profile = "all"
  Variant = "fixed"
  Gran = "fine"
  MaxJobs = 3
  MaxQueue = 2
  BJoin = 1
  BRejoin = 0
  BLeave = 0
  BDup = 1
  BErr = 1
  BUnknown = 0
  BAbort = 1
  BSendFail = 0
  Depth = 0
  Locks = TRUE
  HandlerReadsState = FALSE
SPECIFICATION FairSpec
INVARIANT TypeOK
INVARIANT AtMostOneJob
INVARIANT DoneOnlyIfOk
INVARIANT NoHandlerStuck
PROPERTY MembershipOnlyAfterAllOk
PROPERTY RefinesAbs
CHECK_DEADLOCK FALSE
PROPERTY LeavesResizing
PROPERTY JobEnds
PROPERTY AbsLive
INVARIANT NoLockCycle
INVARIANT LockOrder
