CONSTANTS
  Kind = "set"
  Rows = {0, 99, 100}
  Cols = {0, 1, 2, 3}
  Ops = {"SetBit","ClearBit","SetRow","ClearRow","BulkSet","BulkClear","RoaringSet","RoaringClear","Snapshot","BgSnapshot","Reopen","Blocks","Row"}
  Scope = "mini"
  Depth = 7
  ShapeName = "bwwb"
  InitMode = "any"
  MaxOpNs = {"tiny","huge"}
  Provs = {"ops","snap","reopen"}
  RowInval = {"setBit","clearBit","setRow","clearRow","bulk","bulkMutex","roaring","setValue","clearValue","importValue"}
  CkInval = {"setBit","clearBit","setRow","clearRow","bulk","bulkMutex","roaring","setValue","clearValue","importValue"}
INIT Init
NEXT Next
INVARIANT TypeOK
INVARIANT ReadsReflectWrites
INVARIANT ChecksumFresh
INVARIANT Emit
CHECK_DEADLOCK FALSE
