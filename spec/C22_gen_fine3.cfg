CONSTANTS
  Members = {"n0","n1","n2"}
  Coord = "n0"
  Joiners = {}
  Leavers = {"n2"}
  Rejoiners = {}
  Profile = "table"
  Variant = "fixed"
  Gran = "fine"
  MaxJobs = 2
  MaxQueue = 2
  BJoin = 0
  BLeave = 1
  BRejoin = 0
  BDup = 1
  BErr = 1
  BUnknown = 0
  BAbort = 1
  BSendFail = 0
  Depth = 20
  Locks = FALSE
  HandlerReadsState = FALSE
INIT Init
NEXT Next
INVARIANT TypeOK
INVARIANT AtMostOneJob
INVARIANT NoHandlerStuck
INVARIANT Emit
CHECK_DEADLOCK FALSE
