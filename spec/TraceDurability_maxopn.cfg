CONSTANTS
  TwoWrites = FALSE
  AsyncRow = FALSE
  NoOpnSnap = FALSE
INIT Init
NEXT Next
POSTCONDITION Accepted
CHECK_DEADLOCK FALSE
