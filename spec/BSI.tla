------------------------------- MODULE BSI -------------------------------
(* C14 -- integer (BSI) fields store values exactly; range queries and aggregates are exact.

   State: val[c] for abstract columns c (NoVal = no value).  Column c lives in shard c % 3
   (the harness picks the concrete shards and offsets).  Values, bounds and predicates are
   *abstract value indices*: the harness maps them to concrete int64 values by a strictly
   increasing table (identity for the small exhaustive scopes, big magnitudes up to bit
   depth 63 for the "wide" profile).  Every comparison below is invariant under a strictly
   increasing map, so the expected column sets are exact for the concrete field as well; the
   two outermost predicates Min-4 and Max+4 stand for -2^62 / +2^62.  Sums are re-computed by
   the harness from the contributing columns (`cols`) and the post-state under the map.

   Actions = calls of the public surface:
     Set(c,v)                 PQL Set(col, f=v)            /  Field.SetValue
     Import(batch)            API.ImportValue, batch with repeats, the last entry wins
     ImportMap(kind)          API.ImportValue rewriting every column (reverse / constant)
     Clear(c,v) ClearAll      API.ImportValue with the clear option
     Range(cmp,p)             Row(f cmp p)                 /  Field.Range
     Between1(a,b)            Row(f >< [a,b])
     Between2(a,sa,b,sb)      Row(a <[=] f <[=] b)
     NotNull                  Row(f != null)
     Agg(kind,filter)         Sum/Min/Max([filter row,] field=f)  /  Field.Sum/Min/Max
   Every record of a write carries the post-state (`vals`) and the unfiltered aggregates
   (`agg`); the driver re-reads every column and the aggregates after every write.        *)
EXTENDS Integers, Sequences, FiniteSets, TLC, Json

CONSTANTS MinNeg, MinPos, MaxNeg, MaxPos,   \* bounds: Min = MinPos - MinNeg, Max = MaxPos - MaxNeg
          NCols, Datasets, Vias, Classes, Depth,  \* (TLC configuration files have no negative literals)
          Sample,
          Paths     \* write paths of a value import offered: subset of {"small", "large"}

VARIABLES val, hist

Min == MinPos - MinNeg
Max == MaxPos - MaxNeg

NoVal == -99999
Cols  == 0..(NCols-1)
Vals  == Min..Max
W     == Max - Min + 1
Preds == (Min-4)..(Max+4)

Interesting == {Min, Min+1, -1, 0, 1, Max-1, Max} \cap Vals
RPreds == {Min-4, Min-1, Min, Min+1, -1, 0, 1, Max-1, Max, Max+1, Max+4} \cap Preds

Has(v, c)     == v[c] # NoVal
NotNullSet(v) == {c \in Cols : Has(v, c)}
Pairs(v)      == {<<c, v[c]>> : c \in NotNullSet(v)}

---------------------------------------------------------------------------
(* datasets *)
DataAll  == [c \in Cols |-> IF c < W THEN Min + c ELSE NoVal]
DataWrap == [c \in Cols |-> Min + (c % W)]
Keep(v, S) == [c \in Cols |-> IF v[c] \in S THEN v[c] ELSE NoVal]

DataSets(name) ==
  CASE name = "all"    -> {DataAll}
    [] name = "wrap"   -> {DataWrap}
    [] name = "neg"    -> {Keep(DataAll, {x \in Vals : x < 0})}
    [] name = "pos"    -> {Keep(DataAll, {x \in Vals : x > 0})}
    [] name = "nonneg" -> {Keep(DataAll, {x \in Vals : x >= 0})}
    [] name = "low"    -> {Keep(DataAll, {x \in Vals : -3 <= x /\ x <= 3})}   \* bit depth below the bounds' depth
    [] name = "low1"   -> {Keep(DataAll, {x \in Vals : -1 <= x /\ x <= 1})}
    [] name = "single" -> {[c \in Cols |-> IF c = (x - Min) % NCols THEN x ELSE NoVal] : x \in Vals}
    [] name = "empty"  -> {[c \in Cols |-> NoVal]}
    [] name = "ties"   -> {[c \in Cols |-> IF c % 2 = 0 THEN xy[1] ELSE xy[2]] :
                              xy \in {q \in Interesting \X Interesting : q[1] <= q[2]}}
    [] name = "ties0"  -> {[c \in Cols |-> IF c % 4 = 3 THEN NoVal ELSE IF c % 2 = 0 THEN x ELSE y] :
                              x \in {Min, Max}, y \in Interesting}

---------------------------------------------------------------------------
(* the oracle *)
RECURSIVE SumOver(_, _)
SumOver(v, S) == IF S = {} THEN 0
                 ELSE LET c == CHOOSE x \in S : TRUE IN v[c] + SumOver(v, S \ {c})

Cmp(op, x, p) == CASE op = "==" -> x = p
                   [] op = "!=" -> x # p
                   [] op = "<"  -> x < p
                   [] op = "<=" -> x <= p
                   [] op = ">"  -> x > p
                   [] op = ">=" -> x >= p
Ops == {"==", "!=", "<", "<=", ">", ">="}

RangeSet(v, op, p)  == {c \in NotNullSet(v) : Cmp(op, v[c], p)}
BetweenSet(v, a, b) == {c \in NotNullSet(v) : a <= v[c] /\ v[c] <= b}

(* stored filter rows of the set field g *)
GRow(k) == CASE k = 1 -> {c \in Cols : c % 2 = 0}
             [] k = 2 -> {c \in Cols : c % 3 = 0}
             [] k = 3 -> {c \in Cols : 2 * c < NCols}
             [] k = 4 -> {NCols - 1}
             [] k = 5 -> {}
             [] k = 6 -> Cols

Filters == {<<"none", 0>>} \cup {<<"g", k>> : k \in 1..6}
             \cup {<<"gt", p>> : p \in {-1, 0, Min + (W \div 2)} \cap Preds}
             \cup {<<"le", p>> : p \in {-1, 0, Min + (W \div 2)} \cap Preds}

FilterSet(v, f) == CASE f[1] = "none" -> Cols
                     [] f[1] = "g"    -> GRow(f[2])
                     [] f[1] = "gt"   -> RangeSet(v, ">", f[2])
                     [] f[1] = "le"   -> RangeSet(v, "<=", f[2])

Considered(v, F) == NotNullSet(v) \cap F
Least(S)    == CHOOSE x \in S : \A y \in S : x <= y
Greatest(S) == CHOOSE x \in S : \A y \in S : x >= y

AggSum(v, F) == LET S == Considered(v, F) IN <<SumOver(v, S), Cardinality(S)>>
AggMin(v, F) == LET S == Considered(v, F) IN
                IF S = {} THEN <<0, 0>>
                ELSE LET m == Least({v[c] : c \in S}) IN <<m, Cardinality({c \in S : v[c] = m})>>
AggMax(v, F) == LET S == Considered(v, F) IN
                IF S = {} THEN <<0, 0>>
                ELSE LET m == Greatest({v[c] : c \in S}) IN <<m, Cardinality({c \in S : v[c] = m})>>
AggOf(kind, v, F) == CASE kind = "Sum" -> AggSum(v, F) [] kind = "Min" -> AggMin(v, F) [] kind = "Max" -> AggMax(v, F)
(* the columns holding the reported value (Sum: every contributing column) *)
AggCols(kind, v, F) == LET S == Considered(v, F) IN
                       IF kind = "Sum" \/ S = {} THEN S
                       ELSE {c \in S : v[c] = AggOf(kind, v, F)[1]}

AggAll(v) == [sum |-> AggSum(v, Cols), min |-> AggMin(v, Cols), max |-> AggMax(v, Cols)]

---------------------------------------------------------------------------
Init == \E ds \in Datasets : \E v0 \in DataSets(ds) : \E via \in Vias :
          /\ val = v0
          /\ hist = << [op |-> "init", ds |-> ds, via |-> via, vals |-> Pairs(v0), agg |-> AggAll(v0),
                      g |-> [k \in 1..6 |-> GRow(k)]] >>

Write(rec, v2) == /\ val' = v2
                  /\ hist' = Append(hist, rec @@ [vals |-> Pairs(v2), agg |-> AggAll(v2)])
Read(rec)      == /\ UNCHANGED val
                  /\ hist' = Append(hist, rec)

(* batches: the last entry of a column wins *)
RECURSIVE Apply(_, _)
Apply(v, b) == IF b = << >> THEN v ELSE Apply([v EXCEPT ![Head(b)[1]] = Head(b)[2]], Tail(b))

BCols == {0, 1, 2, NCols \div 2, NCols - 2, NCols - 1} \cap Cols
V3    == {Min, Max} \cup ({0} \cap Vals)

Set(c, v) == Write([op |-> "Set", c |-> c, v |-> v, ch |-> (val[c] # v)], [val EXCEPT ![c] = v])

(* path: fragment.importValue has two write paths -- "small" (positions through the op log,
   importPositions) and "large" (values written straight to storage, caches dropped afterwards,
   snapshot; taken when len(batch)*(bitDepth+1)+opN >= MaxOpN).  The driver forces the large
   path by lowering MaxOpN on the open fragments for the duration of the call.              *)
Import1(c1, v1, path) == Write([op |-> "Import", path |-> path, b |-> << <<c1, v1>> >>], Apply(val, << <<c1, v1>> >>))
Import2(c1, v1, c2, v2, path) ==
    LET b == << <<c1, v1>>, <<c2, v2>> >> IN Write([op |-> "Import", path |-> path, b |-> b], Apply(val, b))
Import3(c1, v1, c2, v2, v3, path) ==
    LET b == << <<c1, v1>>, <<c2, v2>>, <<c1, v3>> >> IN Write([op |-> "Import", path |-> path, b |-> b], Apply(val, b))

ImportMap(kind, x, path) ==
    LET v2 == CASE kind = "reverse" -> [c \in Cols |-> IF Has(val, c) THEN Max - (val[c] - Min) ELSE NoVal]
                [] kind = "const"   -> [c \in Cols |-> x]
                [] kind = "fill"    -> [c \in Cols |-> IF Has(val, c) THEN val[c] ELSE x]
    IN Write([op |-> "ImportMap", path |-> path, kind |-> kind, x |-> x], v2)

Clear(c, v, path) == Write([op |-> "Clear", path |-> path, cs |-> {c}, v |-> v], [val EXCEPT ![c] = NoVal])
Clear2(c1, c2, v, path) == Write([op |-> "Clear", path |-> path, cs |-> {c1, c2}, v |-> v], [val EXCEPT ![c1] = NoVal, ![c2] = NoVal])
ClearAll(v, path) == Write([op |-> "Clear", path |-> path, cs |-> Cols, v |-> v], [c \in Cols |-> NoVal])

Range(op, p)  == Read([op |-> "Range", cmp |-> op, p |-> p, res |-> RangeSet(val, op, p)])
Between1(a, b) == Read([op |-> "Between1", a |-> a, b |-> b, res |-> BetweenSet(val, a, b)])
(* a <[=] f <[=] b : sa / sb TRUE = strict *)
Between2(a, sa, b, sb) ==
    Read([op |-> "Between2", a |-> a, sa |-> sa, b |-> b, sb |-> sb,
          res |-> BetweenSet(val, IF sa THEN a + 1 ELSE a, IF sb THEN b - 1 ELSE b)])
NotNull == Read([op |-> "NotNull", res |-> NotNullSet(val)])
Agg(kind, f) == LET F == FilterSet(val, f) IN
    Read([op |-> "Agg", kind |-> kind, fk |-> f[1], fa |-> f[2],
          vc |-> AggOf(kind, val, F), cols |-> AggCols(kind, val, F)])

(* Sample = TRUE (simulation): every disjunct draws its parameters at random instead of
   enumerating them (TLC's simulator enumerates all successors of a state before choosing
   one), so a state has about one successor per disjunct.  Sample = FALSE: exhaustive.   *)
Pick(S) == IF Sample THEN {RandomElement(S)} ELSE S
(* whole-field rewrites are drawn less often in simulations (they erase the history) *)
Rare(n) == \E k \in Pick(1..n) : k = 1

(* exhaustive runs enumerate both paths for the short batches and take the large path for the
   three-entry batches (it is the one with the separate cache handling) *)
Paths3 == IF Sample \/ ~("large" \in Paths) THEN Paths ELSE {"large"}

Writes ==
    \/ \E c \in Pick(Cols), v \in Pick(Vals) : Set(c, v)
    \/ \E c \in Pick(BCols), v \in Pick(Vals) : Set(c, v)
    \/ \E c1 \in Pick(BCols), v1 \in Pick(Interesting), path \in Pick(Paths) : Import1(c1, v1, path)
    \/ \E c1 \in Pick(BCols), v1 \in Pick(Interesting), c2 \in Pick(BCols), v2 \in Pick(Interesting), path \in Pick(Paths) :
          Import2(c1, v1, c2, v2, path)
    \/ \E c1 \in Pick(BCols), v1 \in Pick(Interesting), c2 \in Pick(BCols), v2 \in Pick(Interesting), v3 \in Pick(V3), path \in Pick(Paths3) :
          Import3(c1, v1, c2, v2, v3, path)
    \/ \E path \in Pick(Paths) : Rare(2) /\ ImportMap("reverse", 0, path)
    \/ \E x \in Pick(Interesting), path \in Pick(Paths) : Rare(4) /\ ImportMap("const", x, path)
    \/ \E x \in Pick(Interesting), path \in Pick(Paths) : Rare(2) /\ ImportMap("fill", x, path)
    \/ \E c \in Pick(Cols), v \in Pick(V3), path \in Pick(Paths) : Clear(c, v, path)
    \/ \E c1 \in Pick(BCols), c2 \in Pick(BCols), v \in Pick(V3), path \in Pick(Paths3) : c1 < c2 /\ Clear2(c1, c2, v, path)
    \/ \E v \in Pick(V3), path \in Pick(Paths) : Rare(4) /\ ClearAll(v, path)
    \/ \E c1 \in Pick(BCols), v1 \in Pick(Vals), path \in Pick({"large"} \cap Paths) : Sample /\ Import1(c1, v1, path)

Queries ==
    \/ \E op \in Pick(Ops), p \in Pick(Preds) : Range(op, p)
    \/ \E op \in Pick(Ops), p \in Pick(RPreds) : Sample /\ Range(op, p)
    \/ \E a \in Pick(Preds), b \in Pick(Preds) : a <= b /\ Between1(a, b)
    \/ \E a \in Pick(RPreds), b \in Pick(RPreds) : a > b /\ Between1(a, b)
    \/ \E a \in Pick(RPreds), b \in Pick(RPreds), sa \in Pick(BOOLEAN), sb \in Pick(BOOLEAN) :
          a <= b /\ Between2(a, sa, b, sb)
    \/ NotNull
    \/ \E kind \in Pick({"Sum", "Min", "Max"}), f \in Pick(Filters) : Agg(kind, f)
    \/ \E kind \in Pick({"Min", "Max"}), f \in Pick(Filters) : Sample /\ Agg(kind, f)

Next == /\ Len(hist) < Depth
        /\ \/ ("W" \in Classes /\ Writes)
           \/ ("Q" \in Classes /\ Queries)

Spec == Init /\ [][Next]_<<val, hist>>

MCView == <<val, Len(hist)>>

Emit == Len(hist) = Depth => PrintT(<<"BEH", ToJson(hist)>>)

---------------------------------------------------------------------------
(* (M) sanity properties of the oracle itself, checked on every reachable state *)
TypeOK == \A c \in Cols : val[c] = NoVal \/ val[c] \in Vals
OracleOK ==
    /\ \A p \in Preds : RangeSet(val, "<", p) \cup RangeSet(val, ">=", p) = NotNullSet(val)
    /\ \A p \in Preds : RangeSet(val, "<=", p) = RangeSet(val, "<", p) \cup RangeSet(val, "==", p)
    /\ AggSum(val, Cols)[2] = Cardinality(NotNullSet(val))
    /\ NotNullSet(val) # {} => AggMin(val, Cols)[1] <= AggMax(val, Cols)[1]
=============================================================================
