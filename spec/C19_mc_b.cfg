CONSTANTS
  CYears = {2019,2020}
  CMonths = {2,12}
  CDays = {9,28}
  CHours = {9,23}
  CQuanta = {"YMDH","DH"}
  NSV = {TRUE}
  Variant = "fixed"
  Order = "code"
  MaxT = 2
  MaxS = 1
  MaxClr = 2
  MaxPlain = 1
  Vias = {"set","views"}
  Depth = 0
  Gen = FALSE
INIT Init
NEXT Next
INVARIANT ClearedEverywhere
INVARIANT ParentsHold
INVARIANT StdTruth
INVARIANT BndsAligned
VIEW MView
CHECK_DEADLOCK FALSE
