CONSTANTS
  Ids = {0,99,100,101}
  AKeys = {"a","b"}
  Vals = {"i:1","i:2","s:x","b:T","f:1"}
  Stores = {1,2}
  Ops = {"SetAttrs","SetBulkAttrs","BulkQuery","Read","Reopen","CallerMutates","Blocks","BlockData","Diff"}
  MaxUpd = 2
  MaxBulk = 2
  ProbeBlocks = {0,1,2}
  Depth = 9
  CopyOnRead = TRUE
  InitModes = {"empty","cold"}
  InitIds = {99,100}
  InitVal = "i:1"
  Sample = TRUE
INIT Init
NEXT Next
INVARIANT Emit
CHECK_DEADLOCK FALSE
