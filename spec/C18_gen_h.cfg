CONSTANTS
  QSet = {"YMDH","MDH","DH","H"}
  Gen = TRUE
INIT Init
NEXT Next
INVARIANT Emit
CHECK_DEADLOCK FALSE
