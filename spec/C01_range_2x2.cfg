CONSTANTS
  K = 2
  M = 2
  Provs = {"fresh","optimized","pilosa","official","mapped","frozen","btree","btree_pilosa","btree_mapped"}
  Family = "range"
INIT Init
NEXT Next
INVARIANT TypeOK
INVARIANT SemanticsLaws
INVARIANT Emit
CHECK_DEADLOCK FALSE
