CONSTANTS
  K = 2
  M = 2
  Formats = {"pilosa","pilosa_ref","official","official_runs"}
  Kinds = {"slice","btree"}
  RowSizes = {0,1,2}
  FlagsSet = {0,1,255}
  Family = "import"
INIT Init
NEXT Next
INVARIANT ImportIsMerge
INVARIANT Emit
CHECK_DEADLOCK FALSE
