CONSTANTS
  K = 1
  M = 6
  Provs = {"fresh","optimized","pilosa","official","mapped","frozen","btree","btree_pilosa","btree_mapped"}
  Family = "shiftflip"
INIT Init
NEXT Next
INVARIANT TypeOK
INVARIANT SemanticsLaws
INVARIANT Emit
CHECK_DEADLOCK FALSE
