CONSTANTS
  Family = {"int"}
  IndexCfgsSel = "all"
  Depth = 6
  MaxRestarts = 2
  Classes = {"data", "restart"}
  Sample = TRUE
INIT Init
NEXT Next
INVARIANT Emit
CHECK_DEADLOCK FALSE
