--------------------------- MODULE TraceResizeAbs ---------------------------
(***************************************************************************)
(* C22, binding B (verdict): executions of the real coordinator, recorded   *)
(* by the resize hooks of cluster.go (verif_hook_resize_on.go) under the     *)
(* locks that protect the changes, are validated against the abstract       *)
(* specification ResizeAbs: every recorded event must be a step the          *)
(* property allows.  trace.ndjson holds many executions, each starting with  *)
(* a "reset" record and ending with an "end" record written by the driver    *)
(* after it answered everything the coordinator was waiting for.             *)
(***************************************************************************)
EXTENDS ResizeAbs, Sequences, TLC, Json

VARIABLE i
Trace == ndJsonDeserialize("trace.ndjson")

ToSet(s) == {s[k] : k \in 1..Len(s)}
e == Trace[i]
Is(name) == i <= Len(Trace) /\ e.ev = name
Skip == i' = i + 1 /\ UNCHANGED avars

TInit == AInit /\ anodes = {} /\ i = 1

TReset ==
    /\ Is("reset")
    /\ astate' = "NORMAL" /\ anodes' = ToSet(e.ids) /\ arunning' = {}
    /\ atarget' = [j \in Jobs |-> {}] /\ aaction' = [j \in Jobs |-> [a |-> "", n |-> ""]]
    /\ aoks' = [j \in Jobs |-> {}] /\ aresult' = [j \in Jobs |-> ""] /\ astuck' = 0
    /\ i' = i + 1

TState ==
    /\ Is("state") /\ e.s \in States
    /\ astate' = e.s
    /\ UNCHANGED <<anodes, arunning, atarget, aaction, aoks, aresult, astuck>>
    /\ i' = i + 1

\* a job starts: no job may be running; its node map must be the target membership
TJobStart ==
    /\ Is("job_start") /\ e.j \in Jobs
    /\ aaction' = [aaction EXCEPT ![e.j] = [a |-> e.a, n |-> e.n]]
    /\ atarget' = [atarget EXCEPT ![e.j] = ToSet(e.ids)]
    /\ aoks' = [aoks EXCEPT ![e.j] = ToSet(e.oks)]
    /\ astate' = astate
    /\ Start(e.j)
    /\ atarget'[e.j] = ATarget(aaction'[e.j], anodes)
    /\ i' = i + 1

TCompleteOk ==
    /\ Is("complete_ok") /\ e.j \in Jobs
    /\ ReportOk(e.j, e.n) /\ astate' = astate
    /\ i' = i + 1

TJobEnd ==
    /\ Is("job_end") /\ e.j \in Jobs
    /\ End(e.j, IF e.done THEN "DONE" ELSE "ABORTED") /\ astate' = astate
    /\ i' = i + 1

\* the member list as it is after addNode / removeNode
TMembers ==
    /\ Is("members")
    /\ IF ToSet(e.ids) = anodes THEN Skip
       ELSE /\ \E j \in Jobs : Apply(j) /\ anodes' = ToSet(e.ids) /\ astate' = astate
            /\ i' = i + 1

\* events the property does not constrain
TOther == (Is("enqueue") \/ Is("job_reject") \/ Is("complete_err") \/ Is("abort")) /\ Skip

\* the driver answered everything owed: the job has ended and the cluster left RESIZING
TEnd ==
    /\ Is("end")
    /\ e.done /\ e.s = "NORMAL" /\ astate = "NORMAL" /\ arunning = {}
    /\ Skip

TNext == TReset \/ TState \/ TJobStart \/ TCompleteOk \/ TJobEnd \/ TMembers \/ TOther \/ TEnd
TSpec == TInit /\ [][TNext]_<<avars, i>>

TAtMostOneJob == AtMostOneJob
TNoHandlerStuck == NoHandlerStuck

Accepted ==
    LET n == TLCGet("stats").diameter - 1 IN
    IF n = Len(Trace) THEN PrintT("TRACE-ACCEPTED")
    ELSE PrintT("TRACE-REJECTED " \o ToString(n))
=============================================================================
