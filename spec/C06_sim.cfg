CONSTANTS
  Families = {"roaring", "pql"}
  Entries = {"unmarshal", "irb_set_slice", "irb_clear_slice", "irb_set_btree", "irb_clear_btree", "frag_open", "api_import_set", "api_import_clear", "api_import_views", "http_import_set", "http_import_clear"}
  SrvEntries = {}
  CtlEntries = {}
  PqlEntries = {"api_query", "http_query"}
  EnvEntries = {}
  MsgEntries = {}
  Formats = {"pilosa", "official", "official_runs"}
  Shapes <- ShapesMid
  SrvShapes <- TailsNone
  Tails <- TailsQuick
  MinCors = 2
  MaxCors = 2
  Tokens = {"ROWLP", "ROW", "SET", "LP", "RP", "COMMA", "ARG", "ARGL", "ARGB", "F", "G", "EQ", "ONE", "DQ", "SQ", "LB", "RB", "LT", "BTW", "MINUS", "SP", "BSL", "SETCALL", "ROWCALL", "BIG", "DOT", "COND", "NULL", "TS", "RANGE", "TOPN", "STORE", "UROW", "CLEARROW", "NL", "NUL", "UTF", "OPTS", "COUNT", "NOT", "STOREG", "STOREB", "CLEARG", "SETG", "TOPNG", "ROWSG", "SUMG", "GROUPG"}
  MinToks = 4
  MaxToks = 6
  Nests <- NestsNone
  MsgTypes = {}
  MsgBodies = {}
  Design = "validate_first"
INIT GenInit
NEXT GenNext
INVARIANT CaseOK
INVARIANT Emit
CHECK_DEADLOCK FALSE
