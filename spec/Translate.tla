----------------------------- MODULE Translate -----------------------------
(***************************************************************************)
(* Key translation (pilosa.TranslateFile, /repo/translate.go; replicated   *)
(* through TranslateStore.Reader, http/translator.go) - property C24.      *)
(*                                                                         *)
(* A namespace is the column keys of an index or the row keys of a field.  *)
(* Per namespace the primary holds kmap (key -> id, 0 = none) and seq (the *)
(* last id handed out); every allocation is appended to ONE log shared by  *)
(* all namespaces, an entry being <<namespace, <<key, id>> pairs>> (a key  *)
(* repeated in a batch is written once per occurrence, as the code does).  *)
(*                                                                         *)
(* Translate(ns, batch) is two steps, as in the code (double-checked       *)
(* locking):  TRead - under the read lock look every key up; if all are    *)
(* known, answer;  TWrite - under the write lock look the unknown ones up  *)
(* again (Recheck), allocate seq+1.. to the keys still unknown in order of *)
(* first occurrence, append the entry, answer.  With two callers TLC       *)
(* explores every interleaving of the phases; the harness enforces the     *)
(* order with a gate between the phases (hook verifTranslateGate).         *)
(*                                                                         *)
(* Restart closes and reopens the primary: kmap and seq are REBUILT from   *)
(* the log (Replay) - the property says they come out unchanged.           *)
(*                                                                         *)
(* The replica holds the first rlen entries of the log (it writes them to  *)
(* its own file) and its own maps rmap/rseq.  Its stream from the primary   *)
(* has delivered soff entries.  RApply streams and applies the next entry;  *)
(* the same in two steps, as in the code: RRecv - replicate() has read the  *)
(* entry off the stream and hands it to a goroutine that has not yet taken  *)
(* the replica's lock (infl = the entry in flight; hook                     *)
(* verifTranslateReplGate), RApplyInfl - that goroutine appends it.         *)
(* RStop closes the replica, RResume reopens it: it replays its own rlen    *)
(* entries and asks the primary for the log from entry boundary rlen (the   *)
(* harness checks the byte offset requested); RCut breaks the stream in the *)
(* middle of the next entry, after which the replica reconnects at boundary *)
(* rlen again; RReassign gives the replica a (new) primary while it runs    *)
(* (SetPrimaryStore, on every change of cluster membership): the old stream *)
(* is dropped and a new one starts at boundary rlen.  An entry in flight at *)
(* that moment belongs to the dropped stream and the new stream delivers it *)
(* again: DropInFlight = TRUE discards it (the repaired code), FALSE        *)
(* appends it nevertheless (the code as found) - the entry then arrives     *)
(* twice (rdup), the replica's log is no longer a prefix of the primary's   *)
(* and every later offset is wrong.                                         *)
(*                                                                         *)
(* ids: the property demands a stable bijection, not these particular ids; *)
(* the harness compares ids up to a bijection that it builds as ids appear.*)
(***************************************************************************)
EXTENDS Integers, Sequences, FiniteSets, TLC, Json

CONSTANTS
    NS,        \* namespaces (strings): "c" = columns of index i, "r" = rows of field i/f ...
    NK,        \* abstract keys are 1..NK
    BatchSet,  \* name of the set of batches (sequences of keys, repeats allowed) a caller
               \* may submit (a cfg file cannot hold sequences), see Batches below
    Callers,   \* caller names (integers)
    Ops,       \* enabled actions
    Depth,     \* length of generated behaviours; 0 = (M) mode
    Recheck,   \* TRUE: the write phase looks unknown keys up again (the code); FALSE: it does not
    DropInFlight, \* TRUE: an entry in flight when the primary is re-assigned is discarded
    MaxSeq,    \* bound on ids (only reached when Recheck = FALSE)
    MaxRestart,\* bound on restarts + replica stops (M mode)
    Sample     \* TRUE (simulation only): draw action parameters at random

VARIABLES kmap, seq, log, pend, rlen, ron, rmap, rseq, soff, infl, rdup, given, budget, hist

vars  == <<kmap, seq, log, pend, rlen, ron, rmap, rseq, soff, infl, rdup, given, budget, hist>>
mview == <<kmap, seq, log, pend, rlen, ron, rmap, rseq, soff, infl, rdup, given, budget>>
prim  == <<kmap, seq, log, pend, given>>     \* the primary's side
strm  == <<soff, infl, rdup>>                \* the replica's stream

Gen  == Depth > 0
Batches ==
    CASE BatchSet = "conc" -> {<<1>>, <<1, 2, 1>>, <<2, 3>>}
      [] BatchSet = "repl" -> {<<1>>, <<2, 1, 2>>, <<3>>}
      [] BatchSet = "two"  -> {<<1>>, <<2, 1, 2>>}
      [] BatchSet = "mc"   -> {<<1>>, <<1, 2, 1>>, <<2, 1>>}
      [] BatchSet = "full" -> {<<1>>, <<2>>, <<3>>, <<4>>, <<1, 1>>, <<1, 2>>, <<2, 1, 2>>, <<3, 4, 3>>,
                               <<4, 1>>, <<1, 2, 3, 4>>, <<4, 3, 2, 1, 4>>, <<2, 3>>}
Keys == 1..NK
Idle == [ns |-> "", batch |-> << >>, ret |-> << >>]
Pick(S) == IF Sample THEN {RandomElement(S)} ELSE S

EmptyMap == [n \in NS |-> [k \in Keys |-> 0]]
ZeroSeq  == [n \in NS |-> 0]

Max(S) == IF S = {} THEN 0 ELSE CHOOSE x \in S : \A y \in S : y <= x
Min(S) == CHOOSE x \in S : \A y \in S : x <= y

\* applying one log entry to (map, seq): every pair inserts key -> id (a later pair for
\* the same key wins) and moves seq up to the largest id seen
ApplyMap(m, e) == [m EXCEPT ![e.ns] = [k \in Keys |->
                      LET is == {i \in 1..Len(e.pairs) : e.pairs[i][1] = k}
                      IN  IF is = {} THEN @[k] ELSE e.pairs[Max(is)][2]]]
ApplySeq(s, e) == [s EXCEPT ![e.ns] = Max({@} \cup {e.pairs[i][2] : i \in 1..Len(e.pairs)})]

RECURSIVE ReplayMap(_), ReplaySeq(_)
ReplayMap(l) == IF l = << >> THEN EmptyMap ELSE ApplyMap(ReplayMap(SubSeq(l, 1, Len(l) - 1)), l[Len(l)])
ReplaySeq(l) == IF l = << >> THEN ZeroSeq ELSE ApplySeq(ReplaySeq(SubSeq(l, 1, Len(l) - 1)), l[Len(l)])

\* reverse lookup as the code answers it: the key of the LAST pair carrying the id
RevOf(l, n, id) ==
    LET hits == {<<i, j>> \in (1..Len(l)) \X (1..8) : l[i].ns = n /\ j <= Len(l[i].pairs) /\ l[i].pairs[j][2] = id}
    IN  IF hits = {} THEN 0
        ELSE LET li == Max({h[1] : h \in hits})
                 lj == Max({h[2] : h \in {x \in hits : x[1] = li}})
             IN  l[li].pairs[lj][1]

Init ==
    /\ kmap = EmptyMap /\ seq = ZeroSeq /\ log = << >>
    /\ pend = [c \in Callers |-> Idle]
    /\ rlen = 0 /\ ron = TRUE /\ rmap = EmptyMap /\ rseq = ZeroSeq
    /\ soff = 0 /\ infl = 0 /\ rdup = 0
    /\ given = {} /\ budget = MaxRestart
    /\ hist = << >>

Post == [kmap |-> kmap', seq |-> seq', loglen |-> Len(log'), rlen |-> rlen', ron |-> ron', rmap |-> rmap',
         infl |-> infl']
Log(rec) == hist' = IF Gen THEN Append(hist, rec @@ [post |-> Post]) ELSE hist

Lookup(n, b) == [i \in 1..Len(b) |-> kmap[n][b[i]]]
Given(n, b, ids) == {<<n, b[i], ids[i]>> : i \in 1..Len(b)}

\* ---- the two phases -----------------------------------------------------------
TRead(c, n, b) ==
    /\ pend[c] = Idle
    /\ LET ret  == Lookup(n, b)
           done == \A i \in 1..Len(b) : ret[i] # 0
       IN  /\ pend'  = IF done THEN pend ELSE [pend EXCEPT ![c] = [ns |-> n, batch |-> b, ret |-> ret]]
           /\ given' = IF done THEN given \cup Given(n, b, ret) ELSE given
           /\ UNCHANGED <<kmap, seq, log, rlen, ron, rmap, rseq, strm, budget>>
           /\ Log([op |-> "TRead", c |-> c, ns |-> n, batch |-> b, done |-> done, res |-> ret])

\* what the write phase computes from a pending call p
WriteOf(p) ==
    LET n    == p.ns
        b    == p.batch
        ret1 == [i \in 1..Len(b) |-> IF p.ret[i] # 0 THEN p.ret[i]
                                     ELSE IF Recheck THEN kmap[n][b[i]] ELSE 0]
        miss == {i \in 1..Len(b) : ret1[i] = 0}
        newk == {b[i] : i \in miss}
        fp(k) == Min({i \in miss : b[i] = k})
        idof(k) == seq[n] + Cardinality({k2 \in newk : fp(k2) <= fp(k)})
        ids  == [i \in 1..Len(b) |-> IF i \in miss THEN idof(b[i]) ELSE ret1[i]]
        RECURSIVE PairsFrom(_)
        PairsFrom(i) == IF i > Len(b) THEN << >>
                        ELSE IF i \in miss THEN << <<b[i], ids[i]>> >> \o PairsFrom(i + 1)
                        ELSE PairsFrom(i + 1)
    IN  [ids |-> ids, newk |-> newk, entry |-> [ns |-> n, pairs |-> PairsFrom(1)]]

TWrite(c) ==
    /\ pend[c] # Idle
    /\ LET p == pend[c]
           w == WriteOf(p)
       IN  /\ seq[p.ns] + Cardinality(w.newk) <= MaxSeq
           /\ pend'  = [pend EXCEPT ![c] = Idle]
           /\ given' = given \cup Given(p.ns, p.batch, w.ids)
           /\ IF w.newk = {}
              THEN UNCHANGED <<kmap, seq, log>>
              ELSE /\ log'  = Append(log, w.entry)
                   /\ kmap' = ApplyMap(kmap, w.entry)
                   /\ seq'  = ApplySeq(seq, w.entry)
           /\ UNCHANGED <<rlen, ron, rmap, rseq, strm, budget>>
           /\ Log([op |-> "TWrite", c |-> c, ns |-> p.ns, batch |-> p.batch, res |-> w.ids,
                   new |-> w.newk, wrote |-> w.newk # {}])

\* both phases without anything in between (a sequential caller)
Translate(n, b) ==
    /\ \A c \in Callers : pend[c] = Idle
    /\ LET w == WriteOf([ns |-> n, batch |-> b, ret |-> Lookup(n, b)])
       IN  /\ seq[n] + Cardinality(w.newk) <= MaxSeq
           /\ given' = given \cup Given(n, b, w.ids)
           /\ IF w.newk = {}
              THEN UNCHANGED <<kmap, seq, log>>
              ELSE /\ log'  = Append(log, w.entry)
                   /\ kmap' = ApplyMap(kmap, w.entry)
                   /\ seq'  = ApplySeq(seq, w.entry)
           /\ UNCHANGED <<pend, rlen, ron, rmap, rseq, strm, budget>>
           /\ Log([op |-> "Translate", c |-> 0, ns |-> n, batch |-> b, res |-> w.ids,
                   new |-> w.newk, wrote |-> w.newk # {}])

\* ---- restart of the primary: the maps are rebuilt from the log -------------------
Restart ==
    /\ \A c \in Callers : pend[c] = Idle
    /\ infl = 0
    /\ budget > 0 /\ budget' = budget - 1
    /\ kmap' = ReplayMap(log)
    /\ seq'  = ReplaySeq(log)
    /\ soff' = IF ron THEN rlen ELSE soff      \* the replica's stream breaks and restarts at rlen
    /\ UNCHANGED <<log, pend, rlen, ron, rmap, rseq, infl, rdup, given>>
    /\ Log([op |-> "Restart"])

\* ---- the replica ------------------------------------------------------------------
\* entry e of the primary's log reaches the replica's file: in place (e = rlen+1) it
\* extends the prefix; an entry the replica already holds is a duplicate
Arrive(e) ==
    IF e = rlen + 1
    THEN /\ rlen' = rlen + 1
         /\ rmap' = ApplyMap(rmap, log[e])
         /\ rseq' = ApplySeq(rseq, log[e])
         /\ UNCHANGED rdup
    ELSE /\ rdup' = rdup + 1
         /\ UNCHANGED <<rlen, rmap, rseq>>

RApply ==
    /\ ron /\ infl = 0 /\ soff < Len(log)
    /\ soff' = soff + 1
    /\ Arrive(soff + 1)
    /\ UNCHANGED <<prim, ron, infl, budget>>
    /\ Log([op |-> "RApply"])

RRecv ==
    /\ ron /\ infl = 0 /\ soff < Len(log)
    /\ soff' = soff + 1 /\ infl' = soff + 1
    /\ UNCHANGED <<prim, rlen, ron, rmap, rseq, rdup, budget>>
    /\ Log([op |-> "RRecv"])

RApplyInfl ==
    /\ ron /\ infl # 0
    /\ infl' = 0
    /\ Arrive(infl)
    /\ UNCHANGED <<prim, ron, soff, budget>>
    /\ Log([op |-> "RApplyInfl"])

RReassign ==
    /\ ron
    /\ budget > 0 /\ budget' = budget - 1
    /\ soff' = rlen
    /\ infl' = IF DropInFlight THEN 0 ELSE infl
    /\ UNCHANGED <<prim, rlen, ron, rmap, rseq, rdup>>
    /\ Log([op |-> "RReassign", off |-> rlen, dropped |-> infl])

RStop ==
    /\ ron /\ ron' = FALSE /\ infl = 0
    /\ budget > 0 /\ budget' = budget - 1
    /\ UNCHANGED <<prim, rlen, rmap, rseq, strm>>
    /\ Log([op |-> "RStop"])

\* reopen: replay the replica's own log (= the first rlen entries) and resume at rlen
RResume ==
    /\ ~ron /\ ron' = TRUE
    /\ rmap' = ReplayMap(SubSeq(log, 1, rlen))
    /\ rseq' = ReplaySeq(SubSeq(log, 1, rlen))
    /\ soff' = rlen
    /\ UNCHANGED <<prim, rlen, infl, rdup, budget>>
    /\ Log([op |-> "RResume", off |-> rlen])

\* the stream breaks inside entry rlen+1; the replica reconnects at boundary rlen
RCut ==
    /\ ron /\ infl = 0 /\ soff = rlen /\ rlen < Len(log)
    /\ budget > 0 /\ budget' = budget - 1
    /\ UNCHANGED <<prim, rlen, ron, rmap, rseq, strm>>
    /\ Log([op |-> "RCut", off |-> rlen])

\* ---- behaviours end with no caller and no entry in flight ---------------------------
LastOp == IF Len(hist) = 0 THEN "" ELSE hist[Len(hist)].op
Final  == [op |-> "Final", kmap |-> kmap, seq |-> seq, loglen |-> Len(log), rlen |-> rlen, ron |-> ron]
Finish == /\ Gen /\ Len(hist) >= Depth /\ \A c \in Callers : pend[c] = Idle
          /\ infl = 0
          /\ LastOp # "Final"
          /\ hist' = Append(hist, Final) /\ UNCHANGED mview

Next ==
    \/ Finish
    \/ /\ (Gen => Len(hist) < Depth)
       /\ \/ "TRead" \in Ops /\ \E c \in Pick(Callers), n \in Pick(NS), b \in Pick(Batches) : TRead(c, n, b)
          \/ "Translate" \in Ops /\ \E n \in Pick(NS), b \in Pick(Batches) : Translate(n, b)
          \/ "Restart" \in Ops /\ Restart
          \/ "RApply" \in Ops /\ RApply
          \/ "RRecv" \in Ops /\ RRecv
          \/ "RReassign" \in Ops /\ RReassign
          \/ "RStop" \in Ops /\ RStop
          \/ "RResume" \in Ops /\ RResume
          \/ "RCut" \in Ops /\ RCut
    \/ \* a pending caller and an entry in flight may always finish (also past Depth:
       \* drain before Finish)
       /\ LastOp # "Final"
       /\ \/ \E c \in Callers : TWrite(c)
          \/ RApplyInfl

Spec == Init /\ [][Next]_vars

\* ---- properties (M) -------------------------------------------------------------------
TypeOK ==
    /\ \A n \in NS, k \in Keys : kmap[n][k] \in 0..MaxSeq
    /\ rlen \in 0..Len(log) /\ soff \in 0..Len(log) /\ infl \in 0..Len(log)
\* every id ever returned for a key is positive, the only one for that key, and no
\* other key of the namespace was ever given it
StableBijection ==
    \A x \in given : /\ x[3] > 0
                     /\ \A y \in given : (x[1] = y[1] /\ x[2] = y[2]) => x[3] = y[3]
                     /\ \A y \in given : (x[1] = y[1] /\ x[3] = y[3]) => x[2] = y[2]
\* the map itself is injective and agrees with everything handed out
MapAgrees ==
    /\ \A x \in given : kmap[x[1]][x[2]] = x[3]
    /\ \A n \in NS, k1 \in Keys, k2 \in Keys : (k1 # k2 /\ kmap[n][k1] # 0) => kmap[n][k1] # kmap[n][k2]
    /\ \A n \in NS, k \in Keys : kmap[n][k] <= seq[n]
\* reverse translation returns the key
ReverseOK == \A x \in given : RevOf(log, x[1], x[3]) = x[2]
\* a restart would change nothing
RestartStable == ReplayMap(log) = kmap /\ ReplaySeq(log) = seq
\* the replica's log is a prefix of the primary's (no entry arrives twice), it holds
\* exactly the mapping of that prefix, never contradicts the primary, and is identical
\* once it has the whole log
ReplicaConverges ==
    /\ rdup = 0
    /\ ron => (rmap = ReplayMap(SubSeq(log, 1, rlen)) /\ rseq = ReplaySeq(SubSeq(log, 1, rlen)))
    /\ ron => \A n \in NS, k \in Keys : rmap[n][k] # 0 => rmap[n][k] = kmap[n][k]
    /\ (ron /\ rlen = Len(log)) => (rmap = kmap /\ rseq = seq)
\* the stream is never behind the replica's own log
StreamAligned == (ron /\ infl = 0) => soff = rlen

Emit == (Gen /\ LastOp = "Final") => PrintT(<<"BEH", ToJson(hist)>>)
=============================================================================
