CONSTANTS
  Mode = "parse"
  Level = "full"
  Depth = 14
  MaxNest = 3
  MaxCalls = 3
  MaxKw = 3
  MaxCh = 2
INIT Init
NEXT Next
INVARIANT TypeOK
INVARIANT WellFormed
INVARIANT BtwcLaw
INVARIANT Emit
CHECK_DEADLOCK FALSE
