CONSTANTS
  N = 5
  Depth = 8
  Reps = {0, 1, 2, 3, 4, 9}
INIT Init
NEXT Next
INVARIANT Emit
CHECK_DEADLOCK FALSE
