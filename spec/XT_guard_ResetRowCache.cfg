CONSTANTS
  Kind = "set"
  Rows = {0, 100}
  Cols = {0}
  Ops = {"SetBit","ClearBit","ClearRow","Snapshot","Reopen","Row","Blocks","Transfer","BadTransfer"}
  Scope = "mini"
  InitMode = "empty"
  MaxOpNs = {"huge"}
  ShapeName = "m"
  BadKinds = {"garbage"}
  LogTail = TRUE
  Replace = TRUE
  ResetRowCache = FALSE
  ResetChecksums = TRUE
  ResetCounts = TRUE
INIT Init
NEXT Next
INVARIANT TypeOK
INVARIANT RowsFresh
CHECK_DEADLOCK FALSE
