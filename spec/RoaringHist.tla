---------------------------- MODULE RoaringHist ----------------------------
(***************************************************************************)
(* C02 and C05 - one roaring.Bitmap under a history of mutations and reads. *)
(*                                                                         *)
(* State: the set S the bitmap must hold, the operation log the bitmap has  *)
(* appended to its OpWriter since the last snapshot, the snapshot contents, *)
(* and the op counters.  Every public call of the history is one action:    *)
(*   Add/Remove        Bitmap.Add / Bitmap.Remove (one logged op per value) *)
(*   AddN/RemoveN      Bitmap.AddN / RemoveN -> directOpN (logs a[:changed]) *)
(*   ImportSet/Clear   Bitmap.ImportRoaringBits -> Containers.Update        *)
(*   Optimize          Bitmap.Optimize -> Containers.UpdateEvery            *)
(*   Reencode          WriteTo + UnmarshalBinary into a new bitmap          *)
(*                     (= snapshot: the log restarts empty)                 *)
(*   reads             Contains, Count, Slice, Min, Max, container views,   *)
(*                     CountRange - actions, because reads move the         *)
(*                     collections' last-container lookaside                *)
(* Each action records the value the caller must observe (changed flag or   *)
(* changed set, read result).  The harness performs exactly these calls on  *)
(* the real bitmap (slice or B-tree collection) and compares.               *)
(*                                                                         *)
(* C05: ReplayMatches says that replaying the log over the snapshot gives S *)
(* and that the op counters are the sums over the log; TLC checks it on the *)
(* model, the harness checks it on the bytes the real bitmap wrote.         *)
(***************************************************************************)
EXTENDS RoaringOps, TLC, Json

CONSTANTS Depth,      \* history length
          Kinds,      \* container collections: "slice", "btree"
          Formats,    \* import encodings: "pilosa", "official"
          MaxBatch,   \* longest AddN/RemoveN batch (sequences with repeats)
          RowSizes,   \* rowSize arguments for imports
          Alphabet    \* subset of action names enabled in this configuration

VARIABLES S,        \* contents
          kind,     \* collection kind, fixed per behaviour
          snap,     \* contents at the last snapshot/reencode
          log,      \* sequence of logged entries since then
          hist

vars == <<S, kind, snap, log, hist>>

Batches == SeqsUpTo(U, MaxBatch)
NonEmptySubsets == (SUBSET U) \ {{}}

\* a logged entry: t = op type as in roaring.go opType*; vs = values/payload set;
\* n = what op.count() must report (sized through gamma for sets)
Entry(t, vs, n) == [t |-> t, vs |-> vs, n |-> n]

ApplyEntry(X, e) ==
    CASE e.t \in {"add", "addBatch", "addRoaring"}          -> X \cup e.vs
      [] e.t \in {"remove", "removeBatch", "removeRoaring"} -> X \ e.vs

RECURSIVE Replay(_, _)
Replay(X, l) == IF l = << >> THEN X ELSE Replay(ApplyEntry(X, Head(l)), Tail(l))

Init ==
    /\ S = {}
    /\ kind \in Kinds
    /\ snap = {}
    /\ log = << >>
    /\ hist = << >>

\* record a step: op name, arguments, result set / bool / element, logged entries
Rec(op, args, rs, rb, re, entries) ==
    hist' = Append(hist, [op |-> op, args |-> args, rs |-> rs, rb |-> rb, re |-> re,
                          logged |-> entries, kind |-> kind, post |-> S'])

En(name) == name \in Alphabet

\* ---- mutations
Add(x) ==
    /\ En("Add")
    /\ S' = S \cup {x}
    /\ log' = Append(log, Entry("add", {x}, {x}))
    /\ Rec("Add", <<x>>, {}, x \notin S, None, <<Entry("add", {x}, {x})>>)
    /\ UNCHANGED <<kind, snap>>

Remove(x) ==
    /\ En("Remove")
    /\ S' = S \ {x}
    /\ log' = Append(log, Entry("remove", {x}, {x}))
    /\ Rec("Remove", <<x>>, {}, x \in S, None, <<Entry("remove", {x}, {x})>>)
    /\ UNCHANGED <<kind, snap>>

\* AddN(batch): changed = values of the batch not present; the op logs exactly those
AddN(bt) ==
    /\ En("AddN")
    /\ LET vs == SeqToSet(bt)
           ch == vs \ S
       IN /\ S' = S \cup vs
          /\ log' = Append(log, Entry("addBatch", ch, ch))
          /\ Rec("AddN", bt, ch, FALSE, None, <<Entry("addBatch", ch, ch)>>)
    /\ UNCHANGED <<kind, snap>>

RemoveN(bt) ==
    /\ En("RemoveN")
    /\ LET vs == SeqToSet(bt)
           ch == vs \cap S
       IN /\ S' = S \ vs
          /\ log' = Append(log, Entry("removeBatch", ch, ch))
          /\ Rec("RemoveN", bt, ch, FALSE, None, <<Entry("removeBatch", ch, ch)>>)
    /\ UNCHANGED <<kind, snap>>

\* ImportRoaringBits(bytes(T), clear, log=TRUE, rowSize): changed = T \ S (set) or
\* T \cap S (clear); the op logs the whole payload T and count = |changed|
Import(T, clear, fmt, rowSize) ==
    /\ En(IF clear THEN "ImportClear" ELSE "ImportSet")
    /\ LET ch == IF clear THEN T \cap S ELSE T \ S
           e  == Entry(IF clear THEN "removeRoaring" ELSE "addRoaring", T, ch)
       IN /\ S' = IF clear THEN S \ T ELSE S \cup T
          /\ log' = Append(log, e)
          /\ Rec(IF clear THEN "ImportClear" ELSE "ImportSet", <<fmt, rowSize>>, ch, FALSE, None, <<e>>)
    /\ UNCHANGED <<kind, snap>>

Optimize ==
    /\ En("Optimize")
    /\ UNCHANGED <<S, kind, snap, log>>
    /\ Rec("Optimize", << >>, {}, FALSE, None, << >>)

\* WriteTo + UnmarshalBinary of the bytes into a new bitmap of the same kind:
\* the snapshot; ops restart from zero
Reencode ==
    /\ En("Reencode")
    /\ snap' = S
    /\ log' = << >>
    /\ UNCHANGED <<S, kind>>
    /\ Rec("Reencode", << >>, S, FALSE, None, << >>)

\* a caller derives a value from the bitmap (OffsetRange as fragment.row does, or
\* Freeze) and keeps it: the bitmap's containers are now frozen and shared, so later
\* mutations must take the copy-on-write paths; the held value must keep these contents
Hold ==
    /\ En("Hold")
    /\ UNCHANGED <<S, kind, snap, log>>
    /\ Rec("Hold", << >>, S, FALSE, None, << >>)

\* ---- reads (actions: they touch the lookaside)
Read ==
    /\ UNCHANGED <<S, kind, snap, log>>
    /\ \/ \E x \in U : En("Contains") /\ Rec("Contains", <<x>>, {}, x \in S, None, << >>)
       \/ En("Count") /\ Rec("Count", << >>, S, FALSE, None, << >>)
       \/ En("Slice") /\ Rec("Slice", << >>, S, FALSE, None, << >>)
       \/ En("Max") /\ Rec("Max", << >>, {}, FALSE, RMax(S), << >>)
       \/ En("Min") /\ Rec("Min", << >>, {}, S # {}, RMin(S), << >>)
       \/ En("Views") /\ Rec("Views", << >>, S, FALSE, None, << >>)
       \/ \E lo \in Cuts : \E hi \in lo..(K*M) :
            En("CountRange") /\ Rec("CountRange", <<lo, hi>>, RCountRange(S, lo, hi), FALSE, None, << >>)

Next ==
    /\ Len(hist) < Depth
    /\ \/ \E x \in U : Add(x) \/ Remove(x)
       \/ \E bt \in Batches : AddN(bt) \/ RemoveN(bt)
       \/ \E T \in NonEmptySubsets : \E clear \in BOOLEAN : \E fmt \in Formats : \E rs \in RowSizes :
            Import(T, clear, fmt, rs)
       \/ Optimize
       \/ Reencode
       \/ Hold
       \/ Read

Spec == Init /\ [][Next]_vars

\* ---- properties of the design (M)
TypeOK == S \subseteq U /\ snap \subseteq U

\* C05: replaying the log over the snapshot reproduces the in-memory set
ReplayMatches == Replay(snap, log) = S

\* C02: every recorded step's post-state is the state (hist is faithful), and the
\* changed set of a batch op is disjoint from / included in the pre-state as it must be
ChangedExact ==
    \A i \in DOMAIN hist :
        LET h == hist[i] IN
          /\ (h.op = "AddN" => h.rs \subseteq h.post)
          /\ (h.op = "RemoveN" => h.rs \cap h.post = {})
          /\ (h.op = "ImportSet" => h.rs \subseteq h.post)
          /\ (h.op = "ImportClear" => h.rs \cap h.post = {})

\* (M) runs use this view so that histories do not multiply states
MCView == <<S, kind, snap, log>>

Emit == Len(hist) = Depth => PrintT(<<"BEH", ToJson(hist)>>)
=============================================================================
