CONSTANTS
  Kind = "set"
  Rows = {0, 99, 100}
  Cols = {0, 3}
  Ops = {"SetBit","ClearBit","ClearRow","BulkSet","RoaringClear","Snapshot","Transfer","BadTransfer"}
  Scope = "mini"
  InitMode = "some"
  MaxOpNs = {"huge"}
  ShapeName = "wtx"
  BadKinds = {"trunc_data","baddata"}
  LogTail = TRUE
  Replace = TRUE
  ResetRowCache = TRUE
  ResetChecksums = TRUE
  ResetCounts = TRUE
INIT Init
NEXT Next
INVARIANT TypeOK
INVARIANT Emit
CHECK_DEADLOCK FALSE
