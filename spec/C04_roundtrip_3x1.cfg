CONSTANTS
  K = 3
  M = 1
  Formats = {"pilosa","pilosa_ref","official","official_runs"}
  Kinds = {"slice","btree"}
  RowSizes = {0,1,2}
  FlagsSet = {0,1,255}
  Family = "roundtrip"
INIT Init
NEXT Next
INVARIANT ImportIsMerge
INVARIANT Emit
CHECK_DEADLOCK FALSE
