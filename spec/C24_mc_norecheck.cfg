CONSTANTS
  NS = {"c"}
  NK = 2
  BatchSet = "mc"
  Callers = {1,2}
  Ops = {"TRead","Restart"}
  Depth = 0
  Recheck = FALSE
  MaxSeq = 4
  MaxRestart = 1
  Sample = FALSE
INIT Init
NEXT Next
INVARIANT TypeOK
INVARIANT StableBijection
INVARIANT MapAgrees
INVARIANT ReverseOK
INVARIANT RestartStable
INVARIANT ReplicaConverges
VIEW mview
CHECK_DEADLOCK FALSE
