CONSTANTS
  Family = "c30"
  Rows = {0,1}
  NShards = 3
  Slots = 1
  Modes = {"unkeyed","rowkeys","colkeys","both"}
  Targets = {"same"}
  Bufs = {2}
  MaxClear = 0
  Patterns = {0}
INIT Init
NEXT Next
INVARIANT C30TypeOK
INVARIANT C30RoundTrip
INVARIANT Emit
CHECK_DEADLOCK FALSE
