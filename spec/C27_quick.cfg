CONSTANTS
  Level = "quick"
INIT Init
NEXT Next
INVARIANT TypeOK
INVARIANT Emit
CHECK_DEADLOCK FALSE
