CONSTANTS
  K = 2
  M = 2
  Depth = 3
  Kinds = {"slice"}
  Formats = {"pilosa","official"}
  MaxBatch = 2
  RowSizes = {0}
  Alphabet = {"Add","Remove","AddN","RemoveN","ImportSet","ImportClear","Optimize","Reencode","Hold"}
INIT Init
NEXT Next
INVARIANT TypeOK
INVARIANT ReplayMatches
INVARIANT ChangedExact
INVARIANT Emit
CHECK_DEADLOCK FALSE
