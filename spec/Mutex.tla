------------------------------- MODULE Mutex -------------------------------
(* C13 -- mutex and bool fields hold at most one value per column, the last one written.

   State: bits \subseteq Rows \X Cols, the bits of one mutex (or bool) field, and the ghost
   last[c] = the row of the last write that decides column c (None: never written, or the
   row it held was cleared).  The write actions are written the way the field is supposed to
   work (a set removes the column from every other row, a batch is its entries applied in
   order, a clear removes exactly the named bit); the ghost is maintained from the *intent*
   of each write (the property statement), so the invariants compare two descriptions:

     AtMostOnePerColumn   every column has at most one row
     LastWriterWins       the rows of column c are exactly {last[c]} (none when last[c] = None)

   The field type (`kind`: mutex or bool) is chosen with the initial state; the first record
   of a behaviour has op = kind, r = number of rows, c = number of columns and the stored state.
   Rows are abstract 0..NRows-1 (bool: 0 = false, 1 = true); columns are abstract
   0..NCols-1.  The harness refines a column to a block of concrete columns (several
   containers, one or two shards) and a row to a concrete row id; a batch entry <<r, c>>
   becomes one entry per concrete column of c, in the same order.

   Actions = calls of the public surface (harness/bind/topnb TestC13):
     Set(r,c)          PQL Set(col, f=row)           / Field.SetBit          -> changed
     Clear(r,c)        PQL Clear(col, f=row)         / Field.ClearBit        -> changed
     Import(b)         API.Import / Field.Import, b = sequence of <<r,c>> with repeats and
                       conflicts (all sequences of length <= MaxBatch)
     ClearImport(b)    API.Import with the clear option
     ClearRow(r)       PQL ClearRow(f=row)
     Roaring(r,c)      API.ImportRoaring: refused for mutex / bool fields, state unchanged
     BadRow(b)         bool only: a batch naming row 2 is refused as a whole, state unchanged
   Every record carries the expected answer of Row(f=r) for every r (`rows`) and of
   Rows(f, column=c) for every c (`cr`) after the step.                                   *)
EXTENDS Integers, Sequences, FiniteSets, TLC, Json

CONSTANTS NRows, NCols,      \* abstract rows 0..NRows-1 of a mutex field (bool: 0, 1), columns 0..NCols-1
          Kinds,             \* field types a behaviour may start with: subset of {"mutex", "bool"}
          MaxBatch,          \* longest Import batch
          MaxClearBatch,     \* longest ClearImport batch
          Ops,               \* enabled actions
          Inits,             \* "empty" | "all": stored states a behaviour starts from
          Depth

VARIABLES kind, bits, last, hist

Rows  == 0..(IF kind = "bool" THEN 1 ELSE NRows-1)
Cols  == 0..(NCols-1)
None  == -1
Entry == Rows \X Cols

Batches(n) == UNION {[1..k -> Entry] : k \in 1..n}

RowsOf(b, c) == {r \in Rows : <<r, c>> \in b}
ColsOf(b, r) == {c \in Cols : <<r, c>> \in b}

(* ---- what the field is supposed to do ---- *)
SetBit(b, r, c)   == (b \ {<<x, c>> : x \in Rows}) \cup {<<r, c>>}
ClearBit(b, r, c) == b \ {<<r, c>>}

RECURSIVE Apply(_, _)
Apply(b, s) == IF s = <<>> THEN b ELSE Apply(SetBit(b, Head(s)[1], Head(s)[2]), Tail(s))

ClearAll(b, s) == b \ {s[i] : i \in DOMAIN s}

(* ---- the intent (ghost) ---- *)
LastOf(s, c, dflt) ==
  LET I == {i \in DOMAIN s : s[i][2] = c}
  IN IF I = {} THEN dflt ELSE s[CHOOSE i \in I : \A j \in I : j <= i][1]

(* ---- observables ---- *)
RowsSeq(b) == [i \in 1..Cardinality(Rows) |-> ColsOf(b, i-1)]
ColSeq(b)  == [i \in 1..NCols |-> RowsOf(b, i-1)]

Rec(op, r, c, s, ch, cmp, b) ==
  [op |-> op, r |-> r, c |-> c, b |-> s, ch |-> ch, cmp |-> cmp, rows |-> RowsSeq(b), cr |-> ColSeq(b)]

Step(rec, b2, l2) ==
  /\ kind' = kind
  /\ bits' = b2
  /\ last' = l2
  /\ hist' = Append(hist, rec)

---------------------------------------------------------------------------
Vals == [Cols -> Rows \cup {None}]
BitsOf(v) == {<<v[c], c>> : c \in {x \in Cols : v[x] # None}}

Init ==
  /\ kind \in Kinds
  /\ last \in (IF Inits = "all" THEN Vals ELSE {[c \in Cols |-> None]})
  /\ bits = BitsOf(last)
  /\ hist = << [op |-> kind, r |-> Cardinality(Rows), c |-> NCols, b |-> <<>>, ch |-> FALSE, cmp |-> FALSE,
                rows |-> RowsSeq(BitsOf(last)), cr |-> ColSeq(BitsOf(last))] >>

Set(r, c) ==
  /\ "Set" \in Ops
  /\ LET b2 == SetBit(bits, r, c)
     IN Step(Rec("Set", r, c, <<>>, <<r, c>> \notin bits, TRUE, b2), b2, [last EXCEPT ![c] = r])

Clear(r, c) ==
  /\ "Clear" \in Ops
  /\ LET b2 == ClearBit(bits, r, c)
     IN Step(Rec("Clear", r, c, <<>>, <<r, c>> \in bits, TRUE, b2), b2,
             [last EXCEPT ![c] = IF last[c] = r THEN None ELSE last[c]])

Import(s) ==
  /\ "Import" \in Ops
  /\ LET b2 == Apply(bits, s)
     IN Step(Rec("Import", 0, 0, s, FALSE, FALSE, b2), b2, [c \in Cols |-> LastOf(s, c, last[c])])

ClearImport(s) ==
  /\ "ClearImport" \in Ops
  /\ LET b2 == ClearAll(bits, s)
     IN Step(Rec("ClearImport", 0, 0, s, FALSE, FALSE, b2), b2,
             [c \in Cols |-> IF \E i \in DOMAIN s : s[i] = <<last[c], c>> THEN None ELSE last[c]])

ClearRow(r) ==
  /\ "ClearRow" \in Ops
  /\ LET b2 == bits \ {<<r, c>> : c \in Cols}
     IN Step(Rec("ClearRow", r, 0, <<>>, ColsOf(bits, r) # {}, TRUE, b2), b2,
             [c \in Cols |-> IF last[c] = r THEN None ELSE last[c]])

(* refused requests: the state must not change *)
Roaring(r, c) ==
  /\ "Roaring" \in Ops
  /\ Step(Rec("Roaring", r, c, <<>>, FALSE, FALSE, bits), bits, last)

BadRow(s, k) ==
  /\ "BadRow" \in Ops
  /\ kind = "bool"
  /\ Step(Rec("BadRow", k, 0, s, FALSE, FALSE, bits), bits, last)   \* entry k of s names row 2

Next ==
  /\ Len(hist) < Depth + 1
  /\ \/ \E r \in Rows, c \in Cols : Set(r, c) \/ Clear(r, c) \/ Roaring(r, c)
     \/ \E s \in Batches(MaxBatch) : Import(s)
     \/ \E s \in Batches(MaxClearBatch) : ClearImport(s)
     \/ \E r \in Rows : ClearRow(r)
     \/ \E s \in Batches(2) : \E k \in DOMAIN s : BadRow(s, k)

---------------------------------------------------------------------------
TypeOK == kind \in Kinds /\ bits \subseteq Entry /\ last \in Vals

AtMostOnePerColumn == \A c \in Cols : Cardinality(RowsOf(bits, c)) <= 1

LastWriterWins == \A c \in Cols : RowsOf(bits, c) = (IF last[c] = None THEN {} ELSE {last[c]})

Emit == Len(hist) = Depth + 1 => PrintT(<<"BEH", ToJson(hist)>>)

MCView == <<kind, bits, last, Len(hist)>>
=============================================================================
