-------------------------- MODULE TraceDurability --------------------------
(***************************************************************************)
(* C09 (V): the syscall sequence recorded with strace while the driver     *)
(* executed write histories on the real server must be a behaviour of the  *)
(* implementation-level model Durability.tla (contentless: the protocol of *)
(* each write path, not the bitmap contents - those are judged on the      *)
(* crash images).  The code must perform the model's syscall actions in an *)
(* order the model allows: an op-log append outside a write, a second      *)
(* write for a roaring entry, an append while the snapshot worker holds    *)
(* the fragment, an acknowledgement before the awaited snapshot's rename,  *)
(* a rename without the temp file ... are rejected.  A rejection is        *)
(* MODEL-DRIFT (the model or the code changed), not a verdict.             *)
(*                                                                         *)
(* trace.ndjson: one event per line, produced by checks/c09.py from        *)
(* tools/strace2fs.py's events.json:                                       *)
(*   [e |-> "Reset"]                                  next history         *)
(*   [e |-> "Begin", kind, key, fields, budget, meta] BEGIN marker         *)
(*   [e |-> "Ack"]                                    ACK marker           *)
(*   [e |-> <action>, u |-> fragment, fld |-> field]  a syscall on a       *)
(*                                                    fragment / its temp  *)
(*   [e |-> "TranslateWrite" | "TranslateSync" | "CreateMetaTmp" |         *)
(*          "WriteMetaTmp" | "RenameMeta"]                                 *)
(* Memory-only steps of the model (ApplyRow) are silent.                   *)
(***************************************************************************)
EXTENDS Integers, Sequences, FiniteSets, TLC, Json

CONSTANTS TwoWrites,   \* model the roaring append as header + payload (the code as found)
          AsyncRow,    \* model Store/ClearRow as acknowledged before their snapshot
          NoOpnSnap    \* the histories run with the default MaxOpN (never exceeded)

Trace == ndJsonDeserialize("trace.ndjson")
N == Len(Trace)

HasU(k) == "u" \in DOMAIN Trace[k]
TraceFrags == {Trace[k].u : k \in {j \in 1..N : HasU(j)}}
FieldOf == [f \in TraceFrags |-> Trace[CHOOSE k \in 1..N : HasU(k) /\ Trace[k].u = f].fld]

VARIABLES mem, snap, log, torn, tmp, tmpc, opn, sq, kdisk, ktorn, kpart, kcut, mtmp,
          infl, done, hdr, rowed, acked, goal, akeys, gkeys, nw, pc, rec, reck,
          i,         \* events consumed
          made       \* fragment files created and not yet initialised

D == INSTANCE Durability WITH
        Frags <- TraceFrags, Bits <- {}, MaxWrites <- N + 1, MaxOpN <- 1,
        Kinds <- {"bit", "multi", "batch2", "roaring", "rowop", "large"},
        KeyChunks <- 1, CutClasses <- {"any"}, UnrecognisedCuts <- {}, TornTailFails <- FALSE, RoaringTwoWrites <- TwoWrites,
        RowOpAsync <- AsyncRow, MultiSeparateWrites <- FALSE, SnapTmpTruncated <- TRUE, Contentless <- TRUE, NoOpnSnapshot <- NoOpnSnap

dvars == <<mem, snap, log, torn, tmp, tmpc, opn, sq, kdisk, ktorn, kpart, kcut, mtmp,
           infl, done, hdr, rowed, acked, goal, akeys, gkeys, nw, pc, rec, reck>>
vars == <<dvars, i, made>>

Empty == [f \in TraceFrags |-> {}]

Init == D!Init /\ i = 0 /\ made = {} /\ TLCSet(1, 0)

\* a new history: a fresh server on a fresh copy of the base directory
Reset ==
    /\ mem' = Empty /\ snap' = Empty /\ log' = [f \in TraceFrags |-> << >>]
    /\ torn' = [f \in TraceFrags |-> FALSE] /\ tmp' = [f \in TraceFrags |-> "none"] /\ tmpc' = Empty
    /\ opn' = [f \in TraceFrags |-> 0] /\ sq' = [f \in TraceFrags |-> "idle"]
    /\ kdisk' = 0 /\ ktorn' = FALSE /\ kpart' = 0 /\ kcut' = "none" /\ mtmp' = "none"
    /\ infl' = D!NoWrite /\ done' = [f \in TraceFrags |-> 0] /\ hdr' = [f \in TraceFrags |-> FALSE]
    /\ rowed' = {} /\ acked' = Empty /\ goal' = Empty /\ akeys' = 0 /\ gkeys' = 0
    /\ nw' = 0 /\ pc' = "run" /\ rec' = Empty /\ reck' = 0
    /\ made' = {}

\* directory / file creation on the first write to a fragment: only inside a write
Create(f) ==
    /\ D!Active /\ f \in infl.frags
    /\ made' = made \cup {f}
    /\ UNCHANGED dvars
InitFragment(f) ==
    /\ D!Active /\ f \in made
    /\ made' = made \ {f}
    /\ UNCHANGED dvars

Event(ev) ==
    CASE ev.e = "Reset" -> Reset
      [] ev.e = "Begin" ->
            /\ D!Begin(ev.kind, {f \in TraceFrags : FieldOf[f] \in {ev.fields[k] : k \in 1..Len(ev.fields)}},
                       Empty, ev.key,
                       [f \in TraceFrags |-> IF FieldOf[f] \in DOMAIN ev.budget THEN ev.budget[FieldOf[f]] ELSE 0],
                       {f \in TraceFrags : FieldOf[f] = ev.meta})
            /\ UNCHANGED made
      [] ev.e = "Ack"              -> D!Ack /\ made = {} /\ UNCHANGED made
      [] ev.e = "AppendOp"         -> D!AppendOp(ev.u) /\ ev.u \notin made /\ UNCHANGED made
      [] ev.e = "AppendOpHeader"   -> D!AppendOpHeader(ev.u) /\ UNCHANGED made
      [] ev.e = "AppendOpPayload"  -> D!AppendOpPayload(ev.u) /\ UNCHANGED made
      [] ev.e = "CreateSnapTmp"    -> D!CreateSnapTmp(ev.u) /\ UNCHANGED made
      [] ev.e = "WriteSnapChunk"   -> D!WriteSnapChunk(ev.u) /\ UNCHANGED made
      [] ev.e = "RenameSnap"       -> D!RenameSnap(ev.u) /\ UNCHANGED made
      [] ev.e = "CreateFragmentFile" -> Create(ev.u)
      [] ev.e = "InitFragment"     -> InitFragment(ev.u)
      [] ev.e = "CreateMetaTmp"    -> D!CreateMetaTmp /\ UNCHANGED made
      [] ev.e = "WriteMetaTmp"     -> D!WriteMetaTmp /\ UNCHANGED made
      [] ev.e = "RenameMeta"       -> D!RenameMeta /\ UNCHANGED made
      [] ev.e = "TranslateWrite"   -> D!TranslateWrite /\ UNCHANGED made
      [] ev.e = "TranslateSync"    -> D!TranslateSync /\ UNCHANGED made
      [] OTHER -> FALSE            \* a syscall the model has no action for

Consume ==
    /\ i < N
    /\ Event(Trace[i + 1])
    /\ i' = i + 1
    /\ TLCSet(1, IF i' > TLCGet(1) THEN i' ELSE TLCGet(1))

\* the model's memory-only step
Silent ==
    /\ \E f \in TraceFrags : D!ApplyRow(f)
    /\ UNCHANGED <<i, made>>

Next == Consume \/ Silent

\* acceptance: some behaviour consumed the whole trace
Accepted ==
    /\ PrintT(<<"TRACE-CONSUMED", TLCGet(1), N>>)
    /\ TLCGet(1) = N
=============================================================================
