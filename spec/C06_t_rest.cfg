CONSTANTS
  Families = {"pql", "msg", "env"}
  Entries = {}
  SrvEntries = {}
  CtlEntries = {}
  PqlEntries = {"api_query"}
  EnvEntries = {"api_import_env", "http_import_env"}
  MsgEntries = {"api_msg", "http_msg", "gossip_msg", "gossip_merge"}
  Formats = {}
  Shapes <- TailsNone
  SrvShapes <- TailsNone
  Tails <- TailsNone
  MinCors = 0
  MaxCors = 0
  Tokens = {"ROWLP", "RP", "COMMA", "ARG", "DQ", "LT", "SETCALL", "LB", "BIG", "STOREB", "ONE"}
  MinToks = 1
  MaxToks = 4
  Nests <- NestsAll
  MsgTypes = {0, 1, 2, 3, 4, 5, 6, 7, 8, 9, 10, 11, 12, 13, 14, 15, 16, 17, 18, 255}
  MsgBodies = {"none", "empty", "onebyte", "onebyte_ff", "trunc1", "trunchalf", "other", "other2", "valid", "nested"}
  Design = "validate_first"
INIT GenInit
NEXT GenNext
INVARIANT CaseOK
INVARIANT Emit
CHECK_DEADLOCK FALSE
