CONSTANTS
  a = a
  b = b
  Frags = {a, b}
  Bits = {1}
  MaxWrites = 2
  MaxOpN = 1
  NoOpnSnapshot = FALSE
  Kinds = {"bit"}
  KeyChunks = 2
  CutClasses = {"inkey", "between", "afterid", "aftersize"}
  UnrecognisedCuts = {"between", "afterid"}
  TornTailFails = FALSE
  RoaringTwoWrites = FALSE
  RowOpAsync = FALSE
  MultiSeparateWrites = FALSE
  SnapTmpTruncated = TRUE
  Contentless = FALSE
INIT Init
NEXT Next
SYMMETRY FragPerms
INVARIANT TypeOK
INVARIANT RestartSucceeds
INVARIANT AckedDurable
INVARIANT InflightAtomicPerShard
PROPERTY LeftoversIgnored
CHECK_DEADLOCK FALSE
