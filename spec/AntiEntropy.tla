---------------------------- MODULE AntiEntropy ----------------------------
(***************************************************************************)
(* C11: anti-entropy repairs every replica to the per-bit majority.        *)
(*                                                                         *)
(* R replicas of one shard of one field.  A replica holds, per view, a set *)
(* of positions; the universe is four positions in two checksum blocks of  *)
(* 100 rows:  1 = (row 0, c0)   2 = (row 0, c1)   3 = (row 99, c0)         *)
(*            4 = (row 100, c0)        Block(1..3) = 0,  Block(4) = 1      *)
(* (the last row of a block and the first row of the next one).  Views:    *)
(* "standard" and "standard_2019" (a time view).                           *)
(*                                                                         *)
(* A configuration is chosen step by step (Pick the divergent view and the *)
(* initiator, then Fill the contents of each replica in that view - any    *)
(* subset of the positions; the other view holds the same fixed bits on    *)
(* every replica), then one anti-entropy pass runs on the initiator,       *)
(* decomposed as the code does it (fragmentSyncer.syncFragment/syncBlock,  *)
(* fragment.mergeBlock):                                                   *)
(*   CompareBlocks   blocks whose contents differ between replicas         *)
(*                   (syncFragment compares the block checksums)           *)
(*   FetchBlockData  the block's bits of every remote replica (BlockData)  *)
(*   MergeBlock      per-bit vote over local + fetched, majority           *)
(*                   (R+1) div 2 so that a tie means set; per-replica sets *)
(*                   and clears; the initiator applies its own             *)
(*   PushSets(r), PushClears(r)  the repairs of remote r, sent to the SAME *)
(*                   view (InternalClient.ImportRoaring -> API.ImportRoaring*)
(*                   remote)                                               *)
(* until no block is left.                                                 *)
(*                                                                         *)
(* The property (checked by TLC on the decomposed pass, (M)) at Done:      *)
(*   MajorityEverywhere  in every block that differed every replica holds  *)
(*                       exactly the bits set on a majority of the initial *)
(*                       replicas (tie => set); other blocks are untouched *)
(*   SameView            the other view is unchanged on every replica      *)
(*   ChecksumsAgree      all replicas hold identical blocks                *)
(* The expected final contents handed to the driver are computed from the  *)
(* property (Want), not from the decomposed steps.                         *)
(*                                                                         *)
(* Variant constants reproduce defects as hypotheses for (M) sensitivity:  *)
(* ClearsFromSets (mergeBlock builds a replica's clears from its sets),    *)
(* ClearsToStandard (syncBlock sends clears to the standard view).         *)
(***************************************************************************)
EXTENDS Integers, Sequences, FiniteSets, TLC, Json

CONSTANTS R,                \* number of replicas
          ClearsFromSets,   \* BOOLEAN: defect variant
          ClearsToStandard  \* BOOLEAN: defect variant

VARIABLES content,   \* [Replicas -> [Views -> SUBSET Pos]]
          init0,     \* contents before the pass
          view,      \* the view whose contents diverge
          ini,       \* the replica that runs the pass
          pc,        \* program counter
          nfill,     \* replicas filled so far
          todo,      \* blocks still to synchronise (ascending)
          fetched,   \* [Replicas -> SUBSET Pos] block data read from the remotes
          sets, clears, \* [Replicas -> SUBSET Pos] repairs of the current block
          rcur       \* remote replica whose repairs are pushed next

vars == <<content, init0, view, ini, pc, nfill, todo, fetched, sets, clears, rcur>>

Replicas == 1 .. R
Pos      == 1 .. 4
Views    == {"standard", "standard_2019"}
Blocks   == {0, 1}
Block(p) == IF p = 4 THEN 1 ELSE 0
Other(v) == IF v = "standard" THEN "standard_2019" ELSE "standard"
OtherBits == {2, 4}          \* what every replica holds in the view that does not diverge

BlockBits(S, b) == {p \in S : Block(p) = b}
MajorityN == (R + 1) \div 2
Empty == [r \in Replicas |-> {}]

\* ---- the property level: what a pass must leave behind
Differs(c, v, b) == \E r1, r2 \in Replicas : BlockBits(c[r1][v], b) # BlockBits(c[r2][v], b)
Maj(c, v, b)     == {p \in Pos : Block(p) = b /\ Cardinality({r \in Replicas : p \in c[r][v]}) >= MajorityN}
Want(c, v)       == [r \in Replicas |->
                        UNION {IF Differs(c, v, b) THEN Maj(c, v, b) ELSE BlockBits(c[r][v], b) : b \in Blocks}]

\* ---- choosing the configuration
Init ==
    /\ content = [r \in Replicas |-> [v \in Views |-> {}]]
    /\ init0 = content
    /\ view = "" /\ ini = 0 /\ pc = "pick" /\ nfill = 0 /\ todo = << >>
    /\ fetched = Empty /\ sets = Empty /\ clears = Empty /\ rcur = 0

Pick ==
    /\ pc = "pick"
    /\ \E v \in Views, i \in Replicas :
         /\ view' = v /\ ini' = i
         /\ content' = [r \in Replicas |-> [w \in Views |-> IF w = v THEN {} ELSE OtherBits]]
    /\ pc' = "fill"
    /\ UNCHANGED <<init0, nfill, todo, fetched, sets, clears, rcur>>

Fill ==
    /\ pc = "fill"
    /\ \E S \in SUBSET Pos :
         content' = [content EXCEPT ![nfill + 1][view] = S]
    /\ nfill' = nfill + 1
    /\ IF nfill + 1 = R THEN pc' = "compare" ELSE pc' = "fill"
    /\ init0' = IF nfill + 1 = R THEN content' ELSE init0
    /\ UNCHANGED <<view, ini, todo, fetched, sets, clears, rcur>>

\* ---- the pass
Asc(S) == IF S = {} THEN << >> ELSE IF S = {0} THEN <<0>> ELSE IF S = {1} THEN <<1>> ELSE <<0, 1>>

CompareBlocks ==
    /\ pc = "compare"
    /\ todo' = Asc({b \in Blocks : Differs(content, view, b)})
    /\ pc' = IF todo' = << >> THEN "done" ELSE "fetch"
    /\ UNCHANGED <<content, init0, view, ini, nfill, fetched, sets, clears, rcur>>

FetchBlockData ==
    /\ pc = "fetch"
    /\ fetched' = [r \in Replicas |-> IF r = ini THEN {} ELSE BlockBits(content[r][view], Head(todo))]
    /\ pc' = "merge"
    /\ UNCHANGED <<content, init0, view, ini, nfill, todo, sets, clears, rcur>>

Remotes == Replicas \ {ini}
FirstRemote == CHOOSE r \in Remotes : \A q \in Remotes : r <= q
NextRemote(r) == IF \E q \in Remotes : q > r
                 THEN CHOOSE q \in Remotes : q > r /\ \A z \in Remotes : z > r => q <= z
                 ELSE 0

MergeBlock ==
    /\ pc = "merge"
    /\ LET b     == Head(todo)
           have  == [r \in Replicas |-> IF r = ini THEN BlockBits(content[ini][view], b) ELSE fetched[r]]
           seen  == UNION {have[r] : r \in Replicas}
           on    == {p \in seen : Cardinality({r \in Replicas : p \in have[r]}) >= MajorityN}
           st    == [r \in Replicas |-> on \ have[r]]
           cl    == [r \in Replicas |-> have[r] \ on]
       IN  /\ sets' = st
           /\ clears' = IF ClearsFromSets
                        THEN [r \in Replicas |->
                                IF cl[r] = {} THEN {}
                                ELSE LET last == CHOOSE p \in cl[r] : \A q \in cl[r] : p >= q
                                     IN  {p \in st[r] : p < last} \cup {last}]
                        ELSE cl
           /\ content' = [content EXCEPT ![ini][view] = (content[ini][view] \cup st[ini]) \ clears'[ini]]
    /\ rcur' = FirstRemote
    /\ pc' = "pushsets"
    /\ UNCHANGED <<init0, view, ini, nfill, todo, fetched>>

PushSets ==
    /\ pc = "pushsets"
    /\ content' = [content EXCEPT ![rcur][view] = content[rcur][view] \cup sets[rcur]]
    /\ pc' = "pushclears"
    /\ UNCHANGED <<init0, view, ini, nfill, todo, fetched, sets, clears, rcur>>

PushClears ==
    /\ pc = "pushclears"
    /\ LET w == IF ClearsToStandard THEN "standard" ELSE view
       IN  content' = [content EXCEPT ![rcur][w] = content[rcur][w] \ clears[rcur]]
    /\ IF NextRemote(rcur) # 0
       THEN /\ rcur' = NextRemote(rcur) /\ pc' = "pushsets" /\ todo' = todo
       ELSE /\ rcur' = 0
            /\ todo' = Tail(todo)
            /\ pc' = IF Tail(todo) = << >> THEN "done" ELSE "fetch"
    /\ UNCHANGED <<init0, view, ini, nfill, fetched, sets, clears>>

Next == Pick \/ Fill \/ CompareBlocks \/ FetchBlockData \/ MergeBlock \/ PushSets \/ PushClears

Spec == Init /\ [][Next]_vars

\* ---- the property
Done == pc = "done"

MajorityEverywhere == Done => \A r \in Replicas : content[r][view] = Want(init0, view)[r]
SameView           == Done => \A r \in Replicas : content[r][Other(view)] = init0[r][Other(view)]
ChecksumsAgree     == Done => \A b \in Blocks : ~Differs(content, view, b)

TypeOK ==
    /\ pc \in {"pick", "fill", "compare", "fetch", "merge", "pushsets", "pushclears", "done"}
    /\ \A r \in Replicas, v \in Views : content[r][v] \subseteq Pos

\* ---- (G) one behaviour per configuration: the configuration and what the property demands
SetSeq(S) == [k \in 1 .. 4 |-> k \in S]   \* a set of positions as four booleans (no empty-set ambiguity in JSON)
Emit ==
    Done => PrintT(<<"BEH", ToJson(<<[op |-> "Config", R |-> R, view |-> view, ini |-> ini,
                                      init |-> [r \in Replicas |-> SetSeq(init0[r][view])],
                                      other |-> SetSeq(OtherBits),
                                      want |-> [r \in Replicas |-> SetSeq(Want(init0, view)[r])],
                                      differs |-> <<Differs(init0, view, 0), Differs(init0, view, 1)>>]>>)>>)
=============================================================================
