CONSTANTS
  Ids = {99,100}
  AKeys = {"a","b"}
  Vals = {"i:1"}
  Stores = {1}
  Ops = {"BulkQuery"}
  MaxUpd = 1
  MaxBulk = 2
  ProbeBlocks = {0,1,2}
  Depth = 2
  CopyOnRead = TRUE
  InitModes = {"warm"}
  InitIds = {100}
  InitVal = "i:1"
  Sample = FALSE
INIT Init
NEXT Next
INVARIANT Emit
CHECK_DEADLOCK FALSE
