CONSTANTS
  Kind = "mutex"
  Rows = {0, 100}
  Cols = {0}
  Ops = {"SetBit","ClearBit","ClearRow","Snapshot","Reopen","Row","Blocks","Transfer","BadTransfer"}
  Scope = "mini"
  InitMode = "empty"
  MaxOpNs = {"huge"}
  ShapeName = "m"
  BadKinds = {"garbage"}
  LogTail = TRUE
  Replace = TRUE
  ResetRowCache = TRUE
  ResetChecksums = TRUE
  ResetCounts = TRUE
INIT Init
NEXT Next
INVARIANT TypeOK
PROPERTY TransferIsCopy
PROPERTY SourceUnchanged
PROPERTY ReplaceNotMerge
PROPERTY RejectLeavesTarget
PROPERTY Independent
INVARIANT RowsFresh
INVARIANT ChecksumsFresh
INVARIANT CountsExact
CHECK_DEADLOCK FALSE
