----------------------------- MODULE TimeClear -----------------------------
(***************************************************************************)
(* C19 - after Clear(column, field=row) on a time field no query over any   *)
(* time range or over the standard view returns the column for the row,     *)
(* whatever timestamps it was set with, until it is set again.              *)
(*                                                                         *)
(* The calendar is reduced to CYears x CMonths x CDays x CHours (concrete    *)
(* values, so the names sort as in the code).  Two columns: 0 is the target,*)
(* 1 the sibling whose sets create further views.  The state is what the    *)
(* code stores - the standard view std and, per time view, the columns that *)
(* have the bit (vc; vx = views that exist) - next to the abstract truth    *)
(* (the timestamps each column was set with since it was last cleared).     *)
(* Set is Field.SetBit (viewsByTime).  Clear is a model of Field.ClearBit:  *)
(* the time views are visited in the order of allTimeViewsSortedByQuantum   *)
(* (Order = "code": by the first 7 time digits ascending, then by the whole *)
(* name descending - what groupCompare with its offsets produces; "prefix": *)
(* plain ascending, parent first) and                                       *)
(*   Variant "fixed": a view is skipped iff its name extends the name of a  *)
(*                    visited view that did not hold the bit;               *)
(*   Variant "orig":  the level / skipAbove counters of the code before     *)
(*                    commit 9edc313.                                       *)
(* (M) ClearedEverywhere holds for "fixed" and fails for "orig".            *)
(* (G) histories of sets and clears with the observations the harness       *)
(* compares: the changed flag, the standard view, every aligned range.      *)
(***************************************************************************)
EXTENDS TimeViews, Json

CONSTANTS CYears, CMonths, CDays, CHours,   \* the reduced calendar
          CQuanta,      \* quanta under test
          NSV,          \* values of the field option noStandardView under test
          Variant, Order,
          MaxT, MaxS, MaxClr,   \* at most MaxT sets of column 0, MaxS of column 1, MaxClr clears
          MaxPlain,     \* at most MaxPlain imports without timestamp
          Vias,         \* write paths of timestamped bits: subset of {"set", "import", "views"}
          Depth, Gen

Cols == {0, 1}
Stamps == {Hour(y, m, d, h) : y \in CYears, m \in CMonths, d \in CDays, h \in CHours}

\* st: values that depend only on q, computed once in Init (TLC would otherwise recompute
\* the calendar arithmetic in every step): the range ends, the ranges observed, the order in
\* which ClearBit visits the views, the digits and the interval of every view
VARIABLES q, nsv, st, truth, std, plain, vx, vc, cnt, pend, hist
vars == <<q, nsv, st, truth, std, plain, vx, vc, cnt, pend, hist>>
MView == <<q, nsv, truth, std, plain, vx, vc, cnt, pend>>

ViewsU(qq) == UNION {ViewsForTime(qq, t) : t \in Stamps}
FinestLo(qq, t) == ViewLo(ViewAt(Finest(qq), t))
MaxOf(T) == CHOOSE x \in T : \A y \in T : x >= y
MinOf(T) == CHOOSE x \in T : \A y \in T : x <= y
\* aligned range ends: the start of every stamp's finest view and the end of the last one
Bnds(qq) == {FinestLo(qq, t) : t \in Stamps} \cup {ViewHi(ViewAt(Finest(qq), MaxOf(Stamps)))}

\* ------------------------------------------------------------ order of the views in ClearBit
D2(n) == <<n \div 10, n % 10>>
Digits(v) == <<v.y \div 1000, (v.y \div 100) % 10, (v.y \div 10) % 10, v.y % 10>> \o
             (IF v.u = "Y" THEN << >> ELSE D2(v.m) \o
             (IF v.u = "M" THEN << >> ELSE D2(v.d) \o (IF v.u = "D" THEN << >> ELSE D2(v.h))))
IsPrefix(a, b) == Len(a) <= Len(b) /\ \A i \in 1..Len(a) : a[i] = b[i]
LexLT(a, b) ==
    \/ (Len(a) < Len(b) /\ IsPrefix(a, b))
    \/ \E i \in 1..(IF Len(a) < Len(b) THEN Len(a) ELSE Len(b)) :
          a[i] < b[i] /\ \A j \in 1..(i-1) : a[j] = b[j]
P7(s) == IF Len(s) > 7 THEN SubSeq(s, 1, 7) ELSE s
Before(a, b) ==
    IF Order = "code"
    THEN LexLT(P7(Digits(a)), P7(Digits(b))) \/ (P7(Digits(a)) = P7(Digits(b)) /\ LexLT(Digits(b), Digits(a)))
    ELSE LexLT(Digits(a), Digits(b))
RECURSIVE SortViews(_)
SortViews(T) == IF T = {} THEN << >>
                ELSE LET m == CHOOSE x \in T : \A y \in T \ {x} : Before(x, y) IN <<m>> \o SortViews(T \ {m})

\* ------------------------------------------------------------ ClearBit on the time views
Without(f, v, c) == [f EXCEPT ![v] = @ \ {c}]

\* sv: all views of the quantum in visiting order; views that do not exist (not in vx) are not visited
RECURSIVE FoldFixed(_, _, _, _, _, _)
FoldFixed(sv, i, c, skip, f, ch) ==
    IF i > Len(sv) THEN [vc |-> f, changed |-> ch]
    ELSE LET v == sv[i] IN
         IF v \notin vx THEN FoldFixed(sv, i + 1, c, skip, f, ch)
         ELSE IF skip # << >> /\ IsPrefix(skip, st.info[v].dg) THEN FoldFixed(sv, i + 1, c, skip, f, ch)
         ELSE IF c \in f[v] THEN FoldFixed(sv, i + 1, c, << >>, Without(f, v, c), TRUE)
              ELSE FoldFixed(sv, i + 1, c, st.info[v].dg, f, ch)

RECURSIVE FoldOrig(_, _, _, _, _, _, _, _)
FoldOrig(sv, i, c, lastLen, level, skipAbove, f, ch) ==
    IF i > Len(sv) THEN [vc |-> f, changed |-> ch]
    ELSE LET v == sv[i]
             ln == Len(st.info[v].dg)
             lv == IF lastLen < ln THEN level + 1 ELSE IF lastLen > ln THEN level - 1 ELSE level
         IN IF v \notin vx THEN FoldOrig(sv, i + 1, c, lastLen, level, skipAbove, f, ch)
            ELSE IF lv < skipAbove
            THEN IF c \in f[v] THEN FoldOrig(sv, i + 1, c, ln, lv, 99, Without(f, v, c), TRUE)
                 ELSE FoldOrig(sv, i + 1, c, ln, lv, lv + 1, f, FALSE)
            ELSE FoldOrig(sv, i + 1, c, ln, lv, skipAbove, f, ch)

ClearViews(c) ==
    LET sv == st.order IN
    IF Variant = "fixed" THEN FoldFixed(sv, 1, c, << >>, vc, FALSE)
    ELSE FoldOrig(sv, 1, c, 0, 0, 99, vc, FALSE)

\* ------------------------------------------------------------ observations
TruthRange(a, b) == {c \in Cols : \E x \in truth : x[1] = c /\ a <= x[2] /\ x[2] < b}
Obs(rs, tr, sd) == [std |-> sd,
                    ranges |-> {[a |-> x[1], b |-> x[2],
                                 cols |-> {c \in Cols : \E y \in tr : y[1] = c /\ x[1] <= y[2] /\ y[2] < x[2]}] : x \in SeqRange(rs)}]

\* ------------------------------------------------------------ state machine
\* (explicit sequences: TLC cannot write its lazily evaluated set values to its state queue)
RECURSIVE SeqOf(_)
SeqOf(T) == IF T = {} THEN << >> ELSE LET x == CHOOSE y \in T : TRUE IN <<x>> \o SeqOf(T \ {x})
Static(qq) ==
    LET B == Bnds(qq)
        lo == MinOf(B)  hi == MaxOf(B)
        AR == {x \in B \X B : x[1] < x[2]}
        U == ViewsU(qq)
    IN [bnds |-> SeqOf(B), allr |-> SeqOf(AR), edger |-> SeqOf({x \in AR : x[1] = lo \/ x[2] = hi}),
        order |-> SortViews(U),
        info |-> [v \in U |-> [dg |-> Digits(v), lo |-> ViewLo(v), hi |-> ViewHi(v)]]]

Init ==
    /\ q \in CQuanta /\ nsv \in NSV
    /\ st = Static(q)
    /\ truth = {} /\ std = {} /\ plain = {} /\ vx = {}
    /\ vc = [v \in ViewsU(q) |-> {}]
    /\ cnt = [s0 |-> 0, s1 |-> 0, clr |-> 0, pl |-> 0]
    /\ pend = ""
    /\ hist = << >>

\* in generation mode a step is two transitions - the operation, then its (single)
\* observation record - so that simulation does not compute the observations of every
\* candidate successor
Room == pend = "" /\ ((~Gen) \/ Len(hist) < Depth)
Rec(r) == IF Gen THEN Append(hist, r) ELSE hist

\* via: the write path - "set" = Set(col, f=row, timestamp) (Field.SetBit), "import" = an import
\* with a timestamp (Field.Import: the same views), "views" = a roaring import that names exactly
\* the time views of the timestamp (API.ImportRoaring with a views map; the standard view is
\* not written)
SetT(c, t, via) ==
    /\ Room
    /\ IF c = 0 THEN cnt.s0 < MaxT ELSE cnt.s1 < MaxS
    /\ LET W == ViewsForTime(q, t)
           changed == ((~nsv) /\ c \notin std) \/ \E v \in W : c \notin vc[v]
       IN /\ std' = IF nsv \/ via = "views" THEN std ELSE std \cup {c}
          /\ vc' = [v \in DOMAIN vc |-> IF v \in W THEN vc[v] \cup {c} ELSE vc[v]]
          /\ vx' = vx \cup W
          /\ truth' = truth \cup {<<c, t>>}
          /\ cnt' = IF c = 0 THEN [cnt EXCEPT !.s0 = @ + 1] ELSE [cnt EXCEPT !.s1 = @ + 1]
          /\ hist' = Rec([op |-> "Set", via |-> via, q |-> q, nsv |-> nsv, col |-> c, t |-> t, changed |-> changed])
    /\ pend' = IF Gen THEN "edge" ELSE ""
    /\ UNCHANGED <<q, nsv, st, plain>>

\* an import without timestamp: the standard view only (it creates the standard view even
\* in a field made with noStandardView)
ImportPlain(c) ==
    /\ Room /\ cnt.pl < MaxPlain
    /\ std' = std \cup {c} /\ plain' = plain \cup {c}
    /\ cnt' = [cnt EXCEPT !.pl = @ + 1]
    /\ hist' = Rec([op |-> "Plain", via |-> "plain", q |-> q, nsv |-> nsv, col |-> c, t |-> 0, changed |-> c \notin std])
    /\ pend' = IF Gen THEN "edge" ELSE ""
    /\ UNCHANGED <<q, nsv, st, truth, vx, vc>>

Clear(c) ==
    /\ Room
    /\ cnt.clr < MaxClr
    /\ LET r == ClearViews(c)
           \* the flag the property-level reading demands: the bit was set somewhere
           changed == c \in std \/ \E x \in truth : x[1] = c
       IN /\ std' = std \ {c}
          /\ vc' = r.vc
          /\ truth' = {x \in truth : x[1] # c}
          /\ cnt' = [cnt EXCEPT !.clr = @ + 1]
          /\ hist' = Rec([op |-> "Clear", via |-> "", q |-> q, nsv |-> nsv, col |-> c, changed |-> changed])
    /\ plain' = plain \ {c}
    /\ pend' = IF Gen THEN "all" ELSE ""
    /\ UNCHANGED <<q, nsv, st, vx>>

\* the observations after the last operation: the standard view and the time ranges
\* (every aligned range after a Clear; the ranges touching either end after a Set)
Observe ==
    /\ pend # ""
    /\ hist' = [hist EXCEPT ![Len(hist)] =
                   [op |-> @.op, via |-> @.via, q |-> @.q, nsv |-> @.nsv, col |-> @.col, changed |-> @.changed,
                    t |-> IF @.op = "Set" THEN @.t ELSE 0,
                    obs |-> Obs(IF pend = "all" THEN st.allr ELSE st.edger, truth, std)]]
    /\ pend' = ""
    /\ UNCHANGED <<q, nsv, st, truth, std, vx, vc, cnt, plain>>

Next == \/ \E c \in Cols : \E t \in Stamps : \E via \in Vias : SetT(c, t, via)
        \/ \E c \in Cols : ImportPlain(c)
        \/ \E c \in Cols : Clear(c)
        \/ Observe
Spec == Init /\ [][Next]_vars

\* ------------------------------------------------------------ properties
\* a column without a timestamp (cleared, or never set) is in no view
ClearedEverywhere ==
    \A c \in Cols : ((~ \E x \in truth : x[1] = c) /\ c \notin plain) => (c \notin std /\ \A v \in DOMAIN vc : c \notin vc[v])
\* what the fixed ClearBit relies on: a bit in a view is in every coarser view around it
ParentsHold ==
    \A v \in DOMAIN vc : \A w \in DOMAIN vc :
        (st.info[w].lo <= st.info[v].lo /\ st.info[v].hi <= st.info[w].hi) => vc[v] \subseteq vc[w]
\* reading the views of a range returns exactly the columns set with a timestamp in the range
ReadsTruth == \A x \in SeqRange(st.allr) : ReadRange(q, x[1], x[2], vc, DOMAIN vc) = TruthRange(x[1], x[2])
\* (only meaningful when every bit goes through Set / Import: Vias without "views", MaxPlain = 0)
StdTruth == ((~nsv) /\ "views" \notin Vias /\ MaxPlain = 0) => std = {c \in Cols : \E x \in truth : x[1] = c}
BndsAligned == (cnt.s0 + cnt.s1 + cnt.clr + cnt.pl = 0) => \A b \in SeqRange(st.bnds) : Aligned(q, b)

Emit == (Gen /\ Len(hist) = Depth /\ pend = "") => PrintT(<<"BEH", ToJson(hist)>>)
=============================================================================
