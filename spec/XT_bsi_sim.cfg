CONSTANTS
  Kind = "bsi"
  Rows = {0, 1, 2, 3}
  Cols = {0, 1, 2, 3}
  Ops = {"SetValue","ImportValue","Snapshot","Reopen","Row","Blocks","TopN","Transfer","BadTransfer"}
  Scope = "small"
  InitMode = "some"
  MaxOpNs = {"tiny","huge"}
  ShapeName = "wwtxwb"
  BadKinds = {"garbage","empty","trunc_header","trunc_data","badname","baddata","trunc_cache"}
  LogTail = TRUE
  Replace = TRUE
  ResetRowCache = TRUE
  ResetChecksums = TRUE
  ResetCounts = TRUE
INIT Init
NEXT Next
INVARIANT TypeOK
INVARIANT Emit
CHECK_DEADLOCK FALSE
