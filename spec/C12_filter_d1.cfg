CONSTANTS
  NRows = 3
  NCols = 3
  Kinds = {"ranked", "lru"}
  Sizes = {3}
  Mutexes = {FALSE}
  MutexSizes = {3}
  Ops = {"RecalcTopNFilter"}
  Inits = "all"
  BRows = {1, 2, 3}
  BSets = {{1}}
  MaxRect = 1
  BIds = "whole"
  Thrs = {3}
  FilterSkew = TRUE
  TopNs = {1, 2}
  RecalcWeight = 1
  Rand = FALSE
  Depth = 1
INIT Init
NEXT Next
INVARIANTS Emit TypeOK OracleOK
CHECK_DEADLOCK FALSE
