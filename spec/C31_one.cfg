CONSTANTS
  Family = "c31one"
  Rows = {0}
  NShards = 1
  Slots = 1
  Modes = {"unkeyed"}
  Targets = {"same"}
  Bufs = {0}
  MaxClear = 0
  Patterns = {0}
INIT Init
NEXT Next
INVARIANT C31Laws
INVARIANT Emit
CHECK_DEADLOCK FALSE
