CONSTANTS
  MCNodes = {"a", "b", "c"}
  MCShards = {0, 1}
INIT Init
NEXT Next
INVARIANT Satisfiable
INVARIANT SourcesSurvive
CHECK_DEADLOCK FALSE
