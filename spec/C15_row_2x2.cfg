CONSTANTS
  NShards = 2
  NCols = 2
  Ops = {"Union", "Merge", "Intersect", "Difference", "Xor"}
INIT Init
NEXT Next
INVARIANTS Emit Laws
CHECK_DEADLOCK FALSE
