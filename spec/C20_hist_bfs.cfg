CONSTANTS
  N = 4
  Depth = 6
  Reps = {0, 2, 3}
INIT Init
NEXT Next
INVARIANT Emit
CHECK_DEADLOCK FALSE
