SPECIFICATION SpecG
CONSTANTS
  Nodes = {"a", "b", "c"}
  Coord0 = "a"
  InitTopo = {}
  ReplicaN = 2
  HasData = FALSE
  Script <- ScriptFresh3
  Depth = 27
  MaxStop = 2
  MaxDup = 1
  MaxSetCoord = 2
  MaxRemove = 2
  MaxFalse = 1
  MaxNoop = 1
  Variant = "code"
CHECK_DEADLOCK FALSE
INVARIANTS
  Emit
  EmitViol
