-------------------------------- MODULE Cli --------------------------------
(***************************************************************************)
(* C30 - exporting a set field with the export command and importing the   *)
(*       output with the import command into an empty field of the same    *)
(*       type reproduces the bits and the keys.                            *)
(* C31 - every server option is resolved flag > environment > file >       *)
(*       default; a rendered configuration reads back unchanged.           *)
(*                                                                         *)
(* One module, selected by the constant Family:                            *)
(*   "c30"     history Populate(shard 0) .. Populate(shard N-1), Clear,    *)
(*             ExportImport over an abstract field                         *)
(*   "c31one"  one option x one subset of sources (x bool values)          *)
(*   "c31all"  whole configurations: every option gets a subset at once    *)
(*   "c31rt"   render/parse of generated configurations                    *)
(*   "c31"     the three C31 families in one run                           *)
(* Every behaviour is replayed by harness/bind/clib against the real       *)
(* commands (ctl.ExportCommand / ctl.ImportCommand against an in-process   *)
(* server; the cobra command tree of cmd.NewRootCommand).                  *)
(***************************************************************************)
EXTENDS Integers, Sequences, FiniteSets, TLC, Json, SequencesExt

CONSTANTS Family,
          \* ---- C30
          Rows,       \* abstract rows, e.g. {0,1,2}
          NShards,    \* abstract shards 0..NShards-1
          Slots,      \* abstract columns per shard
          Modes,      \* subset of {"unkeyed","rowkeys","colkeys","both"}
          Targets,    \* subset of {"same","other"}: target field in the same / another index
          Bufs,       \* import buffer sizes (records per batch), 0 = the command's default
          MaxClear,   \* at most this many bits are cleared before the export
          \* ---- C31
          Patterns    \* pattern numbers for whole configurations

VARIABLES st, hist
vars == <<st, hist>>

(***************************************************************************)
(*                               C30                                       *)
(***************************************************************************)
Shards   == 0..(NShards - 1)
Cols     == 0..(NShards * Slots - 1)
ShardOf(c) == c \div Slots
ColsOf(s)  == {c \in Cols : ShardOf(c) = s}
BitsOf(s)  == Rows \X ColsOf(s)

RowKeyed(m) == m \in {"rowkeys", "both"}
ColKeyed(m) == m \in {"colkeys", "both"}

RowsIn(B) == {b[1] : b \in B}
ColsIn(B) == {b[2] : b \in B}
ShardsIn(B) == {ShardOf(b[2]) : b \in B}

\* ---- the pipeline the two commands implement, as a design model ----------
\* The export command walks the shards 0..max in order; a shard's bits come out
\* row-major (ascending storage position).  A shard that holds no fragment, or an
\* empty one, contributes no record and must not stop the walk.
BitLess(a, b) == \/ ShardOf(a[2]) < ShardOf(b[2])
                 \/ ShardOf(a[2]) = ShardOf(b[2]) /\ a[1] < b[1]
                 \/ ShardOf(a[2]) = ShardOf(b[2]) /\ a[1] = b[1] /\ a[2] < b[2]
ExportSeq(B) == SetToSortSeq(B, BitLess)

\* The import command reads the records in order and sends a batch whenever `buf`
\* records are buffered, and the remainder at the end (buf = 0: one batch).
Batches(seq, buf) ==
    IF buf = 0 \/ Len(seq) = 0 THEN <<seq>>
    ELSE [i \in 1..((Len(seq) + buf - 1) \div buf) |->
            SubSeq(seq, (i - 1) * buf + 1, IF i * buf < Len(seq) THEN i * buf ELSE Len(seq))]
RangeOf(f) == {f[i] : i \in DOMAIN f}
ImportAll(batches) == UNION {RangeOf(batches[i]) : i \in DOMAIN batches}

\* Keys: the target allocates an id for a key when it first sees it; the relation
\* key <-> id of the target must be a bijection on the keys that occur in the
\* export, whatever ids the source used.
FirstSeen(seq, proj(_)) ==   \* sequence of distinct proj(record) in order of first appearance
    LET F[i \in 0..Len(seq)] ==
          IF i = 0 THEN << >>
          ELSE IF proj(seq[i]) \in RangeOf(F[i - 1]) THEN F[i - 1] ELSE Append(F[i - 1], proj(seq[i]))
    IN F[Len(seq)]

C30Init ==
    /\ st \in [phase : {0}, mode : Modes, target : Targets, buf : Bufs,
               src : {{}}, ever : {{}}, dst : {{}}, dstRows : {<< >>}, dstCols : {<< >>}]
    /\ hist = << >>

\* write the bits S (any subset of the shard's bits, possibly none) into shard s of the source
Populate ==
    /\ st.phase < NShards
    /\ \E S \in SUBSET BitsOf(st.phase) :
         LET src2 == st.src \cup S IN
         /\ st' = [st EXCEPT !.phase = @ + 1, !.src = src2, !.ever = @ \cup S]
         /\ hist' = Append(hist, [op |-> "Populate", shard |-> st.phase, bits |-> S, src |-> src2])

\* clear some of the bits again: leaves keys without bits and fragments without bits behind
Clear ==
    /\ st.phase = NShards
    /\ \E Cl \in SUBSET st.src :
         /\ Cardinality(Cl) <= MaxClear
         /\ st' = [st EXCEPT !.phase = @ + 1, !.src = @ \ Cl]
         /\ hist' = Append(hist, [op |-> "Clear", bits |-> Cl, src |-> st.src \ Cl])

\* export command on the source, import command into the empty target
ExportImport ==
    /\ st.phase = NShards + 1
    /\ LET seq  == ExportSeq(st.src)
           got  == ImportAll(Batches(seq, st.buf))
           rks  == FirstSeen(seq, LAMBDA b : b[1])
           cks  == FirstSeen(seq, LAMBDA b : b[2])
       IN
       /\ st' = [st EXCEPT !.phase = @ + 1, !.dst = got, !.dstRows = rks, !.dstCols = cks]
       /\ hist' = Append(hist,
            [op |-> "ExportImport", mode |-> st.mode, target |-> st.target, buf |-> st.buf,
             bits |-> st.src,                       \* expected records of the CSV and bits of the target
             rows |-> RowsIn(st.src),               \* keys (ids) the target must know / hold bits for
             cols |-> ColsIn(st.src),
             staleRows |-> RowsIn(st.ever) \ RowsIn(st.src),   \* keyed in the source, no bit left
             staleCols |-> ColsIn(st.ever) \ ColsIn(st.src),
             noFragment |-> Shards \ ShardsIn(st.ever),         \* shards never written
             emptied |-> ShardsIn(st.ever) \ ShardsIn(st.src),  \* shards whose fragment was emptied
             nbatches |-> IF st.src = {} THEN 0 ELSE Len(Batches(seq, st.buf))])

C30Depth == NShards + 2
C30Next  == Populate \/ Clear \/ ExportImport

\* (M) the design's property: after ExportImport the target holds exactly the source's
\* bits, and the keys it knows are exactly the keys of those bits, each once.
C30RoundTrip ==
    (Family = "c30" /\ st.phase = NShards + 2) =>
        /\ st.dst = st.src
        /\ RangeOf(st.dstRows) = RowsIn(st.src) /\ Len(st.dstRows) = Cardinality(RowsIn(st.src))
        /\ RangeOf(st.dstCols) = ColsIn(st.src) /\ Len(st.dstCols) = Cardinality(ColsIn(st.src))
C30TypeOK ==
    Family = "c30" => /\ st.src \subseteq Rows \X Cols
                      /\ st.src \subseteq st.ever
                      /\ st.phase \in 0..(NShards + 2)

(***************************************************************************)
(*                               C31                                       *)
(***************************************************************************)
\* The server's options and their flag types.  The harness extracts the same table from
\* the real flag set (ctl.BuildServerFlags) at run time; a difference means this table
\* is stale and the run is inconclusive.
OptTable == <<
    [name |-> "advertise",                typ |-> "string"],
    [name |-> "anti-entropy.interval",    typ |-> "duration"],
    [name |-> "bind",                     typ |-> "string"],
    [name |-> "cluster.coordinator",      typ |-> "bool"],
    [name |-> "cluster.disabled",         typ |-> "bool"],
    [name |-> "cluster.hosts",            typ |-> "stringSlice"],
    [name |-> "cluster.long-query-time",  typ |-> "duration"],
    [name |-> "cluster.replicas",         typ |-> "int"],
    [name |-> "data-dir",                 typ |-> "string"],
    [name |-> "gossip.advertise-host",    typ |-> "string"],
    [name |-> "gossip.advertise-port",    typ |-> "string"],
    [name |-> "gossip.interval",          typ |-> "duration"],
    [name |-> "gossip.key",               typ |-> "string"],
    [name |-> "gossip.nodes",             typ |-> "int"],
    [name |-> "gossip.port",              typ |-> "string"],
    [name |-> "gossip.probe-interval",    typ |-> "duration"],
    [name |-> "gossip.probe-timeout",     typ |-> "duration"],
    [name |-> "gossip.push-pull-interval", typ |-> "duration"],
    [name |-> "gossip.seeds",             typ |-> "stringSlice"],
    [name |-> "gossip.stream-timeout",    typ |-> "duration"],
    [name |-> "gossip.suspicion-mult",    typ |-> "int"],
    [name |-> "gossip.to-the-dead-time",  typ |-> "duration"],
    [name |-> "handler.allowed-origins",  typ |-> "stringSlice"],
    [name |-> "log-path",                 typ |-> "string"],
    [name |-> "max-file-count",           typ |-> "uint64"],
    [name |-> "max-map-count",            typ |-> "uint64"],
    [name |-> "max-writes-per-request",   typ |-> "int"],
    [name |-> "metric.diagnostics",       typ |-> "bool"],
    [name |-> "metric.host",              typ |-> "string"],
    [name |-> "metric.poll-interval",     typ |-> "duration"],
    [name |-> "metric.service",           typ |-> "string"],
    [name |-> "profile.block-rate",       typ |-> "int"],
    [name |-> "profile.mutex-fraction",   typ |-> "int"],
    [name |-> "tls.certificate",          typ |-> "string"],
    [name |-> "tls.key",                  typ |-> "string"],
    [name |-> "tls.skip-verify",          typ |-> "bool"],
    [name |-> "tracing.agent-host-port",  typ |-> "string"],
    [name |-> "tracing.sampler-param",    typ |-> "float64"],
    [name |-> "tracing.sampler-type",     typ |-> "string"],
    [name |-> "translation.map-size",     typ |-> "int"],
    [name |-> "translation.primary-url",  typ |-> "string"],
    [name |-> "verbose",                  typ |-> "bool"] >>

NOpts    == Len(OptTable)
OptIdx   == 1..NOpts
Sources  == {"file", "env", "flag"}

\* flag > env > file > default
Resolve(S) == IF "flag" \in S THEN "flag"
              ELSE IF "env" \in S THEN "env"
              ELSE IF "file" \in S THEN "file"
              ELSE "default"

Prio(s) == IF s = "flag" THEN 3 ELSE IF s = "env" THEN 2 ELSE IF s = "file" THEN 1 ELSE 0

\* the eight subsets of Sources, numbered 0..7 (bit 0 = file, bit 1 = env, bit 2 = flag)
SubsetNo(n) == (IF n % 2 = 1 THEN {"file"} ELSE {})
          \cup (IF (n \div 2) % 2 = 1 THEN {"env"} ELSE {})
          \cup (IF (n \div 4) % 2 = 1 THEN {"flag"} ELSE {})

\* Non-bool options: every source supplies a value distinct from the others and from the
\* default; the expected value is the winner's.  Bool options have two values only, so
\* every assignment of values to the present sources is enumerated; the expected value is
\* the winner's value ("D" = whatever the default is).
BExp(S, bv) == LET w == Resolve(S) IN IF w = "default" THEN "D" ELSE IF bv[w] THEN "T" ELSE "F"

One(i, S, bv) == [opt |-> OptTable[i].name, typ |-> OptTable[i].typ, srcs |-> S,
                  win |-> Resolve(S), bvals |-> bv, bexp |-> BExp(S, bv)]

ResolveOne ==
    \E i \in OptIdx : \E S \in SUBSET Sources :
       \E bv \in IF OptTable[i].typ = "bool" THEN [S -> BOOLEAN] ELSE {[s \in S |-> TRUE]} :
          hist' = Append(hist, [op |-> "Resolve"] @@ One(i, S, bv))

\* whole configurations: option i gets subset number (5 i + 3 k + i div 8) mod 8; across
\* k = 0..7 every option meets every subset while its neighbours (same section) sit at others.
PatSub(k, i)  == SubsetNo((5 * i + 3 * k + (i \div 8)) % 8)
PatBool(k, i) == [s \in PatSub(k, i) |-> ((k + i + (IF s = "file" THEN 0 ELSE IF s = "env" THEN 1 ELSE 3)) % 2 = 0)]
ResolveAll ==
    \E k \in Patterns :
       hist' = Append(hist, [op |-> "ResolveAll", k |-> k,
                             asg |-> [i \in OptIdx |-> One(i, PatSub(k, i), PatBool(k, i))]])

Table == hist' = Append(hist, [op |-> "Table", opts |-> OptTable])

\* ---- render / parse ------------------------------------------------------
\* A configuration assigns every option a value class; the harness refines a class to a
\* concrete value of the option's type ("default" = the documented default, "zero" = the
\* type's zero value / empty list, "alt" and "edge" = seeded other values: sub-second and
\* multi-unit durations, strings with quotes, backslashes, '#', '=', Unicode, several list
\* elements, large numbers).  Render = one (section, key, value) line per option in the
\* table; Parse = reading those lines back.  Expected: Parse(Render(c)) = c.
Classes == {"default", "zero", "alt", "edge"}
Render(c) == {<<OptTable[i].name, c[i]>> : i \in OptIdx}
Parse(lines) == [i \in OptIdx |-> CHOOSE v \in Classes : <<OptTable[i].name, v>> \in lines]

RenderOne ==
    \E i \in OptIdx : \E cl \in Classes \ {"default"} :
       LET c == [j \in OptIdx |-> IF j = i THEN cl ELSE "default"] IN
       hist' = Append(hist, [op |-> "RenderParse", kind |-> "one", opt |-> OptTable[i].name,
                             cls |-> [j \in OptIdx |-> [opt |-> OptTable[j].name, typ |-> OptTable[j].typ, cl |-> c[j]]],
                             back |-> Parse(Render(c)) = c])
PatClass(k, i) == LET n == (i + k + (i \div 4)) % 4 IN
                  IF k = 0 THEN "default"
                  ELSE IF n = 0 THEN "default" ELSE IF n = 1 THEN "zero" ELSE IF n = 2 THEN "alt" ELSE "edge"
RenderAllOpts ==
    \E k \in Patterns :
       LET c == [j \in OptIdx |-> PatClass(k, j)] IN
       hist' = Append(hist, [op |-> "RenderParse", kind |-> "all", opt |-> "",
                             cls |-> [j \in OptIdx |-> [opt |-> OptTable[j].name, typ |-> OptTable[j].typ, cl |-> c[j]]],
                             back |-> Parse(Render(c)) = c])

C31Init == st = [phase |-> 0] /\ hist = << >>
C31Next ==
    /\ UNCHANGED st
    /\ \/ Family = "c31one" /\ (ResolveOne \/ Table)
       \/ Family = "c31all" /\ (ResolveAll \/ Table)
       \/ Family = "c31rt"  /\ (RenderOne \/ RenderAllOpts \/ Table)
       \/ Family = "c31"    /\ (ResolveOne \/ ResolveAll \/ RenderOne \/ RenderAllOpts \/ Table)

\* (M) laws of the resolution order and of the patterns
C31Laws ==
    /\ \A S \in SUBSET Sources :
         /\ Resolve(S) \in S \cup {"default"}
         /\ (Resolve(S) = "default") = (S = {})
         /\ \A s \in Sources :              \* adding a weaker source never changes the winner
              (S # {} /\ Prio(s) < Prio(Resolve(S))) => Resolve(S \cup {s}) = Resolve(S)
         /\ \A s \in Sources :              \* adding a stronger one makes it the winner
              (\A t \in S : Prio(t) < Prio(s)) => Resolve(S \cup {s}) = s
    /\ Resolve({"file", "env", "flag"}) = "flag" /\ Resolve({"file", "env"}) = "env"
    /\ Resolve({"file", "flag"}) = "flag" /\ Resolve({"file"}) = "file"
    /\ {SubsetNo(n) : n \in 0..7} = SUBSET Sources
    /\ \A i \in OptIdx : \A j \in OptIdx : i # j => OptTable[i].name # OptTable[j].name
    \* every option meets every subset over the eight patterns
    /\ \A i \in OptIdx : {PatSub(k, i) : k \in 0..7} = SUBSET Sources

(***************************************************************************)
Depth == IF Family = "c30" THEN C30Depth ELSE 1

Init == IF Family = "c30" THEN C30Init ELSE C31Init
Next == /\ Len(hist) < Depth
        /\ IF Family = "c30" THEN C30Next ELSE C31Next
Spec == Init /\ [][Next]_vars

Emit == Len(hist) = Depth => PrintT(<<"BEH", ToJson(hist)>>)
=============================================================================
