--------------------------- MODULE TracePlacement ---------------------------
(***************************************************************************)
(* C20, binding B: what the real cluster.go / executor.go / api.go computed *)
(* for enumerated cluster configurations (harness/bind/clusterb TestC20),    *)
(* validated event by event against Placement.                              *)
(*                                                                         *)
(* trace.ndjson                                                             *)
(*   line 1            {"ev":"universe","ids":[..ascending ids..],"nidx":k}  *)
(*   lines 2..1+NMax   {"ev":"hash","n":n,"h":[Hasher.Hash(p,n) : p]}        *)
(*   next nidx lines   {"ev":"parts","ix":x,"ps":[cluster.partition(index x, *)
(*                       shard j) : j]}   (the shard list covers 0..PartN-1) *)
(*   then, per configuration (one real cluster built by joins/leaves):       *)
(*     {"ev":"own","c":case,"ord":[ids],"opk":[1 join|0 leave],"ring":[..],  *)
(*      "r":replicas,"self":id,"gd":digest of g,                             *)
(*      "g":[{"o":[owners],"ps":[partitions]}..]}                            *)
(*        ring = the cluster's member list; g = partitionNodes(p) for ALL p,  *)
(*        grouped by the owner sequence returned (lossless)                  *)
(*     {"ev":"same", ...as own without g}  a variant of the preceding own     *)
(*     {"ev":"help","c":case,"ring":[..],"r":..,"self":id,"ix":x,            *)
(*      "asked":[ids],"avail":[[ids]..],"err":[shardsByNode failed per set], *)
(*      "q":[{"js":[shard positions],"sn":[ShardNodes],"own":[asked ids with  *)
(*            ownsShard],"cont":[asked ids whose containsShards has it],      *)
(*            "vso":validateShardOwnership ok,"sbn":[[routed-to ids]..]}..]}  *)
(***************************************************************************)
EXTENDS Placement, TLC, Json

VARIABLE i
Trace == ndJsonDeserialize("trace.ndjson")

U == Trace[1].ids
NMax == Len(U)
NIdx == Trace[1].nidx
Rank == [id \in Range(U) |-> CHOOSE k \in 1..NMax : U[k] = id]
Prim(n, p) == Trace[1 + n].h[p + 1]
Parts(ix) == Trace[1 + NMax + ix].ps
HeaderLen == 1 + NMax + NIdx

e == Trace[i]
Is(name) == i <= Len(Trace) /\ e.ev = name

TInit == i = 1 /\ cur = [m |-> {}, r |-> 0, gd |-> ""]

\* ---- header: the observed hashes must be hashes
THeader ==
    /\ i <= HeaderLen
    /\ \/ /\ i = 1 /\ Is("universe")
          /\ Cardinality(Range(U)) = NMax       \* ids are distinct
       \/ /\ i > 1 /\ i <= 1 + NMax /\ Is("hash")
          /\ e.n = i - 1 /\ Len(e.h) = PartN
          /\ \A p \in 1..PartN : e.h[p] \in 0..(e.n - 1)
       \/ /\ i > 1 + NMax /\ Is("parts")
          /\ e.ix = i - 1 - NMax
          /\ \A j \in 1..Len(e.ps) : e.ps[j] \in 0..(PartN - 1)
          /\ Range(e.ps) = 0..(PartN - 1)           \* the shard list covers every partition
    /\ i' = i + 1 /\ UNCHANGED cur

\* members after a history of joins and leaves: ids whose last event is a join
Members(ord, opk) ==
    {ord[k] : k \in {k \in 1..Len(ord) : opk[k] = 1 /\ \A m \in (k + 1)..Len(ord) : ord[m] # ord[k]}}

\* ---- the owners of all partitions computed by one real cluster
TOwn ==
    /\ i > HeaderLen /\ Is("own")
    /\ LET M == Members(e.ord, e.opk)
           n == Cardinality(M)
           ring == SortedRing(M, Rank)
           k == ReplicaK(e.r, n)
       IN /\ M # {} /\ M \subseteq Range(U) /\ e.r \in 0..MaxRep /\ e.self \in M
          \* the member list depends only on the id set (not on the join order)
          /\ e.ring = ring
          \* all partitions were observed
          /\ UNION {Range(e.g[x].ps) : x \in 1..Len(e.g)} = 0..(PartN - 1)
          /\ \A x \in 1..Len(e.g) :
               LET g == e.g[x]
                   h == Prim(n, g.ps[1]) IN
               /\ Len(g.o) = k                          \* min(max(r,1),n) owners
               /\ Cardinality(Range(g.o)) = k           \* distinct
               /\ Range(g.o) \subseteq M                \* members
               /\ g.o = Owners(ring, h, e.r)            \* consecutive ring members from the primary
               /\ \A p \in Range(g.ps) : Prim(n, p) = h
          \* same id set and replica count as the previous configuration (another local
          \* node, another history): the same answer for every partition
          /\ IF cur.m = M /\ cur.r = e.r
             THEN e.gd = cur.gd /\ UNCHANGED cur
             ELSE cur' = [m |-> M, r |-> e.r, gd |-> e.gd]
    /\ i' = i + 1

\* ---- another real cluster with the same id set and replica count (other join order,
\* leaves and re-joins, other membership path, other local node): its member list is the
\* same sorted ring and its partition table (compared by digest) is the same
TSame ==
    /\ i > HeaderLen /\ Is("same")
    /\ LET M == Members(e.ord, e.opk) IN
          /\ M = cur.m /\ e.r = cur.r /\ e.self \in M
          /\ e.ring = SortedRing(M, Rank)
          /\ e.gd = cur.gd
    /\ i' = i + 1 /\ UNCHANGED cur

\* ---- the ownership helpers on one real cluster; e.q groups the shards of index e.ix by
\* identical answers of all helpers
THelp ==
    /\ i > HeaderLen /\ Is("help")
    /\ LET ring == e.ring
           M == Range(ring)
           n == Len(ring)
           ps == Parts(e.ix)
           N == Len(ps)
           asked == Range(e.asked)
           O(x) == Owners(ring, Prim(n, ps[e.q[x].js[1]]), e.r)
       IN /\ M # {} /\ M \subseteq Range(U) /\ IsSortedRing(ring, M, Rank) /\ e.self \in M
          /\ M \subseteq asked                     \* every member was asked about
          /\ UNION {Range(e.q[x].js) : x \in 1..Len(e.q)} = 1..N   \* every shard was asked about
          /\ \A x \in 1..Len(e.q) :
               LET g == e.q[x]
                   h == Prim(n, ps[g.js[1]])
                   Ow == Owners(ring, h, e.r) IN
               /\ \A j \in Range(g.js) : Prim(n, ps[j]) = h
               /\ ShardAnswersOK(g, Ow, asked, e.self)
               /\ \A a \in 1..Len(e.avail) : (~e.err[a]) => RouteOK(g.sbn[a], Ow, Range(e.avail[a]))
          \* shardsByNode fails only when some shard has no available owner
          /\ \A a \in 1..Len(e.avail) :
               e.err[a] => ({x \in 1..Len(e.q) : Range(O(x)) \cap Range(e.avail[a]) = {}} # {})
    /\ i' = i + 1 /\ UNCHANGED cur

TNext == THeader \/ TOwn \/ TSame \/ THelp

Accepted ==
    LET n == TLCGet("stats").diameter - 1 IN
    IF n = Len(Trace) THEN PrintT("TRACE-ACCEPTED")
    ELSE PrintT("TRACE-REJECTED " \o ToString(n))
=============================================================================
