--------------------------- MODULE TraceTimeViews ---------------------------
(***************************************************************************)
(* C18, binding B: calls of the real viewsByTimeRange, viewsByTime,          *)
(* timeOfView and minMaxViews (time.go, through verif_export_time.go),       *)
(* recorded by harness/bind/mrtimeb TestC18Trace as one JSON object per      *)
(* line, are validated against TimeViews: every recorded result must be one  *)
(* the property allows.  Times are hour indexes (Unix hours).  A view is     *)
(* logged with its name as returned by the code and the numbers the harness  *)
(* read from the name's digits; the specification rebuilds the name from the *)
(* numbers (so the reading is checked too) and computes the interval itself. *)
(*                                                                         *)
(*  range   q, from, to, views       CoverOK: units of q, disjoint, cover     *)
(*                                   exactly [from, to)                       *)
(*  time    q, t, views              exactly the views of q's units around t  *)
(*  name    v, lo, hi, err           timeOfView(name) = start of the view,    *)
(*                                   with adj = its end; no error             *)
(*  minmax  q, views, min, max       earliest / latest view of q's coarsest   *)
(*                                   unit                                    *)
(***************************************************************************)
EXTENDS TimeViews, Json

VARIABLE i
Trace == ndJsonDeserialize("trace.ndjson")
e == Trace[i]
Is(name) == i <= Len(Trace) /\ e.ev = name

V(r) == MkView(r.u, r.y, r.m, r.d, r.h)
Views(rs) == [k \in 1..Len(rs) |-> V(rs[k])]
NamesOK(rs) == \A k \in 1..Len(rs) : rs[k].u \in Units /\ ViewName(V(rs[k])) = rs[k].name

TRange ==
    /\ Is("range")
    /\ e.q \in Quanta /\ Aligned(e.q, e.from) /\ Aligned(e.q, e.to) /\ e.from < e.to
    /\ NamesOK(e.views)
    /\ CoverOK(e.q, e.from, e.to, Views(e.views))
    /\ i' = i + 1

TTime ==
    /\ Is("time")
    /\ e.q \in Quanta
    /\ NamesOK(e.views)
    /\ Len(e.views) = Cardinality(UnitsOf(e.q))
    /\ SeqRange(Views(e.views)) = ViewsForTime(e.q, e.t)
    /\ i' = i + 1

TName ==
    /\ Is("name")
    /\ e.v.u \in Units /\ ViewName(V(e.v)) = e.v.name
    /\ RoundTrip(V(e.v))
    /\ e.err = ""
    /\ e.lo = ViewLo(V(e.v)) /\ e.hi = ViewHi(V(e.v))
    /\ i' = i + 1

TMinMax ==
    /\ Is("minmax")
    /\ e.q \in Quanta
    /\ NamesOK(e.views)
    /\ LET vs == Views(e.views)
           C == {k \in 1..Len(vs) : vs[k].u = Coarsest(e.q)}
       IN IF C = {} THEN e.min = "" /\ e.max = ""
          ELSE /\ \E k \in C : e.views[k].name = e.min /\ \A j \in C : ViewLo(vs[k]) <= ViewLo(vs[j])
               /\ \E k \in C : e.views[k].name = e.max /\ \A j \in C : ViewLo(vs[k]) >= ViewLo(vs[j])
    /\ i' = i + 1

TInit == i = 1
TNext == TRange \/ TTime \/ TName \/ TMinMax

Accepted ==
    LET n == TLCGet("stats").diameter - 1 IN
    IF n = Len(Trace) THEN PrintT("TRACE-ACCEPTED")
    ELSE PrintT("TRACE-REJECTED " \o ToString(n))
=============================================================================
