CONSTANTS
  NRows = 3
  NCols = 2
  Kinds = {"mutex", "bool"}
  MaxBatch = 3
  MaxClearBatch = 2
  Ops = {"Set", "Clear", "Import", "ClearImport", "ClearRow", "Roaring", "BadRow"}
  Inits = "all"
  Depth = 3
INIT Init
NEXT Next
INVARIANTS TypeOK AtMostOnePerColumn LastWriterWins
VIEW MCView
CHECK_DEADLOCK FALSE
