CONSTANTS
  Jobs = {1,2,3,4,5,6,7,8}
  Nodes = {"n0","n1","n2","n3"}
INIT TInit
NEXT TNext
INVARIANT TAtMostOneJob
INVARIANT TNoHandlerStuck
POSTCONDITION Accepted
CHECK_DEADLOCK FALSE
