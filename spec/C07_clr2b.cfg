CONSTANTS
  Kind = "set"
  Rows = {99, 100}
  Cols = {0, 3}
  Ops = {"RoaringClear","BulkClear","ClearBit","ClearRow","SetRow","SetBit"}
  Scope = "small"
  Depth = 2
  ShapeName = "clr2"
  InitMode = "any"
  MaxOpNs = {"huge"}
  Provs = {"ops"}
  RowInval = {"setBit","clearBit","setRow","clearRow","bulk","bulkMutex","roaring","setValue","clearValue","importValue"}
  CkInval = {"setBit","clearBit","setRow","clearRow","bulk","bulkMutex","roaring","setValue","clearValue","importValue"}
INIT Init
NEXT Next
INVARIANT TypeOK
INVARIANT ReadsReflectWrites
INVARIANT ChecksumFresh
INVARIANT Emit
CHECK_DEADLOCK FALSE
