CONSTANTS
  Nodes = {1,2,3}
  Kinds = {"col","rowf","rowg"}
  Ids = {0,99,100,101,250}
  AKeys = {"a","b"}
  Vals = {"i:1","i:2","s:x","b:T","b:F","f:1"}
  Depth = 11
  NWrites = 5
  MaxQueries = 2
  MaxLate = 1
  InitModes = {"empty"}
  Overlap = FALSE
  Rounds = 1
  StrictConflicts = FALSE
  Sample = TRUE
INIT Init
NEXT Next
CHECK_DEADLOCK FALSE
INVARIANT Emit
