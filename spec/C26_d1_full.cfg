CONSTANTS
  Mode = "parse"
  Level = "full"
  Depth = 4
  MaxNest = 1
  MaxCalls = 1
  MaxKw = 1
  MaxCh = 0
INIT Init
NEXT Next
INVARIANT TypeOK
INVARIANT WellFormed
INVARIANT BtwcLaw
INVARIANT Emit
CHECK_DEADLOCK FALSE
