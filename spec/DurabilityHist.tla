--------------------------- MODULE DurabilityHist ---------------------------
(***************************************************************************)
(* C09 - generator of write histories with their abstract meaning.         *)
(*                                                                         *)
(* The schema is the one the driver creates (harness/bind/crashb):          *)
(*   index i (existence tracked): f set field, m mutex field, t time field *)
(*   (quantum YM), v int field; index k with column keys: kf set field with*)
(*   row keys.  Abstract columns 0,1 (shard 0), 2 (shard 1), 9 (base data, *)
(*   shard 0), 8 (a block of 300 columns of shard 0 written only by bulk   *)
(*   imports).  Base data: f = {(1,9)}, m = {(1,8)}, v[8] = v[9] = 1, keys *)
(*   base / rbase.                                                         *)
(*                                                                         *)
(* A behaviour is a sequence of writes through the public API.  Each step  *)
(* record carries the operation, its arguments and `post`, the content of  *)
(* every field after the write according to the documented meaning of the  *)
(* operation.  The driver executes the history on a real server under      *)
(* strace; the state after step k (S_k) is what DurabilityAbs calls the    *)
(* acknowledged state once step k is acknowledged, and the target of the   *)
(* in-flight write while step k runs.  Crash images are judged per unit    *)
(* (field, view, shard) with DurabilityAbs!RecoveredOK(rec, S_(k-1), S_k). *)
(*                                                                         *)
(* `maxopn` (chosen once per history) is the fragments' MaxOpN: 0 = the    *)
(* default 10000, a small value forces snapshots after a few bit changes   *)
(* and sends ImportValue through its large (snapshot-before-ack) path.     *)
(***************************************************************************)
EXTENDS Integers, Sequences, FiniteSets, TLC, Json

CONSTANTS Depth,       \* number of writes per history
          MaxOpNs,     \* choices for maxopn
          Families,    \* op families enabled in this run (subset of AllFamilies)
          NoNoops,     \* TRUE: every write of a history changes the state
          BigCuts      \* where the 4096-byte write boundary of the translate log's buffered
                       \* writer falls in an entry that starts with the key "big" (chosen once
                       \* per history; the driver sizes the key accordingly):
                       \*   "inkey"     inside the bytes of "big" (an entry with that key alone)
                       \*   "lastbyte"  before the last byte of "big"
                       \*   "between"   exactly between the pair of "big" and the next pair
                       \*   "afterid"   after the id varint of the next pair
                       \*   "aftersize" after the key-size varint of the next pair
                       \*   "firstbyte" after the first byte of the next key
                       \* (the length prefix, type, names and pair count of an entry always
                       \* lie in the first write: the writer's buffer is empty when an
                       \* entry starts)

AllFamilies == {"bit", "time", "clear", "value", "keyed", "roaring", "import", "importkeyed",
                "importvalue", "rowop"}

Cols    == {0, 1, 2}
Shard(c) == IF c = 2 THEN 1 ELSE 0
Rows    == {1, 2}
Vals    == {1, 2, 5, 6, -3}
TSs     == {1, 2}
ViewsOf(ts) == IF ts = 1 THEN {"std", "y", "m1"} ELSE {"std", "y", "m2"}
AllViews == {"std", "y", "m1", "m2"}
CKeys   == {"a", "b", "big"}
RKeys   == {"x", "y"}

VARIABLES f,      \* set field: set of <<row, col>>
          m,      \* mutex field: set of <<row, col>>
          t,      \* time field: set of <<row, col, view>>
          v,      \* int field: set of <<col, value>> (a function as its graph)
          ex,     \* existence field of index i: set of cols
          ck,     \* column keys of index k in allocation order (id = position)
          rk,     \* row keys of field kf in allocation order
          kf,     \* keyed set field: set of <<row id, col id>>
          kex,    \* existence field of index k: set of col ids
          maxopn,
          bigcut,
          hist

vars == <<f, m, t, v, ex, ck, rk, kf, kex, maxopn, bigcut, hist>>

Init ==
    /\ f = {<<1, 9>>} /\ m = {<<1, 8>>} /\ t = {} /\ v = {<<8, 1>>, <<9, 1>>} /\ ex = {8, 9}
    /\ ck = <<"base">> /\ rk = <<"rbase">> /\ kf = {<<1, 1>>} /\ kex = {1}
    /\ maxopn \in MaxOpNs
    /\ bigcut \in BigCuts
    /\ hist = << >>

State == [f |-> f, m |-> m, t |-> t, v |-> v, ex |-> ex, ck |-> ck, rk |-> rk, kf |-> kf, kex |-> kex]

\* position of key in seq, allocating at the end
IdOf(seq, key) == IF \E i \in 1..Len(seq) : seq[i] = key
                  THEN CHOOSE i \in 1..Len(seq) : seq[i] = key
                  ELSE Len(seq) + 1
Alloc(seq, key) == IF \E i \in 1..Len(seq) : seq[i] = key THEN seq ELSE Append(seq, key)

\* allocate a sequence of keys in order
RECURSIVE AllocAll(_, _)
AllocAll(seq, keys) == IF keys = << >> THEN seq ELSE AllocAll(Alloc(seq, Head(keys)), Tail(keys))

Log(rec) == hist' = Append(hist, rec)

\* mutex semantics: a column holds at most one row; a later pair of a batch wins
MutexSet(cur, r, c) == {p \in cur : p[2] # c} \cup {<<r, c>>}
RECURSIVE MutexSetAll(_, _)
MutexSetAll(cur, pairs) == IF pairs = << >> THEN cur
                           ELSE MutexSetAll(MutexSet(cur, Head(pairs)[1], Head(pairs)[2]), Tail(pairs))

SeqToSet(s) == {s[i] : i \in 1..Len(s)}

----------------------------------------------------------------------------
SetBitF(r, c) ==
    /\ f' = f \cup {<<r, c>>} /\ ex' = ex \cup {c}
    /\ UNCHANGED <<m, t, v, ck, rk, kf, kex, maxopn, bigcut>>
    /\ Log([op |-> "SetBit", fld |-> "f", r |-> r, c |-> c, maxopn |-> maxopn, bigcut |-> bigcut,
            post |-> [State EXCEPT !.f = f', !.ex = ex']])

SetBitM(r, c) ==
    /\ m' = MutexSet(m, r, c) /\ ex' = ex \cup {c}
    /\ UNCHANGED <<f, t, v, ck, rk, kf, kex, maxopn, bigcut>>
    /\ Log([op |-> "SetBit", fld |-> "m", r |-> r, c |-> c, maxopn |-> maxopn, bigcut |-> bigcut,
            post |-> [State EXCEPT !.m = m', !.ex = ex']])

SetTime(r, c, ts) ==
    /\ t' = t \cup {<<r, c, w>> : w \in ViewsOf(ts)} /\ ex' = ex \cup {c}
    /\ UNCHANGED <<f, m, v, ck, rk, kf, kex, maxopn, bigcut>>
    /\ Log([op |-> "SetTime", r |-> r, c |-> c, ts |-> ts, maxopn |-> maxopn, bigcut |-> bigcut,
            post |-> [State EXCEPT !.t = t', !.ex = ex']])

ClearBit(fld, r, c) ==
    /\ f' = IF fld = "f" THEN f \ {<<r, c>>} ELSE f
    /\ m' = IF fld = "m" THEN m \ {<<r, c>>} ELSE m
    /\ t' = IF fld = "t" THEN {p \in t : ~(p[1] = r /\ p[2] = c)} ELSE t
    /\ UNCHANGED <<v, ex, ck, rk, kf, kex, maxopn, bigcut>>
    /\ Log([op |-> "ClearBit", fld |-> fld, r |-> r, c |-> c, maxopn |-> maxopn, bigcut |-> bigcut,
            post |-> [State EXCEPT !.f = f', !.m = m', !.t = t']])

SetValue(c, val) ==
    /\ v' = {p \in v : p[1] # c} \cup {<<c, val>>} /\ ex' = ex \cup {c}
    /\ UNCHANGED <<f, m, t, ck, rk, kf, kex, maxopn, bigcut>>
    /\ Log([op |-> "SetValue", c |-> c, val |-> val, maxopn |-> maxopn, bigcut |-> bigcut,
            post |-> [State EXCEPT !.v = v', !.ex = ex']])

SetKeyed(k, r) ==
    /\ ck' = Alloc(ck, k) /\ rk' = Alloc(rk, r)
    /\ kf' = kf \cup {<<IdOf(rk, r), IdOf(ck, k)>>} /\ kex' = kex \cup {IdOf(ck, k)}
    /\ UNCHANGED <<f, m, t, v, ex, maxopn, bigcut>>
    /\ Log([op |-> "SetKeyed", ck |-> k, rk |-> r, maxopn |-> maxopn, bigcut |-> bigcut,
            post |-> [State EXCEPT !.ck = ck', !.rk = rk', !.kf = kf', !.kex = kex']])

\* roaring import into the standard view of f, one shard; existence is not touched
RoaringSets == {
    [shard |-> 0, pairs |-> <<<<1, 0>>>>],
    [shard |-> 0, pairs |-> <<<<1, 0>>, <<2, 1>>>>],
    [shard |-> 0, pairs |-> <<<<1, 0>>, <<1, 1>>, <<2, 0>>, <<2, 1>>, <<1, 9>>>>],
    [shard |-> 1, pairs |-> <<<<1, 2>>>>],
    [shard |-> 1, pairs |-> <<<<1, 2>>, <<2, 2>>>>] }

ImportRoaring(rs, clear) ==
    /\ f' = IF clear THEN f \ SeqToSet(rs.pairs) ELSE f \cup SeqToSet(rs.pairs)
    /\ UNCHANGED <<m, t, v, ex, ck, rk, kf, kex, maxopn, bigcut>>
    /\ Log([op |-> "ImportRoaring", shard |-> rs.shard, pairs |-> rs.pairs, clear |-> clear,
            maxopn |-> maxopn, bigcut |-> bigcut, post |-> [State EXCEPT !.f = f']])

\* bulk import of (row, col) pairs into one shard of f or m (no column twice in a batch)
ImportSets == {
    [shard |-> 0, pairs |-> <<<<1, 0>>, <<2, 1>>>>],
    [shard |-> 0, pairs |-> <<<<2, 0>>, <<1, 1>>>>],
    [shard |-> 0, pairs |-> <<<<2, 0>>>>],
    [shard |-> 1, pairs |-> <<<<1, 2>>>>],
    [shard |-> 1, pairs |-> <<<<2, 2>>>>],
    \* size class "big batch": column 8 is a block of 300 concrete columns, the batch
    \* entries of these imports exceed 4096 bytes
    [shard |-> 0, pairs |-> <<<<2, 8>>>>],
    [shard |-> 0, pairs |-> <<<<1, 8>>, <<2, 0>>>>] }

Import(fld, is, clear) ==
    /\ f' = IF fld # "f" THEN f ELSE IF clear THEN f \ SeqToSet(is.pairs) ELSE f \cup SeqToSet(is.pairs)
    /\ m' = IF fld # "m" THEN m ELSE IF clear THEN m \ SeqToSet(is.pairs) ELSE MutexSetAll(m, is.pairs)
    /\ ex' = IF clear THEN ex ELSE ex \cup {p[2] : p \in SeqToSet(is.pairs)}
    /\ UNCHANGED <<t, v, ck, rk, kf, kex, maxopn, bigcut>>
    /\ Log([op |-> "Import", fld |-> fld, shard |-> is.shard, pairs |-> is.pairs, clear |-> clear,
            maxopn |-> maxopn, bigcut |-> bigcut, post |-> [State EXCEPT !.f = f', !.m = m', !.ex = ex']])

\* bulk import by keys: row keys are translated first, then column keys, one log entry each
KeyedSets == {
    [cks |-> <<"a", "b">>, rks |-> <<"x", "y">>],
    [cks |-> <<"big", "a">>, rks |-> <<"x", "x">>],
    [cks |-> <<"big", "b", "a">>, rks |-> <<"y", "x", "y">>],
    [cks |-> <<"b">>, rks |-> <<"y">>] }

ImportKeyed(ks) ==
    LET ck2 == AllocAll(ck, ks.cks)
        rk2 == AllocAll(rk, ks.rks)
        bits == {<<IdOf(rk2, ks.rks[i]), IdOf(ck2, ks.cks[i])>> : i \in 1..Len(ks.cks)}
    IN /\ ck' = ck2 /\ rk' = rk2
       /\ kf' = kf \cup bits /\ kex' = kex \cup {b[2] : b \in bits}
       /\ UNCHANGED <<f, m, t, v, ex, maxopn, bigcut>>
       /\ Log([op |-> "ImportKeyed", cks |-> ks.cks, rks |-> ks.rks, maxopn |-> maxopn, bigcut |-> bigcut,
               post |-> [State EXCEPT !.ck = ck', !.rk = rk', !.kf = kf', !.kex = kex']])

\* value import into one shard: <<col, value>> pairs
ValueSets == {
    [shard |-> 0, pairs |-> <<<<0, 5>>, <<1, 2>>>>],
    [shard |-> 0, pairs |-> <<<<0, 2>>, <<9, 6>>>>],
    [shard |-> 0, pairs |-> <<<<0, 6>>, <<1, -3>>, <<9, 5>>>>],
    [shard |-> 1, pairs |-> <<<<2, 5>>>>],
    [shard |-> 1, pairs |-> <<<<2, 2>>>>],
    \* size class "big batch" (the block, column 8): add batch + remove batch > 4096 bytes
    [shard |-> 0, pairs |-> <<<<8, 2>>>>],
    [shard |-> 0, pairs |-> <<<<8, 1>>>>],
    [shard |-> 0, pairs |-> <<<<8, 6>>, <<0, 5>>>>] }

ImportValue(vs) ==
    LET cols == {p[1] : p \in SeqToSet(vs.pairs)}
    IN /\ v' = {p \in v : p[1] \notin cols} \cup SeqToSet(vs.pairs)
       /\ ex' = ex \cup cols
       /\ UNCHANGED <<f, m, t, ck, rk, kf, kex, maxopn, bigcut>>
       /\ Log([op |-> "ImportValue", shard |-> vs.shard, pairs |-> vs.pairs, maxopn |-> maxopn, bigcut |-> bigcut,
               post |-> [State EXCEPT !.v = v', !.ex = ex']])

\* Store(Row(f=src), f=r): row r becomes a copy of row src
Store(src, r) ==
    /\ src # r
    /\ f' = {p \in f : p[1] # r} \cup {<<r, p[2]>> : p \in {q \in f : q[1] = src}}
    /\ UNCHANGED <<m, t, v, ex, ck, rk, kf, kex, maxopn, bigcut>>
    /\ Log([op |-> "Store", src |-> src, r |-> r, maxopn |-> maxopn, bigcut |-> bigcut, post |-> [State EXCEPT !.f = f']])

ClearRow(fld, r) ==
    /\ f' = IF fld = "f" THEN {p \in f : p[1] # r} ELSE f
    /\ m' = IF fld = "m" THEN {p \in m : p[1] # r} ELSE m
    /\ UNCHANGED <<t, v, ex, ck, rk, kf, kex, maxopn, bigcut>>
    /\ Log([op |-> "ClearRow", fld |-> fld, r |-> r, maxopn |-> maxopn, bigcut |-> bigcut,
            post |-> [State EXCEPT !.f = f', !.m = m']])

Next ==
    /\ Len(hist) < Depth
    /\ \/ "bit" \in Families /\ \E r \in Rows, c \in Cols : SetBitF(r, c) \/ SetBitM(r, c)
       \/ "time" \in Families /\ \E c \in Cols, ts \in TSs : SetTime(1, c, ts)
       \/ "clear" \in Families /\ \E fld \in {"f", "m"}, r \in Rows, c \in Cols : ClearBit(fld, r, c)
       \/ "clear" \in Families /\ \E c \in Cols : ClearBit("t", 1, c)
       \/ "value" \in Families /\ \E c \in Cols \cup {9}, val \in Vals : SetValue(c, val)
       \/ "keyed" \in Families /\ \E k \in CKeys, r \in RKeys : SetKeyed(k, r)
       \/ "roaring" \in Families /\ \E rs \in RoaringSets, cl \in BOOLEAN : ImportRoaring(rs, cl)
       \/ "import" \in Families /\ \E is \in ImportSets, cl \in BOOLEAN : Import("f", is, cl)
       \/ "import" \in Families /\ \E is \in ImportSets, cl \in BOOLEAN : Import("m", is, cl)
       \/ "importkeyed" \in Families /\ \E ks \in KeyedSets : ImportKeyed(ks)
       \/ "importvalue" \in Families /\ \E vs \in ValueSets : ImportValue(vs)
       \/ "rowop" \in Families /\ \E s \in Rows, r \in Rows : Store(s, r)
       \/ "rowop" \in Families /\ \E fld \in {"f", "m"}, r \in Rows : ClearRow(fld, r)
    /\ NoNoops => hist'[Len(hist')].post # State

Spec == Init /\ [][Next]_vars

----------------------------------------------------------------------------
\* sanity of the semantics (checked on every generated state)
MutexOK == \A p \in m, q \in m : p[2] = q[2] => p[1] = q[1]
ValueFn == \A p \in v, q \in v : p[1] = q[1] => p[2] = q[2]
KeysOK  == /\ \A i, j \in 1..Len(ck) : ck[i] = ck[j] => i = j
           /\ \A i, j \in 1..Len(rk) : rk[i] = rk[j] => i = j
           /\ \A b \in kf : b[1] \in 1..Len(rk) /\ b[2] \in 1..Len(ck)

Emit == Len(hist) = Depth => PrintT(<<"BEH", ToJson(hist)>>)
=============================================================================
