CONSTANTS
  QSet = {"Y","YM","YMD","YMDH","M","MD","MDH","D","DH","H"}
  Gen = FALSE
INIT Init
NEXT Next
INVARIANT CalendarAgrees
INVARIANT BoundsAligned
INVARIANT SpecCoverOK
INVARIANT ReadsExactly
VIEW MView
CHECK_DEADLOCK FALSE
