CONSTANTS
  Ids = {99,100}
  AKeys = {"a"}
  Vals = {"i:1"}
  Stores = {1,2}
  Ops = {"SetAttrs","Blocks","BlockData","Diff"}
  MaxUpd = 1
  MaxBulk = 2
  ProbeBlocks = {0}
  Depth = 4
  CopyOnRead = TRUE
  InitModes = {"empty"}
  InitIds = {99,100}
  InitVal = "i:1"
  Sample = FALSE
INIT Init
NEXT Next
INVARIANT Emit
CHECK_DEADLOCK FALSE
