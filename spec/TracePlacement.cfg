CONSTANTS
  PartN = 256
  MaxRep = 9
  MCIds <- MCIds4
INIT TInit
NEXT TNext
POSTCONDITION Accepted
CHECK_DEADLOCK FALSE
