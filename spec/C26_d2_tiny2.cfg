CONSTANTS
  Mode = "parse"
  Level = "tiny"
  Depth = 9
  MaxNest = 2
  MaxCalls = 1
  MaxKw = 1
  MaxCh = 2
INIT Init
NEXT Next
INVARIANT TypeOK
INVARIANT WellFormed
INVARIANT BtwcLaw
INVARIANT Emit
CHECK_DEADLOCK FALSE
