CONSTANTS
  CYears = {2018,2019}
  CMonths = {1,2}
  CDays = {1,2}
  CHours = {0,1}
  CQuanta = {"Y","YM","YMD","YMDH","M","MD","MDH","D","DH","H"}
  NSV = {FALSE}
  Variant = "fixed"
  Order = "code"
  MaxT = 2
  MaxS = 1
  MaxClr = 1
  MaxPlain = 0
  Vias = {"set"}
  Depth = 0
  Gen = FALSE
INIT Init
NEXT Next
INVARIANT ClearedEverywhere
INVARIANT ParentsHold
INVARIANT StdTruth
INVARIANT BndsAligned
VIEW MView
CHECK_DEADLOCK FALSE
