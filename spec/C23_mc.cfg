INIT Init
NEXT Next
INVARIANT RefusedWhileNotServing
INVARIANT AdmittedWhileServing
INVARIANT OnlyResizeClassesServed
INVARIANT TablesAgree
CHECK_DEADLOCK FALSE
