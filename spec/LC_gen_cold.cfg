SPECIFICATION SpecG
CONSTANTS
  Nodes = {"a", "b", "c"}
  Coord0 = "a"
  InitTopo = {"a", "b", "c"}
  ReplicaN = 2
  HasData = TRUE
  Script <- ScriptNone
  Depth = 7
  MaxStop = 1
  MaxDup = 1
  MaxSetCoord = 0
  MaxRemove = 0
  MaxFalse = 1
  MaxNoop = 1
  Variant = "code"
CHECK_DEADLOCK FALSE
INVARIANTS
  Emit
  EmitViol
