CONSTANTS
  Members = {"n0","n1","n2"}
  Coord = "n0"
  Joiners = {"n3"}
  Leavers = {"n1","n2","n3"}
  Rejoiners = {"n1","n2"}
  Profile = "table"
  Variant = "fixed"
  Gran = "fine"
  MaxJobs = 8
  MaxQueue = 10
  BJoin = 1000000
  BRejoin = 1000000
  BLeave = 1000000
  BDup = 0
  BErr = 0
  BUnknown = 0
  BAbort = 1000000
  BSendFail = 1000000
  Depth = 0
  Locks = FALSE
  HandlerReadsState = FALSE
INIT TInit
NEXT TNext
POSTCONDITION Accepted
CHECK_DEADLOCK FALSE
