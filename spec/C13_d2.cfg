CONSTANTS
  NRows = 3
  NCols = 2
  Kinds = {"mutex", "bool"}
  MaxBatch = 2
  MaxClearBatch = 1
  Ops = {"Set", "Clear", "Import", "ClearImport", "ClearRow"}
  Inits = "all"
  Depth = 2
INIT Init
NEXT Next
INVARIANTS Emit TypeOK AtMostOnePerColumn LastWriterWins
CHECK_DEADLOCK FALSE
