CONSTANTS
  Indexes = {"i"}
  IVariants = {"plain","keys"}
  Fields = {"a"}
  FVariants = {"set_ranked","time_YMD"}
  TimeVars = {"time_YMD","time_D_nsv"}
  NodesAt = {0, 1}
  Depth = 0
  ApplyDrops = FALSE
INIT Init
NEXT Next
INVARIANT SchemaAgreement
PROPERTY WholeIsNoop
CHECK_DEADLOCK FALSE
