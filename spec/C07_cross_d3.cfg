CONSTANTS
  Kind = "set"
  Rows = {99, 100}
  Cols = {0, 3}
  Ops = {"Row","RoaringSet","RoaringClear","SetBit","ClearBit","BulkClear","Snapshot","Reopen"}
  Scope = "small"
  Depth = 3
  ShapeName = "free"
  InitMode = "empty"
  MaxOpNs = {"huge"}
  Provs = {"ops"}
  RowInval = {"setBit","clearBit","setRow","clearRow","bulk","bulkMutex","roaring","setValue","clearValue","importValue"}
  CkInval = {"setBit","clearBit","setRow","clearRow","bulk","bulkMutex","roaring","setValue","clearValue","importValue"}
INIT Init
NEXT Next
INVARIANT TypeOK
INVARIANT ReadsReflectWrites
INVARIANT ChecksumFresh
INVARIANT Emit
CHECK_DEADLOCK FALSE
