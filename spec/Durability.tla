----------------------------- MODULE Durability -----------------------------
(***************************************************************************)
(* C09 - implementation level: one action per SYSCALL of each write path   *)
(* of pilosa's storage (DESIGN.md Appendix B), the kill at any point, and  *)
(* what fragment.Open / TranslateFile.Open make of the files afterwards.   *)
(*                                                                         *)
(* A fragment file is  snapshot ++ op log.  A write changes the in-memory  *)
(* bitmap and appends entries to the op log (AppendOp = one write(2));     *)
(* when more than MaxOpN bits changed since the last snapshot, or after a  *)
(* row operation (Store / ClearRow change memory only), a snapshot is      *)
(* queued; the snapshot worker, holding the fragment's mutex, writes the   *)
(* whole bitmap to <file>.snapshotting (CreateSnapTmp, WriteSnapChunk) and *)
(* renames it over the file (RenameSnap).  Key translation appends one     *)
(* entry per batch of new keys through a 4 KB buffered writer: an entry    *)
(* larger than the buffer reaches the file in several writes               *)
(* (TranslateWrite), then fsync (TranslateSync).  Integer fields rewrite   *)
(* the field's .meta through <field>.temp + rename when the bit depth      *)
(* grows.                                                                  *)
(*                                                                         *)
(* Code anchors: AppendOp* = roaring.op.WriteTo via Bitmap.writeOp;        *)
(* ApplyRow = fragment.unprotectedSetRow/ClearRow, importValue (large);    *)
(* CreateSnapTmp..RenameSnap = unprotectedWriteToFragment run by           *)
(* snapshotQueueWorker; TranslateWrite/Sync = TranslateFile.appendEntry;   *)
(* *MetaTmp/RenameMeta = Field.saveMeta; Recover = fragment.openStorage -> *)
(* Bitmap.unmarshalPilosaRoaring and TranslateFile.replayEntries.          *)
(*                                                                         *)
(* The four repairs made in /repo are switches, so that the model of the  *)
(* code as found (all TRUE) and of the code as it is now (all FALSE) can   *)
(* both be checked:                                                        *)
(*   TornTailFails    a file ending inside its last entry makes Open fail  *)
(*                    (now: the partial entry is cut off)                  *)
(*   RoaringTwoWrites a roaring op is appended as header + payload writes  *)
(*                    (now: one write)                                     *)
(*   RowOpAsync       Store/ClearRow are acknowledged before the queued    *)
(*                    snapshot ran (now: they wait for it)                 *)
(* (SnapTmpTruncated = FALSE is not a state the code was found in: it      *)
(* models a snapshot temp file opened without O_TRUNC, to show that the    *)
(* invariants are checked across Crash/Recover epochs: a leftover of one   *)
(* epoch must not reach the data file in the next.)                        *)
(*   MultiSeparateWrites  the entries of a multi / batch2 write are        *)
(*                    appended one write(2) each (now: fragment.bufferOps  *)
(*                    appends them all with a single write)                *)
(*                                                                         *)
(* Write kinds (what one API call does to the fragments it changes):       *)
(*   bit     one entry per fragment                  Set/Clear, bulk import*)
(*   multi   one single-bit entry per changed bit, in bit order, all under *)
(*           the fragment mutex                Set(int), Set on mutex field*)
(*   batch2  an add-batch entry, then a remove-batch entry                 *)
(*                                  small value import, mutex bulk import  *)
(*   roaring one roaring entry (header + payload)         roaring import   *)
(*   rowop   memory only + queued snapshot                 Store, ClearRow *)
(*   large   memory only + queued snapshot, always awaited                 *)
(*                                                     large value import  *)
(*   A write may first allocate keys (translate phase) and may rewrite the *)
(*   field meta.                                                           *)
(*                                                                         *)
(* Contentless = TRUE drops every guard and effect that depends on bitmap  *)
(* contents (Bits = {}), leaving the protocol skeleton: that is what       *)
(* TraceDurability.tla validates recorded syscall sequences against.       *)
(***************************************************************************)
EXTENDS Integers, Sequences, FiniteSets, TLC

CONSTANTS Frags,            \* fragment files (one per field/view/shard)
          Bits,             \* abstract bits of a fragment (integers)
          MaxWrites,        \* bound on the number of writes in a behaviour
          MaxOpN,           \* snapshot threshold
          Kinds,            \* enabled write kinds
          KeyChunks,        \* writes needed for one translate entry
          CutClasses,       \* where a write boundary can fall in a translate entry (inside a
                            \* key, between two pairs, after an id varint, after a key-size
                            \* varint, ...: DurabilityHist.tla BigCuts)
          UnrecognisedCuts, \* classes at which replayEntries does NOT recognise the partial
                            \* entry as a torn tail ({} now; hypothetical otherwise)
          TornTailFails, RoaringTwoWrites, RowOpAsync, MultiSeparateWrites,
          SnapTmpTruncated, \* CreateSnapTmp opens <file>.snapshotting with O_TRUNC (os.Create)
          Contentless,
          NoOpnSnapshot     \* (Contentless only) TRUE: MaxOpN is never exceeded (the default 10000)

NoEntry == [add |-> {}, rem |-> {}]
\* "no write in flight" (a record, so that it compares with write records)
NoWrite == [kind |-> "none", frags |-> {}, budget |-> [f \in Frags |-> 0], meta |-> {}, phase |-> "idle"]

VARIABLES
    mem,      \* [Frags -> SUBSET Bits]   in-memory bitmap
    snap,     \* [Frags -> SUBSET Bits]   snapshot section of the file
    log,      \* [Frags -> Seq(entry)]    complete op log entries of the file
    torn,     \* [Frags -> BOOLEAN]       the file ends with a partial entry
    tmp,      \* [Frags -> {"none","partial","full"}]  the .snapshotting file
    tmpc,     \* [Frags -> SUBSET Bits]   bitmap being written to it
    opn,      \* [Frags -> 0..MaxOpN+1]   bits changed since the last snapshot (saturating)
    sq,       \* [Frags -> {"idle","queued","created","written"}]  snapshot request / worker pc
              \*   (+ "maybe" in contentless mode: a request may have been made)
    kdisk,    \* complete entries in the translate file
    ktorn,    \* the translate file ends with a partial entry
    kpart,    \* chunks of the entry in progress already written
    kcut,     \* class of the position at which the partial entry ends ("none": no partial entry)
    mtmp,     \* {"none","created","written"}  the <field>.temp file
    infl,     \* the write in flight: NoWrite or [kind, frags, budget, meta, phase]
    done,     \* [Frags -> Nat]           entries appended by the write in flight
    hdr,      \* [Frags -> BOOLEAN]       roaring header written, payload not yet
    rowed,    \* SUBSET Frags             fragments changed in memory only by the write in flight
    acked,    \* [Frags -> SUBSET Bits]   ghost: content according to all acknowledged writes
    goal,     \* [Frags -> SUBSET Bits]   ghost: acked, or that plus the write in flight
    akeys, gkeys, \* ghost: translate entries acknowledged / plus the write in flight
    nw,       \* writes begun
    pc,       \* "run" | "crashed" | "failed"  (failed: the restart did not succeed)
    rec,      \* [Frags -> SUBSET Bits]   what the last restart read
    reck      \* translate entries the last restart read

fvars == <<mem, snap, log, torn, tmp, tmpc, opn, sq>>
kvars == <<kdisk, ktorn, kpart, kcut>>
wvars == <<infl, done, hdr, rowed>>
gvars == <<acked, goal, akeys, gkeys>>
vars  == <<fvars, kvars, mtmp, wvars, gvars, nw, pc, rec, reck>>
Active == infl.kind # "none"

Min(a, b) == IF a < b THEN a ELSE b
Least(S) == CHOOSE b \in S : \A c \in S : b <= c

\* ---- what a restart makes of the files --------------------------------------------
RECURSIVE ApplyLog(_, _)
ApplyLog(s, l) == IF l = << >> THEN s ELSE ApplyLog((s \cup Head(l).add) \ Head(l).rem, Tail(l))

Parse(f)    == ApplyLog(snap[f], log[f])          \* complete entries; .snapshotting is never read
ParseOK(f)  == ~(torn[f] /\ TornTailFails)
KParseOK    == ~(ktorn /\ (TornTailFails \/ kcut \in UnrecognisedCuts))

Init ==
    /\ mem = [f \in Frags |-> {}] /\ snap = [f \in Frags |-> {}] /\ log = [f \in Frags |-> << >>]
    /\ torn = [f \in Frags |-> FALSE] /\ tmp = [f \in Frags |-> "none"] /\ tmpc = [f \in Frags |-> {}]
    /\ opn = [f \in Frags |-> 0] /\ sq = [f \in Frags |-> "idle"]
    /\ kdisk = 0 /\ ktorn = FALSE /\ kpart = 0 /\ kcut = "none" /\ mtmp = "none"
    /\ infl = NoWrite /\ done = [f \in Frags |-> 0] /\ hdr = [f \in Frags |-> FALSE] /\ rowed = {}
    /\ acked = [f \in Frags |-> {}] /\ goal = [f \in Frags |-> {}] /\ akeys = 0 /\ gkeys = 0
    /\ nw = 0 /\ pc = "run" /\ rec = [f \in Frags |-> {}] /\ reck = 0

\* ---- the write in flight -----------------------------------------------------------
AppendKinds == {"bit", "multi", "batch2"}
RowKinds    == {"rowop", "large"}

Budget(kind) ==
    CASE kind = "bit"     -> 1
      [] kind = "multi"   -> IF ~MultiSeparateWrites THEN 1 ELSE IF Contentless THEN 16 ELSE Cardinality(Bits)
      [] kind = "batch2"  -> IF ~MultiSeparateWrites THEN 1 ELSE 2
      [] kind = "roaring" -> 1
      [] OTHER            -> 0

\* Begin: an API call starts. frs = the fragments it changes, tgt = their contents after
\* it, key = TRUE when it first allocates a translation key, budget = op-log entries it may
\* append per fragment, mfr = fragments of an int field whose meta it may rewrite first.
Begin(kind, frs, tgt, key, budget, mfr) ==
    /\ pc = "run" /\ ~Active /\ nw < MaxWrites /\ kind \in Kinds
    /\ frs # {} /\ frs \subseteq Frags
    /\ Contentless \/ (/\ \A f \in frs : tgt[f] # mem[f]
                       /\ \A f \in Frags \ frs : tgt[f] = mem[f]
                       /\ kind = "roaring" => \A f \in frs : mem[f] \subseteq tgt[f]
                       /\ kind \in {"multi", "batch2", "roaring"} => Cardinality(frs) = 1)
    /\ infl' = [kind |-> kind, frags |-> frs, budget |-> budget, meta |-> mfr,
                phase |-> IF key THEN "translate" ELSE "data"]
    /\ goal' = tgt /\ gkeys' = akeys + (IF key THEN 1 ELSE 0)
    /\ done' = [f \in Frags |-> 0] /\ hdr' = [f \in Frags |-> FALSE] /\ rowed' = {}
    /\ nw' = nw + 1
    /\ UNCHANGED <<fvars, kvars, mtmp, acked, akeys, pc, rec, reck>>

InData == Active /\ infl.phase = "data"
Free(f) == sq[f] \notin {"created", "written"}       \* the snapshot worker does not hold f's mutex

Entry(f) ==
    IF Contentless THEN NoEntry
    ELSE CASE infl.kind = "multi" /\ MultiSeparateWrites ->
                LET b == Least((goal[f] \ mem[f]) \cup (mem[f] \ goal[f]))
                IN IF b \in goal[f] THEN [add |-> {b}, rem |-> {}] ELSE [add |-> {}, rem |-> {b}]
           [] infl.kind = "batch2" /\ MultiSeparateWrites ->
                IF goal[f] \ mem[f] # {} THEN [add |-> goal[f] \ mem[f], rem |-> {}]
                                         ELSE [add |-> {}, rem |-> mem[f] \ goal[f]]
           [] OTHER -> [add |-> goal[f] \ mem[f], rem |-> mem[f] \ goal[f]]

\* the bookkeeping every appended entry does: opN and, above MaxOpN, the snapshot request
Bump(f, e) ==
    LET n == Min(opn[f] + Cardinality(e.add \cup e.rem), MaxOpN + 1)
    IN /\ opn' = [opn EXCEPT ![f] = n]
       \* contentless: whether the threshold was crossed is not known; "maybe" lets a
       \* snapshot of f start later without forcing one
       /\ sq' = IF sq[f] # "idle" THEN sq
                ELSE IF Contentless
                     THEN (IF NoOpnSnapshot THEN sq ELSE [sq EXCEPT ![f] = "maybe"])
                     ELSE (IF n > MaxOpN THEN [sq EXCEPT ![f] = "queued"] ELSE sq)

\* one write(2) appending one complete op log entry (or, for multi / batch2 writes as they
\* are now, all entries of the write: replay applies them in order, the net effect is the
\* difference between the old and the new content)
AppendOp(f) ==
    /\ pc = "run" /\ InData /\ f \in infl.frags /\ Free(f) /\ ~hdr[f]
    /\ infl.kind \in AppendKinds \cup {"large"} \/ (infl.kind = "roaring" /\ ~RoaringTwoWrites)
    /\ done[f] < infl.budget[f]                  \* (a large value import still appends to the existence fragment)
    /\ Contentless \/ mem[f] # goal[f]
    /\ LET e == Entry(f)
       IN /\ mem' = [mem EXCEPT ![f] = (mem[f] \cup e.add) \ e.rem]
          /\ log' = IF Contentless THEN log ELSE [log EXCEPT ![f] = Append(log[f], e)]
          /\ Bump(f, e)
    /\ done' = [done EXCEPT ![f] = done[f] + 1]
    /\ UNCHANGED <<snap, torn, tmp, tmpc, kvars, mtmp, infl, hdr, rowed, gvars, nw, pc, rec, reck>>

\* a roaring op as found: 17-byte header (with the checksum over the payload) ...
AppendOpHeader(f) ==
    /\ pc = "run" /\ InData /\ f \in infl.frags /\ Free(f)
    /\ infl.kind = "roaring" /\ RoaringTwoWrites /\ ~hdr[f] /\ done[f] < infl.budget[f]
    /\ Contentless \/ mem[f] # goal[f]
    /\ hdr' = [hdr EXCEPT ![f] = TRUE] /\ torn' = [torn EXCEPT ![f] = TRUE]
    /\ UNCHANGED <<mem, snap, log, tmp, tmpc, opn, sq, kvars, mtmp, infl, done, rowed, gvars, nw, pc, rec, reck>>

\* ... then the payload in a second write
AppendOpPayload(f) ==
    /\ pc = "run" /\ InData /\ f \in infl.frags /\ hdr[f]
    /\ LET e == Entry(f)
       IN /\ mem' = [mem EXCEPT ![f] = (mem[f] \cup e.add) \ e.rem]
          /\ log' = IF Contentless THEN log ELSE [log EXCEPT ![f] = Append(log[f], e)]
          /\ Bump(f, e)
    /\ hdr' = [hdr EXCEPT ![f] = FALSE] /\ torn' = [torn EXCEPT ![f] = FALSE]
    /\ done' = [done EXCEPT ![f] = done[f] + 1]
    /\ UNCHANGED <<snap, tmp, tmpc, kvars, mtmp, infl, rowed, gvars, nw, pc, rec, reck>>

\* Store / ClearRow / large value import: the bitmap changes in memory only and a
\* snapshot is requested (no syscall)
ApplyRow(f) ==
    /\ pc = "run" /\ InData /\ f \in infl.frags \ rowed /\ Free(f)
    /\ infl.kind \in RowKinds
    /\ Contentless \/ mem[f] # goal[f]
    /\ mem' = [mem EXCEPT ![f] = goal[f]]
    /\ sq' = IF sq[f] \in {"idle", "maybe"} THEN [sq EXCEPT ![f] = "queued"] ELSE sq
    /\ rowed' = rowed \cup {f}
    /\ UNCHANGED <<snap, log, torn, tmp, tmpc, opn, kvars, mtmp, infl, done, hdr, gvars, nw, pc, rec, reck>>

\* the field meta is rewritten (bit depth grows) before the first entry to / memory change
\* of the int field's fragments
MetaKinds == {"multi", "batch2", "large"}
NoEntryYet == infl.meta # {} /\ \A f \in infl.meta : done[f] = 0 /\ ~hdr[f] /\ f \notin rowed
CreateMetaTmp ==
    /\ pc = "run" /\ InData /\ infl.kind \in MetaKinds /\ NoEntryYet
    /\ mtmp \in {"none", "written"}            \* O_TRUNC of a leftover is fine
    /\ mtmp' = "created"
    /\ UNCHANGED <<fvars, kvars, wvars, gvars, nw, pc, rec, reck>>
WriteMetaTmp ==
    /\ pc = "run" /\ InData /\ mtmp = "created"
    /\ mtmp' = "written"
    /\ UNCHANGED <<fvars, kvars, wvars, gvars, nw, pc, rec, reck>>
RenameMeta ==
    /\ pc = "run" /\ InData /\ mtmp = "written" /\ infl.kind \in MetaKinds /\ NoEntryYet
    /\ mtmp' = "none"
    /\ UNCHANGED <<fvars, kvars, wvars, gvars, nw, pc, rec, reck>>

\* key translation: the entry goes out in KeyChunks writes, then fsync
TranslateWrite ==
    /\ pc = "run" /\ Active /\ infl.phase = "translate"
    /\ Contentless \/ kpart < KeyChunks
    /\ kpart' = Min(kpart + 1, KeyChunks)
    /\ IF Contentless THEN UNCHANGED <<kdisk, ktorn, kcut>>
       ELSE IF kpart' = KeyChunks THEN kdisk' = kdisk + 1 /\ ktorn' = FALSE /\ kcut' = "none"
            ELSE ktorn' = TRUE /\ kcut' \in CutClasses /\ UNCHANGED kdisk   \* the chunk ends at any class of position
    /\ UNCHANGED <<fvars, mtmp, wvars, gvars, nw, pc, rec, reck>>
TranslateSync ==
    /\ pc = "run" /\ Active /\ infl.phase = "translate"
    /\ IF Contentless THEN kpart >= 1 ELSE kpart = KeyChunks
    /\ kpart' = 0
    /\ \E p \in (IF Contentless THEN {"translate", "data"} ELSE {"data"}) :
          infl' = [infl EXCEPT !.phase = p]
    /\ UNCHANGED <<fvars, kdisk, ktorn, kcut, mtmp, done, hdr, rowed, gvars, nw, pc, rec, reck>>

\* the acknowledgement
Ack ==
    /\ pc = "run" /\ InData /\ mtmp # "created"
    /\ \A f \in Frags : ~hdr[f]
    /\ Contentless \/ mem = goal
    /\ infl.kind \in RowKinds => (rowed = infl.frags \/ Contentless)
    /\ (infl.kind = "rowop" /\ RowOpAsync) \/ \A f \in rowed : sq[f] = "idle"
    /\ infl' = NoWrite /\ rowed' = {}
    /\ acked' = goal /\ akeys' = gkeys
    /\ UNCHANGED <<fvars, kvars, mtmp, done, hdr, goal, gkeys, nw, pc, rec, reck>>

\* ---- the snapshot worker (holds the fragment's mutex from Create to Rename) ------------
\* it cannot take the mutex while the write in flight is inside its critical section on f
InCritical(f) == Active /\ infl.phase = "data" /\ f \in infl.frags
                 /\ (hdr[f] \/ (~Contentless /\ infl.kind \in AppendKinds /\ done[f] > 0 /\ mem[f] # goal[f]))
CreateSnapTmp(f) ==
    /\ pc = "run" /\ sq[f] \in {"queued", "maybe"} /\ ~InCritical(f)
    \* a .snapshotting file left by a snapshot that a kill interrupted in an earlier epoch
    \* is still there (Recover does not remove it): without O_TRUNC what it holds beyond
    \* the new, smaller snapshot survives and is renamed into the data file
    /\ tmp' = [tmp EXCEPT ![f] = "partial"]
    /\ tmpc' = [tmpc EXCEPT ![f] = IF SnapTmpTruncated \/ tmp[f] = "none" THEN mem[f] ELSE mem[f] \cup tmpc[f]]
    /\ sq' = [sq EXCEPT ![f] = "created"]
    /\ UNCHANGED <<mem, snap, log, torn, opn, kvars, mtmp, wvars, gvars, nw, pc, rec, reck>>
WriteSnapChunk(f) ==
    /\ pc = "run" /\ sq[f] \in {"created", "written"}
    /\ tmp' = [tmp EXCEPT ![f] = "full"]
    /\ sq' = [sq EXCEPT ![f] = "written"]
    /\ UNCHANGED <<mem, snap, log, torn, tmpc, opn, kvars, mtmp, wvars, gvars, nw, pc, rec, reck>>
RenameSnap(f) ==
    /\ pc = "run" /\ sq[f] = "written"
    /\ snap' = [snap EXCEPT ![f] = tmpc[f]] /\ log' = [log EXCEPT ![f] = << >>]
    /\ torn' = [torn EXCEPT ![f] = FALSE]
    /\ tmp' = [tmp EXCEPT ![f] = "none"] /\ opn' = [opn EXCEPT ![f] = 0]
    /\ sq' = [sq EXCEPT ![f] = "idle"]
    /\ UNCHANGED <<mem, tmpc, kvars, mtmp, wvars, gvars, nw, pc, rec, reck>>

\* ---- the kill and the next start ------------------------------------------------------
\* the write in flight stays as far as it got: what the files hold now is the new baseline
\* (DurabilityAbs!Crash)
Crash ==
    /\ pc = "run"
    /\ pc' = "crashed"
    /\ acked' = [f \in Frags |-> Parse(f)] /\ goal' = [f \in Frags |-> Parse(f)]
    /\ akeys' = kdisk /\ gkeys' = kdisk
    /\ UNCHANGED <<fvars, kvars, mtmp, wvars, nw, rec, reck>>

\* fragment.Open / TranslateFile.Open: parse every file; a partial last entry is an error
\* (as found) or is cut off (now). Leftover .snapshotting / .temp files stay where they are.
Recover ==
    /\ pc = "crashed"
    /\ IF (\A f \in Frags : ParseOK(f)) /\ KParseOK
       THEN /\ pc' = "run"
            /\ rec' = [f \in Frags |-> Parse(f)] /\ reck' = kdisk
            /\ mem' = [f \in Frags |-> Parse(f)]
            /\ torn' = [f \in Frags |-> FALSE] /\ ktorn' = FALSE /\ kpart' = 0 /\ kcut' = "none"
            /\ opn' = [f \in Frags |-> Min(Len(log[f]), MaxOpN + 1)]
            /\ sq' = [f \in Frags |-> "idle"]
            /\ infl' = NoWrite /\ done' = [f \in Frags |-> 0] /\ hdr' = [f \in Frags |-> FALSE] /\ rowed' = {}
            /\ UNCHANGED <<snap, log, tmp, tmpc, kdisk, mtmp, gvars, nw>>
       ELSE /\ pc' = "failed"
            /\ UNCHANGED <<fvars, kvars, mtmp, wvars, gvars, nw, rec, reck>>

\* ---- next-state relation for (M): every kind, every target ----------------------------
KindBudget(kind) == [f \in Frags |-> Budget(kind)]

Next ==
    \/ \E kind \in Kinds, frs \in SUBSET Frags, tgt \in [Frags -> SUBSET Bits], key \in BOOLEAN :
          Begin(kind, frs, tgt, key, KindBudget(kind), IF kind \in MetaKinds THEN frs ELSE {})
    \/ \E f \in Frags : \/ AppendOp(f) \/ AppendOpHeader(f) \/ AppendOpPayload(f) \/ ApplyRow(f)
                        \/ CreateSnapTmp(f) \/ WriteSnapChunk(f) \/ RenameSnap(f)
    \/ CreateMetaTmp \/ WriteMetaTmp \/ RenameMeta
    \/ TranslateWrite \/ TranslateSync
    \/ Ack \/ Crash \/ Recover

Spec == Init /\ [][Next]_vars

\* ---- the property, stated on every reachable state = every possible kill point --------
\* (what a restart would make of the files as they are now)

RestartSucceeds == pc # "failed" /\ (\A f \in Frags : ParseOK(f)) /\ KParseOK

\* with nothing in flight for a fragment, it holds exactly the acknowledged content
AckedDurable ==
    pc = "run" =>
      /\ \A f \in Frags : acked[f] = goal[f] => Parse(f) = acked[f]
      /\ akeys = gkeys => kdisk = akeys

\* of the write in flight each fragment holds none or all of its changes
InflightAtomicPerShard ==
    pc = "run" =>
      /\ \A f \in Frags : Parse(f) \in {acked[f], goal[f]}
      /\ kdisk \in {akeys, gkeys}

\* a restart reads the data files only: whatever .snapshotting / .temp files an interrupted
\* snapshot or meta rewrite left behind, its result is the parse of snapshot ++ op log
LeftoversIgnored ==
    [][(pc = "crashed" /\ pc' = "run") =>
          /\ rec' = [f \in Frags |-> ApplyLog(snap[f], log[f])]
          /\ reck' = kdisk]_vars

TypeOK ==
    /\ mem \in [Frags -> SUBSET Bits] /\ snap \in [Frags -> SUBSET Bits]
    /\ torn \in [Frags -> BOOLEAN] /\ tmp \in [Frags -> {"none", "partial", "full"}]
    /\ opn \in [Frags -> 0..(MaxOpN + 1)] /\ sq \in [Frags -> {"idle", "maybe", "queued", "created", "written"}]
    /\ kpart \in 0..KeyChunks /\ kcut \in CutClasses \cup {"none"} /\ mtmp \in {"none", "created", "written"}
    /\ pc \in {"run", "crashed", "failed"} /\ nw \in 0..MaxWrites

\* ---- refinement: every behaviour is a behaviour of the property machine ----------------
\* (the translate store is the unit "keys"; n entries are the content {101, .., 100+n})
Units == Frags \cup {"keys"}
KeySet(n) == {100 + i : i \in 1..n}
Abs == INSTANCE DurabilityAbs WITH
          Units    <- Units,
          Contents <- SUBSET (Bits \cup KeySet(MaxWrites + 1)),
          Init0    <- [u \in Units |-> {}],
          durable  <- [u \in Units |-> IF u = "keys" THEN KeySet(kdisk) ELSE Parse(u)],
          pre      <- [u \in Units |-> IF u = "keys" THEN KeySet(akeys) ELSE acked[u]],
          post     <- [u \in Units |-> IF u = "keys" THEN KeySet(gkeys) ELSE goal[u]],
          up       <- (pc = "run"),
          seen     <- [u \in Units |-> IF u = "keys" THEN KeySet(reck) ELSE rec[u]],
          garbage  <- {f \in Frags : tmp[f] # "none"}

\* safety part of the refinement, checked as an action property
RefinesAbs == [][Abs!ANext \/ UNCHANGED Abs!avars]_vars
=============================================================================
