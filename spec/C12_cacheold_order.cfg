CONSTANTS
  NRows = 3
  NCols = 2
  Kinds = {"lru"}
  Sizes = {2}
  Mutexes = {TRUE}
  FixDelta = TRUE
  FixBelow = TRUE
  FixTomb = TRUE
  FixZeroFirst = FALSE
INIT Init
NEXT Next
INVARIANTS IdsExact NoGarbage TopNComplete LruShape
CHECK_DEADLOCK FALSE
