CONSTANTS
  Indexes = {"i"}
  IVariants = {"plain"}
  Fields = {"a"}
  FVariants = {"time_YMD"}
  TimeVars = {"time_YMD","time_D_nsv"}
  NodesAt = {0, 1}
  Depth = 0
  ApplyDrops = TRUE
INIT Init
NEXT Next
INVARIANT SchemaAgreement
CHECK_DEADLOCK FALSE
