---------------------------- MODULE RoaringC01 ----------------------------
(***************************************************************************)
(* C01 - every read and every set operation of roaring.Bitmap returns what *)
(* the same read/operation on the mathematical set returns.                *)
(*                                                                         *)
(* A behaviour is: pick operands A, B, C (any subsets of U) and how each is *)
(* built (provenance: fresh AddN, optimized, decoded from Pilosa bytes,     *)
(* decoded from official bytes, memory-mapped, frozen; container collection *)
(* slice or B-tree), then perform ONE read or operation.  The expected      *)
(* result is defined in RoaringOps.  TLC enumerates all behaviours (BFS) or *)
(* samples them (-simulate); the harness replays each into the real code    *)
(* under several gamma profiles.                                            *)
(***************************************************************************)
EXTENDS RoaringOps, TLC, Json

CONSTANTS Provs,    \* provenance tags (strings)
          Family    \* which operation family this run enumerates:
                    \* "read" | "range" | "binary" | "nary" | "shiftflip"

VARIABLES A, B, C, provA, provB, hist

vars == <<A, B, C, provA, provB, hist>>

Init ==
    /\ A \in SUBSET U
    /\ B \in IF Family \in {"binary", "nary"} THEN SUBSET U ELSE {{}}
    /\ C \in IF Family = "nary" THEN SUBSET U ELSE {{}}
    /\ provA \in Provs
    /\ provB \in IF Family \in {"binary", "nary"} THEN Provs ELSE {"fresh"}
    /\ hist = << >>

Step(op, args, rs, rb, re) ==
    /\ hist' = Append(hist, [op |-> op, args |-> args, rs |-> rs, rb |-> rb, re |-> re,
                             A |-> A, B |-> B, C |-> C, provA |-> provA, provB |-> provB])
    /\ UNCHANGED <<A, B, C, provA, provB>>

\* ---- point reads and whole-set reads
Reads ==
    \/ \E x \in U : Step("Contains", <<x>>, {}, RContains(A, x), None)
    \/ Step("Count", << >>, RCount(A), FALSE, None)
    \/ Step("Slice", << >>, RSlice(A), FALSE, None)
    \/ Step("ForEach", << >>, RSlice(A), FALSE, None)
    \/ Step("Min", << >>, {}, A # {}, RMin(A))
    \/ Step("Max", << >>, {}, FALSE, RMax(A))
    \/ Step("Any", << >>, {}, RAny(A), None)
    \/ Step("Clone", << >>, A, FALSE, None)
    \/ Step("Freeze", << >>, A, FALSE, None)
    \/ Step("ContainerViews", << >>, A, FALSE, None)

\* ---- range reads over every pair of cut points lo <= hi
Ranges ==
    \/ \E lo \in Cuts : \E hi \in lo..(K*M) :
         \/ Step("CountRange", <<lo, hi>>, RCountRange(A, lo, hi), FALSE, None)
         \/ Step("SliceRange", <<lo, hi>>, RSliceRange(A, lo, hi), FALSE, None)
         \/ Step("ForEachRange", <<lo, hi>>, RSliceRange(A, lo, hi), FALSE, None)
    \/ \E lo \in Cuts : Step("Seek", <<lo>>, RSeek(A, lo), FALSE, None)
    \/ \E kl \in KCuts : \E kh \in kl..K : \E off \in 0..1 :
         Step("OffsetRange", <<off, kl, kh>>, ROffsetRange(A, kl, kh), FALSE, None)

\* ---- binary operations
Binary ==
    \/ Step("Intersect", << >>, OIntersect(A, B), FALSE, None)
    \/ Step("IntersectionCount", << >>, OIntersect(A, B), FALSE, None)
    \/ Step("Union", << >>, OUnion(A, B), FALSE, None)
    \/ Step("UnionInPlace", << >>, OUnion(A, B), FALSE, None)
    \/ Step("Difference", << >>, ODifference(A, B), FALSE, None)
    \/ Step("Xor", << >>, OXor(A, B), FALSE, None)

\* ---- n-ary union (A with B and C; and with a repeated operand)
Nary ==
    \/ Step("Union3", << >>, OUnion(OUnion(A, B), C), FALSE, None)
    \/ Step("UnionInPlace3", << >>, OUnion(OUnion(A, B), C), FALSE, None)
    \/ Step("UnionInPlaceDup", << >>, OUnion(A, B), FALSE, None)   \* others = B, B
    \/ Step("Union0", << >>, A, FALSE, None)                        \* no others

\* ---- shift and flip (replayed under window profiles: gamma(i) = {base + i})
ShiftFlip ==
    \/ Step("Shift", << >>, OShift(A), FALSE, None)
    \/ \E lo \in U : \E hi \in lo..(K*M - 1) :
         Step("Flip", <<lo, hi>>, OFlip(A, lo, hi), FALSE, None)

Next ==
    /\ Len(hist) < 1
    /\ \/ Family = "read"      /\ Reads
       \/ Family = "range"     /\ Ranges
       \/ Family = "binary"    /\ Binary
       \/ Family = "nary"      /\ Nary
       \/ Family = "shiftflip" /\ ShiftFlip

Spec == Init /\ [][Next]_vars

\* ---- (M) sanity of the reference semantics itself, checked by TLC on every state
TypeOK == A \subseteq U /\ B \subseteq U /\ C \subseteq U

SemanticsLaws ==
    /\ OXor(A, B) = OUnion(A, B) \ OIntersect(A, B)
    /\ ODifference(A, B) \cap B = {}
    /\ \A lo \in Cuts : RCountRange(A, lo, K*M) = RSeek(A, lo)
    /\ RCountRange(A, 0, K*M) = A
    /\ (A # {} => RMin(A) \in A /\ RMax(A) \in A)
    /\ ROffsetRange(A, 0, K) = A

\* ---- behaviour emission (binding A)
Emit == Len(hist) = 1 => PrintT(<<"BEH", ToJson(hist)>>)
=============================================================================
