CONSTANTS
  Nodes = {0, 1, 2, 3}
  Shards = {0, 1}
  Classes = {"set","exists"}
  Rs = {1, 2}
  N0s = {2, 3}
  Depth = 0
  CopyAll = TRUE
INIT Init
NEXT Next
INVARIANT OwnersHoldAll
INVARIANT NothingLost
INVARIANT AvailExact
PROPERTY ResizeKeepsData
CHECK_DEADLOCK FALSE
