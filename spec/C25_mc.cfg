CONSTANTS
  Ids = {100}
  AKeys = {"a","b"}
  Vals = {"i:1"}
  Stores = {1,2}
  Ops = {"SetAttrs","SetBulkAttrs","Read","Reopen","CallerMutates"}
  MaxUpd = 1
  MaxBulk = 1
  ProbeBlocks = {0,1,2}
  Depth = 0
  CopyOnRead = TRUE
  InitModes = {"empty"}
  InitIds = {99,100}
  InitVal = "i:1"
  Sample = FALSE
INIT Init
NEXT Next
INVARIANT TypeOK
INVARIANT NoLeak
INVARIANT OnlyTouched
INVARIANT RelLaws
INVARIANT Partition
VIEW mview
CHECK_DEADLOCK FALSE
