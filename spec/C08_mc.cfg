CONSTANTS
  Family = {"bool"}
  IndexCfgsSel = "plain"
  Depth = 3
  MaxRestarts = 2
  Classes = {"data", "attr", "aux", "schema", "restart"}
  Sample = FALSE
INIT Init
NEXT Next
INVARIANT TypeOK
PROPERTY RestartIsIdentity
VIEW MCView
CHECK_DEADLOCK FALSE
