CONSTANTS
  NS = {"c","r"}
  NK = 2
  BatchSet = "mc"
  Callers = {1,2}
  Ops = {"TRead","Translate","Restart","RApply","RRecv","RReassign","RStop","RResume","RCut"}
  Depth = 0
  Recheck = TRUE
  DropInFlight = TRUE
  MaxSeq = 4
  MaxRestart = 2
  Sample = FALSE
INIT Init
NEXT Next
INVARIANT TypeOK
INVARIANT StableBijection
INVARIANT MapAgrees
INVARIANT ReverseOK
INVARIANT RestartStable
INVARIANT ReplicaConverges
INVARIANT StreamAligned
VIEW mview
CHECK_DEADLOCK FALSE
