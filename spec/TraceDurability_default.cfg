CONSTANTS
  TwoWrites = FALSE
  AsyncRow = FALSE
  NoOpnSnap = TRUE
INIT Init
NEXT Next
POSTCONDITION Accepted
CHECK_DEADLOCK FALSE
