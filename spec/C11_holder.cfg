SPECIFICATION Spec
CONSTANTS
  Ns = {3, 4}
  S = 4
INVARIANT OwnedRepaired
INVARIANT UnownedUntouched
INVARIANT OwnersAgree
INVARIANT Emit
CHECK_DEADLOCK FALSE
