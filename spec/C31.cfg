CONSTANTS
  Family = "c31"
  Rows = {0}
  NShards = 1
  Slots = 1
  Modes = {"unkeyed"}
  Targets = {"same"}
  Bufs = {0}
  MaxClear = 0
  Patterns = {0,1,2,3,4,5,6,7}
INIT Init
NEXT Next
INVARIANT C31Laws
INVARIANT Emit
CHECK_DEADLOCK FALSE
