------------------------------- MODULE Query -------------------------------
(***************************************************************************)
(* The query layer of Pilosa as seen through API.Query / API.Import*.      *)
(*                                                                         *)
(* Abstract data (one record `db`):                                        *)
(*   sets[fld][r]  set fields "f","g" (C15/C16) and "s" (C28): row -> cols  *)
(*   tb            time field "t": set of <<row, col, ts>>; ts = 0 is a bit *)
(*                 written without a timestamp (standard view only)         *)
(*   iv[c]         int field "v": value of column c or Null                 *)
(*   mx[fld][c]    mutex "m" / bool "b" (C28): the single row of column c   *)
(*                 or NoRow                                                 *)
(*   ex            columns written by Set / bulk import (existence)         *)
(* Columns are abstract elements 0..NCols-1; the harness refines them to    *)
(* concrete column ids straddling shard and container edges (order kept).   *)
(* When Window = TRUE abstract column i is refined to base + i (consecutive *)
(* ids), the shard (or container) edge lies between Edge-1 and Edge, and    *)
(* Shift is generated.                                                      *)
(*                                                                         *)
(* Mode "c15": a stack machine builds PQL bitmap expressions (postfix      *)
(*   programs); after every step the harness evaluates the expression on    *)
(*   top of the stack (and its Count) against the value computed here;      *)
(*   writes Set/Clear/ClearRow/Store/Import are interleaved.                *)
(* Mode "c16": Rows / GroupBy / MinRow / MaxRow calls with every argument   *)
(*   combination and paging loops (cursor) run to exhaustion.               *)
(* Mode "c28": abstract batch writes with a path assignment, and the query  *)
(*   alphabet whose answers must not depend on the path.                    *)
(*                                                                         *)
(* Two-level choice: a silent Select step picks an action class, the next   *)
(* step takes one action of that class and appends one record to hist.      *)
(* The last record of every behaviour is the deterministic "end" record     *)
(* carrying the whole abstract state (projected-state comparison).          *)
(***************************************************************************)
EXTENDS Integers, Sequences, FiniteSets, TLC, Json

CONSTANTS Mode,      \* "c15" | "c16" | "c28"
          NCols,     \* abstract columns 0..NCols-1
          Window,    \* TRUE: window refinement, Shift generated
          Edge,      \* window refinement: first abstract column of the next shard/container
          NRows,     \* abstract rows 1..NRows
          NT,        \* abstract time points 1..NT
          VAbs,      \* int field value range -VAbs..VAbs
          Exist,     \* index created with trackExistence
          Depth,     \* number of hist records per behaviour (incl. the final "end")
          MaxD,      \* maximal expression depth
          MaxArity,  \* maximal operator arity
          MaxStack,  \* maximal stack height
          MaxBatch,  \* maximal batch size of import actions
          MaxSeq,    \* maximal length of ordered write batches (mutex / value)
          InitAll,   \* 0: start empty; n > 0: Init enumerates all datasets of the first n of f[1], g[1], f[2]
          Warm,      \* the first Warm steps only load data (imports / sets)
          ClassSet,  \* action classes taken (a subset of the mode's classes)
          LeafKinds, \* C15 leaves generated: subset of {"row", "rowt", "cond", "empty"}
          Script     \* "none": free choice of classes; a named script fixes the class of each successive step

VARIABLES db, stack, cur, cls, sub, hist
vars == <<db, stack, cur, cls, sub, hist>>

Cols   == 0..(NCols - 1)
Rws    == 1..NRows
TS     == 1..NT
VMin   == 0 - VAbs
VMax   == VAbs
Vals   == VMin..VMax
Null   == VMin - 100
NoRow  == 0 - 1
SetFields == IF Mode = "c28" THEN {"s"} ELSE {"f", "g"}
MxFields  == {"m", "b"}
MxRows(fld) == IF fld = "b" THEN {0, 1} ELSE Rws

Max(a, b) == IF a > b THEN a ELSE b
Min(a, b) == IF a < b THEN a ELSE b

(***************************************************************************)
(* Reads of the abstract data                                              *)
(***************************************************************************)
RowOf(D, fld, r) ==
    IF fld \in DOMAIN D.sets THEN D.sets[fld][r]
    ELSE IF fld = "t" THEN {c \in Cols : \E ts \in 0..NT : <<r, c, ts>> \in D.tb}
    ELSE IF fld \in MxFields THEN {c \in Cols : D.mx[fld][c] = r}
    ELSE {}                                   \* field "e": exists, never written

\* columns of row r with a bit stamped in [a, b); a = 0 / b = 0 mean "omitted"
TimeRow(D, r, a, b) ==
    {c \in Cols : \E ts \in TS : /\ <<r, c, ts>> \in D.tb
                                 /\ (a = 0 \/ ts >= a)
                                 /\ (b = 0 \/ ts < b)}

CondHolds(o, val, x, y) ==
    CASE o = "<"  -> val < x
      [] o = "<=" -> val <= x
      [] o = ">"  -> val > x
      [] o = ">=" -> val >= x
      [] o = "==" -> val = x
      [] o = "!=" -> val # x
      [] o = "><" -> val >= x /\ val <= y
      [] OTHER    -> TRUE                      \* "!=null"

CondRow(D, o, x, y) == {c \in Cols : D.iv[c] # Null /\ CondHolds(o, D.iv[c], x, y)}

\* all rows of a field that may carry bits (bounded: rows are only ever written in Rws / MxRows)
FieldRows(fld) == IF fld \in MxFields THEN MxRows(fld) ELSE Rws

(***************************************************************************)
(* Expressions: postfix programs of instructions <<k, fld, r, a, b, o>>.    *)
(***************************************************************************)
IRow(fld, r)      == <<"row", fld, r, 0, 0, "">>
IRowT(r, a, b)    == <<"rowt", "t", r, a, b, "">>
ICond(o, x, y)    == <<"cond", "v", 0, x, y, o>>
IEmpty            == <<"empty", "", 0, 0, 0, "">>
IOp(o, n)         == <<"op", "", 0, n, 0, o>>
INot              == <<"not", "", 0, 0, 0, "">>
IShift(n)         == <<"shift", "", 0, n, 0, "">>

ApplyOp(o, vs) ==
    LET n == Len(vs)
        all == UNION {vs[i] : i \in 1..n}
    IN CASE o = "Union"      -> all
         [] o = "Intersect"  -> {c \in vs[1] : \A i \in 2..n : c \in vs[i]}
         [] o = "Difference" -> {c \in vs[1] : \A i \in 2..n : c \notin vs[i]}
         [] OTHER            -> {c \in all : Cardinality({i \in 1..n : c \in vs[i]}) % 2 = 1}  \* Xor

\* one instruction on a value stack of [v, xs, xn]; xs: some Shift carried a bit over Edge;
\* xn: the result of such a Shift was consumed by an n-ary operator or Not (the executor
\* evaluates per shard, so a carried bit is invisible to the operator: known finding)
StepI(D, ins, st) ==
    LET k == ins[1]
        m == Len(st)
    IN CASE k = "row"   -> Append(st, [v |-> RowOf(D, ins[2], ins[3]), xs |-> FALSE, xn |-> FALSE])
         [] k = "rowt"  -> Append(st, [v |-> TimeRow(D, ins[3], ins[4], ins[5]), xs |-> FALSE, xn |-> FALSE])
         [] k = "cond"  -> Append(st, [v |-> CondRow(D, ins[6], ins[4], ins[5]), xs |-> FALSE, xn |-> FALSE])
         [] k = "empty" -> Append(st, [v |-> {}, xs |-> FALSE, xn |-> FALSE])
         [] k = "op"    -> LET n == ins[4]
                               args == SubSeq(st, m - n + 1, m)
                           IN Append(SubSeq(st, 1, m - n),
                                     [v  |-> ApplyOp(ins[6], [i \in 1..n |-> args[i].v]),
                                      xs |-> \E i \in 1..n : args[i].xs,
                                      xn |-> \E i \in 1..n : args[i].xs])
         [] k = "not"   -> [st EXCEPT ![m] = [v |-> D.ex \ st[m].v, xs |-> st[m].xs, xn |-> st[m].xs]]
         [] OTHER       -> LET n == ins[4]                                   \* shift
                           IN [st EXCEPT ![m] = [v  |-> {c + n : c \in st[m].v},
                                                 xs |-> st[m].xs \/ \E c \in st[m].v : c < Edge /\ c + n >= Edge,
                                                 xn |-> st[m].xn]]

RECURSIVE EvalFrom(_, _, _, _)
EvalFrom(D, prog, i, st) ==
    IF i > Len(prog) THEN st ELSE EvalFrom(D, prog, i + 1, StepI(D, prog[i], st))

Eval(D, prog) == EvalFrom(D, prog, 1, << >>)[1]       \* [v, xs] of a well-formed program

\* stack entries: [p: program, d: depth, v: value, xs: flag]
Entry(D, prog, d) == LET e == Eval(D, prog) IN [p |-> prog, d |-> d, v |-> e.v, xs |-> e.xs, xn |-> e.xn]
Reval(D, stk)     == [i \in 1..Len(stk) |-> Entry(D, stk[i].p, stk[i].d)]

\* observation of the top of the stack that accompanies every record
TopObs(stk) == IF stk = << >> THEN [q |-> << >>, qv |-> {}, xs |-> FALSE, xn |-> FALSE]
               ELSE [q |-> stk[Len(stk)].p, qv |-> stk[Len(stk)].v, xs |-> stk[Len(stk)].xs, xn |-> stk[Len(stk)].xn]

(***************************************************************************)
(* Rows / GroupBy / MinRow / MaxRow                                        *)
(***************************************************************************)
\* ascending sequence of a finite set of integers
RECURSIVE AscSeq(_)
AscSeq(S) == IF S = {} THEN << >>
              ELSE LET m == CHOOSE x \in S : \A y \in S : x <= y IN <<m>> \o AscSeq(S \ {m})

Take(s, n) == IF n < 0 THEN s ELSE SubSeq(s, 1, Min(n, Len(s)))       \* n = -1: no limit
DropN(s, n) == SubSeq(s, Min(n, Len(s)) + 1, Len(s))

\* the set of rows of fld with a bit (in column col if col >= 0; in time range if a or b given)
RowSet(D, fld, col, a, b) ==
    {r \in FieldRows(fld) :
        LET cs == IF fld = "t" /\ (a # 0 \/ b # 0) THEN TimeRow(D, r, a, b) ELSE RowOf(D, fld, r)
        IN IF col >= 0 THEN col \in cs ELSE cs # {}}

\* Rows(fld, previous=prev, limit=lim, column=col, from=a, to=b); prev = -1 / lim = -1: omitted
RowsRes(D, fld, prev, lim, col, a, b) ==
    Take(AscSeq({r \in RowSet(D, fld, col, a, b) : r > prev}), lim)

\* lexicographic order on equal-length tuples
RECURSIVE LexLess(_, _)
LexLess(s, t) == IF s = << >> THEN FALSE
                 ELSE s[1] < t[1] \/ (s[1] = t[1] /\ LexLess(Tail(s), Tail(t)))

RECURSIVE SortLex(_)
SortLex(S) == IF S = {} THEN << >>
              ELSE LET m == CHOOSE x \in S : \A y \in S : x = y \/ LexLess(x, y)
                   IN <<m>> \o SortLex(S \ {m})

\* children: sequence of [f: field, lim: child limit or -1, col: child column or -1]
\* filt: a program or << >>
ChildRows(D, ch) == LET s == RowsRes(D, ch.f, 0 - 1, ch.lim, ch.col, 0, 0)
                    IN {s[i] : i \in 1..Len(s)}

RECURSIVE Tuples(_)
Tuples(ss) == IF ss = << >> THEN {<< >>}
              ELSE {<<x>> \o t : x \in ss[1], t \in Tuples(Tail(ss))}

GroupCols(D, chs, filt, g) ==
    LET base == IF filt = << >> THEN Cols ELSE Eval(D, filt).v
    IN {c \in base : \A i \in 1..Len(chs) : c \in RowOf(D, chs[i].f, g[i])}

AllGroups(D, chs, filt) ==
    LET cand == Tuples([i \in 1..Len(chs) |-> ChildRows(D, chs[i])])
        live == {g \in cand : GroupCols(D, chs, filt, g) # {}}
        srt  == SortLex(live)
    IN [i \in 1..Len(srt) |-> [g |-> srt[i], n |-> Cardinality(GroupCols(D, chs, filt, srt[i]))]]

\* GroupBy(..., previous tuple prev (or << >>), limit lim, offset off (or -1))
GroupBySlice(all, prev, lim, off) ==
    LET after == IF prev = << >> THEN all
                 ELSE SelectSeq(all, LAMBDA e : LexLess(prev, e.g))
        offd  == IF off < 0 THEN after ELSE DropN(after, off)
    IN Take(offd, lim)
GroupByRes(D, chs, filt, prev, lim, off) == GroupBySlice(AllGroups(D, chs, filt), prev, lim, off)

\* MinRow / MaxRow (field, optional filter program): row id or -1 when no row qualifies
RowsWithin(D, fld, filt) ==
    LET base == IF filt = << >> THEN Cols ELSE Eval(D, filt).v
    IN {r \in FieldRows(fld) : RowOf(D, fld, r) \cap base # {}}
MinRowRes(D, fld, filt) == LET S == RowsWithin(D, fld, filt)
                           IN IF S = {} THEN 0 - 1 ELSE CHOOSE x \in S : \A y \in S : x <= y
MaxRowRes(D, fld, filt) == LET S == RowsWithin(D, fld, filt)
                           IN IF S = {} THEN 0 - 1 ELSE CHOOSE x \in S : \A y \in S : x >= y

(***************************************************************************)
(* Writes on the abstract data                                             *)
(***************************************************************************)
WSet(D, fld, r, c)    == [D EXCEPT !.sets[fld][r] = @ \cup {c}, !.ex = @ \cup {c}]
WClear(D, fld, r, c)  == IF fld = "t" THEN [D EXCEPT !.tb = {b \in @ : ~(b[1] = r /\ b[2] = c)}]
                         ELSE [D EXCEPT !.sets[fld][r] = @ \ {c}]
WSetT(D, r, c, ts)    == [D EXCEPT !.tb = @ \cup {<<r, c, ts>>}, !.ex = @ \cup {c}]
WSetV(D, c, x)        == [D EXCEPT !.iv[c] = x, !.ex = @ \cup {c}]
WClearRow(D, fld, r)  == IF fld = "t" THEN [D EXCEPT !.tb = {b \in @ : b[1] # r}]
                         ELSE [D EXCEPT !.sets[fld][r] = {}]
WStore(D, fld, r, S)  == [D EXCEPT !.sets[fld][r] = S]
WImport(D, fld, r, S) == [D EXCEPT !.sets[fld][r] = @ \cup S, !.ex = @ \cup S]
WSetMx(D, fld, r, c)  == [D EXCEPT !.mx[fld][c] = r, !.ex = @ \cup {c}]

EmptyDB ==
    [sets |-> [fld \in SetFields |-> [r \in Rws |-> {}]],
     tb   |-> {},
     iv   |-> [c \in Cols |-> Null],
     mx   |-> [fld \in MxFields |-> [c \in Cols |-> NoRow]],
     ex   |-> {}]

NoCur == [on |-> FALSE]

Init ==
    /\ IF InitAll > 0 /\ Mode = "c15"
         THEN \E A \in SUBSET Cols, B \in (IF InitAll > 1 THEN SUBSET Cols ELSE {{}}),
                 C \in (IF InitAll > 2 /\ NRows > 1 THEN SUBSET Cols ELSE {{}}) :
                db = [EmptyDB EXCEPT !.sets["f"][1] = A, !.sets["g"][1] = B,
                                     !.sets["f"][IF NRows > 1 THEN 2 ELSE 1] = IF NRows > 1 THEN C ELSE A,
                                     !.ex = A \cup B \cup C]
         ELSE db = EmptyDB
    /\ stack = << >>
    /\ cur = NoCur
    /\ cls = "none"
    /\ sub = << >>
    \* an enumerated initial dataset is the first record of the behaviour (the harness loads it by bulk import)
    /\ hist = IF InitAll > 0 /\ Mode = "c15"
                THEN <<[op |-> "init", f1 |-> db.sets["f"][1], g1 |-> db.sets["g"][1],
                        f2 |-> IF NRows > 1 THEN db.sets["f"][2] ELSE {}, q |-> << >>, qv |-> {}, xs |-> FALSE, xn |-> FALSE]>>
                ELSE << >>

\* append a record; every record carries the observation of the top of the stack in the post-state
Log(rec, stk) == hist' = Append(hist, rec @@ TopObs(stk))

(***************************************************************************)
(* C15: stack machine                                                      *)
(***************************************************************************)
StackStep(rec, stk) ==
    /\ stack' = stk
    /\ Log(rec, stk)
    /\ cls' = "none"
    /\ UNCHANGED <<db, cur>>

PushLeaf(ins) ==
    /\ Len(stack) < MaxStack
    /\ StackStep([op |-> "push"], Append(stack, Entry(db, <<ins>>, 1)))

Push ==
    \/ "row" \in LeafKinds /\ \E fld \in SetFields \cup (IF "rowt" \in LeafKinds THEN {"t"} ELSE {}), r \in Rws : PushLeaf(IRow(fld, r))
    \/ "empty" \in LeafKinds /\ PushLeaf(IRow("e", 1))
    \/ "empty" \in LeafKinds /\ PushLeaf(IEmpty)
    \/ \E r \in Rws, a \in 0..NT, b \in 0..(NT + 1) :
          /\ "rowt" \in LeafKinds
          /\ a # 0 \/ b # 0
          /\ (a # 0 /\ b # 0) => a < b
          /\ PushLeaf(IRowT(r, a, b))
    \/ "cond" \in LeafKinds /\ \E o \in {"<", "<=", ">", ">=", "==", "!="}, x \in (VMin - 1)..(VMax + 1) : PushLeaf(ICond(o, x, 0))
    \/ "cond" \in LeafKinds /\ \E x \in (VMin - 1)..(VMax + 1), y \in (VMin - 1)..(VMax + 1) : x <= y /\ PushLeaf(ICond("><", x, y))
    \/ "cond" \in LeafKinds /\ PushLeaf(ICond("!=null", 0, 0))

RECURSIVE Concat(_)
Concat(ss) == IF ss = << >> THEN << >> ELSE ss[1] \o Concat(Tail(ss))

Apply ==
    \E o \in {"Union", "Intersect", "Difference", "Xor"}, n \in 1..MaxArity :
       /\ n <= Len(stack)
       /\ LET m    == Len(stack)
              args == SubSeq(stack, m - n + 1, m)
              d    == 1 + (CHOOSE x \in {args[i].d : i \in 1..n} : \A i \in 1..n : args[i].d <= x)
              prog == Concat([i \in 1..n |-> args[i].p]) \o <<IOp(o, n)>>
          IN /\ d <= MaxD
             /\ StackStep([op |-> "apply"], Append(SubSeq(stack, 1, m - n), Entry(db, prog, d)))

Unary ==
    /\ stack # << >>
    /\ LET m == Len(stack) top == stack[m] rest == SubSeq(stack, 1, m - 1) IN
       \/ /\ Exist /\ top.d < MaxD
          /\ StackStep([op |-> "apply"], Append(rest, Entry(db, top.p \o <<INot>>, top.d + 1)))
       \/ /\ ~Exist             \* Not() without existence tracking is an error; the stack is unchanged
          /\ StackStep([op |-> "not_err", eq |-> top.p \o <<INot>>], stack)
       \/ /\ Window /\ top.d < MaxD
          /\ \E n \in 0..2 : StackStep([op |-> "apply"], Append(rest, Entry(db, top.p \o <<IShift(n)>>, top.d + 1)))
       \/ StackStep([op |-> "drop"], rest)

\* a write: result `ch` (the boolean the call returns; cmp tells whether it is compared),
\* new data D; the stack is re-evaluated over D
\* (re-evaluating the stack for every candidate write would dominate TLC's cost: the write
\* only marks the stack stale; the deterministic Observe step that follows re-evaluates it
\* once and completes the record with the observation)
WriteStep(rec, D) ==
    /\ db' = D
    /\ stack' = stack
    /\ IF stack = << >> THEN Log(rec, << >>) /\ cls' = "none"
       ELSE hist' = Append(hist, rec) /\ cls' = "observe"
    /\ UNCHANGED cur

Observe ==
    /\ cls = "observe"
    /\ stack' = Reval(db, stack)
    /\ hist' = [hist EXCEPT ![Len(hist)] = @ @@ TopObs(Reval(db, stack))]
    /\ cls' = "none"
    /\ UNCHANGED <<db, cur, sub>>

SetBit ==
    \E fld \in SetFields, r \in Rws, c \in Cols :
       WriteStep([op |-> "Set", f |-> fld, r |-> r, c |-> c, ch |-> c \notin db.sets[fld][r], cmp |-> TRUE],
                 WSet(db, fld, r, c))

\* Set of a bit that is already stored (changed = false). The column may have received the
\* bit without any Set/import of that column (Store of a shifted row): the Set still is a
\* write of the column, so it belongs to the existence set afterwards.
ReSet ==
    \E fld \in SetFields, r \in Rws, c \in Cols :
       /\ c \in db.sets[fld][r]
       /\ (\E f2 \in SetFields, r2 \in Rws : (db.sets[f2][r2] \cap Cols) \ db.ex # {}) => c \notin db.ex
       /\ WriteStep([op |-> "Set", f |-> fld, r |-> r, c |-> c, ch |-> FALSE, cmp |-> TRUE, newcol |-> c \notin db.ex],
                    WSet(db, fld, r, c))

SetOther ==
    \/ \E r \in Rws, c \in Cols, ts \in 0..NT :
         WriteStep([op |-> "SetT", f |-> "t", r |-> r, c |-> c, ts |-> ts,
                    ch |-> IF ts = 0 THEN c \notin RowOf(db, "t", r) ELSE <<r, c, ts>> \notin db.tb, cmp |-> TRUE],
                   WSetT(db, r, c, ts))
    \/ \E c \in Cols, x \in Vals :
         WriteStep([op |-> "SetV", f |-> "v", c |-> c, x |-> x, ch |-> db.iv[c] # x, cmp |-> TRUE],
                   WSetV(db, c, x))

ClearBit ==
    \E fld \in SetFields \cup {"t"}, r \in Rws, c \in Cols :
       WriteStep([op |-> "Clear", f |-> fld, r |-> r, c |-> c, ch |-> c \in RowOf(db, fld, r), cmp |-> TRUE],
                 WClear(db, fld, r, c))

RowWrite ==
    \/ \E fld \in SetFields \cup {"t"}, r \in Rws :
         WriteStep([op |-> "ClearRow", f |-> fld, r |-> r, ch |-> RowOf(db, fld, r) # {}, cmp |-> TRUE],
                   WClearRow(db, fld, r))
    \/ /\ stack # << >>
       /\ LET top == stack[Len(stack)] IN
          /\ \A c \in top.v : c < NCols + 4              \* keep the universe bounded
          /\ \E fld \in SetFields, r \in Rws :
               \* Store is documented to return true always
               WriteStep([op |-> "Store", f |-> fld, r |-> r, sq |-> top.p, sxs |-> top.xs, ch |-> TRUE, cmp |-> TRUE],
                         WStore(db, fld, r, top.v))

Import ==
    \E fld \in SetFields, r \in Rws, S \in SUBSET Cols :
       /\ S # {} /\ Cardinality(S) <= MaxBatch
       /\ WriteStep([op |-> "Import", f |-> fld, r |-> r, S |-> S, ch |-> TRUE, cmp |-> FALSE],
                    WImport(db, fld, r, S))

\* "push2" / "apply2" are aliases: they double the weight of expression building in simulation
C15Classes == {"push", "push2", "apply", "apply2", "unary", "set", "reset", "setother", "clear", "rowwrite", "import"}
C15Enabled(k) ==
    IF Len(hist) < Warm THEN k \in {"import", "setother"}
    ELSE CASE k \in {"push", "push2"}   -> Len(stack) < MaxStack
           [] k \in {"apply", "apply2"} -> stack # << >> /\ \E n \in 1..MaxArity : n <= Len(stack) /\ \A i \in (Len(stack) - n + 1)..Len(stack) : stack[i].d < MaxD
           [] k = "unary" -> stack # << >>
           [] k = "reset" -> \E fld \in SetFields, r \in Rws : db.sets[fld][r] \cap Cols # {}
           [] OTHER -> TRUE
C15Act(k) ==
    CASE k \in {"push", "push2"} -> Push [] k \in {"apply", "apply2"} -> Apply [] k = "unary" -> Unary [] k = "set" -> SetBit [] k = "reset" -> ReSet
      [] k = "setother" -> SetOther [] k = "clear" -> ClearBit [] k = "rowwrite" -> RowWrite [] OTHER -> Import

(***************************************************************************)
(* C16: Rows / GroupBy / MinRow / MaxRow and paging loops                  *)
(***************************************************************************)
QueryStep(rec) ==
    /\ Log(rec, << >>)
    /\ cls' = "none"
    /\ UNCHANGED <<db, stack, cur>>

TimeArgs == {ab \in (0..NT) \X (0..(NT + 1)) : (ab[1] # 0 /\ ab[2] # 0) => ab[1] < ab[2]}

RowsSubs == {x \in {"f", "g", "t", "e"} \X ((0 - 1)..(NCols - 1)) \X TimeArgs : x[1] # "t" => x[3] = <<0, 0>>}

RowsQ ==
    \E prev \in (0 - 1)..NRows, lim \in {0 - 1, 1, 2} :
       LET fld == sub[1] col == sub[2] ab == sub[3] IN
          QueryStep([op |-> "Rows", f |-> fld, prev |-> prev, lim |-> lim, col |-> col, a |-> ab[1], b |-> ab[2],
                     rows |-> RowsRes(db, fld, prev, lim, col, ab[1], ab[2])])

\* filters used by GroupBy / MinRow / MaxRow: none, a row, or a small combination
Filters == {<< >>} \cup {<<IRow(fld, r)>> : fld \in {"f", "g"}, r \in Rws}
             \cup {<<IRow("f", 1), IRow("g", 1), IOp(o, 2)>> : o \in {"Union", "Intersect", "Difference"}}

Child(fld, lim, col) == [f |-> fld, lim |-> lim, col |-> col]
ChildSeqs ==
    LET one == {Child(fld, lc[1], lc[2]) : fld \in {"f", "g", "t"},
                   lc \in {<<0 - 1, 0 - 1>>, <<1, 0 - 1>>, <<2, 0 - 1>>, <<0 - 1, 0>>, <<0 - 1, NCols - 1>>, <<1, NCols - 1>>}}
        plain == {Child(fld, 0 - 1, 0 - 1) : fld \in {"f", "g", "t"}}
    IN {<<x>> : x \in one} \cup {<<x, y>> : x \in one, y \in plain} \cup {<<x, y>> : x \in plain, y \in one}
         \cup {<<x, y, z>> : x \in plain, y \in plain, z \in plain}

PlainChildren(chs) == \A i \in 1..Len(chs) : chs[i].lim < 0 /\ chs[i].col < 0

Triples == LET plain == {Child(fld, 0 - 1, 0 - 1) : fld \in {"f", "g", "t"}}
           IN {<<x, y, z>> : x \in plain, y \in plain, z \in plain}

GroupByQ ==
    LET chs == sub[1]
        filt == sub[2]
        all == AllGroups(db, chs, filt)
    IN \E lim \in {0 - 1, 1, 2, 3}, off \in {0 - 1, 0, 1, 2, 3}, pi \in 0..Len(all) :
             LET prev == IF pi = 0 THEN << >> ELSE all[pi].g
             IN /\ (prev # << >>) => (off < 0)          \* previous and offset are alternative paging schemes
                \* paging by previous is defined for plain child Rows calls only (a child limit /
                \* column is applied by the code after the child's own previous - undocumented)
                /\ (prev # << >>) => PlainChildren(chs)
                /\ QueryStep([op |-> "GroupBy", chs |-> chs, filt |-> filt, prev |-> prev, lim |-> lim, off |-> off,
                              groups |-> GroupBySlice(all, prev, lim, off)])

MinMaxQ ==
    \E fld \in {"f", "g", "t", "e"}, filt \in Filters :
       \/ QueryStep([op |-> "MinRow", f |-> fld, filt |-> filt, row |-> MinRowRes(db, fld, filt)])
       \/ QueryStep([op |-> "MaxRow", f |-> fld, filt |-> filt, row |-> MaxRowRes(db, fld, filt)])

\* ---- paging loops: the cursor holds the call, the last position and the pages so far
StartRows ==
    /\ ~cur.on
    /\    \E lim \in {1, 2} :
            /\ LET fld == sub[1] col == sub[2] ab == sub[3]
                   page == RowsRes(db, fld, 0 - 1, lim, col, ab[1], ab[2])
                   c == [on |-> TRUE, kind |-> "rows", f |-> fld, lim |-> lim, col |-> col, a |-> ab[1], b |-> ab[2],
                         acc |-> page, last |-> page, n |-> 1]
               IN /\ cur' = c
                  /\ Log([op |-> "PageRows", first |-> TRUE, f |-> fld, prev |-> 0 - 1, lim |-> lim, col |-> col,
                          a |-> ab[1], b |-> ab[2], rows |-> page, done |-> page = << >>,
                          total |-> RowsRes(db, fld, 0 - 1, 0 - 1, col, ab[1], ab[2])], << >>)
    /\ cls' = "none"
    /\ UNCHANGED <<db, stack>>

StartGroup ==
    /\ ~cur.on
    /\    \E lim \in {1, 2, 3}, scheme \in {"previous", "offset"} :
            /\ scheme = "previous" => PlainChildren(sub[1])
            /\ LET chs == sub[1]
                   filt == sub[2]
                   all == AllGroups(db, chs, filt)
                   page == GroupBySlice(all, << >>, lim, IF scheme = "offset" THEN 0 ELSE 0 - 1)
                   c == [on |-> TRUE, kind |-> scheme, chs |-> chs, filt |-> filt, lim |-> lim,
                         acc |-> page, last |-> page, n |-> 1]
               IN /\ cur' = c
                  /\ Log([op |-> "PageGroupBy", first |-> TRUE, scheme |-> scheme, chs |-> chs, filt |-> filt, prev |-> << >>,
                          lim |-> lim, off |-> IF scheme = "offset" THEN 0 ELSE 0 - 1, groups |-> page, done |-> page = << >>,
                          total |-> all], << >>)
    /\ cls' = "none"
    /\ UNCHANGED <<db, stack>>

CurDone == cur.on /\ cur.last = << >>

NextPage ==
    /\ cur.on /\ ~CurDone
    /\ IF cur.kind = "rows"
         THEN LET prev == cur.last[Len(cur.last)]
                  page == RowsRes(db, cur.f, prev, cur.lim, cur.col, cur.a, cur.b)
              IN /\ cur' = [cur EXCEPT !.acc = @ \o page, !.last = page, !.n = @ + 1]
                 /\ Log([op |-> "PageRows", first |-> FALSE, f |-> cur.f, prev |-> prev, lim |-> cur.lim, col |-> cur.col,
                         a |-> cur.a, b |-> cur.b, rows |-> page, done |-> page = << >>,
                         total |-> RowsRes(db, cur.f, 0 - 1, 0 - 1, cur.col, cur.a, cur.b)], << >>)
         ELSE LET prev == IF cur.kind = "previous" THEN cur.last[Len(cur.last)].g ELSE << >>
                  off  == IF cur.kind = "offset" THEN Len(cur.acc) ELSE 0 - 1
                  all  == AllGroups(db, cur.chs, cur.filt)
                  page == GroupBySlice(all, prev, cur.lim, off)
              IN /\ cur' = [cur EXCEPT !.acc = @ \o page, !.last = page, !.n = @ + 1]
                 /\ Log([op |-> "PageGroupBy", first |-> FALSE, scheme |-> cur.kind, chs |-> cur.chs, filt |-> cur.filt,
                         prev |-> prev, lim |-> cur.lim, off |-> off, groups |-> page, done |-> page = << >>,
                         total |-> all], << >>)
    /\ cls' = "none"
    /\ UNCHANGED <<db, stack>>

\* the loop is over: forget the cursor (silent part of the next Select)
ImportT ==
    \E r \in Rws, S \in SUBSET Cols :
       /\ S # {} /\ Cardinality(S) <= MaxBatch
       /\ WriteStep([op |-> "Import", f |-> "t", r |-> r, S |-> S, ch |-> TRUE, cmp |-> FALSE],
                    [db EXCEPT !.tb = @ \cup {<<r, c, 0>> : c \in S}, !.ex = @ \cup S])

C16Write ==
    \/ SetBit \/ ClearBit
    \/ \E r \in Rws, c \in Cols, ts \in 0..NT :
         WriteStep([op |-> "SetT", f |-> "t", r |-> r, c |-> c, ts |-> ts,
                    ch |-> IF ts = 0 THEN c \notin RowOf(db, "t", r) ELSE <<r, c, ts>> \notin db.tb, cmp |-> TRUE],
                   WSetT(db, r, c, ts))
    \/ \E fld \in SetFields \cup {"t"}, r \in Rws :
         WriteStep([op |-> "ClearRow", f |-> fld, r |-> r, ch |-> RowOf(db, fld, r) # {}, cmp |-> TRUE],
                   WClearRow(db, fld, r))

\* "groupby3" / "startgroup3": GroupBy over three plain child Rows calls (the deep iterator
\* paths: wrap-around of the middle field, previous rows absent from a shard)
C16Classes == {"write", "import", "importt", "rows", "groupby", "groupby3", "minmax", "startrows", "startgroup", "startgroup3", "page"}
C16Enabled(k) ==
    IF Len(hist) < Warm THEN k \in {"import", "importt", "write"}
    ELSE IF cur.on /\ ~CurDone THEN k = "page"          \* a paging loop runs to exhaustion without interleaving
    ELSE k # "page"
C16Act(k) ==
    CASE k = "write" -> C16Write [] k = "import" -> Import [] k = "importt" -> ImportT [] k = "rows" -> RowsQ
      [] k \in {"groupby", "groupby3"} -> GroupByQ [] k = "startgroup3" -> StartGroup
      [] k = "minmax" -> MinMaxQ [] k = "startrows" -> StartRows [] k = "startgroup" -> StartGroup [] OTHER -> NextPage

(***************************************************************************)
(* C28: abstract batch writes with a path assignment + the query alphabet   *)
(***************************************************************************)
Paths  == {"pql", "ids", "rp", "ro"}     \* Set/Clear queries, bulk import by ids, roaring (pilosa / official)
KPaths == {"pql", "imp"}                 \* keyed variant: PQL with keys, bulk import by keys

\* sequences of length 1..MaxBatch over a set
SeqsUpTo(S, n) == UNION {[1..k -> S] : k \in 1..n}

RECURSIVE FoldMx(_, _, _)
FoldMx(D, fld, s) == IF s = << >> THEN D ELSE FoldMx(WSetMx(D, fld, s[1][1], s[1][2]), fld, Tail(s))
RECURSIVE FoldV(_, _)
FoldV(D, s) == IF s = << >> THEN D ELSE FoldV(WSetV(D, s[1][1], s[1][2]), Tail(s))

\* the path assignment <<path, kpath>> of the write was chosen by the preceding Select2 step
BatchStep(rec, D) ==
    /\ db' = D
    /\ Log(rec @@ [path |-> sub[1], kpath |-> sub[2]], << >>)
    /\ cls' = "none"
    /\ UNCHANGED <<stack, cur>>

\* rectangular batches R x S (non-empty), as sets of pairs
Rects(RR, CC) == {R \X S : R \in (SUBSET RR) \ {{}}, S \in (SUBSET CC) \ {{}}}

WriteSetBatch ==
    \E clear \in BOOLEAN, bits \in Rects(Rws, Cols) :
       /\ Cardinality(bits) <= MaxBatch
       /\ BatchStep([op |-> "WSet", f |-> "s", clear |-> clear, bits |-> bits],
                    IF clear THEN [db EXCEPT !.sets["s"] = [r \in Rws |-> @[r] \ {b[2] : b \in {x \in bits : x[1] = r}}]]
                    ELSE [db EXCEPT !.sets["s"] = [r \in Rws |-> @[r] \cup {b[2] : b \in {x \in bits : x[1] = r}}],
                                    !.ex = @ \cup {b[2] : b \in bits}])

WriteMxBatch ==
    \E fld \in MxFields :
       \/ \E s \in SeqsUpTo(MxRows(fld) \X Cols, MaxSeq) :       \* ordered: the last entry of a column wins
            BatchStep([op |-> "WMx", f |-> fld, clear |-> FALSE, seq |-> s], FoldMx(db, fld, s))
       \/ \E bits \in Rects(MxRows(fld), Cols) :
            /\ Cardinality(bits) <= MaxBatch
            /\ BatchStep([op |-> "WMx", f |-> fld, clear |-> TRUE, bits |-> bits],
                         [db EXCEPT !.mx[fld] = [c \in Cols |-> IF <<@[c], c>> \in bits THEN NoRow ELSE @[c]]])

WriteTimeBatch ==
    \/ \E rc \in Rects(Rws, Cols), tss \in (SUBSET (0..NT)) \ {{}} :
         /\ Cardinality(rc) * Cardinality(tss) <= MaxBatch
         /\ LET bits == {<<x[1], x[2], ts>> : x \in rc, ts \in tss} IN
            BatchStep([op |-> "WTime", f |-> "t", clear |-> FALSE, tbits |-> bits],
                      [db EXCEPT !.tb = @ \cup bits, !.ex = @ \cup {b[2] : b \in bits}])
    \/ \E bits \in Rects(Rws, Cols) :
         /\ Cardinality(bits) <= MaxBatch
         /\ BatchStep([op |-> "WTime", f |-> "t", clear |-> TRUE, bits |-> bits],
                      [db EXCEPT !.tb = {b \in @ : <<b[1], b[2]>> \notin bits}])

WriteValBatch ==
    \E s \in SeqsUpTo(Cols \X Vals, MaxSeq) :
       BatchStep([op |-> "WVal", f |-> "v", seq |-> s], FoldV(db, s))

\* ---- queries whose answers must not depend on the write path
TopNRes(D, fld) ==   \* every row with its count (the harness checks order by count, ties free, and the cut at n)
    LET rs == AscSeq({r \in FieldRows(fld) : RowOf(D, fld, r) # {}})
    IN [i \in 1..Len(rs) |-> [id |-> rs[i], n |-> Cardinality(RowOf(D, fld, rs[i]))]]

RECURSIVE SumSet(_, _)
SumSet(D, S) == IF S = {} THEN 0 ELSE LET c == CHOOSE x \in S : TRUE IN D.iv[c] + SumSet(D, S \ {c})

C28Query ==
    \/ \E fld \in {"s", "m", "b", "t"} : \E r \in FieldRows(fld) :
         QueryStep([op |-> "QRow", f |-> fld, r |-> r, cols |-> RowOf(db, fld, r)])
    \/ \E fld \in {"s", "m", "b", "t"}, n \in {0, 1, 2} :
         QueryStep([op |-> "QTopN", f |-> fld, n |-> n, pairs |-> TopNRes(db, fld)])
    \/ \E fld \in {"s", "m", "b", "t"}, col \in (0 - 1)..(NCols - 1) :
         QueryStep([op |-> "QRows", f |-> fld, col |-> col, rows |-> RowsRes(db, fld, 0 - 1, 0 - 1, col, 0, 0)])
    \/ \E r \in Rws, ab \in TimeArgs \ {<<0, 0>>} :
         \/ QueryStep([op |-> "QRowT", f |-> "t", r |-> r, a |-> ab[1], b |-> ab[2], cols |-> TimeRow(db, r, ab[1], ab[2])])
    \/ \E ab \in TimeArgs \ {<<0, 0>>} :
         QueryStep([op |-> "QRowsT", f |-> "t", a |-> ab[1], b |-> ab[2], rows |-> RowsRes(db, "t", 0 - 1, 0 - 1, 0 - 1, ab[1], ab[2])])
    \/ \E o \in {"<", "<=", ">", ">=", "==", "!="}, x \in (VMin - 1)..(VMax + 1) :
         QueryStep([op |-> "QCond", f |-> "v", o |-> o, x |-> x, y |-> 0, cols |-> CondRow(db, o, x, 0)])
    \/ \E x \in (VMin - 1)..(VMax + 1), y \in (VMin - 1)..(VMax + 1) :
         x <= y /\ QueryStep([op |-> "QCond", f |-> "v", o |-> "><", x |-> x, y |-> y, cols |-> CondRow(db, "><", x, y)])
    \/ QueryStep([op |-> "QCond", f |-> "v", o |-> "!=null", x |-> 0, y |-> 0, cols |-> CondRow(db, "!=null", 0, 0)])
    \/ \E fr \in {0} \cup Rws :                 \* Sum / Min / Max, unfiltered (fr = 0) or filtered by Row(s=fr)
         LET nn == CondRow(db, "!=null", 0, 0)
             S  == IF fr = 0 THEN nn ELSE nn \cap db.sets["s"][fr]
             vs == {db.iv[c] : c \in S}
         IN QueryStep([op |-> "QAgg", f |-> "v", fr |-> fr, cnt |-> Cardinality(S), sum |-> SumSet(db, S),
                       min |-> IF S = {} THEN 0 ELSE CHOOSE x \in vs : \A y \in vs : x <= y,
                       max |-> IF S = {} THEN 0 ELSE CHOOSE x \in vs : \A y \in vs : x >= y])

\* "query2".."query4" are aliases that weight queries against writes in simulation
C28Classes == {"wset", "wmx", "wtime", "wval", "query", "query2", "query3", "query4"}
C28Enabled(k) == Len(hist) < Warm => k \in {"wset", "wmx", "wtime", "wval"}
C28Act(k) ==
    CASE k = "wset" -> WriteSetBatch [] k = "wmx" -> WriteMxBatch [] k = "wtime" -> WriteTimeBatch
      [] k = "wval" -> WriteValBatch [] OTHER -> C28Query

(***************************************************************************)
(* Next: Select a class, act, and the final "end" record                   *)
(***************************************************************************)
Classes    == (IF Mode = "c15" THEN C15Classes ELSE IF Mode = "c16" THEN C16Classes ELSE C28Classes) \cap ClassSet
Enabled(k) == IF Mode = "c15" THEN C15Enabled(k) ELSE IF Mode = "c16" THEN C16Enabled(k) ELSE C28Enabled(k)
Act(k)     == IF Mode = "c15" THEN C15Act(k) ELSE IF Mode = "c16" THEN C16Act(k) ELSE C28Act(k)

\* classes whose action takes a second silent choice (kept out of the costly enumeration):
\* C16 GroupBy: the child Rows calls and the filter; C28 writes: the path assignment
SubChoices(k) ==
    IF Mode = "c16" /\ k \in {"groupby", "startgroup"} THEN ChildSeqs \X Filters
    ELSE IF Mode = "c16" /\ k \in {"groupby3", "startgroup3"} THEN Triples \X {<< >>, <<IRow("f", 1)>>, <<IRow("g", 1)>>}
    ELSE IF Mode = "c16" /\ k = "rows" THEN RowsSubs
    ELSE IF Mode = "c16" /\ k = "startrows" THEN {x \in RowsSubs : x[1] # "e"}
    ELSE IF Mode = "c28" /\ k \in {"wset", "wmx", "wtime", "wval"} THEN Paths \X KPaths
    ELSE {}

ScriptOK(k) ==
    LET i == Len(hist) + (IF InitAll > 0 /\ Mode = "c15" THEN 0 ELSE 1)
        sq == IF Script = "store" THEN <<"push", "unary", "rowwrite", "reset">> ELSE << >>
    IN Script = "none" \/ (i <= Len(sq) /\ k = sq[i])

Select ==
    /\ cls = "none"
    /\ Len(hist) < Depth - 1
    /\ \E k \in Classes : Enabled(k) /\ ScriptOK(k) /\ cls' = k
    /\ cur' = IF cur.on /\ CurDone THEN NoCur ELSE cur
    /\ UNCHANGED <<db, stack, sub, hist>>

Select2 ==
    /\ cls \notin {"none", "observe"} /\ sub = << >>
    /\ SubChoices(cls) # {}
    /\ \E x \in SubChoices(cls) : sub' = x
    /\ UNCHANGED <<db, stack, cur, cls, hist>>

Do ==
    /\ cls \notin {"none", "observe"}
    /\ SubChoices(cls) # {} => sub # << >>
    /\ Act(cls)
    /\ sub' = << >>

\* the whole abstract state, for the projected-state comparison at the end of the behaviour
Snapshot ==
    [op   |-> "end",
     rows |-> [fld \in SetFields \cup MxFields \cup {"t"} |->
                 LET rs == AscSeq(FieldRows(fld)) IN [i \in 1..Len(rs) |-> [r |-> rs[i], cols |-> RowOf(db, fld, rs[i])]]],
     tb   |-> db.tb,
     vals |-> LET cs == AscSeq({c \in Cols : db.iv[c] # Null}) IN [i \in 1..Len(cs) |-> <<cs[i], db.iv[cs[i]]>>],
     ex   |-> db.ex]

End ==
    /\ cls = "none"
    /\ Len(hist) = Depth - 1
    /\ Log(Snapshot, stack)
    /\ UNCHANGED <<db, stack, cur, cls, sub>>

Next == Select \/ Select2 \/ Do \/ Observe \/ End

Spec == Init /\ [][Next]_vars

(***************************************************************************)
(* Properties of the design checked by TLC on every state ((M) use)        *)
(***************************************************************************)
TypeOK ==
    /\ \A fld \in SetFields, r \in Rws : db.sets[fld][r] \subseteq 0..(NCols + 3)
    /\ db.ex \subseteq Cols
    /\ \A c \in Cols : db.iv[c] = Null \/ db.iv[c] \in Vals
    /\ Len(stack) <= MaxStack
    /\ \A i \in 1..Len(stack) : stack[i].d <= MaxD

\* C15 EvalMatches: the incrementally maintained value of every stack entry equals the
\* evaluation of its program over the current data (the value handed to the harness)
EvalMatches == cls # "observe" => \A i \in 1..Len(stack) : stack[i].v = Eval(db, stack[i].p).v

\* algebraic sanity of the reference semantics
AlgebraLaws ==
    \A i \in 1..Len(stack) : \A j \in 1..Len(stack) :
       LET A == stack[i].v B == stack[j].v IN
       /\ ApplyOp("Xor", <<A, B>>) = (A \cup B) \ (A \cap B)
       /\ ApplyOp("Difference", <<A, B>>) \cap B = {}
       /\ ApplyOp("Intersect", <<A, B, A>>) = A \cap B
       /\ ApplyOp("Union", <<A>>) = A

\* C16 PagesConcatenate: when a paging loop has run to exhaustion the concatenated pages
\* are exactly the unpaged result (no write interleaves a loop in this spec)
PagesConcatenate ==
    CurDone =>
       IF cur.kind = "rows" THEN cur.acc = RowsRes(db, cur.f, 0 - 1, 0 - 1, cur.col, cur.a, cur.b)
       ELSE cur.acc = AllGroups(db, cur.chs, cur.filt)

\* every page is a contiguous slice of the unpaged result
PagesAreSlices ==
    cur.on =>
       LET total == IF cur.kind = "rows" THEN RowsRes(db, cur.f, 0 - 1, 0 - 1, cur.col, cur.a, cur.b)
                    ELSE AllGroups(db, cur.chs, cur.filt)
       IN /\ Len(cur.acc) <= Len(total)
          /\ cur.acc = SubSeq(total, 1, Len(cur.acc))

\* C28: at most one row per column in mutex/bool fields (by construction of mx) and rows within range
MutexOK == \A fld \in MxFields, c \in Cols : db.mx[fld][c] = NoRow \/ db.mx[fld][c] \in MxRows(fld)

(***************************************************************************)
(* Behaviour emission (binding A)                                          *)
(***************************************************************************)
Emit == Len(hist) = Depth => PrintT(<<"BEH", ToJson(hist)>>)

\* view for (M) runs: the history does not distinguish states
MView == <<db, stack, cur, cls, sub, Len(hist)>>
=============================================================================
