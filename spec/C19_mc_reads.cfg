CONSTANTS
  CYears = {2019,2020}
  CMonths = {2}
  CDays = {28}
  CHours = {9,23}
  CQuanta = {"YMDH","MD","YM"}
  NSV = {FALSE}
  Variant = "fixed"
  Order = "code"
  MaxT = 2
  MaxS = 1
  MaxClr = 1
  MaxPlain = 0
  Vias = {"set"}
  Depth = 0
  Gen = FALSE
INIT Init
NEXT Next
INVARIANT ReadsTruth
VIEW MView
CHECK_DEADLOCK FALSE
