CONSTANTS
  NShards = 3
  NCols = 1
  Ops = {"Union", "Merge", "Intersect", "Difference", "Xor"}
INIT Init
NEXT Next
INVARIANTS Emit Laws
CHECK_DEADLOCK FALSE
