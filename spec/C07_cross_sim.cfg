CONSTANTS
  Kind = "set"
  Rows = {99, 100}
  Cols = {0, 3}
  Ops = {"Row","RoaringSet","RoaringClear","SetBit","ClearBit","SetRow","ClearRow","BulkSet","BulkClear","Snapshot","BgSnapshot","Reopen","Rows","Blocks"}
  Scope = "small"
  Depth = 5
  ShapeName = "free"
  InitMode = "any"
  MaxOpNs = {"tiny","huge"}
  Provs = {"ops","snap","reopen"}
  RowInval = {"setBit","clearBit","setRow","clearRow","bulk","bulkMutex","roaring","setValue","clearValue","importValue"}
  CkInval = {"setBit","clearBit","setRow","clearRow","bulk","bulkMutex","roaring","setValue","clearValue","importValue"}
INIT Init
NEXT Next
INVARIANT TypeOK
INVARIANT ReadsReflectWrites
INVARIANT ChecksumFresh
INVARIANT Emit
CHECK_DEADLOCK FALSE
