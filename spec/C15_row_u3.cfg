CONSTANTS
  NShards = 3
  NCols = 1
  Ops = {"Union3"}
INIT Init
NEXT Next
INVARIANTS Emit Laws
CHECK_DEADLOCK FALSE
