CONSTANTS
  Mode = "c16"
  NCols = 5
  Window = FALSE
  Edge = 3
  NRows = 4
  NT = 2
  VAbs = 1
  Exist = TRUE
  Depth = 22
  MaxD = 2
  MaxArity = 2
  MaxStack = 2
  MaxBatch = 3
  MaxSeq = 1
  InitAll = 0
  Warm = 5
  ClassSet = {"write", "import", "importt", "rows", "groupby", "groupby3", "minmax", "startrows", "startgroup", "startgroup3", "page"}
  LeafKinds = {"row"}
  Script = "none"
INIT Init
NEXT Next
INVARIANT Emit
INVARIANT PagesConcatenate
CHECK_DEADLOCK FALSE
