CONSTANTS
  Mode = "c16"
  NCols = 5
  Window = FALSE
  Edge = 3
  NRows = 4
  NT = 2
  VAbs = 1
  Exist = TRUE
  Depth = 22
  MaxD = 2
  MaxArity = 2
  MaxStack = 2
  MaxBatch = 3
  MaxSeq = 1
  InitAll = 0
  Warm = 5
  ClassSet = {"write", "import", "rows", "groupby", "minmax", "startrows", "startgroup", "page"}
  LeafKinds = {"row"}
INIT Init
NEXT Next
INVARIANT Emit
INVARIANT PagesConcatenate
CHECK_DEADLOCK FALSE
