SPECIFICATION Spec
CONSTANTS
  R = 3
  ClearsFromSets = FALSE
  ClearsToStandard = FALSE
INVARIANT TypeOK
INVARIANT MajorityEverywhere
INVARIANT SameView
INVARIANT ChecksumsAgree
INVARIANT Emit
CHECK_DEADLOCK FALSE
