CONSTANTS
  Nodes = {0, 1, 2, 3}
  Shards = {0, 1, 2, 5}
  Classes = {"set","mutex","bool","int","time","timens","exists"}
  Rs = {1, 2}
  N0s = {2, 3}
  Depth = 3
  CopyAll = TRUE
INIT Init
NEXT Next
INVARIANT Emit
CHECK_DEADLOCK FALSE
