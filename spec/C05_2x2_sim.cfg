CONSTANTS
  K = 2
  M = 2
  Depth = 12
  Kinds = {"slice","btree"}
  Formats = {"pilosa","official"}
  MaxBatch = 3
  RowSizes = {0,1}
  Alphabet = {"Add","Remove","AddN","RemoveN","ImportSet","ImportClear","Optimize","Reencode","Hold"}
INIT Init
NEXT Next
INVARIANT TypeOK
INVARIANT ReplayMatches
INVARIANT ChangedExact
INVARIANT Emit
CHECK_DEADLOCK FALSE
