------------------------------- MODULE Attrs -------------------------------
(***************************************************************************)
(* Row / column attribute stores (pilosa.AttrStore, /repo/boltdb/           *)
(* attrstore.go, attr.go; reached by SetRowAttrs / SetColumnAttrs queries   *)
(* through executor.go) - property C25.                                     *)
(*                                                                         *)
(* Abstract state: attrs[st][id][k] is the value of key k of id in store    *)
(* st, or "none".  A value is a tag "<type>:<name>" ("i:1", "s:x", "b:T",   *)
(* "f:1" ...): the type is part of the value, so "type preserved" is plain  *)
(* equality.  The harness refines a tag to concrete Go values by seeded     *)
(* profiles (zero values, look-alikes across types, extremes, Unicode,      *)
(* 5000-byte strings; int / uint / uint64 inputs for integers).             *)
(*                                                                         *)
(* touched[st] is the set of ids some update was ever addressed to.  An id  *)
(* in touched whose keys are all "none" is a GHOST: the code keeps an empty *)
(* record for it.  Whether a ghost contributes to block checksums / block   *)
(* data is left open (DESIGN 5.5): all expectations below are three-valued  *)
(* where ghosts matter.                                                     *)
(*                                                                         *)
(* One action per public call; every action computes what the caller must   *)
(* observe.  CallerMutates is the environment scribbling on a map the store *)
(* returned earlier: it changes nothing (that is the property).  For (M)    *)
(* runs (Depth = 0) the ghost variables cached / aliased / leak model the   *)
(* attribute cache and which returned maps alias it; CopyOnRead = FALSE is  *)
(* the design as found (a cache miss hands out the cached map, an absent id *)
(* the process-wide empty map), TRUE the repaired one.                      *)
(***************************************************************************)
EXTENDS Integers, Sequences, FiniteSets, TLC, Json

CONSTANTS
    Ids,         \* attribute ids (block = id \div 100)
    AKeys,       \* attribute keys (strings)
    Vals,        \* value tags (strings), without "null"
    Stores,      \* store names (integers 1, 2)
    Ops,         \* enabled actions
    MaxUpd,      \* max number of keys in one update
    MaxBulk,     \* max number of ids in one bulk update
    ProbeBlocks, \* block ids BlockData is asked for
    Depth,       \* length of generated behaviours (incl. the Init record); 0 = (M) mode
    CopyOnRead,  \* design knob, see above
    InitModes,   \* subset of {"empty", "cold"}: "cold" = every store already holds
                 \* InitVal under key "a" of the ids in InitIds and was reopened since
                 \* (nothing cached) - the only way a read misses the cache on a stored id
    InitIds, InitVal,
    Sample       \* TRUE (simulation only): every action parameter is drawn at random instead
                 \* of enumerated, so that a step costs one successor per action kind and
                 \* the kinds are equally likely

VARIABLES attrs, touched, cached, aliased, leak, hist

vars  == <<attrs, touched, cached, aliased, leak, hist>>
mview == <<attrs, touched, cached, aliased, leak>>

Gen == Depth > 0
Pick(S) == IF Sample THEN {RandomElement(S)} ELSE S
BlockOf(id) == id \div 100

\* ---- updates ---------------------------------------------------------------
UVals   == Vals \cup {"null"}
Updates == UNION {[D -> UVals] : D \in {X \in SUBSET AKeys : X # {} /\ Cardinality(X) <= MaxUpd}}
\* bulk updates give every id a one-key update (the interesting part of bulk is
\* several ids in one transaction and one cache refresh per id)
BulkUpd == UNION {[D -> UVals] : D \in {X \in SUBSET AKeys : Cardinality(X) = 1}}
Bulks   == UNION {[S -> BulkUpd] : S \in {X \in SUBSET Ids : X # {} /\ Cardinality(X) <= MaxBulk}}

Merge(f, u) == [k \in AKeys |-> IF k \in DOMAIN u
                                THEN (IF u[k] = "null" THEN "none" ELSE u[k])
                                ELSE f[k]]

\* a sequence of calls <<id, update>> applied in order, as seen by one id
RECURSIVE FoldCalls(_, _, _, _)
FoldCalls(f, id, cs, i) ==
    IF i > Len(cs) THEN f
    ELSE FoldCalls(IF cs[i][1] = id THEN Merge(f, cs[i][2]) ELSE f, id, cs, i + 1)
Filled(mode) == mode \in {"cold", "warm"}

\* ---- observations -----------------------------------------------------------
Present(f)  == {k \in AKeys : f[k] # "none"}
Pairs(f)    == {<<k, f[k]>> : k \in Present(f)}
UPairs(u)   == {<<k, u[k]>> : k \in DOMAIN u}
BPairs(m)   == {<<id, UPairs(m[id])>> : id \in DOMAIN m}
IdsOf(b)    == {id \in Ids : BlockOf(id) = b}
Content(st, b) == {<<id, Pairs(attrs[st][id])>> : id \in {i \in IdsOf(b) : Present(attrs[st][i]) # {}}}
Ghosts(st, b)  == {id \in IdsOf(b) \cap touched[st] : Present(attrs[st][id]) = {}}
AllBlocks   == {BlockOf(id) : id \in Ids}
MustBlocks(st) == {b \in AllBlocks : Content(st, b) # {}}
MayBlocks(st)  == {b \in AllBlocks : Content(st, b) = {} /\ Ghosts(st, b) # {}}
\* checksum relation of block b between two stores: "eq" | "ne" | "free"
Rel(s1, s2, b) == IF Content(s1, b) # Content(s2, b) THEN "ne"
                  ELSE IF Ghosts(s1, b) = Ghosts(s2, b) THEN "eq" ELSE "free"
State(st)   == {<<id, Pairs(attrs[st][id])>> : id \in {i \in Ids : Present(attrs[st][i]) # {}}}

Init ==
    \E mode \in InitModes :
    /\ attrs   = [st \in Stores |-> [id \in Ids |-> [k \in AKeys |->
                     IF Filled(mode) /\ id \in InitIds /\ k = "a" THEN InitVal ELSE "none"]]]
    /\ touched = [st \in Stores |-> IF Filled(mode) THEN InitIds \cap Ids ELSE {}]
    /\ cached  = {}
    /\ aliased = {}
    /\ leak    = FALSE
    /\ hist    = IF Gen THEN << [op |-> "Init", mode |-> mode,
                                 pre |-> IF Filled(mode) THEN {<<id, {<<"a", InitVal>>}>> : id \in InitIds \cap Ids} ELSE {}] >>
                  ELSE << >>

Log(rec) == hist' = IF Gen THEN Append(hist, rec) ELSE hist

\* ---- writes -----------------------------------------------------------------
SetAttrs(st, id, u) ==
    /\ attrs'   = [attrs EXCEPT ![st][id] = Merge(@, u)]
    /\ touched' = [touched EXCEPT ![st] = @ \cup {id}]
    /\ cached'  = cached \cup {<<st, id>>}
    /\ aliased' = aliased \ {<<st, id>>}      \* the cache entry is replaced by a new map
    /\ UNCHANGED leak
    /\ Log([op |-> "SetAttrs", st |-> st, id |-> id, upd |-> UPairs(u)])

SetBulkAttrs(st, m) ==
    /\ attrs'   = [attrs EXCEPT ![st] = [id \in Ids |-> IF id \in DOMAIN m THEN Merge(@[id], m[id]) ELSE @[id]]]
    /\ touched' = [touched EXCEPT ![st] = @ \cup DOMAIN m]
    /\ cached'  = cached \cup {<<st, id>> : id \in DOMAIN m}
    /\ aliased' = aliased \ {<<st, id>> : id \in DOMAIN m}
    /\ UNCHANGED leak
    /\ Log([op |-> "SetBulkAttrs", st |-> st, bulk |-> BPairs(m)])

\* several set calls in ONE query (executeBulkSetRowAttrs merges the calls of a query
\* that consists of SetRowAttrs calls only, per row, before it writes): the outcome is
\* that of the calls applied one after the other - a later call wins, a null deletes
\* what is stored as well as what an earlier call of the same query set
BulkQuery(st, cs) ==
    LET ids == {cs[i][1] : i \in 1..Len(cs)}
    IN  /\ attrs'   = [attrs EXCEPT ![st] = [id \in Ids |-> FoldCalls(@[id], id, cs, 1)]]
        /\ touched' = [touched EXCEPT ![st] = @ \cup ids]
        /\ cached'  = cached \cup {<<st, id>> : id \in ids}
        /\ aliased' = aliased \ {<<st, id>> : id \in ids}
        /\ UNCHANGED leak
        /\ Log([op |-> "BulkQuery", st |-> st,
                calls |-> [i \in 1..Len(cs) |-> <<cs[i][1], UPairs(cs[i][2])>>]])

\* ---- reads ------------------------------------------------------------------
Read(st, id) ==
    /\ cached' = cached \cup {<<st, id>>}
    /\ aliased' = IF CopyOnRead \/ <<st, id>> \in cached THEN aliased
                  ELSE IF id \in touched[st] THEN aliased \cup {<<st, id>>}
                  ELSE aliased \cup {<<st, id>>, <<0, 0>>}     \* <<0,0>> = the shared empty map
    /\ UNCHANGED <<attrs, touched, leak>>
    /\ Log([op |-> IF id \in touched[st] THEN "Read" ELSE "ReadAbsent", st |-> st, id |-> id,
            res |-> Pairs(attrs[st][id])])

\* the caller changes a map it got from an earlier Read (G: step `ref`)
CallerMutatesG ==
    \E ref \in {i \in 1..Len(hist) : hist[i].op \in {"Read", "ReadAbsent", "BlockData"}} :
        /\ UNCHANGED mview
        /\ Log([op |-> "CallerMutates", ref |-> ref])
CallerMutatesM ==
    \E a \in aliased :
        /\ leak' = TRUE
        /\ UNCHANGED <<attrs, touched, cached, aliased, hist>>

Reopen(st) ==
    /\ cached'  = {c \in cached : c[1] # st}
    /\ aliased' = {a \in aliased : a[1] # st}
    /\ UNCHANGED <<attrs, touched, leak>>
    /\ Log([op |-> "Reopen", st |-> st])

Blocks(st) ==
    /\ UNCHANGED mview
    /\ Log([op |-> "Blocks", st |-> st, must |-> MustBlocks(st), may |-> MayBlocks(st)])

BlockData(st, b) ==
    /\ UNCHANGED mview
    /\ Log([op |-> "BlockData", st |-> st, blk |-> b, must |-> Content(st, b), may |-> Ghosts(st, b)])

Diff(s1, s2) ==
    /\ UNCHANGED mview
    /\ Log([op |-> "Diff", st |-> s1, st2 |-> s2,
            rel |-> {<<b, Rel(s1, s2, b)>> : b \in AllBlocks},
            have |-> MustBlocks(s1)])

\* a behaviour ends with the complete expected contents of every store (read back by the
\* harness after the last step; reading earlier would warm the cache).  Finish is a step
\* of its own so that a simulated trace ends in ONE state that Emit prints.
Final == [op |-> "Final", state |-> {<<st, State(st)>> : st \in Stores},
          ghosts |-> {<<st, {id \in touched[st] : Present(attrs[st][id]) = {}}>> : st \in Stores},
          blocks |-> {<<st, MustBlocks(st), MayBlocks(st)>> : st \in Stores},
          rel    |-> {<<p[1], p[2], {<<b, Rel(p[1], p[2], b)>> : b \in AllBlocks}, MustBlocks(p[1])>> :
                         p \in {q \in Stores \X Stores : q[1] # q[2]}}]
Finish == Gen /\ Len(hist) = Depth /\ hist' = Append(hist, Final) /\ UNCHANGED mview

Next ==
    \/ Finish
    \/ /\ (Gen => Len(hist) < Depth)
       /\ \/ "SetAttrs" \in Ops /\ \E st \in Pick(Stores), id \in Pick(Ids), u \in Pick(Updates) : SetAttrs(st, id, u)
          \/ "SetBulkAttrs" \in Ops /\ \E st \in Pick(Stores), m \in Pick(Bulks) : SetBulkAttrs(st, m)
          \/ "BulkQuery" \in Ops /\
               \E st \in Pick(Stores), id1 \in Pick(Ids), u1 \in Pick(Updates), same \in Pick(BOOLEAN),
                  idx \in Pick(Ids), u2 \in Pick(Updates), three \in Pick(BOOLEAN), u3 \in Pick(Updates) :
                  LET id2 == IF same THEN id1 ELSE idx
                  IN  BulkQuery(st, IF three THEN << <<id1, u1>>, <<id2, u2>>, <<id1, u3>> >>
                                             ELSE << <<id1, u1>>, <<id2, u2>> >>)
          \/ "Read" \in Ops /\ \E st \in Pick(Stores), id \in Pick(Ids) : Read(st, id)
          \/ "CallerMutates" \in Ops /\ (IF Gen THEN CallerMutatesG ELSE CallerMutatesM)
          \/ "Reopen" \in Ops /\ \E st \in Pick(Stores) : Reopen(st)
          \/ "Blocks" \in Ops /\ \E st \in Pick(Stores) : Blocks(st)
          \/ "BlockData" \in Ops /\ \E st \in Pick(Stores), b \in Pick(ProbeBlocks) : BlockData(st, b)
          \/ "Diff" \in Ops /\ \E s1 \in Pick(Stores), s2 \in Stores : s1 # s2 /\ Diff(s1, s2)

Spec == Init /\ [][Next]_vars

\* ---- (M) properties of the design -------------------------------------------
TypeOK ==
    /\ \A st \in Stores, id \in Ids, k \in AKeys : attrs[st][id][k] \in Vals \cup {"none"}
    /\ \A st \in Stores : touched[st] \subseteq Ids
\* a caller scribbling on a returned map never reaches the store's view
NoLeak == ~leak
\* only touched ids hold attributes
OnlyTouched == \A st \in Stores, id \in Ids : Present(attrs[st][id]) # {} => id \in touched[st]
\* the checksum relation is symmetric and "eq" is reflexive
RelLaws == \A s1 \in Stores, s2 \in Stores, b \in AllBlocks :
              /\ Rel(s1, s2, b) = Rel(s2, s1, b)
              /\ Rel(s1, s1, b) = "eq"
\* every id lies in exactly one block's data
Partition == \A st \in Stores : UNION {Content(st, b) : b \in AllBlocks} = State(st)

Emit == (Gen /\ Len(hist) = Depth + 1) => PrintT(<<"BEH", ToJson(hist)>>)
=============================================================================
