----------------------------- MODULE TopNCache -----------------------------
(* C12, design level: the fragment's TopN cache (cache.go rankCache / lruCache) and the way every
   write path of fragment.go feeds it, checked by TLC against what TopN needs from it:

     IdsExact       a positive cached count is the row's column count
                    (fragment.topBitmapPairs trusts cache.Get(row) > 0 and reads storage otherwise)
     TopNComplete   as long as the non-empty rows never outnumbered the cache size, every
                    non-empty row is cached with its exact count
                    (then "Recalculate; TopN(n)" ranks all rows by exact counts)

   The model follows the code, including its nondeterminism: the rate-limited invalidate() of the
   ranked cache is a Tick that may re-rank at any moment between two calls; ties at the cut of a
   re-ranking may fall either way (sort.Sort is not stable); the rows of an import are fed to the
   cache in any order (map iteration).  The three switches select the code before (FALSE) and
   after (TRUE) the repairs made for C12, so that TLC both reproduces the defects as
   counterexamples (hypotheses, replayed on the real code by checks/c12.py's generated histories)
   and shows the repaired design free of them in the small scope:
     FixDelta   importRoaring: BulkAdd(row, recount)            (before: cache.Get(row) + delta)
     FixBelow   rankCache.Add/BulkAdd: a count below the threshold still updates a cached row
     FixTomb    lruCache.Add(row, 0) removes the entry          (before: stored an entry of 0)
     FixZeroFirst  importPositions feeds the rows it emptied before the others (before: any order) *)
EXTENDS Integers, Sequences, FiniteSets, TLC

CONSTANTS NRows, NCols, Kinds, Sizes, Mutexes,   \* the configuration is chosen with the initial state
          FixDelta, FixBelow, FixTomb, FixZeroFirst

VARIABLES Kind, Size, Mutex,   \* cache type ("ranked" | "lru"), cache size, mutex field
          rows,   \* rows[r] \subseteq Cols
          ent,    \* cached count of row r, Absent when the cache has no entry
          thr,    \* rankCache.thresholdValue
          q,      \* lruCache: rows by recency, most recent first
          over    \* ghost: the non-empty rows outnumbered Size at some point

Rows   == 1..NRows
Cols   == 1..NCols
Absent == -1
W      == [c \in Cols |-> 2^(c-1)]

RECURSIVE Wt(_)
Wt(S) == IF S = {} THEN 0 ELSE LET c == CHOOSE x \in S : TRUE IN W[c] + Wt(S \ {c})
Count(rw, r)  == Wt(rw[r])
NonEmpty(rw)  == {r \in Rows : rw[r] # {}}
Present(e)    == {r \in Rows : e[r] # Absent}
MaxOf(S)      == CHOOSE x \in S : \A y \in S : y <= x
TB            == (11 * Size) \div 10            \* rankCache.thresholdBuffer = int(1.1 * maxEntries)

(* ---------------- the two caches as functions on cs = [e, t, q] ---------------- *)
Get(cs, r) == IF cs.e[r] = Absent THEN 0 ELSE cs.e[r]

RankPut(cs, r, n) ==      \* rankCache.Add / BulkAdd without the re-ranking
  IF n < cs.t /\ n > 0 /\ (~FixBelow \/ cs.e[r] = Absent) THEN cs ELSE [cs EXCEPT !.e[r] = n]

RankRecalcs(cs) ==        \* rankCache.recalculate: every outcome the tie order allows
  LET P == Present(cs.e)
  IN IF Cardinality(P) <= Size THEN {[cs EXCEPT !.t = 1]}
     ELSE { [e |-> IF Cardinality(P) > TB THEN [r \in Rows |-> IF r \in K THEN cs.e[r] ELSE Absent] ELSE cs.e,
             t |-> MaxOf({cs.e[x] : x \in P \ K}), q |-> cs.q]
            : K \in {K \in SUBSET P : /\ Cardinality(K) = Size
                                      /\ \A k \in K, x \in P \ K : cs.e[k] >= cs.e[x]} }

Without(s, r) == SelectSeq(s, LAMBDA x : x # r)

LruPut(cs, r, n) ==       \* lruCache.Add
  IF n = 0 /\ FixTomb THEN [cs EXCEPT !.e[r] = Absent, !.q = Without(cs.q, r)]
  ELSE LET q1 == <<r>> \o Without(cs.q, r)
       IN IF Len(q1) > Size
          THEN [e |-> [cs.e EXCEPT ![r] = n, ![q1[Len(q1)]] = Absent], t |-> cs.t, q |-> SubSeq(q1, 1, Len(q1) - 1)]
          ELSE [cs EXCEPT !.e[r] = n, !.q = q1]

LruTouch(cs, r) == IF cs.e[r] = Absent THEN cs ELSE [cs EXCEPT !.q = <<r>> \o Without(cs.q, r)]

Put(cs, r, n) == IF Kind = "lru" THEN LruPut(cs, r, n) ELSE RankPut(cs, r, n)
Recalcs(cs)   == IF Kind = "lru" THEN {cs} ELSE RankRecalcs(cs)

RECURSIVE PutAll(_, _, _)      \* feed the rows of seq s with their counts in rw, in that order
PutAll(cs, s, rw) == IF s = <<>> THEN cs ELSE PutAll(Put(cs, Head(s), Count(rw, Head(s))), Tail(s), rw)

RECURSIVE Orders(_)            \* all orders of a set of rows
Orders(S) == IF S = {} THEN {<<>>} ELSE UNION {{<<x>> \o o : o \in Orders(S \ {x})} : x \in S}

Cur == [e |-> ent, t |-> thr, q |-> q]

Commit(rw2, cs) ==
  /\ rows' = rw2
  /\ ent' = cs.e /\ thr' = cs.t /\ q' = cs.q
  /\ over' = (over \/ Cardinality(NonEmpty(rw2)) > Size)
  /\ UNCHANGED <<Kind, Size, Mutex>>

---------------------------------------------------------------------------
Init ==
  /\ Kind \in Kinds /\ Size \in Sizes /\ Mutex \in Mutexes
  /\ rows = [r \in Rows |-> {}]
  /\ ent = [r \in Rows |-> Absent]
  /\ thr = 0
  /\ q = <<>>
  /\ over = FALSE

(* fragment.unprotectedSetBit (+ handleMutex -> unprotectedClearBit): cache.Add per changed row *)
SetBit(r, c) ==
  /\ c \notin rows[r]
  /\ LET olds == IF Mutex THEN {x \in Rows : x # r /\ c \in rows[x]} ELSE {}
         rw2  == [x \in Rows |-> IF x = r THEN rows[x] \cup {c} ELSE IF x \in olds THEN rows[x] \ {c} ELSE rows[x]]
     IN \E o \in Orders(olds) : Commit(rw2, Put(PutAll(Cur, o, rw2), r, Count(rw2, r)))

ClearBit(r, c) ==
  /\ c \in rows[r]
  /\ LET rw2 == [rows EXCEPT ![r] = @ \ {c}] IN Commit(rw2, Put(Cur, r, Count(rw2, r)))

(* unprotectedClearRow: cache.Add(row, 0) *)
ClearRow(r) == LET rw2 == [rows EXCEPT ![r] = {}] IN Commit(rw2, Put(Cur, r, 0))

(* unprotectedSetRow: cache.BulkAdd(row, recount), no re-ranking *)
Store(r1, r2) ==
  /\ ~Mutex /\ r1 # r2
  /\ LET rw2 == [rows EXCEPT ![r2] = rows[r1]] IN Commit(rw2, Put(Cur, r2, Count(rw2, r2)))

(* importPositions: BulkAdd(recount) for every row named by the batch, then Recalculate *)
Import(R, S, clear) ==
  /\ Mutex /\ ~clear => Cardinality(R) = 1
  /\ LET rw2  == [x \in Rows |-> IF x \in R THEN (IF clear THEN rows[x] \ S ELSE rows[x] \cup S)
                                 ELSE IF Mutex /\ ~clear THEN rows[x] \ S ELSE rows[x]]
         named == IF Mutex /\ ~clear THEN R \cup {x \in Rows : rows[x] \cap S # {}} ELSE R
         ZeroFirst(o) == \A i, j \in DOMAIN o : (rw2[o[i]] = {} /\ rw2[o[j]] # {}) => i < j
     IN \E o \in {x \in Orders(named) : FixZeroFirst => ZeroFirst(x)} :
          \E cs \in Recalcs(PutAll(Cur, o, rw2)) : Commit(rw2, cs)

(* importRoaring: for every row whose bits changed BulkAdd(...), then Recalculate if any did *)
Roaring(R, S, clear) ==
  /\ ~Mutex
  /\ LET rw2 == [x \in Rows |-> IF x \in R THEN (IF clear THEN rows[x] \ S ELSE rows[x] \cup S) ELSE rows[x]]
         chg == {x \in R : rw2[x] # rows[x]}
         val(cs, x) == IF FixDelta THEN Count(rw2, x) ELSE Get(cs, x) + Count(rw2, x) - Count(rows, x)
         RECURSIVE Feed(_, _)
         Feed(cs, s) == IF s = <<>> THEN cs ELSE Feed(Put(cs, Head(s), val(cs, Head(s))), Tail(s))
     IN \E o \in Orders(chg) :
          \E cs \in (IF chg = {} THEN {Cur} ELSE Recalcs(Feed(Cur, o))) : Commit(rw2, cs)

(* API.RecalculateCaches, and the rate-limited invalidate() firing between two calls *)
Recalc == \E cs \in Recalcs(Cur) : Commit(rows, cs)

(* TopN(ids=[r]): topBitmapPairs -> cache.Get, which refreshes the LRU recency *)
ReadIds(r) == Kind = "lru" /\ Commit(rows, LruTouch(Cur, r))

(* restart: flushCache persists the cached ids; openCache BulkAdds their recounts in id order
   into a new cache (threshold 0) and re-ranks *)
Reopen ==
  LET fresh == [e |-> [r \in Rows |-> Absent], t |-> 0, q |-> <<>>]
      RECURSIVE Asc(_)
      Asc(S) == IF S = {} THEN <<>> ELSE LET m == CHOOSE x \in S : \A y \in S : x <= y IN <<m>> \o Asc(S \ {m})
  IN \E cs \in Recalcs(PutAll(fresh, Asc(Present(ent)), rows)) : Commit(rows, cs)

Sets == (SUBSET Cols) \ {{}}
Rects == {R \in SUBSET Rows : Cardinality(R) \in {1, 2}}

Next ==
  \/ \E r \in Rows, c \in Cols : SetBit(r, c) \/ ClearBit(r, c)
  \/ \E r \in Rows : ClearRow(r) \/ ReadIds(r)
  \/ \E r1, r2 \in Rows : Store(r1, r2)
  \/ \E R \in Rects, S \in Sets, clear \in BOOLEAN : Import(R, S, clear) \/ Roaring(R, S, clear)
  \/ Recalc
  \/ Reopen

---------------------------------------------------------------------------
IdsExact     == \A r \in Rows : ent[r] > 0 => ent[r] = Count(rows, r)
NoGarbage    == \A r \in Rows : ent[r] >= Absent        \* a negative "count" is a wrapped delta
TopNComplete == ~over => \A r \in NonEmpty(rows) : ent[r] = Count(rows, r)
LruShape     == Kind = "lru" => /\ Len(q) <= Size
                                /\ {q[i] : i \in DOMAIN q} = Present(ent)
=============================================================================
