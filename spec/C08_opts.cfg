CONSTANTS
  Family = {"set", "mutex", "int", "time", "bool"}
  IndexCfgsSel = "all"
  Depth = 2
  MaxRestarts = 1
  Classes = {"restart"}
  Sample = FALSE
INIT Init
NEXT Next
INVARIANT Emit
CHECK_DEADLOCK FALSE
