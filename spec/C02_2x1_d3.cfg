CONSTANTS
  K = 2
  M = 1
  Depth = 3
  Kinds = {"slice","btree"}
  Formats = {"pilosa"}
  MaxBatch = 2
  RowSizes = {0}
  Alphabet = {"Add","Remove","AddN","RemoveN","ImportSet","ImportClear","Optimize","Reencode","Hold","Contains","Count","Slice","Max","Min","Views","CountRange"}
INIT Init
NEXT Next
INVARIANT TypeOK
INVARIANT ReplayMatches
INVARIANT ChangedExact
INVARIANT Emit
CHECK_DEADLOCK FALSE
