CONSTANTS
  K = 1
  M = 3
  Depth = 8
  Kinds = {"slice","btree"}
  Formats = {"pilosa"}
  MaxBatch = 3
  RowSizes = {0}
  Alphabet = {"Add","AddN","Remove","Hold","Optimize","Count","RemoveN","ImportSet","ImportClear","Reencode","Slice","Views","CountRange"}
INIT Init
NEXT Next
INVARIANT TypeOK
INVARIANT ReplayMatches
INVARIANT ChangedExact
INVARIANT Emit
CHECK_DEADLOCK FALSE
