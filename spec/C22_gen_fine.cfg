CONSTANTS
  Members = {"n0","n1","n2"}
  Coord = "n0"
  Joiners = {"n3"}
  Leavers = {"n2"}
  Rejoiners = {"n1"}
  Profile = "table"
  Variant = "fixed"
  Gran = "fine"
  MaxJobs = 5
  MaxQueue = 2
  BJoin = 2
  BLeave = 2
  BRejoin = 1
  BDup = 2
  BErr = 2
  BUnknown = 1
  BAbort = 2
  BSendFail = 1
  Depth = 26
  Locks = FALSE
  HandlerReadsState = FALSE
INIT Init
NEXT Next
INVARIANT TypeOK
INVARIANT AtMostOneJob
INVARIANT NoHandlerStuck
INVARIANT Emit
CHECK_DEADLOCK FALSE
