SPECIFICATION Spec
CONSTANTS
  Nodes = {"a", "b", "c"}
  Coord0 = "a"
  InitTopo = {}
  ReplicaN = 2
  HasData = FALSE
  Script <- ScriptFresh3
  Depth = 20
  MaxStop = 1
  MaxDup = 1
  MaxSetCoord = 1
  MaxRemove = 1
  MaxFalse = 0
  MaxNoop = 0
  Variant = "fixed"
CHECK_DEADLOCK FALSE
VIEW view
INVARIANTS
  TypeOK
  ExactlyOneCoordinator
  SingleLeader
  StateMatchesMembership
  ReachesServing
  FollowersConverge
  NoServeWhileNotReady
