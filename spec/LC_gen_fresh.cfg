SPECIFICATION SpecG
CONSTANTS
  Nodes = {"a", "b", "c"}
  Coord0 = "a"
  InitTopo = {}
  ReplicaN = 2
  HasData = FALSE
  Script <- ScriptFresh3
  Depth = 19
  MaxStop = 1
  MaxDup = 1
  MaxSetCoord = 1
  MaxRemove = 1
  MaxFalse = 0
  MaxNoop = 0
  Variant = "code"
CHECK_DEADLOCK FALSE
INVARIANTS
  Emit
  EmitViol
