INIT TInit
NEXT TNext
INVARIANT RefusedWhileNotServing
INVARIANT AdmittedWhileServing
INVARIANT OnlyResizeClassesServed
POSTCONDITION Accepted
CHECK_DEADLOCK FALSE
