CONSTANTS
  Family = "c30"
  Rows = {0,1,2}
  NShards = 3
  Slots = 2
  Modes = {"unkeyed","rowkeys","colkeys","both"}
  Targets = {"same","other"}
  Bufs = {0,1,2,3}
  MaxClear = 2
  Patterns = {0}
INIT Init
NEXT Next
INVARIANT C30TypeOK
INVARIANT C30RoundTrip
INVARIANT Emit
CHECK_DEADLOCK FALSE
