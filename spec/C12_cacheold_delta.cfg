CONSTANTS
  NRows = 3
  NCols = 2
  Kinds = {"ranked", "lru"}
  Sizes = {1}
  Mutexes = {FALSE}
  FixDelta = FALSE
  FixBelow = TRUE
  FixTomb = TRUE
  FixZeroFirst = TRUE
INIT Init
NEXT Next
INVARIANTS IdsExact NoGarbage TopNComplete LruShape
CHECK_DEADLOCK FALSE
