CONSTANTS
  NS = {"c"}
  NK = 2
  BatchSet = "mc"
  Callers = {1}
  Ops = {"Translate","RApply","RRecv","RReassign"}
  Depth = 0
  Recheck = TRUE
  DropInFlight = FALSE
  MaxSeq = 4
  MaxRestart = 2
  Sample = FALSE
INIT Init
NEXT Next
INVARIANT TypeOK
INVARIANT StableBijection
INVARIANT MapAgrees
INVARIANT ReverseOK
INVARIANT RestartStable
INVARIANT ReplicaConverges
VIEW mview
CHECK_DEADLOCK FALSE
