----------------------------- MODULE Placement -----------------------------
(***************************************************************************)
(* C20 - every node computes the same replica set for every shard.          *)
(*                                                                         *)
(* The placement rule of cluster.go as a function of                        *)
(*   - the SET of member ids (never the join order, never the local node),  *)
(*   - the replica count r,                                                 *)
(*   - two OBSERVED hashes, recorded from the real code and taken as        *)
(*     inputs: part(index, shard) in 0..PartN-1  (cluster.partition, FNV)   *)
(*     and prim(n, p) in 0..n-1 (Hasher.Hash(p, n), jump hash).             *)
(*                                                                         *)
(* Rule: the members sorted by id form a ring; the owners of partition p    *)
(* are the K = min(max(r,1), n) consecutive ring members starting at ring   *)
(* position prim(n, p).  Every ownership helper (shardNodes, ownsShard,      *)
(* containsShards, shardsByNode, validateShardOwnership) must answer from    *)
(* exactly that set.                                                        *)
(*                                                                         *)
(* Ids are strings, which TLA+ cannot order; the order of ids is the        *)
(* function `rank` (id -> position in the byte-wise sorted universe).       *)
(*                                                                         *)
(* The module has one variable, `cur`, the configuration under              *)
(* consideration: for the (M) run (C20_mc.cfg) Init enumerates every        *)
(* configuration of a small universe and TLC checks the rule's properties;  *)
(* TracePlacement.tla binds `cur` to the configurations recorded from the   *)
(* real code.                                                               *)
(***************************************************************************)
EXTENDS Integers, Sequences, FiniteSets

CONSTANTS PartN,     \* number of partitions (256 in the code)
          MaxRep,    \* largest replica count considered
          MCIds      \* (M) run only: universe of ids, a sequence in ascending id order

Range(s) == {s[k] : k \in DOMAIN s}
Min2(a, b) == IF a < b THEN a ELSE b
Max2(a, b) == IF a > b THEN a ELSE b

\* number of owners of every partition
ReplicaK(r, n) == Min2(Max2(r, 1), n)

\* the members of M in ascending id order
SortedRing(M, rank) ==
    LET pos(id) == Cardinality({x \in M : rank[x] < rank[id]}) + 1
    IN [k \in 1..Cardinality(M) |-> CHOOSE id \in M : pos(id) = k]

\* ring is the ascending enumeration of M (checked without constructing it)
IsSortedRing(ring, M, rank) ==
    /\ Len(ring) = Cardinality(M)
    /\ \A k \in 1..Len(ring) : ring[k] \in M
    /\ \A k \in 1..(Len(ring) - 1) : rank[ring[k]] < rank[ring[k + 1]]

\* the k consecutive ring members starting at 0-based position h
RingSlice(ring, h, k) == [x \in 1..k |-> ring[((h + x - 1) % Len(ring)) + 1]]

\* owners of a partition whose observed primary position is h
Owners(ring, h, r) == RingSlice(ring, h, ReplicaK(r, Len(ring)))
OwnerSet(ring, h, r) == Range(Owners(ring, h, r))

\* --- what each helper must answer, given the owner set O of the shard's partition
OwnsShard(id, O) == id \in O
\* containsShards / the shards for which ownsShard / validateShardOwnership hold:
\* OS is a function shard-key -> owner set
Contained(id, OS) == {j \in DOMAIN OS : id \in OS[j]}
\* shardsByNode(avail, shards): every shard goes to exactly one node, an owner that is
\* available; it fails iff some shard has no available owner
SbnAdmissible(m, err, avail, OS) ==
    IF err THEN {j \in DOMAIN OS : OS[j] \cap avail = {}} # {}   \* (no \E: TLC would branch on it)
    ELSE /\ \A id \in DOMAIN m :
              /\ Len(m[id]) = Cardinality(Range(m[id]))
              /\ \A j \in Range(m[id]) : j \in DOMAIN OS /\ id \in (OS[j] \cap avail)
         /\ UNION {Range(m[id]) : id \in DOMAIN m} = DOMAIN OS
         /\ \A a \in DOMAIN m : \A b \in DOMAIN m : a # b => Range(m[a]) \cap Range(m[b]) = {}

\* --- the same, per shard: `a` is what the helpers answered for one shard whose partition
\* has the owner sequence O; `asked` are the node ids the per-node helpers were asked about
ShardAnswersOK(a, O, asked, self) ==
    /\ a.sn = O                                           \* ShardNodes: the owners, primary first
    /\ Range(a.own) = Range(O) \cap asked                 \* ownsShard true exactly for owners
    /\ Range(a.cont) = Range(O) \cap asked                \* containsShards lists it exactly for owners,
    /\ Len(a.cont) = Cardinality(Range(a.cont))           \*   once
    /\ a.vso = (self \in Range(O))                        \* validateShardOwnership on the local node
\* shardsByNode routed the shard to exactly one node, an available owner
RouteOK(route, O, avail) == Len(route) = 1 /\ route[1] \in (Range(O) \cap avail)

\* --------------------------------------------------------------------------
\* (M) the rule has the properties the statement lists, for every configuration
VARIABLE cur   \* [m: set of ids, r: replica count, h: [0..PartN-1 -> primary position]]

SeqOf(S) == CHOOSE q \in [1..Cardinality(S) -> S] : Range(q) = S
MCIds4 == <<"a", "b", "c", "d">>
MCRank == [id \in Range(MCIds) |-> CHOOSE k \in DOMAIN MCIds : MCIds[k] = id]

Init ==
    \E M \in (SUBSET Range(MCIds)) \ {{}} : \E r \in 0..MaxRep :
        \E hf \in [0..(PartN - 1) -> 0..(Cardinality(M) - 1)] :
            cur = [m |-> M, r |-> r, h |-> hf]
Next == UNCHANGED cur

CurRing == SortedRing(cur.m, MCRank)
CurOwners(p) == Owners(CurRing, cur.h[p], cur.r)

SizeOK == \A p \in 0..(PartN - 1) :
    Len(CurOwners(p)) = Min2(Max2(cur.r, 1), Cardinality(cur.m))
DistinctOK == \A p \in 0..(PartN - 1) :
    /\ Cardinality(Range(CurOwners(p))) = Len(CurOwners(p))
    /\ Range(CurOwners(p)) \subseteq cur.m
\* consecutive in the sorted ring, starting at the primary
ShapeOK == \A p \in 0..(PartN - 1) : \A x \in 1..Len(CurOwners(p)) :
    LET pos(id) == CHOOSE k \in 1..Len(CurRing) : CurRing[k] = id IN
    pos(CurOwners(p)[x]) = ((cur.h[p] + x - 1) % Len(CurRing)) + 1
\* the ring is a function of the id set: any enumeration of the ids sorted by rank is it
RingCanonical == IsSortedRing(CurRing, cur.m, MCRank)
\* helpers: a node is treated as an owner exactly when it is in the owner set
HelpersAgree ==
    LET OS == [p \in 0..(PartN - 1) |-> Range(CurOwners(p))] IN
    /\ \A id \in Range(MCIds) :
          /\ Contained(id, OS) = {p \in 0..(PartN - 1) : OwnsShard(id, OS[p])}
          /\ (id \notin cur.m => Contained(id, OS) = {})
    \* routing every shard to its primary is admissible when all members are available
    /\ SbnAdmissible([id \in cur.m |-> SeqOf({p \in 0..(PartN - 1) : CurOwners(p)[1] = id})],
                     FALSE, cur.m, OS)
=============================================================================
