CONSTANTS
  Mode = "c15"
  NCols = 2
  Window = TRUE
  Edge = 1
  NRows = 1
  NT = 1
  VAbs = 1
  Exist = TRUE
  Depth = 4
  MaxD = 3
  MaxArity = 2
  MaxStack = 2
  MaxBatch = 2
  MaxSeq = 1
  InitAll = 0
  Warm = 0
  ClassSet = {"push", "push2", "apply", "apply2", "unary", "set", "reset", "setother", "clear", "rowwrite", "import"}
  LeafKinds = {"row", "rowt", "cond", "empty"}
  Script = "none"
INIT Init
NEXT Next
VIEW MView
INVARIANT TypeOK
INVARIANT EvalMatches
INVARIANT AlgebraLaws
CHECK_DEADLOCK FALSE
