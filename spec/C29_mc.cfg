SPECIFICATION LSpec
CONSTANTS
  Rows = {0, 1}
  Cols = {0, 1}
  Frags = {0}
  Procs = {0, 1}
  MaxCalls = 3
INVARIANT TypeOK
CHECK_DEADLOCK FALSE
