---------------------------- MODULE DurabilityMC ----------------------------
(* (M) runs of Durability.tla: the fragments are interchangeable (kept out of Durability
   itself because TraceDurability instantiates it with the many fragments of a real trace,
   where TLC would evaluate Permutations(Frags) eagerly). *)
EXTENDS Durability
FragPerms == Permutations(Frags)
=============================================================================
