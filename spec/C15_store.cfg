CONSTANTS
  Mode = "c15"
  NCols = 4
  Window = TRUE
  Edge = 3
  NRows = 1
  NT = 1
  VAbs = 1
  Exist = TRUE
  Depth = 6
  MaxD = 3
  MaxArity = 1
  MaxStack = 1
  MaxBatch = 1
  MaxSeq = 1
  InitAll = 1
  Warm = 0
  ClassSet = {"push", "unary", "rowwrite", "reset"}
  LeafKinds = {"row"}
  Script = "store"
INIT Init
NEXT Next
INVARIANT Emit
CHECK_DEADLOCK FALSE
