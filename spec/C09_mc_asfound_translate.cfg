CONSTANTS
  a = a
  b = b
  Frags = {a, b}
  Bits = {1, 2}
  MaxWrites = 2
  MaxOpN = 1
  NoOpnSnapshot = FALSE
  Kinds = {"bit"}
  KeyChunks = 2
  CutClasses = {"inkey", "between", "afterid", "aftersize"}
  UnrecognisedCuts = {}
  TornTailFails = TRUE
  RoaringTwoWrites = TRUE
  RowOpAsync = TRUE
  MultiSeparateWrites = TRUE
  SnapTmpTruncated = TRUE
  Contentless = FALSE
INIT Init
NEXT Next
SYMMETRY FragPerms
INVARIANT TypeOK
INVARIANT RestartSucceeds
CHECK_DEADLOCK FALSE
