---------------------------- MODULE RoaringCodec ----------------------------
(***************************************************************************)
(* C04 - encodings round-trip; decoding official bytes is a pure function  *)
(* of the bytes; importing encoded bytes equals decode-then-merge.         *)
(*                                                                         *)
(* A behaviour: choose a source set Src, a target set Tgt, an encoding      *)
(* (Pilosa format; official format without run containers; official format *)
(* with run containers), a flags byte, the target's container collection,   *)
(* then perform one of                                                      *)
(*   RoundTrip   WriteTo(Src) ; UnmarshalBinary  => same set, same flags    *)
(*   Decode      UnmarshalBinary(bytes(Src)) twice on the same buffer       *)
(*               => both give Src, the buffer is unchanged                  *)
(*   Import      ImportRoaringBits(bytes(Src), clear, rowSize) into Tgt     *)
(*               => Tgt \cup Src (set) or Tgt \ Src (clear);                *)
(*                  changed = Src \ Tgt (set) or Src \cap Tgt (clear);      *)
(*                  per-row deltas                                          *)
(* The byte level (what "bytes(Src)" is) belongs to the harness: the real   *)
(* encoder for Pilosa format, reference encoders for both formats.          *)
(***************************************************************************)
EXTENDS RoaringOps, TLC, Json

CONSTANTS Formats,   \* "pilosa", "pilosa_ref", "official", "official_runs"
          Kinds,     \* "slice", "btree"
          RowSizes,
          FlagsSet,  \* flag bytes to try
          Family     \* "roundtrip" | "decode" | "import"

VARIABLES Src, Tgt, hist
vars == <<Src, Tgt, hist>>

Init ==
    /\ Src \in SUBSET U
    /\ Tgt \in IF Family = "import" THEN SUBSET U ELSE {{}}
    /\ hist = << >>

Step(op, args, rs, ch) ==
    /\ hist' = Append(hist, [op |-> op, args |-> args, Src |-> Src, Tgt |-> Tgt, rs |-> rs, ch |-> ch])
    /\ UNCHANGED <<Src, Tgt>>

RoundTrip ==
    \E fl \in FlagsSet : \E k \in Kinds : \E prov \in {"fresh", "optimized", "frozen", "mapped"} :
        Step("RoundTrip", <<fl, k, prov>>, Src, {})

Decode ==
    \E f \in Formats : \E k \in Kinds :
        Step("Decode", <<f, k>>, Src, {})

Import ==
    \* tp: how the target was built - plain adds, optimized, or "shared": a value derived
    \* from it (OffsetRange, as fragment.row does) is outstanding, so its containers are
    \* frozen; the import must still land, and the derived value must not change
    \E f \in Formats : \E k \in Kinds : \E clear \in BOOLEAN : \E rowSize \in RowSizes :
      \E tp \in {"plain", "optimized", "shared"} :
        /\ Src # {}
        /\ Step("Import", <<f, k, clear, rowSize, tp>>,
                IF clear THEN Tgt \ Src ELSE Tgt \cup Src,
                IF clear THEN Src \cap Tgt ELSE Src \ Tgt)

Next ==
    /\ Len(hist) < 1
    /\ \/ Family = "roundtrip" /\ RoundTrip
       \/ Family = "decode" /\ Decode
       \/ Family = "import" /\ Import

Spec == Init /\ [][Next]_vars

\* (M) ImportIsMerge: the recorded result and changed set are consistent
ImportIsMerge ==
    \A i \in DOMAIN hist :
        LET h == hist[i] IN
          h.op = "Import" =>
             /\ (h.args[3] => h.rs = h.Tgt \ h.Src /\ h.ch = h.Tgt \ h.rs)
             /\ (~h.args[3] => h.rs = h.Tgt \cup h.Src /\ h.ch = h.rs \ h.Tgt)

Emit == Len(hist) = 1 => PrintT(<<"BEH", ToJson(hist)>>)
=============================================================================
