------------------------- MODULE AntiEntropyHolder -------------------------
(***************************************************************************)
(* C11, the shard / owner dimension of an anti-entropy pass                *)
(* (holderSyncer.SyncHolder): a cluster of n nodes with fewer replicas     *)
(* than nodes (ReplicaN = 2), S shards; shard s is owned by the ring slice *)
(* {prim[s], prim[s]+1 mod n}.  A pass started on node ini walks ALL the   *)
(* shards of the index in ascending order and repairs exactly the shards   *)
(* ini owns (the block-level repair of one shard among its owners is       *)
(* AntiEntropy.tla; here it is the single step SyncShard, whose result is  *)
(* the property: every block that differed holds the per-bit majority,     *)
(* tie => set, on every owner).  Shards ini does not own are skipped, not  *)
(* the end of the walk, and are left exactly as they were.                 *)
(*                                                                         *)
(* A configuration is chosen step by step: PickN (cluster size, initiator),*)
(* PickPrim (the primary of every shard - any, so that owned and unowned   *)
(* shards interleave in every way), Fill (the contents of every owner of   *)
(* every shard over the four positions of AntiEntropy.tla), then the walk. *)
(***************************************************************************)
EXTENDS Integers, Sequences, FiniteSets, TLC, Json

CONSTANTS Ns,      \* cluster sizes, e.g. {3, 4}
          S        \* number of shards

VARIABLES n, ini, prim, content, init0, pc, k

vars == <<n, ini, prim, content, init0, pc, k>>

Shards   == 1 .. S
Reps     == 1 .. 2             \* 1 = the shard's primary, 2 = the next node on the ring
Pos      == 1 .. 4
Blocks   == {0, 1}
Block(p) == IF p = 4 THEN 1 ELSE 0
BlockBits(X, b) == {p \in X : Block(p) = b}
MajorityN == (2 + 1) \div 2

NodeOf(s, r)  == (prim[s] + (r - 1)) % n
Owners(s)     == {NodeOf(s, r) : r \in Reps}
Owned(s)      == ini \in Owners(s)

Differs(c, b) == BlockBits(c[1], b) # BlockBits(c[2], b)
Maj(c, b)     == {p \in Pos : Block(p) = b /\ Cardinality({r \in Reps : p \in c[r]}) >= MajorityN}
Want(c)       == [r \in Reps |-> UNION {IF Differs(c, b) THEN Maj(c, b) ELSE BlockBits(c[r], b) : b \in Blocks}]

Init ==
    /\ n = 0 /\ ini = 0 /\ prim = [s \in Shards |-> 0]
    /\ content = [s \in Shards |-> [r \in Reps |-> {}]]
    /\ init0 = content /\ pc = "pickn" /\ k = 0

PickN ==
    /\ pc = "pickn"
    /\ \E m \in Ns : \E i \in 0 .. (m - 1) : n' = m /\ ini' = i
    /\ pc' = "pickprim" /\ k' = 1
    /\ UNCHANGED <<prim, content, init0>>

PickPrim ==
    /\ pc = "pickprim"
    /\ \E p \in 0 .. (n - 1) : prim' = [prim EXCEPT ![k] = p]
    /\ IF k = S THEN pc' = "fill" /\ k' = 1 ELSE pc' = "pickprim" /\ k' = k + 1
    /\ UNCHANGED <<n, ini, content, init0>>

\* k runs over (shard, replica) pairs: 1 .. 2S
Fill ==
    /\ pc = "fill"
    /\ LET s == (k + 1) \div 2
           r == IF k % 2 = 1 THEN 1 ELSE 2
       IN  \E X \in SUBSET Pos : content' = [content EXCEPT ![s][r] = X]
    /\ IF k = 2 * S
       THEN pc' = "walk" /\ k' = 1 /\ init0' = content'
       ELSE pc' = "fill" /\ k' = k + 1 /\ init0' = init0
    /\ UNCHANGED <<n, ini, prim>>

\* the walk over the shards of the index, ascending
SyncShard ==
    /\ pc = "walk"
    /\ content' = IF Owned(k) THEN [content EXCEPT ![k] = Want(content[k])] ELSE content
    /\ IF k = S THEN pc' = "done" /\ k' = 0 ELSE pc' = "walk" /\ k' = k + 1
    /\ UNCHANGED <<n, ini, prim, init0>>

Next == PickN \/ PickPrim \/ Fill \/ SyncShard
Spec == Init /\ [][Next]_vars

Done == pc = "done"
OwnedRepaired   == Done => \A s \in Shards : Owned(s) => content[s] = Want(init0[s])
UnownedUntouched == Done => \A s \in Shards : ~Owned(s) => content[s] = init0[s]
OwnersAgree     == Done => \A s \in Shards : Owned(s) => \A b \in Blocks : ~Differs(content[s], b)

SetSeq(X) == [j \in 1 .. 4 |-> j \in X]
Emit ==
    Done => PrintT(<<"BEH", ToJson(<<[op |-> "Holder", n |-> n, ini |-> ini,
                                      prim |-> [s \in Shards |-> prim[s]],
                                      owned |-> [s \in Shards |-> Owned(s)],
                                      init |-> [s \in Shards |-> [r \in Reps |-> SetSeq(init0[s][r])]],
                                      want |-> [s \in Shards |-> [r \in Reps |->
                                                  SetSeq(IF Owned(s) THEN Want(init0[s])[r] ELSE init0[s][r])]]]>>)>>)
=============================================================================
