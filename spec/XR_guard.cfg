CONSTANTS
  Nodes = {0, 1, 2, 3}
  Shards = {0, 1}
  Classes = {"set","exists"}
  Rs = {1, 2}
  N0s = {2, 3}
  Depth = 0
  CopyAll = FALSE
INIT Init
NEXT Next
INVARIANT OwnersHoldAll
CHECK_DEADLOCK FALSE
