CONSTANTS
  Indexes = {"i","j"}
  IVariants = {"plain","keys","noexist"}
  Fields = {"a","b"}
  FVariants = {"set_ranked","set_lru7","set_none","mutex","bool","int","time_YMD","time_D_nsv","set_keys"}
  TimeVars = {"time_YMD","time_D_nsv"}
  NodesAt = {0, 1}
  Depth = 6
  ApplyDrops = FALSE
INIT Init
NEXT Next
INVARIANT Emit
CHECK_DEADLOCK FALSE
