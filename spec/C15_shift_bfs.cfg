CONSTANTS
  Mode = "c15"
  NCols = 3
  Window = TRUE
  Edge = 2
  NRows = 2
  NT = 1
  VAbs = 1
  Exist = TRUE
  Depth = 4
  MaxD = 3
  MaxArity = 2
  MaxStack = 2
  MaxBatch = 1
  MaxSeq = 1
  InitAll = 2
  Warm = 0
  ClassSet = {"push", "apply", "unary"}
  LeafKinds = {"row"}
INIT Init
NEXT Next
INVARIANT Emit
CHECK_DEADLOCK FALSE
