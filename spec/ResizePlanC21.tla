--------------------------- MODULE ResizePlanC21 ---------------------------
(***************************************************************************)
(* C21 - a resize plan copies every newly owned shard from a surviving      *)
(* owner; cleanup removes only shards a node no longer owns.                *)
(* (The module is not called ResizePlan because spec/ResizePlan.tla is the   *)
(* table generated for C22.)                                                *)
(*                                                                         *)
(* A configuration is: the action (add | remove) and its node, the set FV   *)
(* of (field, view) pairs of the index, the shards with data, and for every  *)
(* such shard its owners before (oo) and after (no) the action.  Ownership   *)
(* is an input here (it is what cluster.shardNodes answers on the old and    *)
(* on the new member list; that those answers are right is C20).             *)
(*                                                                         *)
(* A plan is a set of entries <<target node, field, view, shard, source>>.   *)
(***************************************************************************)
EXTENDS Integers, Sequences, FiniteSets

Range(s) == {s[k] : k \in DOMAIN s}

\* the node that may not serve as a source
Removed(act, node) == IF act = "remove" THEN {node} ELSE {}

\* (target, shard) pairs for which the target owns the shard after but not before
\* shards: set; oo, no: functions shard -> set of nodes
Needed(shards, oo, no) == {<<n, s>> \in (UNION {no[s] : s \in shards}) \X shards : n \in no[s] /\ n \notin oo[s]}

\* the nodes a copy of shard s may come from
Sources(s, oo, act, node) == oo[s] \ Removed(act, node)

\* every newly owned (field, view, shard) has an entry
PlanComplete(plan, FV, shards, oo, no) ==
    \A ns \in Needed(shards, oo, no) : \A fv \in FV :
        \E en \in plan : en[1] = ns[1] /\ en[2] = fv[1] /\ en[3] = fv[2] /\ en[4] = ns[2]

\* every entry names a fragment of the index and a source that owned the shard before
\* and is not the node being removed
SourcesValid(plan, FV, shards, oo, act, node) ==
    \A en \in plan :
        /\ <<en[2], en[3]>> \in FV
        /\ en[4] \in shards
        /\ en[5] \in Sources(en[4], oo, act, node)

\* no admissible plan exists: some newly owned shard has no surviving previous owner
NoSourceExists(shards, oo, no, act, node) ==
    \E ns \in Needed(shards, oo, no) : Sources(ns[2], oo, act, node) = {}

RefusedOnlyIfNoSource(refused, shards, oo, no, act, node) ==
    refused => NoSourceExists(shards, oo, no, act, node)

\* what the planner may answer
PlanOK(refused, plan, FV, shards, oo, no, act, node) ==
    IF refused THEN NoSourceExists(shards, oo, no, act, node)
    ELSE PlanComplete(plan, FV, shards, oo, no) /\ SourcesValid(plan, FV, shards, oo, act, node)

\* cleanup on node self: before/after are sets of <<index, field, view, shard>>; own[x] is
\* the owner set of the shard of fragment x after the resize
CleanupOnlyUnowned(self, before, after, own) ==
    /\ after \subseteq before
    /\ \A x \in before \ after : self \notin own[<<x[1], x[4]>>]

\* a node after a completed resize on real servers. before/after: its fragments before the
\* resize started / after everybody is NORMAL again; all: the fragments that existed anywhere
\* in the cluster before; own: owners after the resize. What disappeared from the node is
\* unowned, and what the node owns it has: the plan named it a source for everything it newly
\* owns and cleanup did not take it away again.
ResizedOK(self, before, after, all, own) ==
    /\ \A x \in before \ after : self \notin own[<<x[1], x[4]>>]
    /\ \A x \in all : self \in own[<<x[1], x[4]>>] => x \in after

\* --------------------------------------------------------------------------
\* (M) the predicates are satisfiable exactly when they should be: over a small
\* universe, a plan that is complete and valid exists iff no needed shard lacks a source
CONSTANTS MCNodes, MCShards

VARIABLE cfg
MCFV == {<<"f", "standard">>}

Init ==
    \E act \in {"add", "remove"} : \E node \in MCNodes :
    \E oo \in [MCShards -> SUBSET MCNodes] : \E no \in [MCShards -> SUBSET MCNodes] :
        /\ (act = "add" => \A s \in MCShards : node \notin oo[s])      \* a joining node owned nothing
        /\ (act = "remove" => \A s \in MCShards : node \notin no[s])   \* a removed node owns nothing
        /\ cfg = [act |-> act, node |-> node, oo |-> oo, no |-> no]
Next == UNCHANGED cfg

\* the plan that takes, for every needed fragment, some admissible source
SomePlan ==
    {<<ns[1], fv[1], fv[2], ns[2], CHOOSE src \in Sources(ns[2], cfg.oo, cfg.act, cfg.node) : TRUE>> :
        ns \in {x \in Needed(MCShards, cfg.oo, cfg.no) : Sources(x[2], cfg.oo, cfg.act, cfg.node) # {}}, fv \in MCFV}

Satisfiable ==
    IF NoSourceExists(MCShards, cfg.oo, cfg.no, cfg.act, cfg.node)
    THEN \* then no plan at all is admissible: the needed entry has no valid source
         /\ ~PlanOK(FALSE, SomePlan, MCFV, MCShards, cfg.oo, cfg.no, cfg.act, cfg.node)
         /\ PlanOK(TRUE, {}, MCFV, MCShards, cfg.oo, cfg.no, cfg.act, cfg.node)
    ELSE /\ PlanOK(FALSE, SomePlan, MCFV, MCShards, cfg.oo, cfg.no, cfg.act, cfg.node)
         /\ ~PlanOK(TRUE, {}, MCFV, MCShards, cfg.oo, cfg.no, cfg.act, cfg.node)
\* a source is never the removed node and always a previous owner
SourcesSurvive ==
    \A en \in SomePlan : en[5] \in cfg.oo[en[4]] /\ (cfg.act = "remove" => en[5] # cfg.node)
=============================================================================
