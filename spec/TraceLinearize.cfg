INIT TInit
NEXT TNext
CONSTANTS
  Rows = {0, 1}
  Cols = {0, 1, 2}
  Frags = {0, 1}
  Procs = {0, 1, 2, 3}
  MaxCalls = 0
POSTCONDITION Accepted
CHECK_DEADLOCK FALSE
