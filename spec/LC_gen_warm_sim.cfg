SPECIFICATION SpecG
CONSTANTS
  Nodes = {"a", "b", "c"}
  Coord0 = "a"
  InitTopo = {"a", "b", "c"}
  ReplicaN = 2
  HasData = TRUE
  Script <- ScriptWarm3
  Depth = 27
  MaxStop = 2
  MaxDup = 2
  MaxSetCoord = 2
  MaxRemove = 0
  MaxFalse = 1
  MaxNoop = 2
  Variant = "code"
CHECK_DEADLOCK FALSE
INVARIANTS
  Emit
  EmitViol
