CONSTANTS
  CYears = {2019,2020}
  CMonths = {9,10}
  CDays = {1,31}
  CHours = {0,13}
  CQuanta = {"Y","YM","YMD","YMDH","M","MD","MDH","D","DH","H"}
  NSV = {FALSE,TRUE}
  Variant = "fixed"
  Order = "code"
  MaxT = 3
  MaxS = 2
  MaxClr = 2
  MaxPlain = 1
  Vias = {"set","import","views"}
  Depth = 6
  Gen = TRUE
INIT Init
NEXT Next
INVARIANT ClearedEverywhere
INVARIANT Emit
CHECK_DEADLOCK FALSE
