CONSTANTS
  Families = {"roaring"}
  Entries = {"unmarshal", "frag_open"}
  SrvEntries = {}
  CtlEntries = {}
  PqlEntries = {}
  EnvEntries = {}
  MsgEntries = {}
  Formats = {"pilosa"}
  Shapes <- ShapesQuick
  SrvShapes <- TailsNone
  Tails <- TailsMid
  MinCors = 0
  MaxCors = 1
  Tokens = {}
  MinToks = 1
  MaxToks = 0
  Nests <- NestsNone
  MsgTypes = {}
  MsgBodies = {}
  Design = "validate_first"
INIT GenInit
NEXT GenNext
INVARIANT CaseOK
INVARIANT Emit
CHECK_DEADLOCK FALSE
