--------------------------- MODULE ResizeAbsProof ---------------------------
(***************************************************************************)
(* C22 - unbounded safety of the abstract resize machine (ResizeAbs.tla),  *)
(* proved with TLAPS for ANY sets Jobs and Nodes and behaviours of ANY     *)
(* length, where TLC only covers the constants of a cfg.                   *)
(*                                                                         *)
(*   IndInv is inductive for SafeSpec and implies AtMostOneJob,            *)
(*   NoHandlerStuck and DoneHadAllOks (a job whose result is DONE has      *)
(*   every node of its target among its success reports - so the second    *)
(*   conjunct of Apply's guard is implied and the member list can only     *)
(*   ever move to a fully acknowledged target).                            *)
(*                                                                         *)
(* Resize.tla refines ResizeAbs (TLC, Resize!RefinesAbs) and recorded      *)
(* executions of the real coordinator are validated against ResizeAbs      *)
(* (TraceResizeAbs.tla), so the theorem transfers to every observed run.   *)
(* Checked by `tlapm` in ./check C22 (thorough tier; also cross-checked    *)
(* with TLC as an invariant and with Apalache as a 1-step induction).      *)
(***************************************************************************)
EXTENDS ResizeAbs, TLAPS

Results == {"", "DONE", "ABORTED"}

TypeOK ==
    /\ astate \in States
    /\ arunning \subseteq Jobs
    /\ atarget \in [Jobs -> SUBSET Nodes]
    /\ aoks \in [Jobs -> SUBSET Nodes]
    /\ aresult \in [Jobs -> Results]
    /\ astuck = 0
\* (anodes is deliberately untyped: ResizeAbs leaves aaction[j].n unconstrained, so
\*  `anodes \subseteq Nodes` is not inductive - found by the failed obligation - and no
\*  property needs it)

\* a running job has not ended
RunningNotEnded == \A j \in arunning : aresult[j] = ""

\* a job that ended DONE had every node of its target report success
DoneHadAllOks == \A j \in Jobs : aresult[j] = "DONE" => atarget[j] \subseteq aoks[j]

\* at most one running job, stated without Cardinality (which TLAPS handles poorly)
OneRunning == \A j, k \in arunning : j = k

IndInv == TypeOK /\ RunningNotEnded /\ DoneHadAllOks /\ OneRunning

LEMMA InitInv == AInit => IndInv
  BY DEF AInit, IndInv, TypeOK, RunningNotEnded, DoneHadAllOks, OneRunning, States, Results

LEMMA StepInv == IndInv /\ [ANext]_avars => IndInv'
<1> SUFFICES ASSUME IndInv, [ANext]_avars PROVE IndInv'
  OBVIOUS
<1> USE DEF IndInv, TypeOK, RunningNotEnded, DoneHadAllOks, OneRunning, States, Results, Fresh
<1>1. CASE Other
  BY <1>1 DEF Other, Describe
<1>2. ASSUME NEW j \in Jobs, Start(j) PROVE IndInv'
  BY <1>2 DEF Start, Describe
<1>3. ASSUME NEW j \in Jobs, Apply(j) PROVE IndInv'
  BY <1>3 DEF Apply
<1>4. ASSUME NEW j \in Jobs, NEW n \in Nodes, ReportOk(j, n) PROVE IndInv'
  BY <1>4 DEF ReportOk
<1>5. ASSUME NEW j \in Jobs, NEW r \in {"DONE", "ABORTED"}, End(j, r) PROVE IndInv'
  BY <1>5 DEF End
<1>6. CASE UNCHANGED avars
  BY <1>6 DEF avars
<1> QED BY <1>1, <1>2, <1>3, <1>4, <1>5, <1>6 DEF ANext

THEOREM Safety == SafeSpec => []IndInv
<1>1. IndInv /\ [][ANext]_avars => []IndInv
  BY StepInv, PTL
<1> QED BY InitInv, <1>1, PTL DEF SafeSpec

\* the listed safety parts of the property follow from the invariant
THEOREM InvImpliesProperty ==
    IndInv => /\ (\A j, k \in arunning : j = k)       \* AtMostOneJob
              /\ NoHandlerStuck
              /\ DoneHadAllOks
  BY DEF IndInv, TypeOK, OneRunning, NoHandlerStuck

\* the action property: the member list moves only to the target of a job that ended DONE
\* with all its nodes acknowledged
THEOREM MembershipStep ==
    ASSUME IndInv, [ANext]_avars, anodes' # anodes
    PROVE  \E j \in Jobs : /\ aresult[j] = "DONE" /\ atarget[j] \subseteq aoks[j]
                           /\ anodes' = ATarget(aaction[j], anodes)
<1>1. CASE Other BY <1>1 DEF Other
<1>2. ASSUME NEW j \in Jobs, Start(j) PROVE FALSE BY <1>2 DEF Start
<1>3. ASSUME NEW j \in Jobs, Apply(j)
      PROVE \E k \in Jobs : /\ aresult[k] = "DONE" /\ atarget[k] \subseteq aoks[k]
                            /\ anodes' = ATarget(aaction[k], anodes)
  BY <1>3 DEF Apply
<1>4. ASSUME NEW j \in Jobs, NEW n \in Nodes, ReportOk(j, n) PROVE FALSE BY <1>4 DEF ReportOk
<1>5. ASSUME NEW j \in Jobs, NEW r \in {"DONE", "ABORTED"}, End(j, r) PROVE FALSE BY <1>5 DEF End
<1>6. CASE UNCHANGED avars BY <1>6 DEF avars
<1> QED BY <1>1, <1>2, <1>3, <1>4, <1>5, <1>6 DEF ANext
=============================================================================
