CONSTANTS
  MinNeg = 7
  MinPos = 0
  MaxNeg = 0
  MaxPos = 7
  NCols = 15
  Datasets = {"all", "neg", "pos", "nonneg", "low", "low1", "single", "empty", "ties", "ties0"}
  Vias = {"set", "setd", "imp", "imp1d"}
  Classes = {"W", "Q"}
  Depth = 8
  Sample = TRUE
  Paths = {"small", "large"}
INIT Init
NEXT Next
INVARIANT Emit
CHECK_DEADLOCK FALSE
