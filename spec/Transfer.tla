------------------------------ MODULE Transfer ------------------------------
(***************************************************************************)
(* Shard data transfer (extra check X02): fragment.WriteTo / ReadFrom, the  *)
(* data-moving half of a resize (/repo/fragment.go WriteTo, ReadFrom,       *)
(* readStorageFromArchive, readCacheFromArchive; cluster.go                 *)
(* followResizeInstruction).                                                *)
(*                                                                         *)
(* Two fragments of the same field/view/shard on two nodes: the source      *)
(* ("src") and the target ("dst").  Contents are sets of abstract bits      *)
(* <<row, col>> in the vocabulary of Fragment.tla (same Rows, Cols, codes,  *)
(* BSI encoding, mutex rule, argument families - taken from an INSTANCE).    *)
(*                                                                         *)
(* The source file is modelled as the code keeps it: a snapshotted part     *)
(* (ssnap) followed by an op-log tail not yet snapshotted, kept as its net   *)
(* effect (sadd, sdel); Content = (ssnap \ sdel) \cup sadd.  The archive     *)
(* written by WriteTo is the file (snapshot + tail) plus the ids of the      *)
(* row-count cache.  The target is its contents (dbits) plus the three       *)
(* caches ReadFrom has to rebuild: cached rows (drowc/drowv), cached block   *)
(* checksums (dckc/dckv) and the row-count cache feeding TopN (dcc/dcv).     *)
(*                                                                         *)
(* Design switches (constants) name what WriteTo / ReadFrom must do; with    *)
(* all TRUE the frame conditions hold, with one FALSE TLC shows the          *)
(* shortest history of the corresponding defect class (guard cfgs).          *)
(***************************************************************************)
EXTENDS Integers, Sequences, FiniteSets, TLC, Json

CONSTANTS
    Kind,           \* "set" | "mutex" | "bool" | "bsi"
    Rows, Cols,     \* as in Fragment.tla
    Ops,            \* enabled step names
    Scope,          \* "mini" | "small" | "full": argument families (Fragment.tla)
    InitMode,       \* "empty" | "some" | "any": initial contents of both sides
    MaxOpNs,        \* subset of {"tiny", "huge"}: snapshot threshold class of both fragments
    ShapeName,      \* names a sequence of step classes "w" "t" "b" "r" "s" "x"; "m" = (M) mode
    BadKinds,       \* malformed archives offered to ReadFrom
    LogTail,        \* WriteTo copies the op-log tail
    Replace,        \* ReadFrom replaces the storage (FALSE: merges into it)
    ResetRowCache,  \* ReadFrom drops cached rows
    ResetChecksums, \* ReadFrom drops cached block checksums
    ResetCounts     \* ReadFrom rebuilds the row-count cache from the archive

VARIABLES ssnap, sadd, sdel, dbits, maxopn, drowc, drowv, dckc, dckv, dcc, dcv, hist

vars  == <<ssnap, sadd, sdel, dbits, maxopn, drowc, drowv, dckc, dckv, dcc, dcv, hist>>
mview == <<ssnap, sadd, sdel, dbits, maxopn, drowc, drowv, dckc, dckv, dcc, dcv>>

F == INSTANCE Fragment WITH bits <- dbits, pending <- FALSE, maxopn <- "huge",
         rowc <- {}, rowv <- <<>>, ckc <- {}, ckv <- <<>>, hist <- <<>>,
         Depth <- 0, ShapeName <- "free", Provs <- {"ops"}, RowInval <- {}, CkInval <- {}

\* the target's initial contents: empty (the resize case) or one of a few valid contents
FS == INSTANCE Fragment WITH bits <- dbits, pending <- FALSE, maxopn <- "huge",
         rowc <- {}, rowv <- <<>>, ckc <- {}, ckv <- <<>>, hist <- <<>>,
         Depth <- 0, ShapeName <- "free", Provs <- {"ops"}, RowInval <- {}, CkInval <- {},
         InitMode <- IF InitMode = "empty" THEN "empty" ELSE "some"

\* w = a write on either side, t = Transfer, b = refused transfer, r = cache-filling read
\* of the target, s = snapshot / reopen, x = any step
Shape ==
    CASE ShapeName = "m"       -> <<>>
      [] ShapeName = "wtx"     -> <<"w", "t", "x">>
      [] ShapeName = "wwbxt"   -> <<"w", "w", "b", "x", "t">>
      [] ShapeName = "wwrtwt"  -> <<"w", "w", "r", "t", "w", "t">>
      [] ShapeName = "wwtws"   -> <<"w", "w", "t", "w", "s">>
      [] ShapeName = "wwtxwb"  -> <<"w", "w", "t", "x", "w", "b">>
      [] ShapeName = "wxtxws"  -> <<"w", "x", "t", "x", "w", "s">>
\* (generation shapes end in a class with few instances: simulation prints every successor
\* of a trace's last state)

Gen   == Len(Shape) > 0
Depth == Len(Shape)

Content == (ssnap \ sdel) \cup sadd       \* what the source holds
Of(s)   == IF s = "src" THEN Content ELSE dbits
Sides   == {"src", "dst"}

Cnt(b, r) == Cardinality(F!RowCols(b, r))

RECURSIVE Fold(_, _, _, _)
Fold(Op(_, _), b, sq, i) == IF i > Len(sq) THEN b ELSE Fold(Op, Op(b, sq[i]), sq, i + 1)
AddPair(b, p)      == b \cup {p}
DelPair(b, p)      == b \ {p}
MSetPair(b, p)     == F!MSet(b, p[1], p[2])
SetValPair(b, p)   == F!SetVal(b, p[1], p[2])

ClassOf(op) ==
    CASE op \in {"Transfer"} -> "t"
      [] op \in {"BadTransfer"} -> "b"
      [] op \in {"Row", "Blocks", "TopN"} -> "r"
      [] op \in {"Snapshot", "Reopen"} -> "s"
      [] OTHER -> "w"
ShapeOK(op) ==
    IF Gen THEN Shape[Len(hist)] \in {"x", ClassOf(op)} ELSE TRUE   \* hist[1] is Init

\* ---- one step: write nb to side s (nb = Of(s) for non-writes) ------------------
\* kind: "w" write | "snap" | "reopen" | "read" ; the ghosts of dst follow the (correct)
\* write paths of fragment.go: every write invalidates the cached rows / checksums of the
\* rows it changed and re-counts them.
Rec(op, s, r, c, xs, sq, fl, chg, ns, nd, tail) ==
    [op |-> op, side |-> s, r |-> r, c |-> c, xs |-> xs, sq |-> sq, fl |-> fl, chg |-> chg,
     src |-> F!Codes(ns), dst |-> F!Codes(nd), tail |-> tail]

Log(rec) == hist' = IF Gen THEN Append(hist, rec) ELSE hist

\* the ghost values of entries that left a cache are forgotten (keeps the state space small)
NormR(keep) == [q \in Rows |-> IF q \in keep THEN drowv[q] ELSE {}]
NormK(keep) == [k \in F!BlockIds |-> IF k \in keep THEN dckv[k] ELSE {}]

WriteStep(op, s, r, c, xs, sq, fl, chg, nb) ==
    /\ op \in Ops /\ ShapeOK(op)
    /\ UNCHANGED maxopn
    /\ IF s = "src"
       THEN LET b == Content
                fold == maxopn["src"] = "tiny" /\ nb # b     \* the write requested a snapshot
            IN /\ ssnap' = IF fold THEN nb ELSE ssnap
               /\ sadd'  = IF fold THEN {} ELSE (sadd \cup (nb \ b)) \ (b \ nb)
               /\ sdel'  = IF fold THEN {} ELSE (sdel \cup (b \ nb)) \ (nb \ b)
               /\ UNCHANGED <<dbits, drowc, drowv, dckc, dckv, dcc, dcv>>
               /\ Log(Rec(op, s, r, c, xs, sq, fl, chg, nb, dbits, sadd' \cup sdel' # {}))
       ELSE LET AR == {q \in Rows : F!RowCols(dbits, q) # F!RowCols(nb, q)}
                AB == {F!BlockOf(q) : q \in AR}
            IN /\ dbits' = nb
               /\ drowc' = drowc \ AR /\ drowv' = NormR(drowc \ AR)
               /\ dckc' = dckc \ AB /\ dckv' = NormK(dckc \ AB)
               /\ dcc' = dcc \cup AR
               /\ dcv' = [q \in Rows |-> IF q \in AR THEN Cnt(nb, q) ELSE dcv[q]]
               /\ UNCHANGED <<ssnap, sadd, sdel>>
               /\ Log(Rec(op, s, r, c, xs, sq, fl, chg, Content, nb, sadd \cup sdel # {}))

\* ---- write paths (both sides; the families are Fragment.tla's) ---------------------
Mut == Kind \in {"mutex", "bool"}

SetBit == \E s \in Sides, r \in Rows, c \in Cols :
    LET b == Of(s) IN
    WriteStep("SetBit", s, r, c, {}, <<>>, "", F!B2S(<<r, c>> \notin b), IF Mut THEN F!MSet(b, r, c) ELSE b \cup {<<r, c>>})
ClearBit == \E s \in Sides, r \in Rows, c \in Cols :
    LET b == Of(s) IN
    WriteStep("ClearBit", s, r, c, {}, <<>>, "", F!B2S(<<r, c>> \in b), b \ {<<r, c>>})
SetRow == \E s \in Sides, r \in Rows, cs \in F!ColSets :
    LET b == Of(s) IN
    WriteStep("SetRow", s, r, -1, cs, <<>>, "", "-", (b \ {<<r, c>> : c \in Cols}) \cup {<<r, c>> : c \in cs})
ClearRow == \E s \in Sides, r \in Rows :
    LET b == Of(s) IN
    WriteStep("ClearRow", s, r, -1, {}, <<>>, "", F!B2S(F!RowCols(b, r) # {}), b \ {<<r, c>> : c \in Cols})
BulkSet == \E s \in Sides, sq \in F!Batches :
    WriteStep("BulkSet", s, -1, -1, {}, F!SeqCodes(sq), "", "-", Fold(AddPair, Of(s), sq, 1))
BulkClear == \E s \in Sides, sq \in F!Batches :
    WriteStep("BulkClear", s, -1, -1, {}, F!SeqCodes(sq), "", "-", Fold(DelPair, Of(s), sq, 1))
BulkMutex == \E s \in Sides, sq \in F!Batches :
    WriteStep("BulkMutex", s, -1, -1, {}, F!SeqCodes(sq), "", "-", Fold(MSetPair, Of(s), sq, 1))
RoaringSet == \E s \in Sides, S \in F!RoaringSets, f \in {"pilosa", "official"} :
    WriteStep("RoaringSet", s, -1, -1, F!Codes(S), <<>>, f, "-", Of(s) \cup S)
RoaringClear == \E s \in Sides, S \in F!RoaringSets, f \in {"pilosa", "official"} :
    WriteStep("RoaringClear", s, -1, -1, F!Codes(S), <<>>, f, "-", Of(s) \ S)
SetValue == \E s \in Sides, c \in Cols, v \in F!Vals :
    LET b == Of(s) nb == F!SetVal(b, c, v) IN
    WriteStep("SetValue", s, v, c, {}, <<>>, "", F!B2S(nb # b), nb)
ImportValue == \E s \in Sides, sq \in F!ValBatches :
    WriteStep("ImportValue", s, -1, -1, {}, <<F!SeqCols(sq), F!SeqVals(sq)>>, "", "-", Fold(SetValPair, Of(s), sq, 1))

\* ---- snapshot / restart of either side: contents never change ------------------------
Snapshot == \E s \in Sides :
    /\ "Snapshot" \in Ops /\ ShapeOK("Snapshot")
    /\ IF s = "src" THEN ssnap' = Content /\ sadd' = {} /\ sdel' = {} ELSE UNCHANGED <<ssnap, sadd, sdel>>
    /\ UNCHANGED <<dbits, maxopn, drowc, drowv, dckc, dckv, dcc, dcv>>
    /\ Log(Rec("Snapshot", s, -1, -1, {}, <<>>, "", "-", Content, dbits, s # "src" /\ sadd \cup sdel # {}))
\* close + open: the row cache and checksums start empty, the count cache is reloaded
Reopen == \E s \in Sides :
    /\ "Reopen" \in Ops /\ ShapeOK("Reopen")
    /\ UNCHANGED <<ssnap, sadd, sdel, dbits, maxopn, dcc, dcv>>
    /\ IF s = "dst" THEN drowc' = {} /\ dckc' = {} /\ drowv' = NormR({}) /\ dckv' = NormK({})
       ELSE UNCHANGED <<drowc, drowv, dckc, dckv>>
    /\ Log(Rec("Reopen", s, -1, -1, {}, <<>>, "", "-", Content, dbits, sadd \cup sdel # {}))

\* ---- reads that fill the target's caches ------------------------------------------------
ReadRow == \E r \in Rows :
    /\ "Row" \in Ops /\ ShapeOK("Row")
    /\ drowc' = drowc \cup {r}
    /\ drowv' = IF r \in drowc THEN drowv ELSE [drowv EXCEPT ![r] = F!RowCols(dbits, r)]
    /\ UNCHANGED <<ssnap, sadd, sdel, dbits, maxopn, dckc, dckv, dcc, dcv>>
    /\ Log(Rec("Row", "dst", r, -1, IF r \in drowc THEN drowv[r] ELSE F!RowCols(dbits, r), <<>>, "", "-", Content, dbits, sadd \cup sdel # {}))
ReadBlocks ==
    /\ "Blocks" \in Ops /\ ShapeOK("Blocks")
    /\ dckc' = dckc \cup F!BlocksOf(dbits)
    /\ dckv' = [k \in F!BlockIds |-> IF k \in F!BlocksOf(dbits) /\ k \notin dckc THEN F!Codes(F!BlockBits(dbits, k)) ELSE dckv[k]]
    /\ UNCHANGED <<ssnap, sadd, sdel, dbits, maxopn, drowc, drowv, dcc, dcv>>
    /\ Log(Rec("Blocks", "dst", -1, -1, F!BlocksOf(dbits), <<>>, "", "-", Content, dbits, sadd \cup sdel # {}))
ReadTopN ==
    /\ "TopN" \in Ops /\ ShapeOK("TopN")
    /\ UNCHANGED mview
    /\ Log(Rec("TopN", "dst", -1, -1, {}, <<>>, "", "-", Content, dbits, sadd \cup sdel # {}))

\* ---- the transfer ------------------------------------------------------------------------
\* WriteTo: the archive is the source file (snapshot and, by design, the op-log tail) and
\* the ids of its row-count cache (every non-empty row: the rows never outnumber the cache).
ArchData == IF LogTail THEN Content ELSE ssnap
ArchIds  == F!RowsOf(ArchData)
\* ReadFrom: storage replaced, row cache and checksums dropped, counts rebuilt from storage.
\* fl = how the bytes travel: "buf" (archive buffered) | "pipe" (streamed while WriteTo runs)
Transfer == \E via \in {"buf", "pipe"} :
    LET nb == IF Replace THEN ArchData ELSE dbits \cup ArchData IN
    /\ "Transfer" \in Ops /\ ShapeOK("Transfer")
    /\ dbits' = nb
    /\ drowc' = IF ResetRowCache THEN {} ELSE drowc
    /\ dckc'  = IF ResetChecksums THEN {} ELSE dckc
    /\ dcc'   = IF ResetCounts THEN ArchIds ELSE dcc
    /\ dcv'   = IF ResetCounts THEN [q \in Rows |-> IF q \in ArchIds THEN Cnt(nb, q) ELSE 0] ELSE dcv
    /\ drowv' = NormR(drowc') /\ dckv' = NormK(dckc')
    /\ UNCHANGED <<ssnap, sadd, sdel, maxopn>>
    /\ Log(Rec("Transfer", "dst", -1, -1, {}, <<>>, via, "-", Content, nb, sadd \cup sdel # {}))

\* a truncated / malformed archive is refused and changes nothing on either side
BadTransfer == \E k \in BadKinds :
    /\ "BadTransfer" \in Ops /\ ShapeOK("BadTransfer")
    /\ UNCHANGED mview
    /\ Log(Rec("BadTransfer", "dst", -1, -1, {}, <<>>, k, "-", Content, dbits, sadd \cup sdel # {}))

Next ==
    /\ (Gen => Len(hist) < Depth + 1)
    /\ \/ SetBit \/ ClearBit \/ SetRow \/ ClearRow \/ BulkSet \/ BulkClear \/ BulkMutex
       \/ RoaringSet \/ RoaringClear \/ SetValue \/ ImportValue
       \/ Snapshot \/ Reopen \/ ReadRow \/ ReadBlocks \/ ReadTopN \/ Transfer \/ BadTransfer

\* ---- initial contents: any valid contents on both sides; the source's either snapshotted
\* ("snap") or still in the op log ("ops")
Init ==
    /\ maxopn \in [Sides -> MaxOpNs]
    /\ dbits \in FS!InitSets
    /\ \E b \in F!InitSets, p \in {"snap", "ops"} :
          /\ ssnap = IF p = "snap" \/ maxopn["src"] = "tiny" THEN b ELSE {}
          /\ sadd = IF p = "snap" \/ maxopn["src"] = "tiny" THEN {} ELSE b
          /\ hist = IF Gen
                    THEN << [op |-> "Init", side |-> "", r |-> -1, c |-> -1, xs |-> {}, sq |-> <<>>, fl |-> p,
                             chg |-> "-", ms |-> maxopn["src"], md |-> maxopn["dst"], src |-> F!Codes(b), dst |-> F!Codes(dbits),
                             tail |-> sadd # {}] >>
                    ELSE << >>
    /\ sdel = {}
    /\ drowc = {} /\ drowv = [r \in Rows |-> {}]
    /\ dckc = {} /\ dckv = [k \in F!BlockIds |-> {}]
    /\ dcc = F!RowsOf(dbits) /\ dcv = [q \in Rows |-> Cnt(dbits, q)]

Spec == Init /\ [][Next]_vars

\* ---- the frame conditions (M) -----------------------------------------------------------
TypeOK ==
    /\ ssnap \subseteq F!Univ /\ sadd \subseteq F!Univ /\ sdel \subseteq F!Univ /\ dbits \subseteq F!Univ
    /\ sadd \cap sdel = {}
    /\ (Mut => F!AtMostOne(Content) /\ F!AtMostOne(dbits))
    /\ (Kind = "bsi" => F!ValidBSI(Content) /\ F!ValidBSI(dbits))

\* the rebuilt fragment holds exactly what the source held (incl. its op-log tail)
TransferIsCopy  == [][Transfer => dbits' = Content]_vars
\* WriteTo / a refused ReadFrom leave the source as it was
SourceUnchanged == [][(Transfer \/ BadTransfer) => Content' = Content /\ ssnap' = ssnap /\ sadd' = sadd /\ sdel' = sdel]_vars
\* nothing of the target's old contents survives
ReplaceNotMerge == [][Transfer => (dbits' \cap (dbits \ Content)) = {}]_vars
\* a refused archive leaves the target (contents and caches) as it was
RejectLeavesTarget == [][BadTransfer => UNCHANGED <<dbits, drowc, dckc, dcc, dcv>>]_vars
\* a later write to one side does not reach the other
Independent ==
    [][(\A s \in Sides : Of(s)' # Of(s) => \A o \in Sides \ {s} : Of(o)' = Of(o)) \/ Transfer]_vars
\* the target's caches never disagree with its contents, whatever was transferred over them
RowsFresh      == \A r \in drowc : drowv[r] = F!RowCols(dbits, r)
ChecksumsFresh == \A k \in dckc : dckv[k] = F!Codes(F!BlockBits(dbits, k))
CountsExact    == /\ \A r \in dcc : dcv[r] = Cnt(dbits, r)
                  /\ F!RowsOf(dbits) \subseteq dcc

\* ---- behaviour emission (binding A)
Emit == (Gen /\ Len(hist) = Depth + 1) => PrintT(<<"BEH", ToJson(hist)>>)

(***************************************************************************)
(* Parts (2) and (3) of X02 are stated as predicates over events recorded   *)
(* from real clusters; see TransferCluster.tla.                            *)
(***************************************************************************)
=============================================================================
