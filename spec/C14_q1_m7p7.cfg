CONSTANTS
  MinNeg = 7
  MinPos = 0
  MaxNeg = 0
  MaxPos = 7
  NCols = 15
  Datasets = {"all", "neg", "pos", "nonneg", "low", "low1", "single", "empty", "ties", "ties0"}
  Vias = {"set", "imp1d"}
  Classes = {"Q"}
  Depth = 2
  Sample = FALSE
  Paths = {"small", "large"}
INIT Init
NEXT Next
INVARIANT Emit
CHECK_DEADLOCK FALSE
