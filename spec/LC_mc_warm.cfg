SPECIFICATION Spec
CONSTANTS
  Nodes = {"a", "b", "c"}
  Coord0 = "a"
  InitTopo = {"a", "b", "c"}
  ReplicaN = 2
  HasData = TRUE
  Script <- ScriptWarm3
  Depth = 20
  MaxStop = 1
  MaxDup = 1
  MaxSetCoord = 1
  MaxRemove = 0
  MaxFalse = 1
  MaxNoop = 1
  Variant = "code"
CHECK_DEADLOCK FALSE
VIEW view
INVARIANTS
  TypeOK
  ExactlyOneCoordinator
  SingleLeader
  StateMatchesMembership
  ReachesServing
  FollowersConverge
  NoServeWhileNotReady
