--------------------------- MODULE TransferSchema ---------------------------
(***************************************************************************)
(* Part (3) of the extra check X02: schema propagation.                     *)
(*                                                                         *)
(* The schema is a function of the history of schema operations, whichever  *)
(* node an operation was issued at and however a node learnt of it:         *)
(*   - by the broadcast message of each operation (api.go CreateIndex /     *)
(*     DeleteIndex / CreateField / DeleteField, field.go createView ->      *)
(*     server.go receiveMessage), possibly late;                            *)
(*   - as a whole schema in a NodeStatus (gossip LocalState ->              *)
(*     receiveMessage -> mergeRemoteStatus -> holder.applySchema) or in the  *)
(*     ResizeInstruction of a join (followResizeInstruction -> applySchema); *)
(*   - from its own disk after a restart.                                   *)
(* State: sch = the set of indexes <<name, variant>>, fields <<index, name,  *)
(* variant>> and the time fields that got views.  Every learner's schema     *)
(* (lrn) is modelled next to it: "msgs" applies the operations in order with *)
(* a lag, "whole" copies sch at the end.  SchemaAgreement: once every        *)
(* message is delivered all of them equal sch.  (G) histories are replayed   *)
(* on real servers; the expected final schema is part of the behaviour.      *)
(***************************************************************************)
EXTENDS Integers, Sequences, FiniteSets, TLC, Json

CONSTANTS
    Indexes,    \* index names
    IVariants,  \* index option variants: "plain" | "keys" | "noexist"
    Fields,     \* field names
    FVariants,  \* field option variants (see transferb/schema_test.go)
    TimeVars,   \* the variants that are time fields
    NodesAt,    \* nodes an operation may be issued at
    Depth,      \* operations per history; 0 = (M)
    ApplyDrops  \* design switch: applySchema forgets the views (guard)

VARIABLES idx, fld, viewed, queue, lidx, lfld, lviewed, hist

vars  == <<idx, fld, viewed, queue, lidx, lfld, lviewed, hist>>
mview == <<idx, fld, viewed, queue, lidx, lfld, lviewed>>
Gen   == Depth > 0

HasIndex(I, i)    == \E x \in I : x[1] = i
HasField(Fl, i, f) == \E x \in Fl : x[1] = i /\ x[2] = f

\* the effect of one operation on a schema (idempotent, as receiveMessage is)
ApplyI(I, op)  == CASE op.op = "CreateIndex" -> IF HasIndex(I, op.i) THEN I ELSE I \cup {<<op.i, op.v>>}
                    [] op.op = "DeleteIndex" -> {x \in I : x[1] # op.i}
                    [] OTHER -> I
ApplyF(Fl, op) == CASE op.op = "CreateField" -> IF HasField(Fl, op.i, op.f) THEN Fl ELSE Fl \cup {<<op.i, op.f, op.v>>}
                    [] op.op = "DeleteField" -> {x \in Fl : ~(x[1] = op.i /\ x[2] = op.f)}
                    [] op.op = "DeleteIndex" -> {x \in Fl : x[1] # op.i}
                    [] OTHER -> Fl
ApplyV(V, op)  == CASE op.op = "SetTime" -> V \cup {<<op.i, op.f>>}
                    [] op.op = "DeleteField" -> V \ {<<op.i, op.f>>}
                    [] op.op = "DeleteIndex" -> {x \in V : x[1] # op.i}
                    [] OTHER -> V

Issue(op) ==
    /\ idx' = ApplyI(idx, op) /\ fld' = ApplyF(fld, op) /\ viewed' = ApplyV(viewed, op)
    /\ queue' = Append(queue, op)
    /\ UNCHANGED <<lidx, lfld, lviewed>>
    /\ hist' = IF Gen THEN Append(hist, op) ELSE hist

Op(name, at, i, f, v) == [op |-> name, at |-> at, i |-> i, f |-> f, v |-> v]

CreateIndex == \E at \in NodesAt, i \in Indexes, v \in IVariants :
    ~HasIndex(idx, i) /\ Issue(Op("CreateIndex", at, i, "", v))
DeleteIndex == \E at \in NodesAt, i \in Indexes :
    HasIndex(idx, i) /\ Issue(Op("DeleteIndex", at, i, "", ""))
CreateField == \E at \in NodesAt, i \in Indexes, f \in Fields, v \in FVariants :
    HasIndex(idx, i) /\ ~HasField(fld, i, f) /\ Issue(Op("CreateField", at, i, f, v))
DeleteField == \E at \in NodesAt, i \in Indexes, f \in Fields :
    HasField(fld, i, f) /\ Issue(Op("DeleteField", at, i, f, ""))
\* a timestamped Set on a time field creates its views (CreateViewMessage)
SetTime == \E at \in NodesAt, x \in fld :
    x[3] \in TimeVars /\ <<x[1], x[2]>> \notin viewed /\ Issue(Op("SetTime", at, x[1], x[2], x[3]))

\* the learner receives the oldest undelivered message
Deliver ==
    /\ ~Gen /\ Len(queue) > 0
    /\ lidx' = ApplyI(lidx, Head(queue)) /\ lfld' = ApplyF(lfld, Head(queue)) /\ lviewed' = ApplyV(lviewed, Head(queue))
    /\ queue' = Tail(queue)
    /\ UNCHANGED <<idx, fld, viewed, hist>>
\* the learner receives a whole schema (applySchema only ever adds)
Whole ==
    /\ ~Gen /\ Len(queue) = 0
    /\ lidx' = lidx \cup {x \in idx : ~HasIndex(lidx, x[1])}
    /\ lfld' = lfld \cup {x \in fld : ~HasField(lfld, x[1], x[2])}
    /\ lviewed' = IF ApplyDrops THEN lviewed ELSE lviewed \cup viewed
    /\ UNCHANGED <<idx, fld, viewed, queue, hist>>

\* a fresh node joins: it missed every message and gets the whole schema
Join ==
    /\ ~Gen
    /\ lidx' = idx /\ lfld' = fld
    /\ lviewed' = IF ApplyDrops THEN {} ELSE viewed
    /\ queue' = <<>>
    /\ UNCHANGED <<idx, fld, viewed, hist>>

Bound == IF Gen THEN Len(hist) < Depth ELSE Len(queue) < 3 /\ Cardinality(idx) + Cardinality(fld) < 4
Next ==
    \/ Bound /\ (CreateIndex \/ DeleteIndex \/ CreateField \/ DeleteField \/ SetTime)
    \/ Deliver \/ Whole \/ Join

Init ==
    /\ idx = {} /\ fld = {} /\ viewed = {} /\ queue = <<>>
    /\ lidx = {} /\ lfld = {} /\ lviewed = {} /\ hist = <<>>

Spec == Init /\ [][Next]_vars

\* once every message is delivered the learner's schema is the schema
SchemaAgreement == Len(queue) = 0 => (lidx = idx /\ lfld = fld /\ lviewed = viewed)
\* a whole schema on top of delivered messages changes nothing
WholeIsNoop == [][Whole => UNCHANGED <<lidx, lfld, lviewed>>]_vars

Expected == [op |-> "Expect", idx |-> idx, fld |-> fld, viewed |-> viewed]
Worth == \E k \in 1 .. Len(hist) : hist[k].op \in {"CreateField"}
Emit == (Gen /\ Len(hist) = Depth /\ Worth) => PrintT(<<"BEH", ToJson(Append(hist, Expected))>>)
=============================================================================
