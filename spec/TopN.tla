------------------------------- MODULE TopN -------------------------------
(* C12 -- TopN reports true row counts.

   State: rows[r] \subseteq Cols for the rows 1..NRows of one field with a TopN cache of
   type `kind` (ranked | lru | none) and size `size`, optionally a mutex field.  Abstract
   column c stands for W[c] concrete columns (the harness refines it to a block of that
   many columns in several containers / two shards), so the count of row r is
   Wt(rows[r]) = the sum of W over its columns; with W = <<1,2,4>> every subset has its
   own count, so ties arise only between rows holding the same columns.

   The cache itself is NOT modelled: the property says what TopN must answer whatever the
   cache went through.  The only ghost is `over`: at some point of the history (including
   the stored state a behaviour starts from) more rows were non-empty than the cache can
   hold.  As long as `over` is FALSE the shard's rows have always fitted in the cache and
   "Recalculate; TopN(n)" must be exact (weakest reading of "a shard whose rows fit in a
   freshly recalculated cache": design/C12.md).

   Write actions (one per path)                     code anchor
     Set(r,c) Clear(r,c)        PQL Set / Clear     fragment.setBit / clearBit (+ handleMutex)
     ClearRow(r)                PQL ClearRow        fragment.unprotectedClearRow
     Store(r1,r2)               PQL Store(Row(f=r1), f=r2)   fragment.unprotectedSetRow
     ImportSet/ImportClear(R,S) API.Import (bits R x S)      bulkImportStandard/Mutex -> importPositions
     RoaringSet/RoaringClear    API.ImportRoaring            fragment.importRoaring
     Recalc                     API.RecalculateCaches        cache.Recalculate
     Reopen                     restart of the server        fragment.openCache / flushCache
   Queries (state unchanged), each with the exact answer
     TopIds(ids)                TopN(f, ids=[..])            every requested non-empty row with its count
     TopIdsFilter(ids, fr)      TopN(f, Row(f=fr), ids=[..]) counts of rows[r] \cap rows[fr]
     TopIdsThr(ids, t)          TopN(f, ids=[..], threshold=t)
     RecalcTopN(n)              RecalculateCaches; TopN(f, n=n)        only while ~over
     RecalcTopNFilter(n, fr)    RecalculateCaches; TopN(f, Row(f=fr), n=n)
   After Depth steps the only step is End, whose record carries the final contents; every
   record carries the counts of all rows after the step (`cnt`) and `ov` (= over).          *)
EXTENDS Integers, Sequences, FiniteSets, SequencesExt, TLC, Json

CONSTANTS NRows, NCols,          \* rows 1..NRows, abstract columns 1..NCols
          Kinds, Sizes, Mutexes, \* configurations a behaviour may start with
          MutexSizes,            \* ... a mutex field only with these sizes, kind "none" only with the largest
          Ops,                   \* enabled actions
          Inits,                 \* "empty" | "few" | "all": stored contents a behaviour starts from
          BRows, BSets,          \* rows / column sets the row-wise and import actions may name
          MaxRect,               \* most rows of an import rectangle
          BIds,                  \* "all": every non-empty id set; "whole": only the set of all rows
          Thrs,                  \* thresholds of TopIdsThr
          FilterSkew,            \* TRUE: RecalcTopNFilter only where raw and filtered order differ
          TopNs,                 \* values of n for RecalcTopN / RecalcTopNFilter (0 = no limit)
          RecalcWeight,          \* multiplicity of Recalc among the successors (simulation)
          Rand,                  \* TRUE: one random instance per action class and step (simulation only)
          Depth

VARIABLES kind, size, mutex, rows, over, hist

Rows == 1..NRows
Cols == 1..NCols
W    == [c \in Cols |-> 2^(c-1)]     \* weights 1, 2, 4, ...: every subset of columns has its own count

RECURSIVE Wt(_)
Wt(S) == IF S = {} THEN 0 ELSE LET c == CHOOSE x \in S : TRUE IN W[c] + Wt(S \ {c})

Cnt(rw)      == [r \in Rows |-> Wt(rw[r])]
NonEmpty(rw) == {r \in Rows : rw[r] # {}}
Fits(rw)     == Cardinality(NonEmpty(rw)) <= size

RowSets == {R \in SUBSET BRows : R # {} /\ Cardinality(R) <= MaxRect}
ColSets == BSets \ {{}}
IdSets  == IF BIds = "all" THEN (SUBSET Rows) \ {{}} ELSE {Rows}

(* ---- expected answers ---- *)
Desc(a, b) == a > b
PairsOf(ids, c) ==          \* <<row, count>> for the requested rows with a positive count, by row
  LET T(p) == p[1] \in ids /\ p[2] > 0
  IN SelectSeq([r \in Rows |-> <<r, c[r]>>], T)
TopCounts(c, n) ==          \* the n largest positive counts, non-increasing (n = 0: all)
  LET P(x) == x > 0
      s == SortSeq(SelectSeq(c, P), Desc)
  IN IF n = 0 \/ n >= Len(s) THEN s ELSE SubSeq(s, 1, n)
FilterCnt(rw, fr) == [r \in Rows |-> Wt(rw[r] \cap rw[fr])]

(* ---- records ---- *)
Rec(op, a, b, R, S, ch, res, rw, ov) ==
  [op |-> op, a |-> a, b |-> b, R |-> R, S |-> S, ch |-> ch, res |-> res, cnt |-> Cnt(rw), ov |-> ov]

(* `during` = the rows that may be non-empty at some moment while the step is carried out *)
WriteD(op, a, b, R, S, ch, rw2, during) ==
  LET ov2 == over \/ ~Fits(rw2) \/ Cardinality(during) > size
  IN /\ rows' = rw2
     /\ over' = ov2
     /\ hist' = Append(hist, Rec(op, a, b, R, S, ch, <<>>, rw2, ov2))
     /\ UNCHANGED <<kind, size, mutex>>

Write(op, a, b, R, S, ch, rw2) == WriteD(op, a, b, R, S, ch, rw2, {})

Query(op, a, b, R, res) ==
  /\ hist' = Append(hist, Rec(op, a, b, R, {}, FALSE, res, rows, over))
  /\ UNCHANGED <<kind, size, mutex, rows, over>>

SetBits(R, S) == [x \in Rows |-> IF x \in R THEN rows[x] \cup S
                                ELSE IF mutex THEN rows[x] \ S ELSE rows[x]]
ClrBits(R, S) == [x \in Rows |-> IF x \in R THEN rows[x] \ S ELSE rows[x]]

---------------------------------------------------------------------------
Few == { <<{1,2,3}, {2,3}, {3}, {}>>,  <<{3}, {2,3}, {1,2,3}, {1}>>,
         <<{1,2}, {1,2}, {3}, {}>>,    <<{1}, {2}, {3}, {1,2,3}>>,
         <<{1}, {2,3}, {}, {}>>,       <<{3}, {}, {1}, {2}>> }
InitRows ==
  CASE Inits = "empty" -> {[r \in Rows |-> {}]}
    [] Inits = "few"   -> {[r \in Rows |-> f[r] \cap Cols] : f \in Few} \cup {[r \in Rows |-> {}]}
    [] Inits = "all"   -> [Rows -> SUBSET Cols]

MutexOK(rw) == \A r1, r2 \in Rows : r1 # r2 => rw[r1] \cap rw[r2] = {}

Init ==
  /\ kind \in Kinds
  /\ size \in Sizes
  /\ mutex \in Mutexes
  /\ mutex => size \in MutexSizes
  /\ kind = "none" => ~mutex /\ \A x \in Sizes : x <= size
  /\ rows \in InitRows
  /\ mutex => MutexOK(rows)
  /\ over = ~Fits(rows)
  /\ hist = << [op |-> kind, a |-> size, b |-> (IF mutex THEN 1 ELSE 0), R |-> {}, S |-> {}, ch |-> FALSE,
                res |-> W, cnt |-> Cnt(rows), ov |-> ~Fits(rows)] >>

On(op) == op \in Ops

(* A Set of abstract column c is one Set per concrete column of its block: on a mutex field the
   columns leave their old row one by one, so the old row and row r are both non-empty meanwhile. *)
Set(r, c)   == On("Set")   /\ WriteD("Set", r, c, {}, {}, c \notin rows[r], SetBits({r}, {c}),
                                      IF mutex THEN NonEmpty(rows) \cup {r} ELSE {})
Clear(r, c) == On("Clear") /\ Write("Clear", r, c, {}, {}, c \in rows[r], ClrBits({r}, {c}))
ClearRow(r) == On("ClearRow") /\ Write("ClearRow", r, 0, {}, {}, rows[r] # {}, ClrBits({r}, Cols))
Store(r1, r2) ==
  /\ On("Store") /\ ~mutex /\ r1 # r2
  /\ Write("Store", r1, r2, {}, {}, FALSE, [rows EXCEPT ![r2] = rows[r1]])
ImportSet(R, S) ==
  /\ On("ImportSet") /\ (mutex => Cardinality(R) = 1)
  /\ Write("ImportSet", 0, 0, R, S, FALSE, SetBits(R, S))
ImportClear(R, S)  == On("ImportClear")  /\ Write("ImportClear", 0, 0, R, S, FALSE, ClrBits(R, S))
RoaringSet(R, S)   == On("RoaringSet")   /\ ~mutex /\ Write("RoaringSet", 0, 0, R, S, FALSE, SetBits(R, S))
RoaringClear(R, S) == On("RoaringClear") /\ ~mutex /\ Write("RoaringClear", 0, 0, R, S, FALSE, ClrBits(R, S))
Recalc == On("Recalc") /\ Write("Recalc", 0, 0, {}, {}, FALSE, rows)
Reopen == On("Reopen") /\ Write("Reopen", 0, 0, {}, {}, FALSE, rows)

TopIds(ids)           == On("TopIds") /\ Query("TopIds", 0, 0, ids, PairsOf(ids, Cnt(rows)))
TopIdsFilter(ids, fr) == On("TopIdsFilter") /\ Query("TopIdsFilter", 0, fr, ids, PairsOf(ids, FilterCnt(rows, fr)))
TopIdsThr(ids, t) ==
  /\ On("TopIdsThr")
  /\ Query("TopIdsThr", t, 0, ids, PairsOf(ids, [r \in Rows |-> IF Cnt(rows)[r] >= t THEN Cnt(rows)[r] ELSE 0]))
RecalcTopN(n)           == On("RecalcTopN") /\ ~over /\ Query("RecalcTopN", n, 0, {}, TopCounts(Cnt(rows), n))
(* the order of the rows by count and their order by filtered count differ *)
Skew(rw, fr) == \E r1, r2 \in Rows : Wt(rw[r1]) > Wt(rw[r2]) /\ Wt(rw[r1] \cap rw[fr]) < Wt(rw[r2] \cap rw[fr])

RecalcTopNFilter(n, fr) ==
  /\ On("RecalcTopNFilter") /\ ~over
  /\ FilterSkew => Skew(rows, fr)
  /\ Query("RecalcTopNFilter", n, fr, {}, TopCounts(FilterCnt(rows, fr), n))

End ==
  /\ hist' = Append(hist, [op |-> "end", a |-> 0, b |-> 0, R |-> {}, S |-> {}, ch |-> FALSE,
                           res |-> [r \in Rows |-> rows[r]], cnt |-> Cnt(rows), ov |-> over])
  /\ UNCHANGED <<kind, size, mutex, rows, over>>

(* In simulation (Rand = TRUE) every action class offers one randomly parameterised instance per
   step, so that the classes are equally likely whatever the size of their parameter space. *)
Pick(X) == IF Rand THEN {RandomElement(X)} ELSE X

Steps ==
  \/ \E r \in Pick(BRows), c \in Pick(Cols) : Set(r, c)
  \/ \E r \in Pick(BRows), c \in Pick(Cols) : Clear(r, c)
  \/ \E r \in Pick(BRows) : ClearRow(r)
  \/ \E r1 \in Pick(BRows), r2 \in Pick(BRows) : Store(r1, r2)
  \/ \E R \in Pick(RowSets), S \in Pick(ColSets) : ImportSet(R, S)
  \/ \E R \in Pick(RowSets), S \in Pick(ColSets) : ImportClear(R, S)
  \/ \E R \in Pick(RowSets), S \in Pick(ColSets) : RoaringSet(R, S)
  \/ \E R \in Pick(RowSets), S \in Pick(ColSets) : RoaringClear(R, S)
  \/ \E k \in 1..RecalcWeight : Recalc
  \/ (Rand => RandomElement(1..5) = 1) /\ Reopen
  \/ \E ids \in Pick(IdSets) : TopIds(ids)
  \/ \E ids \in Pick(IdSets), fr \in Pick(Rows) : TopIdsFilter(ids, fr)
  \/ \E ids \in Pick(IdSets), t \in Pick(Thrs) : TopIdsThr(ids, t)
  \/ \E n \in Pick(TopNs) : RecalcTopN(n)
  \/ \E n \in Pick(TopNs), fr \in Pick(Rows) : RecalcTopNFilter(n, fr)

Next ==
  \/ Len(hist) < Depth + 1 /\ Steps
  \/ Len(hist) = Depth + 1 /\ End

---------------------------------------------------------------------------
TypeOK ==
  /\ rows \in [Rows -> SUBSET Cols]
  /\ mutex => MutexOK(rows)
  /\ over \in BOOLEAN

(* the oracle's own sanity: what RecalcTopN expects is consistent with what TopIds expects *)
OracleOK ==
  LET c == Cnt(rows)
      t == TopCounts(c, 0)
  IN /\ Len(t) = Cardinality(NonEmpty(rows))
     /\ \A i \in 1..(Len(t)-1) : t[i] >= t[i+1]
     /\ \A r \in NonEmpty(rows) : \E i \in 1..Len(t) : t[i] = c[r]
     /\ (~over => Fits(rows))

Emit == (Len(hist) = Depth + 2) => PrintT(<<"BEH", ToJson(hist)>>)

MCView == <<kind, size, mutex, rows, over, Len(hist)>>
=============================================================================
