CONSTANTS
  Family = {"time"}
  IndexCfgsSel = "all"
  Depth = 7
  MaxRestarts = 2
  Classes = {"data", "attr", "aux", "schema", "restart"}
  Sample = TRUE
INIT Init
NEXT Next
INVARIANT Emit
CHECK_DEADLOCK FALSE
