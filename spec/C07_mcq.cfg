CONSTANTS
  Kind = "set"
  Rows = {0, 100}
  Cols = {0}
  Ops = {"SetBit","ClearBit","SetRow","ClearRow","BulkSet","BulkClear","RoaringSet","RoaringClear","Snapshot","Enqueue","BgSnapshot","Reopen","Row","Blocks"}
  Scope = "small"
  Depth = 0
  ShapeName = "free"
  InitMode = "empty"
  MaxOpNs = {"tiny","huge"}
  Provs = {"ops"}
  RowInval = {"setBit","clearBit","setRow","clearRow","bulk","bulkMutex","roaring","setValue","clearValue","importValue"}
  CkInval = {"setBit","clearBit","setRow","clearRow","bulk","bulkMutex","roaring","setValue","clearValue","importValue"}
INIT Init
NEXT Next
VIEW mview
INVARIANT TypeOK
INVARIANT ReadsReflectWrites
INVARIANT ChecksumFresh
INVARIANT ValueRoundTrip
CHECK_DEADLOCK FALSE
