CONSTANTS
  Kind = "set"
  Rows = {0, 100}
  Cols = {0}
  Ops = {"SetBit","ClearBit","ClearRow","Snapshot","Reopen","Row","Blocks","Transfer","BadTransfer"}
  Scope = "mini"
  InitMode = "empty"
  MaxOpNs = {"huge"}
  ShapeName = "m"
  BadKinds = {"garbage"}
  LogTail = TRUE
  Replace = TRUE
  ResetRowCache = TRUE
  ResetChecksums = FALSE
  ResetCounts = TRUE
INIT Init
NEXT Next
INVARIANT TypeOK
INVARIANT ChecksumsFresh
CHECK_DEADLOCK FALSE
