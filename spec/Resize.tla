------------------------------- MODULE Resize -------------------------------
(***************************************************************************)
(* C22 - the coordinator side of Pilosa's cluster-resize protocol, at the   *)
(* level of the code's goroutines, locks and the job result channel.        *)
(*                                                                         *)
(* Processes (cluster.go):                                                  *)
(*   L   the listener goroutine (listenForJoins -> handleNodeAction)        *)
(*   R(j) the job goroutine (resizeJob.run) spawned by handleNodeAction     *)
(*   handlers, one atomic step each (each is one critical section of c.mu   *)
(*       and/or j.mu): nodeJoin, nodeLeave (API.RemoveNode),                *)
(*       markResizeInstructionComplete (Server.receiveMessage),             *)
(*       API.ResizeAbort                                                    *)
(*   the environment: followers answering instructions (ok / error), the    *)
(*       network duplicating or delaying answers, answers for a job id that *)
(*       does not exist, abort requests, a failing instruction send.        *)
(*                                                                         *)
(* Variant = "fixed" describes the code after the C22 repairs (result      *)
(* channel of capacity one with non-blocking senders; completions for a    *)
(* finished or unknown job refused; ResizeAbort recorded on the job and    *)
(* sent as its result; a failed run completes the job as aborted).         *)
(* Variant = "orig" describes the code before them (unbuffered result       *)
(* channel as a rendezvous, nil job dereference, abort not waking L,       *)
(* errors.Wrap(nil)) and exists to show that the invariants below are the   *)
(* ones those defects violate.                                              *)
(*                                                                         *)
(* Gran = "fine": environment events may occur between any two steps of L   *)
(* and R (the harness forces these interleavings through the gate hooks);   *)
(* Gran = "sync": environment events occur only when L and R can take no    *)
(* step (the harness lets the coordinator run freely to quiescence).        *)
(***************************************************************************)
EXTENDS Integers, Sequences, FiniteSets, TLC, Json, ResizePlan

CONSTANTS
    Members,    \* ids of the initial members (strings), Coord among them
    Coord,      \* the coordinator (never leaves)
    Joiners,    \* ids that may join
    Rejoiners,  \* members that may announce themselves again (restart)
    Leavers,    \* members that may be asked to leave
    Profile,    \* which target nodes need data: "all" | "joiner" | "none" | "table" (ResizePlan!PlanTab,
                \* the plans the real code computes for the harness's cluster configuration)
    Variant,    \* "fixed" | "orig"
    Gran,       \* "fine" | "sync"
    MaxJobs,    \* bound on the number of jobs created
    MaxQueue,   \* bound on the number of queued node actions
    BJoin, BRejoin, BLeave, BDup, BErr, BUnknown, BAbort, BSendFail,  \* event budgets
    Depth,      \* number of recorded steps of a generated behaviour; 0 = no history
    Locks,      \* TRUE: c.mu / j.mu acquisition of the completion handler, ResizeAbort and
                \* completeCurrentJob are separate steps (lock order, wait-for graph); FALSE: atomic
    HandlerReadsState  \* TRUE: the completion handler reads cluster state (c.mu.RLock) while it
                \* holds j.mu - the lock-order inversion the design forbids (not the code at HEAD)

Nodes == Members \cup Joiners
Jobs  == 1..MaxJobs
NoAct == [a |-> "", n |-> ""]

VARIABLES
    state,      \* cluster state of the coordinator: "NORMAL" | "RESIZING"
    nodes,      \* c.nodes (the member list)
    queue,      \* c.joiningLeavingNodes
    njobs,      \* number of jobs in c.jobs (ids 1..njobs in creation order)
    jact, jnode,\* job -> action, node
    jids,       \* job -> target membership (keys of j.IDs)
    jdone,      \* job -> nodes marked complete in j.IDs
    jok,        \* ghost: job -> nodes that need no data or whose success was delivered
    jstate,     \* job -> "" | "RUNNING" | "DONE" | "ABORTED"
    jbuf,       \* job -> content of j.result: "none" | "DONE" | "ABORTED"
    curJob,     \* c.currentJob (0 = nil)
    running,    \* ghost: jobs accepted by handleNodeAction and not yet completed
    lpc, lact, ljob, lres, setNormal,   \* the listener
    rpc,        \* job -> "none" | "ready" | "done" | "blocked"
    rerr,       \* job -> run() returned an error
    sendFail,   \* the next instruction send fails
    instr,      \* instructions delivered to followers and not yet answered: <<job, node>>
    sent,       \* answers delivered once (the network may deliver them again)
    out,        \* all instructions ever sent (observable: the broadcaster's log)
    bud,        \* remaining event budgets
    stuckH,     \* number of handler goroutines blocked forever
    jmuStuck,   \* jobs whose j.mu is held by a goroutine blocked forever
    cmuStuck,   \* c.mu is held by a goroutine blocked forever
    cmu,        \* Locks: who holds c.mu for writing between two steps: "" | "L" (completeCurrentJob) | "A" (abortCurrentJob)
    jmu,        \* Locks: job -> "" | "H" (a completion handler holds j.mu)
    hpend,      \* Locks: the completion the handler holding j.mu is processing (NoComp = none)
    hist        \* recorded steps (generation only)

cvars == <<state, nodes, queue>>
jvars == <<njobs, jact, jnode, jids, jdone, jok, jstate, jbuf, curJob, running>>
lvars == <<lpc, lact, ljob, lres, setNormal>>
rvars == <<rpc, rerr, sendFail>>
evars == <<instr, sent, out, bud>>
svars == <<stuckH, jmuStuck, cmuStuck>>
kvars == <<cmu, jmu, hpend>>
vars  == <<cvars, jvars, lvars, rvars, evars, svars, kvars, hist>>
mview == <<cvars, jvars, lvars, rvars, evars, svars, kvars>>
NoComp == [j |-> 0, n |-> "", kind |-> ""]

Fixed == Variant = "fixed"

Target(a, n, ns) == IF a = "ADD" THEN ns \cup {n} ELSE ns \ {n}
\* nodes of the target membership that receive an instruction
PlanRow(a, n, ns) == CHOOSE r \in PlanTab : r[1] = a /\ r[2] = n /\ r[3] = ns
HasPlan(a, n, ns) == \E r \in PlanTab : r[1] = a /\ r[2] = n /\ r[3] = ns
\* can a job be generated (fragSources finds a source for every fragment)?
PlanOK(a, n, ns) == Profile = "table" => (HasPlan(a, n, ns) /\ PlanRow(a, n, ns)[4])
Pending(a, n, ns) ==
    CASE Profile = "all"    -> Target(a, n, ns)
      [] Profile = "joiner" -> IF a = "ADD" THEN {n} ELSE Target(a, n, ns)
      [] Profile = "table"  -> PlanRow(a, n, ns)[5]
      [] OTHER              -> {}

Terminal(s) == s \in {"DONE", "ABORTED"}
SetSt(old, new) == IF old \in {"", "RUNNING"} THEN new ELSE old

\* ---- the result channel
\* fixed: capacity one, a send never blocks (dropped when full).
\* orig : rendezvous with the listener waiting in handleNodeAction.
CanSend(j) == Fixed \/ (lpc = "wait" /\ ljob = j /\ jbuf[j] = "none")
BufAfter(j, v) == IF jbuf[j] = "none" THEN [jbuf EXCEPT ![j] = v] ELSE jbuf

\* ---- observables compared with the real cluster after a step
Obs == [state |-> state, nodes |-> nodes, cur |-> curJob, q |-> Len(queue),
        js |-> [j \in 1..njobs |-> jstate[j]],
        jd |-> [j \in 1..njobs |-> jdone[j]],
        ji |-> [j \in 1..njobs |-> jids[j]],
        out |-> out, lpc |-> lpc]

Rec(ev, n, j, kind, ret) ==
    [ev |-> ev, n |-> n, j |-> j, kind |-> kind, ret |-> ret,
     obs |-> IF Gran = "fine" THEN Obs' ELSE [settled |-> FALSE]]

\* hist' (must be the last conjunct of an action: it reads primed variables)
Log(ev, n, j, kind, ret) ==
    hist' = IF Depth = 0 THEN hist ELSE Append(hist, Rec(ev, n, j, kind, ret))

\* coordinator steps are recorded only at fine granularity
LogC(ev, j) ==
    hist' = IF Depth = 0 \/ Gran = "sync" THEN hist ELSE Append(hist, Rec(ev, "", j, "", ""))

Room == Depth = 0 \/ Len(hist) < Depth

-----------------------------------------------------------------------------
Init ==
    /\ state = "NORMAL" /\ nodes = Members /\ queue = << >>
    /\ njobs = 0
    /\ jact = [j \in Jobs |-> ""] /\ jnode = [j \in Jobs |-> ""]
    /\ jids = [j \in Jobs |-> {}] /\ jdone = [j \in Jobs |-> {}] /\ jok = [j \in Jobs |-> {}]
    /\ jstate = [j \in Jobs |-> ""] /\ jbuf = [j \in Jobs |-> "none"]
    /\ curJob = 0 /\ running = {}
    /\ lpc = "idle" /\ lact = NoAct /\ ljob = 0 /\ lres = "" /\ setNormal = FALSE
    /\ rpc = [j \in Jobs |-> "none"] /\ rerr = [j \in Jobs |-> FALSE] /\ sendFail = FALSE
    /\ instr = {} /\ sent = {} /\ out = {}
    /\ bud = [join |-> BJoin, rejoin |-> BRejoin, leave |-> BLeave, dup |-> BDup, err |-> BErr,
              unknown |-> BUnknown, abort |-> BAbort, sendfail |-> BSendFail]
    /\ stuckH = 0 /\ jmuStuck = {} /\ cmuStuck = FALSE
    /\ cmu = "" /\ jmu = [j \in Jobs |-> ""] /\ hpend = NoComp
    /\ hist = << >>

-----------------------------------------------------------------------------
(* The listener.  Every step that takes c.mu is disabled while c.mu is held  *)
(* by a goroutine that is blocked forever.                                   *)

\* select on joiningLeavingNodes (first or second select of the loop)
LTake ==
    /\ lpc \in {"idle", "block"} /\ queue # << >>
    /\ lact' = Head(queue) /\ queue' = Tail(queue) /\ lpc' = "gen"
    /\ UNCHANGED <<state, nodes, jvars, ljob, lres, setNormal, rvars, evars, svars>>
    /\ LogC("LTake", 0)

\* nothing queued: setStateAndBroadcast(NORMAL) if setNormal, then block in the second select
LNorm ==
    /\ lpc = "idle" /\ queue = << >>
    /\ setNormal => ~cmuStuck
    /\ state' = IF setNormal THEN "NORMAL" ELSE state
    /\ lpc' = "block"
    /\ UNCHANGED <<nodes, queue, jvars, lact, ljob, lres, setNormal, rvars, evars, svars>>
    /\ LogC("LNorm", 0)

\* handleNodeAction: unprotectedGenerateResizeJob under c.mu; spawn run(); wait for the result
LGen ==
    /\ lpc = "gen" /\ ~cmuStuck
    /\ LET a == lact.a  n == lact.n IN
       IF (a = "ADD" /\ n \in nodes) \/ (a = "REMOVE" /\ n \notin nodes) \/ ~PlanOK(a, n, nodes)
       THEN \* fragSources: "clusters are the same size" / no source -> error path, state NORMAL
            /\ state' = "NORMAL" /\ lpc' = "idle" /\ lact' = NoAct
            /\ UNCHANGED <<nodes, queue, jvars, ljob, lres, setNormal, rvars, evars, svars>>
       ELSE /\ njobs < MaxJobs
            /\ LET id == njobs + 1
                   tg == Target(a, n, nodes)
                   pd == Pending(a, n, nodes) IN
               /\ njobs' = id
               /\ jact' = [jact EXCEPT ![id] = a] /\ jnode' = [jnode EXCEPT ![id] = n]
               /\ jids' = [jids EXCEPT ![id] = tg]
               /\ jdone' = [jdone EXCEPT ![id] = tg \ pd]
               /\ jok' = [jok EXCEPT ![id] = tg \ pd]
               /\ IF curJob # 0
                  THEN \* "there is currently a resize job running" -> error path
                       /\ state' = "NORMAL" /\ lpc' = "idle" /\ lact' = NoAct
                       /\ UNCHANGED <<curJob, running, rpc, ljob>>
                  ELSE /\ curJob' = id /\ running' = running \cup {id}
                       /\ rpc' = [rpc EXCEPT ![id] = "ready"]
                       /\ ljob' = id /\ lpc' = "wait"
                       /\ UNCHANGED <<state, lact>>
            /\ UNCHANGED <<nodes, queue, jstate, jbuf, lres, setNormal, rerr, sendFail, evars, svars>>
    /\ LogC("LGen", 0)

\* <-j.result, then eg.Wait()
LRecv ==
    /\ lpc = "wait" /\ jbuf[ljob] # "none" /\ rpc[ljob] = "done"
    /\ jbuf' = [jbuf EXCEPT ![ljob] = "none"]
    /\ IF rerr[ljob] /\ ~Fixed
       THEN \* orig: errors.Wrap(nil) - returns nil without completing the job
            /\ lpc' = "idle" /\ setNormal' = TRUE /\ lres' = "" /\ lact' = NoAct
       ELSE /\ lres' = IF rerr[ljob] THEN "ABORTED" ELSE jbuf[ljob]
            /\ lpc' = "complete"
            /\ UNCHANGED <<setNormal, lact>>
    /\ UNCHANGED <<cvars, njobs, jact, jnode, jids, jdone, jok, jstate, curJob, running, ljob, rvars, evars, svars>>
    /\ LogC("LRecv", 0)

\* completeCurrentJob(result) under c.mu, setState under j.mu
LComplete ==
    /\ lpc = "complete" /\ ~cmuStuck
    /\ IF curJob = 0
       THEN \* ErrResizeNotRunning: handleNodeAction returns an error
            /\ lpc' = "idle" /\ lact' = NoAct
            /\ UNCHANGED <<jstate, curJob, running, setNormal, cmuStuck>>
       ELSE IF curJob \in jmuStuck
       THEN \* blocks in setState holding c.mu
            /\ lpc' = "stuck" /\ cmuStuck' = TRUE
            /\ UNCHANGED <<jstate, curJob, running, setNormal, lact>>
       ELSE LET fin == SetSt(jstate[curJob], lres) IN
            /\ jstate' = [jstate EXCEPT ![curJob] = fin]
            /\ curJob' = 0 /\ running' = running \ {curJob}
            /\ IF lres = "DONE" /\ (fin = "DONE" \/ ~Fixed)
               THEN lpc' = "member" /\ UNCHANGED <<setNormal, lact>>
               ELSE lpc' = "idle" /\ setNormal' = TRUE /\ lact' = NoAct
            /\ UNCHANGED cmuStuck
    /\ UNCHANGED <<cvars, njobs, jact, jnode, jids, jdone, jok, jbuf, ljob, lres, rvars, evars, stuckH, jmuStuck>>
    /\ LogC("LComplete", 0)

\* addNode / removeNode under c.mu
LMember ==
    /\ lpc = "member" /\ ~cmuStuck
    /\ nodes' = Target(lact.a, lact.n, nodes)
    /\ lpc' = "idle" /\ setNormal' = TRUE /\ lact' = NoAct
    /\ UNCHANGED <<state, queue, jvars, ljob, lres, rvars, evars, svars>>
    /\ LogC("LMember", 0)

\* resizeJob.run
RRun(j) ==
    /\ rpc[j] = "ready"
    /\ j \notin jmuStuck
    /\ jstate' = [jstate EXCEPT ![j] = SetSt(@, IF @ = "" THEN "RUNNING" ELSE @)]
    /\ IF jids[j] \subseteq jdone[j]
       THEN \* nothing to do: result DONE
            /\ IF CanSend(j) THEN jbuf' = BufAfter(j, "DONE") /\ rpc' = [rpc EXCEPT ![j] = "done"]
                             ELSE jbuf' = jbuf /\ rpc' = [rpc EXCEPT ![j] = "blocked"]
            /\ UNCHANGED <<rerr, sendFail, instr, out>>
       ELSE IF sendFail
       THEN \* the first SendTo fails: result ABORTED, run returns the error
            /\ sendFail' = FALSE /\ rerr' = [rerr EXCEPT ![j] = TRUE]
            /\ IF CanSend(j) THEN jbuf' = BufAfter(j, "ABORTED") /\ rpc' = [rpc EXCEPT ![j] = "done"]
                             ELSE jbuf' = jbuf /\ rpc' = [rpc EXCEPT ![j] = "blocked"]
            /\ UNCHANGED <<instr, out>>
       ELSE /\ instr' = instr \cup {<<j, n>> : n \in jids[j] \ jdone[j]}
            /\ out' = out \cup {<<j, n>> : n \in jids[j] \ jdone[j]}
            /\ rpc' = [rpc EXCEPT ![j] = "done"]
            /\ UNCHANGED <<jbuf, rerr, sendFail>>
    /\ UNCHANGED <<cvars, njobs, jact, jnode, jids, jdone, jok, curJob, running, lvars, sent, bud, svars>>
    /\ LogC("RRun", j)

CoordStep == LTake \/ LNorm \/ LGen \/ LRecv \/ LComplete \/ LMember \/ \E j \in Jobs : RRun(j)

-----------------------------------------------------------------------------
(* Handlers.  Each computes `ret`: "ok" (nil), "err" (an error), "stuck" (the *)
(* handler never returns), "panic".                                           *)

\* cluster.nodeJoin(n)
Join(n) ==
    /\ IF n \in Joiners THEN bud.join > 0 /\ bud' = [bud EXCEPT !.join = @ - 1]
                         ELSE bud.rejoin > 0 /\ bud' = [bud EXCEPT !.rejoin = @ - 1]
    /\ IF cmuStuck
       THEN /\ stuckH' = stuckH + 1
            /\ UNCHANGED <<cvars, jvars, lvars, rvars, instr, sent, out, jmuStuck, cmuStuck>>
            /\ Log("Join", n, 0, "", "stuck")
       ELSE IF n \in nodes
       THEN \* already a member: broadcast determineClusterState() (RESIZING stays RESIZING)
            /\ UNCHANGED <<cvars, jvars, lvars, rvars, instr, sent, out, svars>>
            /\ Log("Join", n, 0, "", "ok")
       ELSE /\ Len(queue) < MaxQueue
            /\ state' = "RESIZING" /\ queue' = Append(queue, [a |-> "ADD", n |-> n])
            /\ UNCHANGED <<nodes, jvars, lvars, rvars, instr, sent, out, svars>>
            /\ Log("Join", n, 0, "", "ok")

\* API.RemoveNode(n) -> cluster.nodeLeave(n)
Leave(n) ==
    /\ bud.leave > 0 /\ bud' = [bud EXCEPT !.leave = @ - 1]
    /\ IF state # "NORMAL"
       THEN \* api.validate: not allowed in state RESIZING (State() takes c.mu.RLock)
            /\ IF cmuStuck THEN stuckH' = stuckH + 1 ELSE UNCHANGED stuckH
            /\ UNCHANGED <<cvars, jvars, lvars, rvars, instr, sent, out, jmuStuck, cmuStuck>>
            /\ Log("Leave", n, 0, "", IF cmuStuck THEN "stuck" ELSE "err")
       ELSE IF cmuStuck
       THEN /\ stuckH' = stuckH + 1
            /\ UNCHANGED <<cvars, jvars, lvars, rvars, instr, sent, out, jmuStuck, cmuStuck>>
            /\ Log("Leave", n, 0, "", "stuck")
       ELSE IF n \notin nodes \/ ~PlanOK("REMOVE", n, nodes)
       THEN \* not a member / "not enough data to perform resize"
            /\ UNCHANGED <<cvars, jvars, lvars, rvars, instr, sent, out, svars>>
            /\ Log("Leave", n, 0, "", "err")
       ELSE /\ Len(queue) < MaxQueue
            /\ state' = "RESIZING" /\ queue' = Append(queue, [a |-> "REMOVE", n |-> n])
            /\ UNCHANGED <<nodes, jvars, lvars, rvars, instr, sent, out, svars>>
            /\ Log("Leave", n, 0, "", "ok")

\* cluster.markResizeInstructionComplete({JobID: j, Node: n, Error: kind = "err"})
\* for a job that exists.  ev names the delivery for the history.
Complete(ev, j, n, kind) ==
    IF cmuStuck
    THEN \* c.job() needs c.mu.RLock
         /\ stuckH' = stuckH + 1
         /\ UNCHANGED <<cvars, jvars, lvars, rvars, jmuStuck, cmuStuck>>
         /\ Log(ev, n, j, kind, "stuck")
    ELSE IF Fixed
    THEN IF Terminal(jstate[j])
         THEN /\ UNCHANGED <<cvars, jvars, lvars, rvars, svars>>
              /\ Log(ev, n, j, kind, "err")
         ELSE IF kind = "err"
         THEN /\ jbuf' = BufAfter(j, "ABORTED")
              /\ UNCHANGED <<cvars, njobs, jact, jnode, jids, jdone, jok, jstate, curJob, running, lvars, rvars, svars>>
              /\ Log(ev, n, j, kind, "err")
         ELSE /\ jdone' = [jdone EXCEPT ![j] = @ \cup {n}]
              /\ jok' = [jok EXCEPT ![j] = @ \cup {n}]
              /\ jbuf' = IF jids[j] \subseteq jdone'[j] THEN BufAfter(j, "DONE") ELSE jbuf
              /\ UNCHANGED <<cvars, njobs, jact, jnode, jids, jstate, curJob, running, lvars, rvars, svars>>
              /\ Log(ev, n, j, kind, "ok")
    ELSE \* orig
         IF kind = "err"
         THEN \* j.result <- ABORTED before looking at the job state, without j.mu
              IF CanSend(j)
              THEN /\ jbuf' = BufAfter(j, "ABORTED")
                   /\ UNCHANGED <<cvars, njobs, jact, jnode, jids, jdone, jok, jstate, curJob, running, lvars, rvars, svars>>
                   /\ Log(ev, n, j, kind, "err")
              ELSE /\ stuckH' = stuckH + 1
                   /\ UNCHANGED <<cvars, jvars, lvars, rvars, jmuStuck, cmuStuck>>
                   /\ Log(ev, n, j, kind, "stuck")
         ELSE IF j \in jmuStuck
         THEN /\ stuckH' = stuckH + 1
              /\ UNCHANGED <<cvars, jvars, lvars, rvars, jmuStuck, cmuStuck>>
              /\ Log(ev, n, j, kind, "stuck")
         ELSE IF Terminal(jstate[j])
         THEN /\ UNCHANGED <<cvars, jvars, lvars, rvars, svars>>
              /\ Log(ev, n, j, kind, "err")
         ELSE /\ jdone' = [jdone EXCEPT ![j] = @ \cup {n}]
              /\ jok' = [jok EXCEPT ![j] = @ \cup {n}]
              /\ IF jids[j] \subseteq jdone'[j]
                 THEN IF CanSend(j)
                      THEN /\ jbuf' = BufAfter(j, "DONE") /\ UNCHANGED svars
                           /\ UNCHANGED <<cvars, njobs, jact, jnode, jids, jstate, curJob, running, lvars, rvars>>
                           /\ Log(ev, n, j, kind, "ok")
                      ELSE \* blocks in the send holding j.mu
                           /\ jbuf' = jbuf /\ stuckH' = stuckH + 1 /\ jmuStuck' = jmuStuck \cup {j}
                           /\ UNCHANGED <<cvars, njobs, jact, jnode, jids, jstate, curJob, running, lvars, rvars, cmuStuck>>
                           /\ Log(ev, n, j, kind, "stuck")
                 ELSE /\ jbuf' = jbuf /\ UNCHANGED svars
                      /\ UNCHANGED <<cvars, njobs, jact, jnode, jids, jstate, curJob, running, lvars, rvars>>
                      /\ Log(ev, n, j, kind, "ok")

\* a follower answers its instruction (first delivery of that answer)
Deliver(j, n, kind) ==
    /\ <<j, n>> \in instr
    /\ kind = "err" => bud.err > 0
    /\ instr' = instr \ {<<j, n>>}
    /\ sent' = sent \cup {<<j, n>>}
    /\ out' = out
    /\ bud' = IF kind = "err" THEN [bud EXCEPT !.err = @ - 1] ELSE bud
    /\ Complete(IF Terminal(jstate[j]) THEN "Late" ELSE "Deliver", j, n, kind)

\* the network delivers an answer again (possibly after the job ended); a node's
\* second answer may differ from its first
Dup(j, n, kind) ==
    /\ <<j, n>> \in sent
    /\ bud.dup > 0
    /\ kind = "err" => bud.err > 0
    /\ bud' = IF kind = "err" THEN [bud EXCEPT !.dup = @ - 1, !.err = @ - 1] ELSE [bud EXCEPT !.dup = @ - 1]
    /\ UNCHANGED <<instr, sent, out>>
    /\ Complete("Dup", j, n, kind)

\* an answer for a job id that is not in c.jobs
Unknown(kind) ==
    /\ bud.unknown > 0 /\ bud' = [bud EXCEPT !.unknown = @ - 1]
    /\ UNCHANGED <<cvars, jvars, lvars, rvars, instr, sent, out, jmuStuck, cmuStuck>>
    /\ IF cmuStuck THEN /\ stuckH' = stuckH + 1 /\ Log("Unknown", Coord, 0, kind, "stuck")
       ELSE /\ stuckH' = IF Fixed THEN stuckH ELSE stuckH + 1   \* orig: nil dereference
            /\ Log("Unknown", Coord, 0, kind, IF Fixed THEN "err" ELSE "panic")

\* API.ResizeAbort
Abort ==
    /\ bud.abort > 0 /\ bud' = [bud EXCEPT !.abort = @ - 1]
    /\ UNCHANGED <<instr, sent, out>>
    /\ IF cmuStuck
       THEN /\ stuckH' = stuckH + 1
            /\ UNCHANGED <<cvars, jvars, lvars, rvars, jmuStuck, cmuStuck>>
            /\ Log("Abort", "", 0, "", "stuck")
       ELSE IF state # "RESIZING" \/ curJob = 0
       THEN \* api.validate refuses / ErrResizeNotRunning
            /\ UNCHANGED <<cvars, jvars, lvars, rvars, svars>>
            /\ Log("Abort", "", 0, "", "err")
       ELSE IF curJob \in jmuStuck
       THEN \* setState blocks on j.mu while holding c.mu
            /\ stuckH' = stuckH + 1 /\ cmuStuck' = TRUE
            /\ UNCHANGED <<cvars, jvars, lvars, rvars, jmuStuck>>
            /\ Log("Abort", "", curJob, "", "stuck")
       ELSE IF Fixed
       THEN \* abortCurrentJob: record on the job, send as its result; L completes the job
            /\ jstate' = [jstate EXCEPT ![curJob] = SetSt(@, "ABORTED")]
            /\ jbuf' = BufAfter(curJob, "ABORTED")
            /\ UNCHANGED <<cvars, njobs, jact, jnode, jids, jdone, jok, curJob, running, lvars, rvars, svars>>
            /\ Log("Abort", "", curJob, "", "ok")
       ELSE \* orig: completeCurrentJob(ABORTED); nobody wakes L
            /\ jstate' = [jstate EXCEPT ![curJob] = SetSt(@, "ABORTED")]
            /\ curJob' = 0 /\ running' = running \ {curJob}
            /\ UNCHANGED <<cvars, njobs, jact, jnode, jids, jdone, jok, jbuf, lvars, rvars, svars>>
            /\ Log("Abort", "", curJob, "", "ok")

\* the broadcaster will fail the next instruction send
ArmSendFail ==
    /\ bud.sendfail > 0 /\ ~sendFail
    /\ bud' = [bud EXCEPT !.sendfail = @ - 1]
    /\ sendFail' = TRUE
    /\ UNCHANGED <<cvars, jvars, lvars, rpc, rerr, instr, sent, out, svars>>
    /\ Log("ArmSendFail", "", 0, "", "")

EnvStep ==
    \/ \E n \in Joiners \cup Rejoiners : Join(n)
    \/ \E n \in Leavers : Leave(n)
    \/ \E j \in Jobs, n \in Nodes, k \in {"ok", "err"} : Deliver(j, n, k) \/ Dup(j, n, k)
    \/ \E k \in {"ok", "err"} : Unknown(k)
    \/ Abort
    \/ ArmSendFail

-----------------------------------------------------------------------------
CoordEnabled ==
    \/ ENABLED LTake \/ ENABLED LNorm \/ ENABLED LGen \/ ENABLED LRecv
    \/ ENABLED LComplete \/ ENABLED LMember \/ \E j \in Jobs : ENABLED RRun(j)

\* cheaper equivalent of CoordEnabled (no ENABLED): used as a guard
CoordCanStep ==
    \/ lpc \in {"idle", "block"} /\ queue # << >>
    \/ lpc = "idle" /\ queue = << >> /\ (setNormal => ~cmuStuck)
    \/ lpc = "gen" /\ ~cmuStuck /\ ((lact.a = "ADD" /\ lact.n \in nodes) \/ (lact.a = "REMOVE" /\ lact.n \notin nodes)
                                    \/ ~PlanOK(lact.a, lact.n, nodes) \/ njobs < MaxJobs)
    \/ lpc = "wait" /\ jbuf[ljob] # "none" /\ rpc[ljob] = "done"
    \/ lpc \in {"complete", "member"} /\ ~cmuStuck
    \/ \E j \in Jobs : rpc[j] = "ready" /\ j \notin jmuStuck

Settled == hist = << >> \/ hist[Len(hist)].obs # [settled |-> FALSE]

\* sync granularity: when the coordinator can take no step the observables are recorded
Settle ==
    /\ Gran = "sync" /\ Depth > 0 /\ ~Settled /\ ~CoordCanStep
    /\ hist' = [hist EXCEPT ![Len(hist)].obs = Obs]
    /\ UNCHANGED mview

(* ---- locks (DESIGN: lock order is c.mu before j.mu) ------------------------------------ *)
(* With Locks = TRUE the three code paths that hold two locks are split where the second    *)
(* lock is taken:                                                                           *)
(*   completion handler : j.mu (HAcquire) ... body (HFinish); the body takes no other lock  *)
(*                        unless HandlerReadsState (then it needs c.mu.RLock)                *)
(*   abortCurrentJob    : c.mu (ALock) ... setState needs j.mu (ABody)                       *)
(*   completeCurrentJob : c.mu (LCLock) ... setState needs j.mu (LCBody)                     *)
(* Every other step that takes c.mu needs it free; every other step that takes j.mu needs   *)
(* it free.                                                                                 *)
CmuFree == cmu = ""
JmuFree(j) == IF j = 0 THEN TRUE ELSE jmu[j] = ""
Rest == <<cvars, jvars, lvars, rvars, evars, svars, hist>>

LCLock ==
    /\ Locks /\ lpc = "complete" /\ CmuFree /\ ~cmuStuck
    /\ cmu' = "L" /\ UNCHANGED <<jmu, hpend>> /\ UNCHANGED Rest
LCBody ==
    /\ Locks /\ cmu = "L" /\ JmuFree(curJob)
    /\ LComplete
    /\ cmu' = "" /\ UNCHANGED <<jmu, hpend>>

ALock ==
    /\ Locks /\ bud.abort > 0 /\ state = "RESIZING" /\ CmuFree /\ ~cmuStuck
    /\ cmu' = "A" /\ UNCHANGED <<jmu, hpend>> /\ UNCHANGED Rest
ABody ==
    /\ Locks /\ cmu = "A" /\ JmuFree(curJob)
    /\ Abort
    /\ cmu' = "" /\ UNCHANGED <<jmu, hpend>>

\* a completion handler has looked the job up (c.mu.RLock, released) and takes j.mu
HAcquire(j, n, kind) ==
    /\ Locks /\ hpend = NoComp /\ CmuFree /\ ~cmuStuck
    /\ <<j, n>> \in instr /\ (kind = "err" => bud.err > 0)
    /\ JmuFree(j) /\ j \notin jmuStuck
    /\ jmu' = [jmu EXCEPT ![j] = "H"] /\ hpend' = [j |-> j, n |-> n, kind |-> kind]
    /\ UNCHANGED cmu /\ UNCHANGED Rest
\* ... and runs its body and releases j.mu
HFinish ==
    /\ Locks /\ hpend # NoComp
    /\ HandlerReadsState => CmuFree
    /\ Deliver(hpend.j, hpend.n, hpend.kind)
    /\ jmu' = [jmu EXCEPT ![hpend.j] = ""] /\ hpend' = NoComp /\ UNCHANGED cmu

K == UNCHANGED kvars
LTakeK == LTake /\ K
LRecvK == LRecv /\ K
LNormK == LNorm /\ (setNormal => CmuFree) /\ K
LGenK == LGen /\ CmuFree /\ K
LMemberK == LMember /\ CmuFree /\ K
RRunK(j) == RRun(j) /\ JmuFree(j) /\ K
LCompleteK == ~Locks /\ LComplete /\ K
DeliverK(j, n, k) == Deliver(j, n, k) /\ CmuFree /\ JmuFree(j) /\ K
CoordStepK ==
    \/ LTakeK \/ LRecvK \/ LNormK \/ LGenK \/ LMemberK
    \/ (\E j \in Jobs : RRunK(j))
    \/ LCompleteK
    \/ LCLock \/ LCBody \/ ABody \/ HFinish

EnvStepK ==
    \/ (\E n \in Joiners \cup Rejoiners : Join(n) /\ CmuFree /\ K)
    \/ (\E n \in Leavers : Leave(n) /\ CmuFree /\ K)
    \/ (\E j \in Jobs, n \in Nodes, k \in {"ok", "err"} :
            DeliverK(j, n, k) \/ (Dup(j, n, k) /\ CmuFree /\ JmuFree(j) /\ K))
    \/ (\E k \in {"ok", "err"} : Unknown(k) /\ CmuFree /\ K)
    \/ (Abort /\ (~Locks \/ state # "RESIZING") /\ CmuFree /\ K)
    \/ (ArmSendFail /\ K)
    \/ ALock
    \/ (\E j \in Jobs, n \in Nodes, k \in {"ok", "err"} : HAcquire(j, n, k))

Next ==
    \/ CoordStepK /\ (Gran = "fine" => Room)
    \/ EnvStepK /\ Room /\ (Gran = "sync" => (~CoordCanStep /\ Settled))
    \/ Settle

Spec == Init /\ [][Next]_vars

\* fairness: every coordinator step; every outstanding instruction of a job is
\* eventually answered (the environment owes that answer)
Fairness ==
    /\ WF_vars(LTakeK) /\ WF_vars(LNormK) /\ WF_vars(LGenK) /\ WF_vars(LRecvK)
    /\ WF_vars(LCompleteK) /\ WF_vars(LMemberK)
    /\ \A j \in Jobs : WF_vars(RRunK(j))
    /\ \A j \in Jobs : \A n \in Nodes : WF_vars(DeliverK(j, n, "ok"))
    /\ WF_vars(LCLock) /\ WF_vars(LCBody) /\ WF_vars(ABody) /\ WF_vars(HFinish)

FairSpec == Spec /\ Fairness

-----------------------------------------------------------------------------
(* Properties *)

TypeOK ==
    /\ state \in {"NORMAL", "RESIZING"}
    /\ nodes \subseteq Nodes /\ Coord \in nodes
    /\ Len(queue) <= MaxQueue
    /\ njobs \in 0..MaxJobs /\ curJob \in 0..njobs
    /\ \A j \in Jobs : jstate[j] \in {"", "RUNNING", "DONE", "ABORTED"}
    /\ \A j \in Jobs : jbuf[j] \in {"none", "DONE", "ABORTED"}
    /\ lpc \in {"idle", "block", "gen", "wait", "complete", "member", "stuck"}

\* at most one resize job runs at a time, and currentJob is that job
AtMostOneJob ==
    /\ Cardinality(running) <= 1
    /\ curJob # 0 => running = {curJob}
    /\ \A j \in Jobs : rpc[j] \in {"ready", "blocked"} => j \in running \/ ~Fixed

\* the code never marks a node complete that did not report success (or needs nothing)
DoneOnlyIfOk == \A j \in Jobs : jdone[j] \subseteq jok[j]

\* the member list changes only in LMember, to the job's target membership, after
\* every node of the target membership has reported success
MembershipOnlyAfterAllOk ==
    [][nodes' # nodes =>
         /\ lpc = "member" /\ ljob \in 1..njobs
         /\ jids[ljob] \subseteq jok[ljob]
         /\ jstate[ljob] = "DONE"
         /\ nodes' = Target(jact[ljob], jnode[ljob], nodes)]_vars

\* no handler, job goroutine or the listener is blocked forever
NoHandlerStuck ==
    /\ stuckH = 0 /\ jmuStuck = {} /\ ~cmuStuck
    /\ lpc # "stuck" /\ \A j \in Jobs : rpc[j] # "blocked"

\* ---- lock order: no cycle in the wait-for graph of c.mu / j.mu
\* Edges: the handler holding j.mu[hpend.j] waits for the holder of c.mu iff it needs c.mu
\* (HandlerReadsState) and c.mu is held; the holder of c.mu ("L" completeCurrentJob, "A"
\* abortCurrentJob) waits for the handler iff the job it completes is the handler's job.
HandlerWaitsForCmu == hpend # NoComp /\ HandlerReadsState /\ cmu # ""
CmuHolderWaitsForHandler == cmu # "" /\ curJob # 0 /\ jmu[curJob] = "H"
NoLockCycle == ~(HandlerWaitsForCmu /\ CmuHolderWaitsForHandler /\ hpend.j = curJob)
\* the design rule that guarantees it: whoever holds j.mu never asks for c.mu
LockOrder == hpend # NoComp => ~HandlerReadsState

\* the environment owes an answer to the job the listener waits for
Owed == lpc = "wait" /\ curJob = ljob /\ ~Terminal(jstate[ljob]) /\ \E n \in Nodes : <<ljob, n>> \in instr

\* safety form of "leaves RESIZING when the job ends; nothing waits forever": when the
\* coordinator can take no step, either it legitimately waits for a follower's answer
\* or everything is clean
QuiescentClean ==
    (~CoordCanStep /\ (lpc = "gen" => njobs < MaxJobs)) =>
        \/ Owed
        \/ /\ lpc = "block" /\ queue = << >> /\ curJob = 0 /\ running = {}
           /\ state = "NORMAL"
           /\ \A j \in 1..njobs : rpc[j] # "none" => Terminal(jstate[j])

CanStepAgrees == CoordCanStep <=> CoordEnabled

Clean == state = "NORMAL" /\ running = {} /\ curJob = 0 /\ queue = << >> /\ lpc = "block"

\* liveness: the cluster keeps returning to a clean NORMAL state; every job ends
LeavesResizing == []<>(Clean \/ (lpc = "gen" /\ njobs = MaxJobs))
JobEnds == \A j \in Jobs : (j \in running) ~> (j \notin running \/ (lpc = "gen" /\ njobs = MaxJobs))

\* ---- refinement of the abstract specification
Abs == INSTANCE ResizeAbs WITH
          astate <- state, anodes <- nodes, arunning <- running,
          atarget <- [j \in Jobs |-> IF j <= njobs THEN jids[j] ELSE {}],
          aaction <- [j \in Jobs |-> IF j <= njobs THEN [a |-> jact[j], n |-> jnode[j]] ELSE [a |-> "", n |-> ""]],
          aoks <- jok,
          aresult <- [j \in Jobs |-> IF j <= njobs /\ j \notin running /\ Terminal(jstate[j]) THEN jstate[j] ELSE ""],
          astuck <- stuckH + Cardinality(jmuStuck) + (IF cmuStuck THEN 1 ELSE 0)
                    + (IF lpc = "stuck" THEN 1 ELSE 0) + Cardinality({j \in Jobs : rpc[j] = "blocked"})

RefinesAbs == Abs!SafeSpec
AbsLive == Abs!EveryJobEnds /\ Abs!LeavesResizing

\* ---- behaviour generation
\* a behaviour is emitted when it has Depth recorded steps, or earlier when nothing more can happen
Emit == (Depth > 0 /\ Settled /\ hist # << >> /\ (Len(hist) = Depth \/ ~ENABLED Next)) => PrintT(<<"BEH", ToJson(hist)>>)
=============================================================================
