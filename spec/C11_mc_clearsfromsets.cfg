SPECIFICATION Spec
CONSTANTS
  R = 3
  ClearsFromSets = TRUE
  ClearsToStandard = FALSE
INVARIANT TypeOK
INVARIANT MajorityEverywhere
INVARIANT SameView
INVARIANT ChecksumsAgree
CHECK_DEADLOCK FALSE
