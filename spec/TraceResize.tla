----------------------------- MODULE TraceResize -----------------------------
(***************************************************************************)
(* C22, binding B (model drift): the executions validated against ResizeAbs *)
(* by TraceResizeAbs are also matched against the implementation-level       *)
(* specification Resize.  The recorded events are those emitted under c.mu / *)
(* j.mu after a change; steps that emit no event (the listener taking an     *)
(* action from the queue, run() sending instructions, the listener receiving *)
(* the result, a state broadcast, an armed send failure) are silent steps.   *)
(* A rejection here with acceptance by TraceResizeAbs is reported as         *)
(* MODEL-DRIFT (the model no longer describes the code) and is not a verdict.*)
(***************************************************************************)
EXTENDS Resize

VARIABLE i
Trace == ndJsonDeserialize("trace.ndjson")

ToSet(s) == {s[k] : k \in 1..Len(s)}
e == Trace[i]
Is(name) == i <= Len(Trace) /\ e.ev = name
Adv == i' = i + 1 /\ TLCSet(1, IF TLCGet(1) < i THEN i ELSE TLCGet(1))
Skip == Adv /\ UNCHANGED vars

TInit == Init /\ i = 1 /\ TLCSet(1, 0)

TReset ==
    /\ Is("reset") /\ ToSet(e.ids) = Members
    /\ state' = "NORMAL" /\ nodes' = Members /\ queue' = << >>
    /\ njobs' = 0
    /\ jact' = [j \in Jobs |-> ""] /\ jnode' = [j \in Jobs |-> ""]
    /\ jids' = [j \in Jobs |-> {}] /\ jdone' = [j \in Jobs |-> {}] /\ jok' = [j \in Jobs |-> {}]
    /\ jstate' = [j \in Jobs |-> ""] /\ jbuf' = [j \in Jobs |-> "none"]
    /\ curJob' = 0 /\ running' = {}
    /\ lpc' = "idle" /\ lact' = NoAct /\ ljob' = 0 /\ lres' = "" /\ setNormal' = FALSE
    /\ rpc' = [j \in Jobs |-> "none"] /\ rerr' = [j \in Jobs |-> FALSE] /\ sendFail' = FALSE
    /\ instr' = {} /\ sent' = {} /\ out' = {}
    /\ bud' = [join |-> BJoin, rejoin |-> BRejoin, leave |-> BLeave, dup |-> BDup, err |-> BErr,
               unknown |-> BUnknown, abort |-> BAbort, sendfail |-> BSendFail]
    /\ stuckH' = 0 /\ jmuStuck' = {} /\ cmuStuck' = FALSE
    /\ cmu' = "" /\ jmu' = [j \in Jobs |-> ""] /\ hpend' = NoComp
    /\ hist' = << >>
    /\ Adv

TEnqueue ==
    /\ Is("enqueue")
    /\ IF e.a = "ADD" THEN Join(e.n) ELSE Leave(e.n)
    /\ Len(queue') = Len(queue) + 1
    /\ Adv

TJobStart ==
    /\ Is("job_start")
    /\ LGen
    /\ njobs' = e.j /\ curJob' = e.j
    /\ jids'[e.j] = ToSet(e.ids) /\ jdone'[e.j] = ToSet(e.oks)
    /\ jact'[e.j] = e.a /\ jnode'[e.j] = e.n
    /\ Adv

TJobReject == Is("job_reject") /\ LGen /\ njobs' = e.j /\ curJob' = curJob /\ Adv

TCompleteOk ==
    /\ Is("complete_ok") /\ e.j \in 1..njobs /\ ~Terminal(jstate[e.j])
    /\ UNCHANGED evars /\ Complete("T", e.j, e.n, "ok")
    /\ Adv

TCompleteErr ==
    /\ Is("complete_err") /\ e.j \in 1..njobs /\ ~Terminal(jstate[e.j])
    /\ UNCHANGED evars /\ Complete("T", e.j, e.n, "err")
    /\ Adv

TAbort == Is("abort") /\ curJob = e.j /\ state = "RESIZING" /\ Abort /\ Adv

TJobEnd ==
    /\ Is("job_end") /\ curJob = e.j
    /\ LComplete /\ curJob' = 0
    /\ (jstate'[e.j] = "DONE") = e.done
    /\ Adv

TMembers ==
    /\ Is("members")
    /\ IF ToSet(e.ids) = nodes THEN Skip ELSE LMember /\ nodes' = ToSet(e.ids) /\ Adv

\* NORMAL: the silent step that set it has happened; RESIZING: emitted by nodeJoin/nodeLeave
\* just before the "enqueue" event of the same critical section
TState == Is("state") /\ (e.s = "NORMAL" => state = "NORMAL") /\ Skip

TEnd == Is("end") /\ state = "NORMAL" /\ curJob = 0 /\ queue = << >> /\ Skip

\* steps of the coordinator and the environment that emit no recorded event
Silent ==
    /\ i <= Len(Trace)
    /\ \/ LTake \/ LNorm \/ LRecv \/ (\E j \in Jobs : RRun(j))
       \/ (ArmSendFail /\ \E j \in Jobs : rpc[j] = "ready")
       \/ (LGen /\ njobs' = njobs)
    /\ UNCHANGED i

TNext == TReset \/ (UNCHANGED kvars /\ (TEnqueue \/ TJobStart \/ TJobReject \/ TCompleteOk \/ TCompleteErr \/ TAbort
            \/ TJobEnd \/ TMembers \/ TState \/ TEnd \/ Silent))

Accepted ==
    IF TLCGet(1) = Len(Trace) THEN PrintT("TRACE-ACCEPTED")
    ELSE PrintT("TRACE-REJECTED " \o ToString(TLCGet(1)))
=============================================================================
