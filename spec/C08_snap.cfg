CONSTANTS
  Family = {"set", "mutex"}
  IndexCfgsSel = "plain"
  Depth = 4
  MaxRestarts = 0
  Classes = {"snap"}
  Sample = FALSE
INIT Init
NEXT Next
INVARIANT Emit
CHECK_DEADLOCK FALSE
