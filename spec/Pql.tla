------------------------------- MODULE Pql -------------------------------
(***************************************************************************)
(* C26 -- PQL text is parsed faithfully and forwarded queries keep their   *)
(* meaning.                                                                *)
(*                                                                         *)
(* The module is a generator of query ASTs written as *derivations*: a     *)
(* behaviour is a sequence of steps                                        *)
(*    open   a call is opened (top level, child of the open call, or the   *)
(*           value of a keyword argument of the open call); the step names *)
(*           the grammar alternative used to write it (form), its name and *)
(*           its positional part together with the reserved argument each  *)
(*           positional value must end up in (_col, _row, _field,          *)
(*           _timestamp, from, to)                                         *)
(*    kw     a keyword argument `key = value`, `key OP value` or           *)
(*           `lo < key <= hi` is added to the innermost open call; the     *)
(*           step carries the value as written (w) and the value the       *)
(*           parser must deliver (exp)                                     *)
(*    close  the innermost open call is closed                             *)
(* Every state with an empty stack and at least one call is a complete     *)
(* query and is emitted.  The replay driver (harness/bind/wireb) prints    *)
(* the derivation with its own printer, parses the text with               *)
(* pql.ParseString and compares the calls with the expected arguments.     *)
(*                                                                         *)
(* Mode "fwd" generates the calls a node forwards: the values are the Go   *)
(* values the executor places in calls (uint64, int64, float64, bool, nil, *)
(* string, []uint64, []int64, []string, []interface{}, *Condition); the    *)
(* driver builds the pql.Call, takes Call.String() (what remoteExec        *)
(* sends) and requires its parse to be the same call.                      *)
(***************************************************************************)
EXTENDS Integers, Sequences, FiniteSets, TLC, Json

CONSTANTS
  Mode,      \* "parse" | "fwd"
  Level,     \* "full" | "mid" | "small" : size of the value universe
  Depth,     \* bound on the number of derivation steps
  MaxNest,   \* bound on the nesting depth of calls (1 = flat)
  MaxCalls,  \* bound on the number of top-level calls of the query
  MaxKw,     \* bound on the number of keyword arguments of a call
  MaxCh      \* bound on the number of child calls of a call

Tiny  == Level = "tiny"
Small == Level \in {"small", "tiny"}

VARIABLES hist, stack, ncalls

vars == <<hist, stack, ncalls>>

---------------------------------------------------------------------------
(* Written values (mode "parse").  Integers are abstract; the driver maps  *)
(* them to concrete integers by profile (identity, or the edges of int64). *)
(* Float and string values are tokens; the driver's tables give the        *)
(* literal text and the float64 / the concrete string of the profile.      *)

IntV(n)      == [k |-> "int", n |-> n, adj |-> 0]
IntAdj(n, a) == [k |-> "int", n |-> n, adj |-> a]
FloatV(t)    == [k |-> "float", t |-> t]
BoolV(b)     == [k |-> "bool", b |-> b]
NullV        == [k |-> "null"]
StrV(t, q)   == [k |-> "str", t |-> t, q |-> q]       \* q: "dq" | "sq"
BareV(s)     == [k |-> "bare", s |-> s]               \* unquoted word
TsV(s, q)    == [k |-> "ts", s |-> s, q |-> q]        \* q: "bare" | "dq" | "sq"
ListV(l)     == [k |-> "list", l |-> l]
CondV(op, w) == [k |-> "cond", op |-> op, w |-> w]
BtwcV(a, oa, ob, b) == [k |-> "btwc", a |-> a, oa |-> oa, ob |-> ob, b |-> b]

LitV(s)      == [k |-> "lit", s |-> s]                \* expected: exactly this string

(* The value the parser must deliver for a written value.                  *)
RECURSIVE Exp(_)
Exp(w) ==
  CASE w.k = "bare" -> LitV(w.s)
    [] w.k = "ts"   -> LitV(w.s)
    [] w.k = "list" -> ListV([i \in 1..Len(w.l) |-> Exp(w.l[i])])
    [] w.k = "cond" -> [k |-> "cond", op |-> w.op, v |-> Exp(w.w)]
    [] w.k = "btwc" -> [k |-> "cond", op |-> "><",
                        v |-> ListV(<<IntAdj(w.a, IF w.oa = "<" THEN 1 ELSE 0),
                                      IntAdj(w.b, IF w.ob = "<" THEN -1 ELSE 0)>>)]
    [] OTHER        -> w

T1 == "2017-01-02T03:04"
T2 == "1999-12-31T23:59"

Scalars ==
  CASE Level = "full" ->
         {IntV(0), IntV(1), IntV(7), IntV(-1), IntV(-7),
          FloatV("f1"), FloatV("f2"), FloatV("f3"), FloatV("f4"),
          BoolV(TRUE), BoolV(FALSE), NullV,
          StrV("s1", "dq"), StrV("s1", "sq"), StrV("s2", "dq"), StrV("s2", "sq"),
          BareV("abc"), BareV("a-b_c:9"), BareV("truex"),
          TsV(T1, "bare"), TsV(T1, "dq"), TsV(T2, "sq")}
    [] Level = "mid" ->
         {IntV(0), IntV(-7), FloatV("f1"), FloatV("f3"), BoolV(TRUE), NullV,
          StrV("s1", "dq"), StrV("s2", "sq"), BareV("a-b_c:9"), TsV(T1, "dq")}
    [] Tiny -> {IntV(-7), StrV("s1", "dq")}
    [] OTHER ->
         {IntV(-7), FloatV("f3"), NullV, StrV("s1", "dq")}

Lists ==
  CASE Level = "full" ->
         {ListV(<<IntV(1), IntV(-7)>>), ListV(<<IntV(0)>>),
          ListV(<<StrV("s1", "dq"), StrV("s2", "sq")>>),
          ListV(<<IntV(7), StrV("s1", "dq"), BoolV(TRUE), NullV, FloatV("f1"), BareV("abc")>>),
          ListV(<<NullV>>), ListV(<<TsV(T1, "dq"), BoolV(FALSE)>>)}
    [] Level = "mid" ->
         {ListV(<<IntV(1), IntV(-7)>>), ListV(<<StrV("s1", "dq"), NullV, FloatV("f3")>>)}
    [] Tiny  -> {}
    [] OTHER -> {ListV(<<StrV("s1", "dq"), IntV(-7), NullV>>)}

Ops == {"<", "<=", ">", ">=", "==", "!="}

Conds ==
  CASE Level = "full" ->
         {CondV(op, w) : op \in Ops,
                         w \in {IntV(7), IntV(-1), FloatV("f1"), NullV, StrV("s1", "dq")}}
         \cup {CondV("><", ListV(<<IntV(a), IntV(b)>>)) : a \in {-7, 1}, b \in {1, 7}}
         \cup {BtwcV(a, oa, ob, 7) : a \in {-7, 0}, oa \in {"<", "<="}, ob \in {"<", "<="}}
    [] Level = "mid" ->
         {CondV("<", IntV(7)), CondV("<=", IntV(-1)), CondV(">", FloatV("f1")),
          CondV(">=", IntV(0)), CondV("==", StrV("s1", "dq")), CondV("!=", NullV),
          CondV("><", ListV(<<IntV(-7), IntV(7)>>)),
          BtwcV(-7, "<", "<=", 7), BtwcV(0, "<=", "<", 7)}
    [] Tiny  -> {CondV(">=", IntV(-1))}
    [] OTHER -> {CondV(">=", IntV(-1)), BtwcV(-7, "<", "<", 7)}

Written == Scalars \cup Lists \cup Conds

(* Argument pairs: the call "Pairs" of the full level takes exactly two    *)
(* arguments from this reduced universe, so that every ordered pair of     *)
(* value kinds is written once (parser state leaking from one argument to  *)
(* the next: open list, pending condition operator, pending field).        *)
PairWritten ==
  {IntV(0), IntV(-7), FloatV("f3"), BoolV(TRUE), NullV, StrV("s1", "dq"), StrV("s2", "sq"),
   BareV("a-b_c:9"), TsV(T1, "dq"),
   ListV(<<IntV(1), IntV(-7)>>), ListV(<<StrV("s1", "dq"), NullV>>),
   CondV("<", IntV(7)), CondV(">=", FloatV("f1")), CondV("==", StrV("s1", "dq")), CondV("!=", NullV),
   CondV("><", ListV(<<IntV(-7), IntV(7)>>)), BtwcV(-7, "<", "<=", 7)}
PairKeys == {"f", "g"}

(* keyword-argument names: field names, and the reserved names the grammar *)
(* admits in the generic call form                                         *)
Keys == IF Small THEN {"f", "g"} ELSE {"f", "Foo_1-b", "_row", "from"}

PosFields == IF Level = "full" THEN {"f", "Foo_1-b"} ELSE {"f"}

(* column / row positionals: unsigned integers or quoted strings           *)
Cols ==
  CASE Level = "full" -> {IntV(0), IntV(7), StrV("s1", "dq"), StrV("s1", "sq"), StrV("s2", "dq")}
    [] Level = "mid"  -> {IntV(7), StrV("s1", "dq"), StrV("s2", "sq")}
    [] Tiny           -> {StrV("s1", "dq")}
    [] OTHER          -> {IntV(7), StrV("s1", "dq")}

NoTs == [k |-> "none"]
SetTs == IF Tiny THEN {NoTs} ELSE IF Small THEN {NoTs, TsV(T1, "bare")}
         ELSE {NoTs, TsV(T1, "bare"), TsV(T1, "dq"), TsV(T2, "sq")}

GenNames ==
  IF Level = "full"
    THEN {"Row", "Union", "Count", "GroupBy", "Options", "Range", "Rows2", "SetBit", "TopNx", "Store", "Set", "Rows"}
    ELSE IF Tiny THEN {"Row", "Union"} ELSE {"Row", "Union", "Count", "Options"}

Pos(key, w) == [key |-> key, w |-> w, exp |-> Exp(w)]

(* The ways a call can be opened: form, name, positional part, and the     *)
(* bounds on what may follow.                                              *)
Opening(form, name, pos, ts, minKw, maxKw, minCh, maxCh) ==
  [form |-> form, name |-> name, pos |-> pos, ts |-> ts, labels |-> <<TRUE, TRUE>>,
   minKw |-> minKw, maxKw |-> maxKw, minCh |-> minCh, maxCh |-> maxCh]

RangeVals == IF Level = "full"
               THEN {IntV(1), IntV(-7), StrV("s1", "dq"), StrV("s2", "sq"), BareV("abc"), NullV,
                     FloatV("f1"), ListV(<<IntV(1), StrV("s1", "dq")>>)}
               ELSE {IntV(1), StrV("s1", "dq")}
RangeTsPairs == IF Level = "full"
                  THEN {<<TsV(T1, "bare"), TsV(T2, "bare")>>, <<TsV(T1, "dq"), TsV(T2, "sq")>>,
                        <<TsV(T2, "sq"), TsV(T1, "dq")>>}
                  ELSE {<<TsV(T1, "dq"), TsV(T2, "bare")>>}
RangeLabels == IF Level = "full" THEN {<<TRUE, TRUE>>, <<FALSE, FALSE>>, <<TRUE, FALSE>>}
               ELSE {<<TRUE, TRUE>>, <<FALSE, FALSE>>}

AllParseOpenings ==
       {Opening("gen", n, <<>>, NoTs, 0, MaxKw, 0, MaxCh) : n \in GenNames}
  \cup {Opening("Set", "Set", <<Pos("_col", c)>>, ts, 1, MaxKw, 0, 0) : c \in Cols, ts \in SetTs}
  \cup {Opening("SetRowAttrs", "SetRowAttrs", <<Pos("_field", BareV(f)), Pos("_row", r)>>, NoTs, 1, MaxKw, 0, 0)
          : f \in PosFields, r \in Cols}
  \cup {Opening("SetColumnAttrs", "SetColumnAttrs", <<Pos("_col", c)>>, NoTs, 1, MaxKw, 0, 0) : c \in Cols}
  \cup {Opening("Clear", "Clear", <<Pos("_col", c)>>, NoTs, 1, MaxKw, 0, 0) : c \in Cols}
  \cup {Opening("ClearRow", "ClearRow", <<>>, NoTs, 1, 1, 0, 0)}
  \cup {Opening("Store", "Store", <<>>, NoTs, 1, 1, 1, 1)}
  \cup {Opening(n, n, <<Pos("_field", BareV(f))>>, NoTs, 0, MaxKw, 0, MaxCh) : n \in {"TopN", "Rows"}, f \in PosFields}
  \cup {[Opening("RangeTS", "Range", <<Pos(key, w), Pos("from", tp[1]), Pos("to", tp[2])>>, NoTs, 0, 0, 0, 0)
           EXCEPT !.labels = lb]
          : key \in (Keys \ {"from", "_row"}), w \in RangeVals, tp \in RangeTsPairs, lb \in RangeLabels}

ParseOpenings ==
  IF Level = "full" /\ MaxKw = 1
    THEN AllParseOpenings \cup {Opening("gen", "Pairs", <<>>, NoTs, 2, 2, 0, 0)}
  ELSE IF Tiny THEN {o \in AllParseOpenings : o.form \in {"gen", "Set", "Store", "TopN"}} ELSE AllParseOpenings

---------------------------------------------------------------------------
(* Forwarded values (mode "fwd"): the Go values found in the calls a node  *)
(* forwards.  n is an abstract integer mapped by profile.                  *)
GoV(t, x) == [k |-> "go", t |-> t, x |-> x]

FwdScalars ==
  CASE Level = "full" ->
         {GoV("u64", 0), GoV("u64", 1), GoV("u64", 7), GoV("i64", 0), GoV("i64", -1), GoV("i64", -7), GoV("i64", 7),
          GoV("f64", "f1"), GoV("f64", "f2"), GoV("f64", "f3"), GoV("f64", "f5"), GoV("f64", "f6"), GoV("f64", "f7"), GoV("f64", "f8"),
          GoV("bool", TRUE), GoV("bool", FALSE), GoV("nil", 0),
          GoV("str", "s1"), GoV("str", "s2"), GoV("str", "ts")}
    [] OTHER ->
         {GoV("u64", 7), GoV("i64", -7), GoV("f64", "f3"), GoV("f64", "f1"), GoV("bool", TRUE), GoV("nil", 0),
          GoV("str", "s1"), GoV("str", "s2")}

FwdLists ==
  CASE Level = "full" ->
         {GoV("u64s", <<1, 7>>), GoV("u64s", <<0>>), GoV("i64s", <<1, -7>>), GoV("i64s", <<7>>),
          GoV("strs", <<"s1", "s2">>), GoV("strs", <<"s2">>),
          GoV("list", <<GoV("i64", 1), GoV("u64", 7)>>),
          GoV("list", <<GoV("u64", 1), GoV("str", "s1")>>),
          GoV("list", <<GoV("str", "s1"), GoV("nil", 0), GoV("bool", TRUE), GoV("f64", "f3"), GoV("i64", -7)>>)}
    [] OTHER ->
         {GoV("u64s", <<1, 7>>), GoV("i64s", <<1, -7>>), GoV("strs", <<"s1", "s2">>),
          GoV("list", <<GoV("u64", 1), GoV("str", "s1"), GoV("nil", 0), GoV("f64", "f3")>>)}

FwdConds ==
  CASE Level = "full" ->
         {GoV("cond", [op |-> op, v |-> v]) : op \in Ops,
              v \in {GoV("i64", 7), GoV("i64", -1), GoV("u64", 7), GoV("f64", "f1"), GoV("f64", "f3"),
                     GoV("nil", 0), GoV("str", "s1")}}
         \cup {GoV("cond", [op |-> "><", v |-> l]) :
                 l \in {GoV("list", <<GoV("i64", -7), GoV("i64", 7)>>), GoV("list", <<GoV("u64", 1), GoV("u64", 7)>>),
                        GoV("i64s", <<-7, 7>>), GoV("u64s", <<1, 7>>)}}
    [] OTHER ->
         {GoV("cond", [op |-> ">=", v |-> GoV("i64", -1)]), GoV("cond", [op |-> "!=", v |-> GoV("nil", 0)]),
          GoV("cond", [op |-> "==", v |-> GoV("f64", "f3")]),
          GoV("cond", [op |-> "><", v |-> GoV("list", <<GoV("i64", -7), GoV("i64", 7)>>)])}

FwdValues == FwdScalars \cup FwdLists \cup FwdConds

FwdKeys == IF Level = "full"
             THEN {"f", "Zed", "_col", "_row", "_field", "_timestamp", "from", "to", "ids", "previous"}
             ELSE {"f", "_col", "_field", "ids"}

FwdNames == IF Level = "full"
              THEN {"Row", "Set", "Clear", "ClearRow", "Store", "TopN", "Rows", "Range", "SetRowAttrs",
                    "SetColumnAttrs", "GroupBy", "Count", "Options"}
              ELSE {"Row", "Set", "TopN", "Rows", "Store"}

FwdOpenings == {Opening("go", n, <<>>, NoTs, 0, MaxKw, 0, MaxCh) : n \in FwdNames}

---------------------------------------------------------------------------
Openings == IF Mode = "fwd" THEN FwdOpenings ELSE ParseOpenings
KwKeys   == IF Mode = "fwd" THEN FwdKeys ELSE Keys
KwValues == IF Mode = "fwd" THEN FwdValues ELSE Written

(* forms in which the value of a keyword argument / a child may be a call  *)
ArgCallNames == IF Mode = "fwd" THEN {"Row", "Rows"} ELSE IF Tiny THEN {"Row"} ELSE {"Row", "Rows2", "Union"}

Frame(o) == [minKw |-> o.minKw, maxKw |-> o.maxKw, minCh |-> o.minCh, maxCh |-> o.maxCh,
             nkw |-> 0, nch |-> 0, pair |-> (o.name = "Pairs"),
             \* the reserved names the positional part already fills cannot be repeated
             \* as keyword arguments (the parser rejects a duplicate argument)
             used |-> {o.pos[i].key : i \in DOMAIN o.pos}
                        \cup (IF o.ts.k = "ts" THEN {"_timestamp"} ELSE {})]

Top == stack[Len(stack)]
SetTop(f) == [stack EXCEPT ![Len(stack)] = f]

Init == hist = <<>> /\ stack = <<>> /\ ncalls = 0

OpenTop ==
  /\ stack = <<>> /\ ncalls < MaxCalls
  /\ \E o \in Openings :
       /\ hist' = Append(hist, [op |-> "open", role |-> "top", rkey |-> ""] @@ o)
       /\ stack' = <<Frame(o)>>
  /\ ncalls' = ncalls + 1

(* children precede the keyword arguments (allargs <- Call (comma Call)* (comma args)?) *)
OpenChild ==
  /\ stack # <<>> /\ Len(stack) < MaxNest
  /\ Top.nch < Top.maxCh /\ Top.nkw = 0
  /\ \E o \in Openings :
       /\ hist' = Append(hist, [op |-> "open", role |-> "child", rkey |-> ""] @@ o)
       /\ stack' = Append(SetTop([Top EXCEPT !.nch = @ + 1]), Frame(o))
  /\ UNCHANGED ncalls

(* key=Call(...): only the generic call form is a value *)
OpenArg ==
  /\ stack # <<>> /\ Len(stack) < MaxNest
  /\ Top.nkw < Top.maxKw /\ Top.nch >= Top.minCh
  /\ \E key \in KwKeys \ Top.used, o \in Openings :
       /\ o.form \in {"gen", "go"} /\ o.name \in ArgCallNames
       /\ hist' = Append(hist, [op |-> "open", role |-> "arg", rkey |-> key] @@ o)
       /\ stack' = Append(SetTop([Top EXCEPT !.nkw = @ + 1, !.used = @ \cup {key}]), Frame(o))
  /\ UNCHANGED ncalls

Kw ==
  /\ stack # <<>>
  /\ Top.nkw < Top.maxKw /\ Top.nch >= Top.minCh
  /\ \E key \in (IF Top.pair THEN PairKeys ELSE KwKeys) \ Top.used,
        w \in (IF Top.pair THEN PairWritten ELSE KwValues) :
       /\ (w.k = "btwc") => key \notin {"_row", "from"}      \* condfield is a plain field name
       /\ hist' = Append(hist, [op |-> "kw", key |-> key, w |-> w,
                                exp |-> IF Mode = "fwd" THEN w ELSE Exp(w)])
       /\ stack' = SetTop([Top EXCEPT !.nkw = @ + 1, !.used = @ \cup {key}])
  /\ UNCHANGED ncalls

Close ==
  /\ stack # <<>>
  /\ Top.nkw >= Top.minKw /\ Top.nch >= Top.minCh
  /\ hist' = Append(hist, [op |-> "close"])
  /\ stack' = SubSeq(stack, 1, Len(stack) - 1)
  /\ UNCHANGED ncalls

Next == Len(hist) < Depth /\ (OpenTop \/ OpenChild \/ OpenArg \/ Kw \/ Close)

Spec == Init /\ [][Next]_vars

---------------------------------------------------------------------------
TypeOK ==
  /\ Len(hist) <= Depth
  /\ Len(stack) <= MaxNest
  /\ ncalls <= MaxCalls
  /\ \A i \in 1..Len(stack) : stack[i].nkw <= stack[i].maxKw /\ stack[i].nch <= stack[i].maxCh

(* a derivation is well formed: opens and closes balance and never go negative *)
Balance(h) ==
  LET RECURSIVE bal(_, _)
      bal(i, d) == IF i > Len(h) THEN d
                   ELSE IF h[i].op = "open" THEN bal(i + 1, d + 1)
                   ELSE IF h[i].op = "close" THEN (IF d = 0 THEN -1000 ELSE bal(i + 1, d - 1))
                   ELSE bal(i + 1, d)
  IN bal(1, 0)
WellFormed == Balance(hist) = Len(stack)

(* the between-conditional is the inclusive range it denotes *)
BtwcLaw ==
  \A i \in 1..Len(hist) :
    (hist[i].op = "kw" /\ Mode = "parse" /\ hist[i].w.k = "btwc") =>
       LET w == hist[i].w  e == hist[i].exp.v.l IN
         /\ e[1].n + e[1].adj = (IF w.oa = "<" THEN w.a + 1 ELSE w.a)
         /\ e[2].n + e[2].adj = (IF w.ob = "<" THEN w.b - 1 ELSE w.b)

Complete == stack = <<>> /\ ncalls >= 1

Emit == Complete => PrintT(<<"BEH", ToJson(hist)>>)
=============================================================================
