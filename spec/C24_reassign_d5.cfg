CONSTANTS
  NS = {"r"}
  NK = 3
  BatchSet = "two"
  Callers = {1}
  Ops = {"Translate","RApply","RRecv","RReassign"}
  Depth = 5
  Recheck = TRUE
  DropInFlight = TRUE
  MaxSeq = 99
  MaxRestart = 99
  Sample = FALSE
INIT Init
NEXT Next
INVARIANT Emit
CHECK_DEADLOCK FALSE
