---------------------------- MODULE TraceApiGate ----------------------------
(***************************************************************************)
(* C23, binding B: three event streams recorded by harness/bind/clusterb     *)
(* TestC23 are validated against ApiGate:                                    *)
(*   {"ev":"methods","all":[exported methods of *API (reflection)]}          *)
(*   {"ev":"gates","all":[apiMethod constants (go/ast, const block)]}        *)
(*   {"ev":"entry","m":method,"gate":constant passed to the first            *)
(*        api.validate call ("" if none),"guard":its error returns,          *)
(*        "pre":[calls made before it]}            (go/ast walk of api.go)    *)
(*   {"ev":"gate","g":constant,"st":state,"ok":API.validate(g) = nil}        *)
(*        on a real server forced into state st                              *)
(*   {"ev":"call","c":case,"m":method,"st":state,"out":refused|ok|err,       *)
(*        "touched":holder digest changed}  the method called with benign    *)
(*        arguments on a real server forced into state st                    *)
(* A method or constant the tables of ApiGate do not know (or one they know   *)
(* that no longer exists) is recorded in TLC register 1 and reported as       *)
(* SPEC-STALE: the run is inconclusive, not passed.                          *)
(***************************************************************************)
EXTENDS ApiGate, TLC, Json

VARIABLE i
Trace == ndJsonDeserialize("trace.ndjson")
Range(s) == {s[k] : k \in DOMAIN s}

e == Trace[i]
Is(name) == i <= Len(Trace) /\ e.ev = name
Stale(S) == TLCSet(1, TLCGet(1) \cup S)

TInit == i = 1 /\ state = "STARTING" /\ last = [m |-> "", st |-> "", out |-> "", touched |-> FALSE]
         /\ TLCSet(1, {})

Skip == i' = i + 1 /\ UNCHANGED <<state, last>>

TMethods ==
    /\ Is("methods")
    /\ Stale((Range(e.all) \ Methods) \cup (Methods \ Range(e.all)))
    /\ Skip

TGates ==
    /\ Is("gates")
    /\ Stale((Range(e.all) \ Gates) \cup (Gates \ Range(e.all)))
    /\ Skip

TEntry ==
    /\ Is("entry")
    /\ IF e.m \notin Methods THEN Stale({e.m})
       ELSE IF e.gate # "" /\ e.gate \notin Gates THEN Stale({e.gate})
       ELSE EntryOK(e.m, e.gate, e.guard, Range(e.pre))
    /\ Skip

TGate ==
    /\ Is("gate") /\ e.st \in States
    /\ IF e.g \notin Gates THEN Stale({e.g}) ELSE GateOK(e.g, e.st, e.ok)
    /\ Skip

\* a call on the real server: the cluster is (forced) in state e.st, then the spec's Call
TCall ==
    /\ Is("call") /\ e.st \in States
    /\ IF e.m \notin Methods
       THEN Stale({e.m}) /\ UNCHANGED <<state, last>>
       ELSE /\ state' = e.st
            /\ CallOK(Category[e.m], e.st, e.out, e.touched)
            /\ last' = [m |-> e.m, st |-> e.st, out |-> e.out, touched |-> e.touched]
    /\ i' = i + 1

TNext == TMethods \/ TGates \/ TEntry \/ TGate \/ TCall

Accepted ==
    LET n == TLCGet("stats").diameter - 1 IN
    /\ IF TLCGet(1) # {} THEN PrintT(<<"SPEC-STALE", TLCGet(1)>>) ELSE TRUE
    /\ IF n = Len(Trace) THEN PrintT("TRACE-ACCEPTED")
       ELSE PrintT("TRACE-REJECTED " \o ToString(n))
=============================================================================
