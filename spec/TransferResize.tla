--------------------------- MODULE TransferResize ---------------------------
(***************************************************************************)
(* Part (2) of the extra check X02: the data-moving half of a completed     *)
(* resize (cluster.go followResizeInstruction: applySchema, remote          *)
(* available shards, one RetrieveShardFromURI + fragment.ReadFrom per       *)
(* ResizeSource).                                                          *)
(*                                                                         *)
(* Abstract state: the member set, and for every node the contents it holds *)
(* of every fragment (a fragment = <<field class, shard>>, contents = the   *)
(* set of write rounds that reached it) and the shards it believes each     *)
(* field class to have data in (Field.AvailableShards, used to route        *)
(* queries).  A write goes to every owner of its shard; a resize copies to  *)
(* every new owner of a fragment the contents one previous owner held.      *)
(* Placement is a parameter of the model (Owners: the R members following   *)
(* the shard's slot); the real placement (jump hash) is computed by the     *)
(* code and read from each node's own cluster object when a scenario is     *)
(* replayed - the predicates below do not depend on which one it is.        *)
(*                                                                         *)
(* The module is (M) model-checked for the frame conditions and (G) used    *)
(* as the generator of resize scenarios (writes / add / remove sequences).  *)
(***************************************************************************)
EXTENDS Integers, Sequences, FiniteSets, TLC, Json

CONSTANTS
    Nodes,      \* node slots, e.g. {0, 1, 2}
    Shards,     \* e.g. {0, 1, 2, 5}
    Classes,    \* field classes with data, e.g. {"set","mutex","bool","int","time","timens","exists"}
    Rs,         \* replica counts offered
    N0s,        \* initial cluster sizes offered
    Depth,      \* steps after Init; 0 = (M)
    CopyAll     \* design switch: a resize copies every field class (FALSE: forgets "exists" and time views)

VARIABLES members, r, held, avail, round, hist

vars  == <<members, r, held, avail, round, hist>>
mview == <<members, r, held, avail, round>>

Gen   == Depth > 0
Frags == Classes \X Shards

\* the R members that follow the shard's slot in the ring of members
Ring(ms)       == [i \in 1 .. Cardinality(ms) |-> CHOOSE x \in ms : Cardinality({y \in ms : y < x}) = i - 1]
Owners(ms, rr, s) ==
    LET k == Cardinality(ms) IN
    {Ring(ms)[((s + j) % k) + 1] : j \in 0 .. ((IF rr < k THEN rr ELSE k) - 1)}

\* what the cluster holds of a fragment: every round written to it
Data(fr) == UNION {held[n][fr] : n \in members}

WriteSets == {S \in SUBSET Shards : Cardinality(S) \in {1, 2} \/ S = Shards}

\* a write round reaches every class of every chosen shard on all owners; every member
\* learns that the shard now has data (CreateShardMessage broadcast)
Write(S) ==
    /\ round < 3
    /\ round' = round + 1
    /\ held' = [n \in Nodes |-> [fr \in Frags |->
                   IF n \in members /\ fr[2] \in S /\ n \in Owners(members, r, fr[2])
                   THEN held[n][fr] \cup {round + 1} ELSE held[n][fr]]]
    /\ avail' = [n \in Nodes |-> IF n \in members THEN avail[n] \cup S ELSE avail[n]]
    /\ UNCHANGED <<members, r>>
    /\ hist' = IF Gen THEN Append(hist, [act |-> "write", node |-> -1, shards |-> S, round |-> round + 1,
                                        members |-> members, data |-> avail'[CHOOSE n \in members : TRUE]]) ELSE hist

\* a completed resize to the member set ms2
Resize(act, x, ms2) ==
    LET copied(fr) == CopyAll \/ fr[1] \notin {"exists", "time", "timens"}
        src(fr)    == CHOOSE n \in members : n \in Owners(members, r, fr[2])   \* one previous owner
    IN
    /\ members' = ms2
    /\ held' = [n \in Nodes |-> [fr \in Frags |->
                   IF n \notin ms2 THEN {}
                   ELSE IF n \in Owners(ms2, r, fr[2])
                        THEN (IF n \in members /\ n \in Owners(members, r, fr[2]) THEN held[n][fr]
                              ELSE IF copied(fr) THEN held[src(fr)][fr] ELSE {})
                        ELSE {}]]     \* cleanup of fragments no longer owned is C21
    /\ avail' = [n \in Nodes |-> IF n \in ms2 THEN UNION {avail[m] : m \in members} ELSE {}]
    /\ UNCHANGED <<r, round>>
    /\ hist' = IF Gen THEN Append(hist, [act |-> act, node |-> x, shards |-> {}, round |-> round,
                                        members |-> ms2, data |-> avail'[CHOOSE n \in ms2 : TRUE]]) ELSE hist

\* a joining node takes the next unused slot; at most three members
Add    == \E x \in Nodes \ members :
             /\ Cardinality(members) < 3
             /\ \A y \in members : y < x
             /\ \A z \in Nodes \ members : (\A y \in members : y < z) => x <= z
             /\ Resize("add", x, members \cup {x})
\* the coordinator (slot 0) is never removed; at least two members remain.  With one replica
\* a removal is refused by the code whenever the leaving node holds data ("not enough data
\* to perform resize"): removals are generated for r >= 2 only.
Remove == \E x \in members \ {0} : r >= 2 /\ Cardinality(members) > 2 /\ Resize("remove", x, members \ {x})

Next ==
    /\ (Gen => Len(hist) < Depth + 1)
    /\ \/ \E S \in WriteSets : Write(S)
       \/ Add
       \/ Remove

Init ==
    /\ r \in Rs
    /\ \E k \in N0s : members = {x \in Nodes : x < k}
    /\ held = [n \in Nodes |-> [fr \in Frags |-> {}]]
    /\ avail = [n \in Nodes |-> {}]
    /\ round = 0
    /\ hist = IF Gen THEN << [act |-> "init", node |-> -1, shards |-> {}, round |-> 0, members |-> members, data |-> {}, r |-> r] >> ELSE << >>

Spec == Init /\ [][Next]_vars

\* ---- the predicates (also evaluated by the driver on every real node after every step)
\* every owner of a fragment holds exactly what the cluster held of it
OwnersHoldAll == \A fr \in Frags : \A n \in Owners(members, r, fr[2]) : held[n][fr] = Data(fr)
\* nothing written is lost by a resize: round k reached shard s => some member still holds it
NothingLost   == \A n \in members : \A s \in avail[n] : \A c \in Classes : Data(<<c, s>>) # {}
\* every member routes queries to every shard that has data, and to no other
AvailExact    == \A n \in members : avail[n] = {s \in Shards : \E c \in Classes : Data(<<c, s>>) # {}}
\* a resize moves data, it never changes it
ResizeKeepsData == [][members' # members => \A fr \in Frags : (UNION {held'[n][fr] : n \in members'}) = Data(fr)]_vars

\* only scenarios that contain a resize after a write are worth replaying
Interesting == \E i, j \in 1 .. Len(hist) : i < j /\ hist[i].act = "write" /\ hist[j].act \in {"add", "remove"}
Emit == (Gen /\ Len(hist) = Depth + 1 /\ Interesting) => PrintT(<<"BEH", ToJson(hist)>>)
=============================================================================
