------------------------------ MODULE AttrSync ------------------------------
(***************************************************************************)
(* X03 - attribute anti-entropy and cluster-wide attribute writes.          *)
(*                                                                         *)
(* Code: /repo/holder.go holderSyncer.SyncHolder -> syncIndex (column       *)
(* attributes of an index) / syncField (row attributes of a field);         *)
(* /repo/api.go IndexAttrDiff / FieldAttrDiff; /repo/attr.go                *)
(* attrBlocks.Diff; /repo/boltdb/attrstore.go Blocks / BlockData /          *)
(* SetBulkAttrs; /repo/http handler + InternalClient ColumnAttrDiff /       *)
(* RowAttrDiff; /repo/executor.go executeSetRowAttrs /                      *)
(* executeSetColumnAttrs (local write, then the same call to every other    *)
(* node unless the request is itself remote).                               *)
(*                                                                         *)
(* State: stores[n][st][id][k] - value of key k of id in the store of kind  *)
(* st ("col" = column attributes of the index, "rowf" / "rowg" = row        *)
(* attributes of fields f and g) on node n, or "none".  A value is a tag    *)
(* "<type>:<name>" as in Attrs.tla, so type preservation is equality.       *)
(* touched[n][st] = ids that have a record (an id in touched without a key  *)
(* is a ghost: the code keeps and ships an empty record).                   *)
(*                                                                         *)
(* THE MERGE RULE AS FOUND (weakest reading of "anti-entropy for            *)
(* attributes"): a pass on initiator I handles the stores in schema order   *)
(* and for each store the other nodes R in cluster order.  I sends its      *)
(* block checksums; R answers with ALL records of every block that R HOLDS  *)
(* and whose checksum differs from I's (or that I lacks).  Blocks only I    *)
(* holds are not mentioned (a pass pulls, it never pushes).  I overlays     *)
(* each returned record key-wise on its own: R's value wins on a key both   *)
(* have, keys only I has stay, nothing is ever deleted (no tombstones: a    *)
(* key deleted on I and still present on R comes back).  I then recomputes  *)
(* its checksums before it asks the next node.                              *)
(*                                                                         *)
(* (M) mode (Depth = 0): a pass is the action sequence StartPass, then per   *)
(* store CompareBlocks and per remote FetchDiff, Merge; with Overlap = FALSE *)
(* nothing else runs while a pass is in progress (the reading under which the *)
(* property is stated), with Overlap = TRUE everything interleaves (design  *)
(* hypotheses, see design/X03.md).                                          *)
(* (G) mode (Depth > 0): SyncPass(i) is one step (Server.SyncData()),       *)
(* computed by the pure operator RunPass; PassMatchesRunPass checks in (M)  *)
(* that the stepwise pass and RunPass agree.                                *)
(***************************************************************************)
EXTENDS Integers, Sequences, FiniteSets, TLC, Json

CONSTANTS
    Nodes,       \* 1..N, in cluster order (the code walks the other nodes sorted by node id)
    Kinds,       \* subset of {"col", "rowf", "rowg"}
    Ids,         \* attribute ids; block = id \div 100
    AKeys,       \* attribute keys
    Vals,        \* value tags
    Depth,       \* (G) number of history records before Final; 0 = (M) mode
    NWrites,     \* (G) the first NWrites steps are node-local writes (divergence)
    MaxQueries,  \* bound on QuerySet steps
    MaxLate,     \* bound on node-local writes after the write phase (G) / overall (M)
    InitModes,   \* subset of {"empty", "any"}; "any" = every combination of contents (M)
    Overlap,     \* (M) may other actions run while a pass is in progress
    Rounds,      \* (M) completed passes per node after which convergence is demanded
    StrictConflicts, \* (M) TRUE = demand equal values even for keys held with different values
                 \* (not what the code's rule gives with 3+ nodes: counterexample config)
    Sample       \* (G, simulation) draw action parameters at random

VARIABLES stores, touched, passes, pass, nlate, nquery, hist

vars  == <<stores, touched, passes, pass, nlate, nquery, hist>>
mview == <<stores, touched, passes, pass, nlate, nquery>>

Gen == Depth > 0
Pick(S) == IF Sample THEN {RandomElement(S)} ELSE S
BlockOf(id) == id \div 100
AllBlocks == {BlockOf(id) : id \in Ids}
IdsOf(b) == {id \in Ids : BlockOf(id) = b}
NoPass == [ini |-> 0]

KindOrder == <<"col", "rowf", "rowg">>          \* schema order: index, then fields by name
KindSeq == SelectSeq(KindOrder, LAMBDA k : k \in Kinds)
RECURSIVE Asc(_)
Asc(S) == IF S = {} THEN << >> ELSE LET m == CHOOSE x \in S : \A y \in S : x <= y IN <<m>> \o Asc(S \ {m})
Remotes(i) == Asc(Nodes \ {i})

\* ---- records, blocks, checksums ----------------------------------------------
Empty == [k \in AKeys |-> "none"]
Present(f) == {k \in AKeys : f[k] # "none"}
Pairs(f)   == {<<k, f[k]>> : k \in Present(f)}
UVals   == Vals \cup {"null"}
Updates == UNION {[D -> UVals] : D \in (SUBSET AKeys) \ {{}}}
UPairs(u) == {<<k, u[k]>> : k \in DOMAIN u}
Apply(f, u) == [k \in AKeys |-> IF k \in DOMAIN u THEN (IF u[k] = "null" THEN "none" ELSE u[k]) ELSE f[k]]

\* abstract checksum of block b of a store (S = contents, T = ids with a record): the set
\* of its records, ghosts included (the code hashes key and value bytes of every record)
Sum(S, T, b) == {<<id, Pairs(S[id])>> : id \in IdsOf(b) \cap T}
Sums(S, T)   == [b \in AllBlocks |-> Sum(S, T, b)]
\* what R answers to I's checksums sm: the blocks R holds that differ from sm
DiffBlocks(sm, SR, TR) == {b \in AllBlocks : Sum(SR, TR, b) # {} /\ Sum(SR, TR, b) # sm[b]}
\* ... and their records
DiffIds(sm, SR, TR) == {id \in TR : BlockOf(id) \in DiffBlocks(sm, SR, TR)}
\* key-wise overlay: the remote value wins, nothing is deleted
Overlay(f, g) == [k \in AKeys |-> IF g[k] # "none" THEN g[k] ELSE f[k]]
MergeS(SI, SR, D) == [id \in Ids |-> IF id \in D THEN Overlay(SI[id], SR[id]) ELSE SI[id]]

\* ---- a whole pass as a function (G mode, and the reference for the stepwise pass) ---
\* pull from the remotes rs[j..] into <<SI, TI>>
RECURSIVE Pull(_, _, _, _, _, _)
Pull(SI, TI, st, rs, j, ST) ==
    IF j > Len(rs) THEN <<SI, TI>>
    ELSE LET SR == ST[1][rs[j]][st]
             TR == ST[2][rs[j]][st]
             D  == DiffIds(Sums(SI, TI), SR, TR)
         IN  Pull(MergeS(SI, SR, D), TI \cup D, st, rs, j + 1, ST)
\* ST = <<stores, touched>>
RunPass(ST, i) ==
    LET res == [st \in Kinds |-> Pull(ST[1][i][st], ST[2][i][st], st, Remotes(i), 1, ST)]
    IN  << [ST[1] EXCEPT ![i] = [st \in Kinds |-> res[st][1]]],
           [ST[2] EXCEPT ![i] = [st \in Kinds |-> res[st][2]]] >>

\* ---- observations --------------------------------------------------------------
Content(n, st) == {<<id, Pairs(stores[n][st][id])>> : id \in {i \in Ids : Present(stores[n][st][i]) # {}}}
CSum(n, st, b) == {<<id, Pairs(stores[n][st][id])>> : id \in {i \in IdsOf(b) : Present(stores[n][st][i]) # {}}}
Ghosts(n, st, b) == {id \in IdsOf(b) \cap touched[n][st] : Present(stores[n][st][id]) = {}}
\* checksum relation of a block between two nodes: "ne" contents differ (checksums must
\* differ or the block exists on one side only), "eq" contents and ghosts equal, "free"
\* contents equal but ghosts differ (DESIGN 5.5: either accepted)
Rel(n1, n2, st, b) == IF CSum(n1, st, b) # CSum(n2, st, b) THEN "ne"
                      ELSE IF Ghosts(n1, st, b) = Ghosts(n2, st, b) THEN "eq" ELSE "free"
Post == {<<n, st, Content(n, st)>> : n \in Nodes, st \in Kinds}
PostOf(ST) == {<<n, st, {<<id, Pairs(ST[1][n][st][id])>> : id \in {i \in Ids : Present(ST[1][n][st][i]) # {}}}>> :
                  n \in Nodes, st \in Kinds}
RelsOf(ST) == {<<n1, n2, st, b,
                 LET c1 == {<<id, Pairs(ST[1][n1][st][id])>> : id \in {i \in IdsOf(b) : Present(ST[1][n1][st][i]) # {}}}
                     c2 == {<<id, Pairs(ST[1][n2][st][id])>> : id \in {i \in IdsOf(b) : Present(ST[1][n2][st][i]) # {}}}
                     g1 == {id \in IdsOf(b) \cap ST[2][n1][st] : Present(ST[1][n1][st][id]) = {}}
                     g2 == {id \in IdsOf(b) \cap ST[2][n2][st] : Present(ST[1][n2][st][id]) = {}}
                 IN  IF c1 # c2 THEN "ne" ELSE IF g1 = g2 THEN "eq" ELSE "free">> :
                  n1 \in Nodes, n2 \in Nodes, st \in Kinds, b \in AllBlocks}
AllSynced(p) == \A n \in Nodes : p[n] >= 1
Agree(ST) == \A n \in Nodes, m \in Nodes, st \in Kinds, id \in Ids : ST[1][n][st][id] = ST[1][m][st][id]

\* ---- Init ----------------------------------------------------------------------
RecSet == [AKeys -> Vals \cup {"none"}]
Init ==
    /\ \E mode \in InitModes :
         IF mode = "any"
         THEN /\ stores \in [Nodes -> [Kinds -> [Ids -> RecSet]]]
              /\ \E G \in SUBSET (Nodes \X Kinds \X Ids) :
                    touched = [n \in Nodes |-> [st \in Kinds |->
                                 {id \in Ids : Present(stores[n][st][id]) # {} \/ <<n, st, id>> \in G}]]
         ELSE /\ stores  = [n \in Nodes |-> [st \in Kinds |-> [id \in Ids |-> Empty]]]
              /\ touched = [n \in Nodes |-> [st \in Kinds |-> {}]]
    /\ passes = [n \in Nodes |-> 0]
    /\ pass   = NoPass
    /\ nlate  = 0
    /\ nquery = 0
    /\ hist   = IF Gen THEN << [op |-> "Init", nodes |-> Cardinality(Nodes)] >> ELSE << >>

Log(rec) == hist' = IF Gen THEN Append(hist, rec) ELSE hist
Idle == pass = NoPass \/ Overlap

\* ---- writes ----------------------------------------------------------------------
\* node-local write (divergence): the store of ONE node changes (a write that reached
\* this node only: direct store access or a query marked remote)
Write(n, st, id, u) ==
    /\ stores'  = [stores EXCEPT ![n][st][id] = Apply(@, u)]
    /\ touched' = [touched EXCEPT ![n][st] = @ \cup {id}]
    /\ passes'  = [m \in Nodes |-> 0]
    /\ UNCHANGED nquery
    /\ Log([op |-> "Write", n |-> n, st |-> st, id |-> id, upd |-> UPairs(u),
            post |-> PostOf(<<stores', touched'>>)])

\* SetRowAttrs / SetColumnAttrs query sent to node at: every node applies the update
QuerySet(at, st, id, u) ==
    /\ stores'  = [n \in Nodes |-> [stores[n] EXCEPT ![st][id] = Apply(@, u)]]
    /\ touched' = [n \in Nodes |-> [touched[n] EXCEPT ![st] = @ \cup {id}]]
    /\ nquery'  = nquery + 1
    /\ UNCHANGED <<passes, nlate>>
    /\ Log([op |-> "QuerySet", n |-> at, st |-> st, id |-> id, upd |-> UPairs(u),
            want |-> {<<k, IF u[k] = "null" THEN "none" ELSE u[k]>> : k \in DOMAIN u},
            post |-> PostOf(<<stores', touched'>>)])

\* ---- (G) a pass in one step -----------------------------------------------------
SyncPass(i) ==
    \E R \in {RunPass(<<stores, touched>>, i)} :      \* bound, so that TLC evaluates it once
    LET p == [passes EXCEPT ![i] = @ + 1]
    IN  /\ stores'  = R[1]
        /\ touched' = R[2]
        /\ passes'  = p
        /\ UNCHANGED <<pass, nlate, nquery>>
        /\ Log([op |-> "SyncPass", n |-> i,
                changed |-> R[1] # stores,
                post |-> PostOf(R), rels |-> RelsOf(R),
                conv |-> AllSynced(p), agree |-> Agree(R)])

\* ---- (M) a pass step by step ----------------------------------------------------
StartPass(i) ==
    /\ pass = NoPass
    /\ passes[i] < Rounds
    /\ pass' = [ini |-> i, ki |-> 1, ri |-> 1, phase |-> "compare", sums |-> Sums(Empty, {}) ,
                diff |-> {}, data |-> [id \in Ids |-> Empty], pre |-> <<stores, touched>>,
                ext |-> FALSE]
    /\ UNCHANGED <<stores, touched, passes, nlate, nquery, hist>>

\* position after the current remote
Advance(p) ==
    IF p.ri < Len(Remotes(p.ini)) THEN [p EXCEPT !.ri = @ + 1, !.phase = "fetch"]
    ELSE IF p.ki < Len(KindSeq) THEN [p EXCEPT !.ki = @ + 1, !.ri = 1, !.phase = "compare"]
    ELSE NoPass
Finish(p, np) == passes' = IF np = NoPass THEN [passes EXCEPT ![p.ini] = @ + 1] ELSE passes

\* the initiator reads its own block checksums (Blocks())
CompareBlocks ==
    /\ pass # NoPass /\ pass.phase = "compare"
    /\ LET i == pass.ini  st == KindSeq[pass.ki]
       IN  pass' = [pass EXCEPT !.sums = Sums(stores[i][st], touched[i][st]), !.phase = "fetch"]
    /\ UNCHANGED <<stores, touched, passes, nlate, nquery, hist>>

\* the remote compares them with its own and returns the records of differing blocks
\* (API.IndexAttrDiff / FieldAttrDiff: attrBlocks(local).Diff(sent), BlockData per block)
FetchDiff ==
    /\ pass # NoPass /\ pass.phase = "fetch"
    /\ LET i == pass.ini  st == KindSeq[pass.ki]  r == Remotes(i)[pass.ri]
           D == DiffIds(pass.sums, stores[r][st], touched[r][st])
       IN  IF D = {}
           THEN LET np == Advance(pass) IN pass' = np /\ Finish(pass, np)      \* len(m) == 0: continue
           ELSE /\ pass' = [pass EXCEPT !.phase = "merge", !.diff = D, !.data = stores[r][st]]
                /\ UNCHANGED passes
    /\ UNCHANGED <<stores, touched, nlate, nquery, hist>>

\* SetBulkAttrs of what was fetched, then Blocks() again
Merge ==
    /\ pass # NoPass /\ pass.phase = "merge"
    /\ LET i == pass.ini  st == KindSeq[pass.ki]
           S1 == MergeS(stores[i][st], pass.data, pass.diff)
           T1 == touched[i][st] \cup pass.diff
           np == Advance([pass EXCEPT !.sums = Sums(S1, T1)])
       IN  /\ stores'  = [stores EXCEPT ![i][st] = S1]
           /\ touched' = [touched EXCEPT ![i][st] = T1]
           /\ pass' = np
           /\ Finish(pass, np)
    /\ UNCHANGED <<nlate, nquery, hist>>

\* ---- Next ----------------------------------------------------------------------
MinPasses == CHOOSE m \in {passes[n] : n \in Nodes} : \A n \in Nodes : m <= passes[n]
Final == [op |-> "Final", post |-> Post,
          rels |-> RelsOf(<<stores, touched>>),
          conv |-> AllSynced(passes), agree |-> Agree(<<stores, touched>>)]
FinishG == Gen /\ Len(hist) = Depth /\ hist' = Append(hist, Final) /\ UNCHANGED mview

NextG ==
    \/ FinishG
    \/ /\ Len(hist) < Depth
       /\ IF Len(hist) <= NWrites
          THEN \E n \in Pick(Nodes), st \in Pick(Kinds), id \in Pick(Ids), u \in Pick(Updates) :
                   Write(n, st, id, u) /\ UNCHANGED <<nlate, pass>>
          ELSE \/ \E i \in Pick({n \in Nodes : passes[n] = MinPasses}) : SyncPass(i)
               \/ \E i \in Pick({n \in Nodes : passes[n] = MinPasses}) : SyncPass(i)   \* passes twice as likely
               \/ /\ nquery < MaxQueries
                  /\ \E at \in Pick(Nodes), st \in Pick(Kinds), id \in Pick(Ids), u \in Pick(Updates) :
                        QuerySet(at, st, id, u) /\ UNCHANGED pass
               \/ /\ nlate < MaxLate
                  /\ \E n \in Pick(Nodes), st \in Pick(Kinds), id \in Pick(Ids), u \in Pick(Updates) :
                        Write(n, st, id, u) /\ nlate' = nlate + 1 /\ UNCHANGED pass

NextM ==
    \/ \E i \in Nodes : StartPass(i)
    \/ CompareBlocks
    \/ FetchDiff
    \/ Merge
    \/ /\ Idle /\ nquery < MaxQueries
       /\ \E at \in Nodes, st \in Kinds, id \in Ids, u \in Updates :
             /\ QuerySet(at, st, id, u)
             /\ IF pass # NoPass THEN pass' = [pass EXCEPT !.ext = TRUE] ELSE UNCHANGED pass
    \/ /\ Idle /\ nlate < MaxLate
       /\ \E n \in Nodes, st \in Kinds, id \in Ids, u \in Updates :
             /\ Write(n, st, id, u)
             /\ nlate' = nlate + 1
             /\ IF pass # NoPass THEN pass' = [pass EXCEPT !.ext = TRUE] ELSE UNCHANGED pass

Next == IF Gen THEN NextG ELSE NextM
Spec == Init /\ [][Next]_vars

\* ---- (M) properties ----------------------------------------------------------------
TypeOK ==
    /\ \A n \in Nodes, st \in Kinds, id \in Ids, k \in AKeys : stores[n][st][id][k] \in Vals \cup {"none"}
    /\ \A n \in Nodes, st \in Kinds : touched[n][st] \subseteq Ids
    /\ \A n \in Nodes, st \in Kinds, id \in Ids : Present(stores[n][st][id]) # {} => id \in touched[n][st]

Quiet == pass = NoPass
\* every node ran Rounds completed passes since the last node-local write
Done == Quiet /\ \A n \in Nodes : passes[n] >= Rounds

\* no (id, key) is held with two different values (holding it nowhere or only on some nodes -
\* e.g. deleted on the others - is no conflict)
NoConflict == \A st \in Kinds, id \in Ids, k \in AKeys :
                 Cardinality({stores[n][st][id][k] : n \in Nodes} \ {"none"}) <= 1
\* The overlay has no order on values (no timestamps), so with three or more nodes holding
\* DIFFERENT values of one key the values can chase each other for any number of passes
\* (TLC: XA_mc3_conflict, Rounds = 1, 2, 3).  What the code's rule does guarantee, and what
\* is demanded: after every node has run one completed pass
\*   - all nodes hold the same (id, key) sets - the union, deleted keys come back;
\*   - all nodes hold the same values if no key was in conflict, or if there are two nodes;
KeysConverge == Done => \A n \in Nodes, m \in Nodes, st \in Kinds, id \in Ids :
                            Present(stores[n][st][id]) = Present(stores[m][st][id])
Converges == (Done /\ (StrictConflicts \/ NoConflict \/ Cardinality(Nodes) <= 2)) => Agree(<<stores, touched>>)
\* ... and report identical block checksums (ghost records included)
ChecksumsAgree ==
    (Done /\ Agree(<<stores, touched>>)) => \A n \in Nodes, m \in Nodes, st \in Kinds, b \in AllBlocks :
                Sum(stores[n][st], touched[n][st], b) = Sum(stores[m][st], touched[m][st], b)

\* a Merge step changes only the initiator, only the store in hand, only ids of blocks the
\* remote reported as differing; within them it only overlays (no key is lost, every new
\* value is the remote's)
UntouchedStep ==
    (pass # NoPass /\ pass.phase = "merge" /\ stores' # stores) =>
        LET i == pass.ini  st == KindSeq[pass.ki] IN
        /\ \A n \in Nodes, s \in Kinds, id \in Ids :
              (n # i \/ s # st \/ id \notin pass.diff) => stores'[n][s][id] = stores[n][s][id]
        /\ \A id \in pass.diff, k \in AKeys :
              stores'[i][st][id][k] \in {stores[i][st][id][k], pass.data[id][k]} \ {"none"}
              \/ (stores[i][st][id][k] = "none" /\ pass.data[id][k] = "none" /\ stores'[i][st][id][k] = "none")
UntouchedOutsideDiff == [][UntouchedStep]_vars

\* an undisturbed pass is a union-merge: afterwards the initiator holds every (id, key) any
\* node held at its start, with a value some node held; the other nodes are unchanged; and
\* the stepwise pass equals RunPass
PassStep ==
    (pass # NoPass /\ pass' = NoPass /\ ~pass.ext) =>
        LET i == pass.ini  pre == pass.pre IN
        /\ <<stores', touched'>> = RunPass(pre, i)
        /\ \A n \in Nodes \ {i} : stores'[n] = pre[1][n]
        /\ \A st \in Kinds, id \in Ids, k \in AKeys :
              LET held == {pre[1][n][st][id][k] : n \in Nodes} \ {"none"}
              IN  IF held = {} THEN stores'[i][st][id][k] = "none" ELSE stores'[i][st][id][k] \in held
PassIsUnionMerge == [][PassStep]_vars

\* a cluster-wide set is visible on every node
QueryStep ==
    (nquery' = nquery + 1) =>
        \E st \in Kinds, id \in Ids, u \in Updates :
            \A n \in Nodes : /\ stores'[n][st][id] = Apply(stores[n][st][id], u)
                             /\ \A k \in DOMAIN u : stores'[n][st][id][k] = (IF u[k] = "null" THEN "none" ELSE u[k])
QuerySetEverywhere == [][QueryStep]_vars
\* nodes that agree keep agreeing across a cluster-wide set
QueryKeepsAgreement ==
    [][(nquery' = nquery + 1 /\ pass = NoPass /\ Agree(<<stores, touched>>)) => Agree(<<stores', touched'>>)]_vars

Emit == (Gen /\ hist # << >> /\ hist[Len(hist)].op = "Final") => PrintT(<<"BEH", ToJson(hist)>>)
=============================================================================
