CONSTANTS
  CYears = {2018,2019}
  CMonths = {1,2}
  CDays = {1,2}
  CHours = {1}
  CQuanta = {"YMDH"}
  NSV = {FALSE}
  Variant = "fixed"
  Order = "code"
  MaxT = 2
  MaxS = 1
  MaxClr = 1
  MaxPlain = 1
  Vias = {"set","views"}
  Depth = 0
  Gen = FALSE
INIT Init
NEXT Next
INVARIANT ClearedEverywhere
INVARIANT StdTruth
INVARIANT BndsAligned
VIEW MView
CHECK_DEADLOCK FALSE
