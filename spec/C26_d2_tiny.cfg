CONSTANTS
  Mode = "parse"
  Level = "tiny"
  Depth = 7
  MaxNest = 2
  MaxCalls = 1
  MaxKw = 1
  MaxCh = 1
INIT Init
NEXT Next
INVARIANT TypeOK
INVARIANT WellFormed
INVARIANT BtwcLaw
INVARIANT Emit
CHECK_DEADLOCK FALSE
