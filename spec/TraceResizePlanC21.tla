------------------------ MODULE TraceResizePlanC21 ------------------------
(***************************************************************************)
(* C21, binding B: plans, jobs and cleanups computed by the real code        *)
(* (harness/bind/clusterb TestC21) validated against ResizePlanC21.          *)
(*  {"ev":"plan","c":case,"act":"add"|"remove","node":id,"old":[ids],"r":n,  *)
(*   "fv":[[field,view]..],"shards":[..],"oo":[[owners before]..],           *)
(*   "no":[[owners after]..]   (aligned with shards; cluster.shardNodes on    *)
(*   the old / new member list), "refused":fragSources returned an error,    *)
(*   "p":[{"n":target,"s":shard,"e":[[fv position,source]..]}..]}            *)
(*  {"ev":"job", ... "ix":[{"fv","shards","oo","no"}..] per index,            *)
(*   "p":[{"n","i":index position,"s","e"}..] = the instructions' sources,    *)
(*   "done":{node: marked complete at generation}}                           *)
(*     (unprotectedGenerateResizeJobByAction)                                *)
(*  {"ev":"clean","c":case,"ids":[members],"r":n,"self":id,                   *)
(*   "ix":[{"shards":[..],"own":[[owners]..]}..],                            *)
(*   "before":[[index position,field,view,shard]..],"after":[..]}            *)
(*     (holderCleaner.CleanHolder on a real holder)                          *)
(*  {"ev":"resized", ...as clean..., "all":[fragments anywhere before]}       *)
(*     one node of a real multi-server cluster after a completed add/remove   *)
(***************************************************************************)
EXTENDS ResizePlanC21, TLC, Json

VARIABLE i
Trace == ndJsonDeserialize("trace.ndjson")
e == Trace[i]
Is(name) == i <= Len(Trace) /\ e.ev = name

TInit == i = 1 /\ cfg = [act |-> "", node |-> ""]
Step == i' = i + 1 /\ cfg' = [act |-> e.act, node |-> e.node]

New(old, act, node) == IF act = "add" THEN old \cup {node} ELSE old \ {node}

\* one index: x has fv, shards, oo, no; entries: set of <<n, fvpos, s, src>>
FVOf(x) == {<<x.fv[k][1], x.fv[k][2]>> : k \in 1..Len(x.fv)}
ShardsOf(x) == Range(x.shards)
Pos(x, s) == CHOOSE k \in 1..Len(x.shards) : x.shards[k] = s
OO(x) == [s \in ShardsOf(x) |-> Range(x.oo[Pos(x, s)])]
NO(x) == [s \in ShardsOf(x) |-> Range(x.no[Pos(x, s)])]
PlanOf(x, groups) ==
    UNION {{IF en[1] \in 1..Len(x.fv)
            THEN <<g.n, x.fv[en[1]][1], x.fv[en[1]][2], g.s, en[2]>>
            ELSE <<g.n, "?", "?", g.s, en[2]>> : en \in Range(g.e)} : g \in groups}
\* owners are members
Sane(x, old, new) ==
    /\ Len(x.oo) = Len(x.shards) /\ Len(x.no) = Len(x.shards)
    /\ Cardinality(ShardsOf(x)) = Len(x.shards)
    /\ \A s \in ShardsOf(x) : OO(x)[s] \subseteq old /\ NO(x)[s] \subseteq new

TPlan ==
    /\ Is("plan") /\ e.act \in {"add", "remove"}
    /\ LET old == Range(e.old)
           new == New(old, e.act, e.node)
       IN /\ (e.act = "add" => e.node \notin old) /\ (e.act = "remove" => e.node \in old)
          /\ Sane(e, old, new)
          \* ("= TRUE": evaluated as a predicate; TLC would otherwise branch on the \E inside)
          /\ PlanOK(e.refused, PlanOf(e, Range(e.p)), FVOf(e), ShardsOf(e), OO(e), NO(e), e.act, e.node) = TRUE
    /\ Step

TJob ==
    /\ Is("job") /\ e.act \in {"add", "remove"}
    /\ LET old == Range(e.old)
           new == New(old, e.act, e.node)
           IX == 1..Len(e.ix)
           groups(k) == {g \in Range(e.p) : g.i = k}
           needs(n) == \E k \in IX : \E ns \in Needed(ShardsOf(e.ix[k]), OO(e.ix[k]), NO(e.ix[k])) : ns[1] = n
       IN /\ \A k \in IX : Sane(e.ix[k], old, new)
          /\ \A g \in Range(e.p) : g.i \in IX
          /\ (IF e.refused
              THEN \E k \in IX : NoSourceExists(ShardsOf(e.ix[k]), OO(e.ix[k]), NO(e.ix[k]), e.act, e.node)
              ELSE /\ \A k \in IX : PlanOK(FALSE, PlanOf(e.ix[k], groups(k)), FVOf(e.ix[k]), ShardsOf(e.ix[k]),
                                          OO(e.ix[k]), NO(e.ix[k]), e.act, e.node)
                   \* the job tracks exactly the resulting members; a node that needs data is
                   \* not marked complete
                   /\ DOMAIN e.done = new
                   /\ \A n \in new : needs(n) => ~e.done[n]) = TRUE
    /\ Step

TClean ==
    /\ Is("clean")
    /\ LET own == [x \in UNION {{<<k, s>> : s \in Range(e.ix[k].shards)} : k \in 1..Len(e.ix)} |->
                      Range(e.ix[x[1]].own[CHOOSE p \in 1..Len(e.ix[x[1]].shards) : e.ix[x[1]].shards[p] = x[2]])]
           before == {<<x[1], x[2], x[3], x[4]>> : x \in Range(e.before)}
           after == {<<x[1], x[2], x[3], x[4]>> : x \in Range(e.after)}
       IN /\ e.self \in Range(e.ids)
          /\ \A x \in before : <<x[1], x[4]>> \in DOMAIN own      \* the owners of every fragment's shard were logged
          /\ CleanupOnlyUnowned(e.self, before, after, own)
    /\ i' = i + 1 /\ UNCHANGED cfg

\* one node after a completed resize on real servers
TResized ==
    /\ Is("resized")
    /\ LET own == [x \in UNION {{<<k, s>> : s \in Range(e.ix[k].shards)} : k \in 1..Len(e.ix)} |->
                      Range(e.ix[x[1]].own[CHOOSE p \in 1..Len(e.ix[x[1]].shards) : e.ix[x[1]].shards[p] = x[2]])]
           tup(l) == {<<x[1], x[2], x[3], x[4]>> : x \in Range(l)}
       IN /\ e.self \in Range(e.ids)
          /\ \A x \in tup(e.before) \cup tup(e.all) : <<x[1], x[4]>> \in DOMAIN own
          /\ ResizedOK(e.self, tup(e.before), tup(e.after), tup(e.all), own)
    /\ i' = i + 1 /\ UNCHANGED cfg

TNext == TPlan \/ TJob \/ TClean \/ TResized

Accepted ==
    LET n == TLCGet("stats").diameter - 1 IN
    IF n = Len(Trace) THEN PrintT("TRACE-ACCEPTED")
    ELSE PrintT("TRACE-REJECTED " \o ToString(n))
=============================================================================
