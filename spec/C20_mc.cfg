CONSTANTS
  PartN = 2
  MaxRep = 5
  MCIds <- MCIds4
INIT Init
NEXT Next
INVARIANT SizeOK
INVARIANT DistinctOK
INVARIANT ShapeOK
INVARIANT RingCanonical
INVARIANT HelpersAgree
CHECK_DEADLOCK FALSE
