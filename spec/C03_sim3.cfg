CONSTANTS
  K = 3
  M = 1
  Depth = 8
  SrcProvs = {"fresh","optimized","frozen","mapped","btree","btree_mapped"}
  DeriveKinds = {"Clone","Freeze","Union","Union3","Intersect","Difference","Xor","OffsetRange"}
  Alphabet = {"Derive","Add","Remove","AddN","RemoveN","ImportSet","ImportClear","Optimize","UnionInPlace","Remap","Drop"}
INIT Init
NEXT Next
INVARIANT TypeOK
PROPERTY DerivedStable
INVARIANT Emit
CHECK_DEADLOCK FALSE
