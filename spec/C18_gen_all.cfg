CONSTANTS
  QSet = {"Y","YM","YMD","YMDH","M","MD","MDH","D","DH","H"}
  Gen = TRUE
INIT Init
NEXT Next
INVARIANT Emit
CHECK_DEADLOCK FALSE
