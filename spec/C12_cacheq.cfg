CONSTANTS
  NRows = 3
  NCols = 2
  Kinds = {"ranked", "lru"}
  Sizes = {2}
  Mutexes = {FALSE, TRUE}
  FixDelta = TRUE
  FixBelow = TRUE
  FixTomb = TRUE
  FixZeroFirst = TRUE
INIT Init
NEXT Next
INVARIANTS IdsExact NoGarbage TopNComplete LruShape
CHECK_DEADLOCK FALSE
