CONSTANTS
  NRows = 2
  NCols = 2
  Kinds = {"ranked", "lru"}
  Sizes = {1}
  Mutexes = {FALSE}
  FixDelta = TRUE
  FixBelow = TRUE
  FixTomb = TRUE
  FixZeroFirst = TRUE
INIT Init
NEXT Next
INVARIANTS IdsExact NoGarbage TopNComplete LruShape
CHECK_DEADLOCK FALSE
