CONSTANTS
  NS = {"r"}
  NK = 3
  BatchSet = "conc"
  Callers = {1,2}
  Ops = {"TRead","Restart"}
  Depth = 4
  Recheck = TRUE
  DropInFlight = TRUE
  MaxSeq = 99
  MaxRestart = 99
  Sample = FALSE
INIT Init
NEXT Next
INVARIANT Emit
CHECK_DEADLOCK FALSE
