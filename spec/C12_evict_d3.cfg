CONSTANTS
  NRows = 2
  NCols = 3
  Kinds = {"ranked", "lru"}
  Sizes = {1}
  Mutexes = {FALSE}
  MutexSizes = {1}
  Ops = {"RoaringSet", "RoaringClear", "Recalc"}
  Inits = "empty"
  BRows = {1, 2}
  BSets = {{1}, {2, 3}, {1, 2, 3}}
  MaxRect = 1
  BIds = "whole"
  Thrs = {3, 5}
  FilterSkew = FALSE
  TopNs = {0, 1, 2, 3}
  RecalcWeight = 1
  Rand = FALSE
  Depth = 3
INIT Init
NEXT Next
INVARIANTS Emit TypeOK OracleOK
CHECK_DEADLOCK FALSE
