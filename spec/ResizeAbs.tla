----------------------------- MODULE ResizeAbs -----------------------------
(***************************************************************************)
(* C22 - the property itself as a state machine.                            *)
(*                                                                         *)
(*   "At most one resize job runs at a time.  The member list changes only  *)
(*    after every node of the target membership has reported success, and   *)
(*    the cluster leaves the resizing state when the job ends.  No message  *)
(*    handler or job waits forever."                                        *)
(*                                                                         *)
(* Nothing here knows about goroutines, locks or channels: jobs start, get  *)
(* success reports, end with a result, and a job that ended DONE may be      *)
(* applied to the member list.  The cluster state is free to change in any  *)
(* step (safety says nothing about it); the liveness properties say where   *)
(* it must end up.  Resize.tla refines this machine (Resize!RefinesAbs) and *)
(* recorded executions of the real code are validated against it            *)
(* (TraceResize.tla).                                                       *)
(***************************************************************************)
EXTENDS Integers, FiniteSets

CONSTANTS Jobs,     \* job identities
          Nodes     \* node identities

VARIABLES
    astate,     \* "NORMAL" | "RESIZING"
    anodes,     \* member list
    arunning,   \* set of jobs that run
    atarget,    \* job -> target membership
    aaction,    \* job -> [a : "ADD" | "REMOVE", n : node]
    aoks,       \* job -> nodes of the target membership that reported success (or need nothing)
    aresult,    \* job -> "" (not ended) | "DONE" | "ABORTED"
    astuck      \* number of handlers / jobs that wait forever

avars == <<astate, anodes, arunning, atarget, aaction, aoks, aresult, astuck>>

States == {"NORMAL", "RESIZING"}
ATarget(act, ns) == IF act.a = "ADD" THEN ns \cup {act.n} ELSE ns \ {act.n}
Fresh(j) == j \notin arunning /\ aresult[j] = ""

AInit ==
    /\ astate = "NORMAL" /\ anodes \subseteq Nodes /\ arunning = {}
    /\ atarget = [j \in Jobs |-> {}] /\ aaction = [j \in Jobs |-> [a |-> "", n |-> ""]]
    /\ aoks = [j \in Jobs |-> {}] /\ aresult = [j \in Jobs |-> ""]
    /\ astuck = 0

\* the description of job j (not running, not ended) is (re)written
Describe(j) ==
    /\ Fresh(j)
    /\ atarget' \in [Jobs -> SUBSET Nodes] /\ aoks' \in [Jobs -> SUBSET Nodes]
    /\ \A k \in Jobs \ {j} : atarget'[k] = atarget[k] /\ aoks'[k] = aoks[k] /\ aaction'[k] = aaction[k]
    /\ aoks'[j] \subseteq atarget'[j]

\* a node action is requested, a rejected job is recorded, the state changes ...:
\* anything that touches neither the running set, results nor the member list
Other ==
    /\ astate' \in States
    /\ \/ UNCHANGED <<atarget, aaction, aoks>>
       \/ \E j \in Jobs : Describe(j)
    /\ UNCHANGED <<anodes, arunning, aresult, astuck>>

\* job j starts: only when no job runs
Start(j) ==
    /\ arunning = {} /\ Fresh(j)
    /\ arunning' = {j}
    /\ Describe(j)
    /\ astate' \in States
    /\ UNCHANGED <<anodes, aresult, astuck>>

\* node n reports success for job j
ReportOk(j, n) ==
    /\ aresult[j] = ""
    /\ aoks' = [aoks EXCEPT ![j] = @ \cup {n}]
    /\ astate' \in States
    /\ UNCHANGED <<anodes, arunning, atarget, aaction, aresult, astuck>>

\* job j ends; DONE only when every node of the target membership reported success
End(j, res) ==
    /\ j \in arunning
    /\ res \in {"DONE", "ABORTED"}
    /\ res = "DONE" => atarget[j] \subseteq aoks[j]
    /\ arunning' = arunning \ {j}
    /\ aresult' = [aresult EXCEPT ![j] = res]
    /\ astate' \in States
    /\ UNCHANGED <<anodes, atarget, aaction, aoks, astuck>>

\* the member list changes: only to the target of a job that ended DONE
Apply(j) ==
    /\ aresult[j] = "DONE" /\ atarget[j] \subseteq aoks[j]
    /\ anodes' = ATarget(aaction[j], anodes)
    /\ astate' \in States
    /\ UNCHANGED <<arunning, atarget, aaction, aoks, aresult, astuck>>

ANext ==
    \/ Other
    \/ \E j \in Jobs : Start(j) \/ Apply(j)
    \/ \E j \in Jobs, n \in Nodes : ReportOk(j, n)
    \/ \E j \in Jobs, r \in {"DONE", "ABORTED"} : End(j, r)

SafeSpec == AInit /\ [][ANext]_avars

\* ---- the property
AtMostOneJob == Cardinality(arunning) <= 1

MembershipOnlyAfterAllOk ==
    [][anodes' # anodes =>
         \E j \in Jobs : /\ aresult[j] = "DONE" /\ atarget[j] \subseteq aoks[j]
                         /\ anodes' = ATarget(aaction[j], anodes)]_avars

NoHandlerStuck == astuck = 0

\* (temporal; needs the fairness of the implementation-level specification)
EveryJobEnds == \A j \in Jobs : (j \in arunning) ~> (j \notin arunning)
LeavesResizing == (arunning = {} /\ astate = "RESIZING") ~> (astate = "NORMAL" \/ arunning # {})
=============================================================================
