----------------------------- MODULE MapReduce -----------------------------
(***************************************************************************)
(* C17 - the result of a distributed read query does not depend on which    *)
(* node coordinates, how the shards are grouped onto nodes, or the order in *)
(* which shard results (inside a node) and node responses (at the           *)
(* coordinator) arrive - apart from the order of TopN entries with equal    *)
(* counts.  The count returned with a Min/Max value that several shards     *)
(* share is the total over those shards.                                    *)
(*                                                                         *)
(* Code anchors (executor.go): executor.mapReduce is the coordinator's      *)
(* reduce loop (action RemoteArrive), executor.mapper groups the shards by  *)
(* node (shardsByNode; variable owner) and starts one goroutine per node:   *)
(* mapperLocal / worker for the local node (action LocalArrive: one shard   *)
(* result reaches the node's reduce loop), remoteExec for the others - the  *)
(* remote node runs the same mapperLocal over its shards and answers        *)
(* (NodeDone).  The reducers: ValCount.add/smaller/larger (Sum/Min/Max),    *)
(* Pairs.Add (TopN), RowIDs.merge (Rows), mergeGroupCounts (GroupBy),       *)
(* uint64 + (Count), Row.Merge (Row and every bitmap call), bool OR         *)
(* (ClearRow/Store).                                                        *)
(*                                                                         *)
(* Modes (constant Mode):                                                   *)
(*   "laws"  one step: a reducer, a limit and three values a, b, c with all *)
(*           the reductions the algebraic laws speak about.                 *)
(*   "parts" the partial result of every shard is chosen from a small       *)
(*           domain, then a placement, then every arrival order.            *)
(*   "data"  a small dataset (columns with rows of two set fields and an    *)
(*           integer value) is chosen per shard - freely or from the        *)
(*           catalogue Cat - the partial results of all query kinds are     *)
(*           derived from it, the expected answers are computed from the    *)
(*           whole dataset (not by reducing), then placement and arrivals.  *)
(* Invariant OrderIndependent: when everything has arrived the              *)
(* coordinator's accumulator equals the expected answer, for every kind.    *)
(***************************************************************************)
EXTENDS Integers, Sequences, FiniteSets, TLC, Json

CONSTANTS
    S,         \* shards are 0..S-1
    N,         \* clusters have 1..N nodes; nodes are 0..n-1
    Mode,      \* "laws" | "parts" | "data"
    Kinds,     \* reducers / query kinds under test
    Lims,      \* limits of Rows / GroupBy
    Vals,      \* integer values of the int field / of ValCount partials
    MaxCnt,    \* largest count in a partial result (mode parts, laws)
    R,         \* rows of set field f are 1..R
    G,         \* rows of set field g are 1..G (groups are pairs (f row, g row))
    ColsPer,   \* columns per shard (mode data; Row partials in mode parts)
    TR,        \* rows of the TopN field t are 1..TR
    TMax,      \* per shard a row of t has 0..TMax columns (mode data)
    Canon,     \* TRUE: one interleaving per (per-node orders, response order)
    DataSrc    \* "free" | "cat" (mode data)

\* value sets for the configuration files (which cannot write negative numbers)
ValsA == {-2, 3, 7}
ValsB == {3, 7}
ValsC == {-2, 7}

Shards == 0..(S-1)
RowIds == 1..R
GRows == 1..G
Groups == 1..(R*G)            \* group (rf, rg) has index (rf-1)*G + rg (= the order of GroupCount.Compare)
NoVal == -99
ColsOf(s) == (s*ColsPer)..(s*ColsPer + ColsPer - 1)
AllCols == 0..(S*ColsPer - 1)
VCKinds == {"Sum", "Min", "Max"}

VARIABLES phase, kut, sd, tc, part, exv, lim, nn, owner, coord, nacc, ngot, ndone, cacc, cgot, hist
vars == <<phase, kut, sd, tc, part, exv, lim, nn, owner, coord, nacc, ngot, ndone, cacc, cgot, hist>>
MView == <<phase, kut, sd, tc, part, exv, lim, nn, owner, coord, nacc, ngot, ndone, cacc, cgot>>

\* mode parts: one reducer (the "kind under test" kut, chosen in Init) per behaviour;
\* mode data: all kinds at once, derived from the same data
KS == IF Mode = "data" THEN Kinds ELSE IF Mode = "laws" THEN {} ELSE {kut}
MaxLim == CHOOSE x \in Lims : \A y \in Lims : x >= y
LimsFor(k) == IF k \in {"Rows", "GroupBy", "all"} THEN Lims ELSE {MaxLim}

\* ------------------------------------------------------------ helpers
RECURSIVE SortSet(_)
SortSet(T) == IF T = {} THEN << >>
              ELSE LET m == CHOOSE x \in T : \A y \in T : x <= y IN <<m>> \o SortSet(T \ {m})
Take(l, q) == IF Len(q) <= l THEN q ELSE SubSeq(q, 1, l)
Range(q) == {q[i] : i \in 1..Len(q)}
RECURSIVE SumOver(_, _)
SumOver(T, f) == IF T = {} THEN 0 ELSE LET x == CHOOSE y \in T : TRUE IN f[x] + SumOver(T \ {x}, f)
MinOf(T) == CHOOSE x \in T : \A y \in T : x <= y
MaxOf(T) == CHOOSE x \in T : \A y \in T : x >= y

\* ------------------------------------------------------------ the reducers
VCZero == [val |-> 0, count |-> 0]
AddVC(a, b) == [val |-> a.val + b.val, count |-> a.count + b.count]
SmallerVC(a, b) ==
    IF a.count = 0 THEN b ELSE IF b.count = 0 THEN a
    ELSE IF b.val < a.val THEN b ELSE IF a.val < b.val THEN a
    ELSE [val |-> a.val, count |-> a.count + b.count]      \* tie: the counts add
LargerVC(a, b) ==
    IF a.count = 0 THEN b ELSE IF b.count = 0 THEN a
    ELSE IF b.val > a.val THEN b ELSE IF a.val > b.val THEN a
    ELSE [val |-> a.val, count |-> a.count + b.count]

\* TopN partial: set of [id, n] with n > 0, at most one per id
PairCnt(p, r) == IF \E x \in p : x.id = r THEN (CHOOSE x \in p : x.id = r).n ELSE 0
PairIds(p) == {x.id : x \in p}
PairsAdd(a, b) == {[id |-> r, n |-> PairCnt(a, r) + PairCnt(b, r)] : r \in PairIds(a) \cup PairIds(b)}

\* Rows partial: ascending sequence of row ids, at most l long
RowIDsMerge(a, b, l) == Take(l, SortSet(Range(a) \cup Range(b)))

\* GroupBy partial: sequence of [g, n] ascending in g, n > 0, at most l long
GCnt(q, g) == IF \E i \in 1..Len(q) : q[i].g = g THEN (CHOOSE x \in Range(q) : x.g = g).n ELSE 0
GIds(q) == {q[i].g : i \in 1..Len(q)}
GroupMerge(a, b, l) ==
    LET gs == SortSet(GIds(a) \cup GIds(b))
    IN Take(l, [i \in 1..Len(gs) |-> [g |-> gs[i], n |-> GCnt(a, gs[i]) + GCnt(b, gs[i])]])

RowMerge(a, b) == a \cup b
Or(a, b) == a \/ b

Red(k, l, a, b) ==
    CASE k = "Sum" -> AddVC(a, b)
      [] k = "Min" -> SmallerVC(a, b)
      [] k = "Max" -> LargerVC(a, b)
      [] k = "TopN" -> PairsAdd(a, b)
      [] k = "Rows" -> RowIDsMerge(a, b, l)
      [] k = "GroupBy" -> GroupMerge(a, b, l)
      [] k = "Count" -> a + b
      [] k = "Row" -> RowMerge(a, b)
      [] k = "Bool" -> Or(a, b)

\* the value a reduce loop starts from (the code starts from nil, which every
\* reduce function treats as this value)
Ident(k) ==
    CASE k \in VCKinds -> VCZero
      [] k = "TopN" -> {}
      [] k = "Rows" -> << >>
      [] k = "GroupBy" -> << >>
      [] k = "Count" -> 0
      [] k = "Row" -> {}
      [] k = "Bool" -> FALSE

\* ------------------------------------------------------------ partial-result domains
VCDom == {VCZero} \cup {[val |-> v, count |-> c] : v \in Vals, c \in 1..MaxCnt}
PairSetOf(f) == {[id |-> r, n |-> f[r]] : r \in {x \in DOMAIN f : f[x] > 0}}
GSeqOf(f) == LET gs == SortSet({x \in DOMAIN f : f[x] > 0})
             IN [i \in 1..Len(gs) |-> [g |-> gs[i], n |-> f[gs[i]]]]
PartDom(k, s, l) ==
    CASE k \in VCKinds -> VCDom
      [] k = "TopN" -> {PairSetOf(f) : f \in [RowIds -> 0..MaxCnt]}
      [] k = "Rows" -> {Take(l, SortSet(T)) : T \in SUBSET RowIds}
      [] k = "GroupBy" -> {Take(l, GSeqOf(f)) : f \in [Groups -> 0..MaxCnt]}
      [] k = "Count" -> 0..MaxCnt
      [] k = "Row" -> SUBSET ColsOf(s)
      [] k = "Bool" -> BOOLEAN
\* the values the laws are checked over: partial results of any shard and their reductions
LawBase(k, l) == UNION {PartDom(k, s, l) : s \in Shards}
LawDom(k, l) == LawBase(k, l) \cup {Red(k, l, a, b) : a \in LawBase(k, l), b \in LawBase(k, l)}

\* ------------------------------------------------------------ datasets (mode data)
ColRec == [f : SUBSET RowIds, g : SUBSET GRows, v : Vals \cup {NoVal}]
ShardData == [1..ColsPer -> ColRec]
ColId(s, c) == s*ColsPer + c - 1
\* a catalogue of datasets with ties across shards, empty shards, shards without values
CR(f, g, v) == [f |-> f, g |-> g, v |-> v]
Cat ==
  LET E == CR({}, {}, NoVal)
      top == MaxOf(Vals)  bot == MinOf(Vals)
      mk(a, b) == [c \in 1..ColsPer |-> IF c = 1 THEN a ELSE IF c = 2 THEN b ELSE E]
  IN [d \in 1..4 |-> [s \in Shards |->
      CASE d = 1 ->  \* the largest value in every shard, counts 2,1,2,..; row 1 everywhere
             IF s % 2 = 0 THEN mk(CR({1}, {1}, top), CR({1, R}, {G}, top)) ELSE mk(CR({1}, {1, G}, top), CR({R}, {1}, bot))
        [] d = 2 ->  \* smallest value tied in the first and last shard, middle shards have no value / nothing
             IF s = 0 THEN mk(CR({R}, {1}, bot), CR({1}, {G}, top))
             ELSE IF s = S - 1 THEN mk(CR({R}, {G}, bot), CR({R}, {G}, bot))
             ELSE IF s = 1 THEN mk(CR({1}, {}, NoVal), E) ELSE mk(E, E)
        [] d = 3 ->  \* TopN ties: every row has the same total; values tie pairwise
             IF s % 2 = 0 THEN mk(CR({1}, {1}, bot), CR({R}, {G}, top)) ELSE mk(CR({R}, {1}, top), CR({1}, {G}, bot))
        [] d = 4 ->  \* one shard holds everything, the others only the padding
             IF s = S - 1 THEN mk(CR(RowIds, GRows, top), CR({1}, {1}, top)) ELSE mk(E, E)]]

ValsIn(D, T) == {x \in T : D[x[1]][x[2]].v # NoVal}       \* T: set of <<shard, col>>
SC(T) == {<<s, c>> : s \in T, c \in 1..ColsPer}
VOf(D) == [x \in SC(Shards) |-> D[x[1]][x[2]].v]
One(T) == [x \in T |-> 1]

\* the answers over a set T of shards computed from the data D itself
AnsSum(D, T) == LET W == ValsIn(D, SC(T)) IN [val |-> SumOver(W, VOf(D)), count |-> Cardinality(W)]
AnsMin(D, T) == LET W == ValsIn(D, SC(T)) IN
    IF W = {} THEN VCZero
    ELSE LET m == MinOf({VOf(D)[x] : x \in W}) IN [val |-> m, count |-> Cardinality({x \in W : VOf(D)[x] = m})]
AnsMax(D, T) == LET W == ValsIn(D, SC(T)) IN
    IF W = {} THEN VCZero
    ELSE LET m == MaxOf({VOf(D)[x] : x \in W}) IN [val |-> m, count |-> Cardinality({x \in W : VOf(D)[x] = m})]
AnsTopN(D, T) == PairSetOf([r \in RowIds |-> Cardinality({x \in SC(T) : r \in D[x[1]][x[2]].f})])
AnsRows(D, T, l) == Take(l, SortSet({r \in RowIds : \E x \in SC(T) : r \in D[x[1]][x[2]].f}))
GIdx(rf, rg) == (rf - 1)*G + rg
AnsGroup(D, T, l) ==
    Take(l, GSeqOf([gi \in Groups |->
        Cardinality({x \in SC(T) : \E rf \in D[x[1]][x[2]].f : \E rg \in D[x[1]][x[2]].g : GIdx(rf, rg) = gi})]))
AnsRow(D, T) == {ColId(x[1], x[2]) : x \in {y \in SC(T) : 1 \in D[y[1]][y[2]].f}}
AnsCount(D, T) == Cardinality(AnsRow(D, T))

Ans(k, D, T, l) ==
    CASE k = "Sum" -> AnsSum(D, T)
      [] k = "Min" -> AnsMin(D, T)
      [] k = "Max" -> AnsMax(D, T)
      [] k = "TopN" -> AnsTopN(D, T)
      [] k = "Rows" -> AnsRows(D, T, l)
      [] k = "GroupBy" -> AnsGroup(D, T, l)
      [] k = "Count" -> AnsCount(D, T)
      [] k = "Row" -> AnsRow(D, T)
      [] k = "Bool" -> \E x \in SC(T) : G \in D[x[1]][x[2]].g     \* ClearRow(g=G): some shard held the row

\* ------------------------------------------------------------ TopN(t, n) with n smaller than the rows
\* TopN is computed in two passes: every shard names its n best rows (candidates), then the
\* totals of all candidates are fetched and the n best are returned.  Which rows become
\* candidates is a matter of the shards, never of which node holds them or coordinates.  The
\* weakest placement-independent demand: a row that is among the n best of some shard under
\* every tie order (SureCand) is a candidate whatever the placement, so it is either returned
\* or has a total no larger than every returned total; returned entries carry true totals in
\* descending order and there are min(n, rows present) of them.  (An implementation that
\* considers more candidates - all rows - satisfies it too.)
TRows == 1..TR
NoCounts == [s \in Shards |-> [r \in TRows |-> 0]]
TTotal(M, r) == SumOver(Shards, [s \in Shards |-> M[s][r]])
TPresent(M) == {r \in TRows : TTotal(M, r) > 0}
SureCand(M, n) == {r \in TRows : \E s \in Shards :
                      M[s][r] > 0 /\ Cardinality({x \in TRows \ {r} : M[s][x] >= M[s][r]}) < n}
\* RS: sequence of [id, n] as returned
TopNOK(M, n, RS) ==
    /\ Len(RS) = (IF Cardinality(TPresent(M)) < n THEN Cardinality(TPresent(M)) ELSE n)
    /\ \A i \in 1..Len(RS) : RS[i].id \in TRows /\ RS[i].n = TTotal(M, RS[i].id)
    /\ \A i \in 1..(Len(RS) - 1) : RS[i].n >= RS[i+1].n /\ RS[i].id # RS[i+1].id
    /\ \A r \in SureCand(M, n) : (\E i \in 1..Len(RS) : RS[i].id = r) \/ \A i \in 1..Len(RS) : TTotal(M, r) <= RS[i].n
\* the exact answer (rows by total, descending; ties by id) satisfies it
RECURSIVE ExactTop(_, _, _)
ExactTop(M, n, T) == IF n = 0 \/ T = {} THEN << >>
    ELSE LET b == CHOOSE r \in T : \A x \in T : TTotal(M, r) > TTotal(M, x) \/ (TTotal(M, r) = TTotal(M, x) /\ r <= x)
         IN <<[id |-> b, n |-> TTotal(M, b)]>> \o ExactTop(M, n - 1, T \ {b})
TopNExpect == [counts |-> [i \in 1..S |-> [r \in TRows |-> tc[i-1][r]]],
               tot |-> {[id |-> r, n |-> TTotal(tc, r)] : r \in TPresent(tc)},
               sure1 |-> SureCand(tc, 1), sure2 |-> SureCand(tc, 2)]
\* catalogue: row 1 is the best row of shard a alone, loses to row 2 inside shard b and to row 3
\* inside shard c, but has the largest total - a node that holds a and b and passes on only
\* its own n best candidates loses it
TBase(a, b, c) == [s \in Shards |-> [r \in TRows |->
    IF s = a THEN (IF r = 1 THEN 1 ELSE 0)
    ELSE IF s = b THEN (IF r = 1 THEN 1 ELSE IF r = 2 THEN 3 ELSE 0)
    ELSE IF s = c THEN (IF r = 1 THEN 2 ELSE IF r = 3 THEN 3 ELSE 0) ELSE 0]]
TCat(d) == CASE d % 3 = 1 -> TBase(0, 1, 2) [] d % 3 = 2 -> TBase(2, 0, 1) [] OTHER -> TBase(1, S - 1, 0)

\* ------------------------------------------------------------ GroupBy with limit and offset
\* offset and limit select from the merged group list of the whole cluster: the answer is the
\* unpaged list sliced [o, o + l), whichever node coordinates and however the shards are grouped
PageOf(q, l, o) == IF o >= Len(q) THEN << >> ELSE SubSeq(q, o + 1, IF o + l < Len(q) THEN o + l ELSE Len(q))
GroupPages == LET all == AnsGroup(sd, Shards, R * G) IN
    {[l |-> l, o |-> o, page |-> PageOf(all, l, o)] : l \in 1..2, o \in 1..3}

\* ------------------------------------------------------------ expected final result
\* from the partial results, by definition (not by folding)
ExpectPartsP(PP, k, l) ==
    LET P(s) == PP[s][k] IN
    CASE k = "Sum" -> [val |-> SumOver(Shards, [s \in Shards |-> P(s).val]),
                       count |-> SumOver(Shards, [s \in Shards |-> P(s).count])]
      [] k = "Min" -> LET W == {s \in Shards : P(s).count > 0} IN
                      IF W = {} THEN VCZero
                      ELSE LET m == MinOf({P(s).val : s \in W}) IN
                           [val |-> m, count |-> SumOver({s \in W : P(s).val = m}, [s \in Shards |-> P(s).count])]
      [] k = "Max" -> LET W == {s \in Shards : P(s).count > 0} IN
                      IF W = {} THEN VCZero
                      ELSE LET m == MaxOf({P(s).val : s \in W}) IN
                           [val |-> m, count |-> SumOver({s \in W : P(s).val = m}, [s \in Shards |-> P(s).count])]
      [] k = "TopN" -> PairSetOf([r \in RowIds |-> SumOver(Shards, [s \in Shards |-> PairCnt(P(s), r)])])
      [] k = "Rows" -> Take(l, SortSet(UNION {Range(P(s)) : s \in Shards}))
      [] k = "GroupBy" -> Take(l, GSeqOf([g \in Groups |-> SumOver(Shards, [s \in Shards |-> GCnt(P(s), g)])]))
      [] k = "Count" -> SumOver(Shards, [s \in Shards |-> P(s)])
      [] k = "Row" -> UNION {P(s) : s \in Shards}
      [] k = "Bool" -> \E s \in Shards : P(s)

ExpectParts(k, l) == ExpectPartsP(part, k, l)

Expect(k) == IF Mode = "data" THEN Ans(k, sd, Shards, lim) ELSE ExpectParts(k, lim)

\* ------------------------------------------------------------ state machine
NoData == [s \in Shards |-> [c \in 1..ColsPer |-> CR({}, {}, NoVal)]]
Init ==
    /\ phase = IF Mode = "laws" THEN "law" ELSE "choose"
    /\ kut \in IF Mode = "parts" THEN Kinds ELSE {"all"}
    /\ sd = NoData
    /\ tc = NoCounts
    /\ part = [s \in Shards |-> [k \in KS |-> Ident(k)]]
    /\ exv = << >>
    /\ lim = 0 /\ nn = 0 /\ coord = 0
    /\ owner = [s \in Shards |-> 0]
    /\ nacc = << >> /\ ngot = << >> /\ ndone = {} /\ cacc = << >> /\ cgot = {}
    /\ hist = << >>

\* mode laws: one reducer, three values, everything the laws mention
Law ==
    /\ phase = "law"
    /\ \E k \in Kinds : \E l \in LimsFor(k) :
         \E a \in LawDom(k, l) : \E b \in LawDom(k, l) : \E c \in LawBase(k, l) :
           hist' = Append(hist, [op |-> "Law", kind |-> k, lim |-> l, a |-> a, b |-> b, c |-> c,
                                 ab |-> Red(k, l, a, b), ba |-> Red(k, l, b, a),
                                 ab_c |-> Red(k, l, Red(k, l, a, b), c), a_bc |-> Red(k, l, a, Red(k, l, b, c)),
                                 ea |-> Red(k, l, Ident(k), a), ae |-> Red(k, l, a, Ident(k))])
    /\ phase' = "done"
    /\ UNCHANGED <<kut, sd, tc, part, exv, lim, nn, owner, coord, nacc, ngot, ndone, cacc, cgot>>

\* the limit is chosen first (the shard partials of Rows / GroupBy are truncated to it)
ChooseLim ==
    /\ phase = "choose" /\ lim = 0
    /\ \E l \in LimsFor(kut) : lim' = l
    /\ hist' = Append(hist, [op |-> "Lim", lim |-> lim', kind |-> kut])
    /\ UNCHANGED <<phase, kut, sd, tc, part, exv, nn, owner, coord, nacc, ngot, ndone, cacc, cgot>>

NextIdx == Len(hist) - 1       \* shards (mode parts) / columns (mode data) are filled in order

ChooseParts ==
    /\ phase = "choose" /\ lim > 0 /\ Mode = "parts" /\ NextIdx \in Shards
    /\ LET s == NextIdx IN
       \E v \in PartDom(kut, s, lim) :
          /\ part' = [part EXCEPT ![s] = [k \in {kut} |-> v]]
          /\ hist' = Append(hist, [op |-> "Part", shard |-> s, v |-> v])
    /\ UNCHANGED <<phase, kut, sd, tc, exv, lim, nn, owner, coord, nacc, ngot, ndone, cacc, cgot>>

ChooseData ==
    /\ phase = "choose" /\ lim > 0 /\ Mode = "data"
    /\ \/ /\ DataSrc = "free" /\ NextIdx \in 0..(3*S*ColsPer - 1)
          \* one attribute of one column per step (rows of f, rows of g, value)
          /\ LET ci == NextIdx \div 3  at == NextIdx % 3
                 s == ci \div ColsPer  c == (ci % ColsPer) + 1 IN
             \/ /\ at = 0 /\ \E x \in SUBSET RowIds : sd' = [sd EXCEPT ![s][c].f = x]
                /\ hist' = Append(hist, [op |-> "Col", col |-> ColId(s, c), attr |-> "f"])
             \/ /\ at = 1 /\ \E x \in SUBSET GRows : sd' = [sd EXCEPT ![s][c].g = x]
                /\ hist' = Append(hist, [op |-> "Col", col |-> ColId(s, c), attr |-> "g"])
             \/ /\ at = 2 /\ \E x \in Vals \cup {NoVal} : sd' = [sd EXCEPT ![s][c].v = x]
                /\ hist' = Append(hist, [op |-> "Col", col |-> ColId(s, c), attr |-> "v"])
          /\ tc' = tc
       \/ /\ DataSrc = "free" /\ NextIdx \in (3*S*ColsPer)..(3*S*ColsPer + S*TR - 1)
          \* the TopN field: how many columns of shard s hold row r (one entry per step)
          /\ LET ti == NextIdx - 3*S*ColsPer  s == ti \div TR  r == (ti % TR) + 1 IN
             /\ \E x \in 0..TMax : tc' = [tc EXCEPT ![s][r] = x]
             /\ hist' = Append(hist, [op |-> "Cnt", shard |-> s, row |-> r])
          /\ sd' = sd
       \/ /\ DataSrc = "cat" /\ Len(hist) = 1
          /\ \E d \in DOMAIN Cat :
               /\ sd' = Cat[d]
               /\ tc' = TCat(d)
               /\ hist' = Append(hist, [op |-> "Cat", id |-> d])
    /\ UNCHANGED <<phase, kut, part, exv, lim, nn, owner, coord, nacc, ngot, ndone, cacc, cgot>>

DataChosen == IF Mode = "data"
              THEN (IF DataSrc = "cat" THEN Len(hist) = 2 ELSE NextIdx = 3*S*ColsPer + S*TR)
              ELSE NextIdx = S

\* the data as the harness loads it: one record per column that holds anything
DataCols == {[col |-> ColId(x[1], x[2]), shard |-> x[1], f |-> sd[x[1]][x[2]].f, g |-> sd[x[1]][x[2]].g,
              v |-> sd[x[1]][x[2]].v] : x \in SC(Shards)}

\* the shard partials (mode data) and the expected answers are computed once, before the
\* placement is chosen (a deterministic step that leaves no record)
Derive ==
    /\ phase = "choose" /\ lim > 0 /\ DataChosen
    /\ part' = IF Mode = "data" THEN [s \in Shards |-> [k \in KS |-> Ans(k, sd, {s}, lim)]] ELSE part
    /\ exv' = [expect |-> [k \in KS |-> Expect(k)], data |-> IF Mode = "data" THEN DataCols ELSE {},
               topn |-> IF Mode = "data" THEN TopNExpect ELSE << >>,
               pages |-> IF Mode = "data" THEN GroupPages ELSE {}]
    /\ phase' = "place"
    /\ UNCHANGED <<kut, sd, tc, lim, nn, owner, coord, nacc, ngot, ndone, cacc, cgot, hist>>

\* placement: cluster size, grouping of the shards onto the nodes, coordinator
Place ==
    /\ phase = "place"
    /\ \E n \in 1..N : \E o \in [Shards -> 0..(n-1)] : \E co \in 0..(n-1) :
         /\ nn' = n /\ owner' = o /\ coord' = co
         /\ nacc' = [x \in 0..(n-1) |-> [k \in KS |-> Ident(k)]]
         /\ ngot' = [x \in 0..(n-1) |-> {}]
         /\ cacc' = [k \in KS |-> Ident(k)]
         /\ hist' = Append(hist, [op |-> "Place", nodes |-> n, owner |-> [i \in 1..S |-> o[i-1]],
                                  coord |-> co, lim |-> lim, data |-> exv.data, expect |-> exv.expect,
                                  topn |-> exv.topn, pages |-> exv.pages])
    /\ phase' = "run" /\ ndone' = {} /\ cgot' = {}
    /\ UNCHANGED <<kut, sd, tc, part, exv, lim>>

Used == {owner[s] : s \in Shards}
ShardsOf(n) == {s \in Shards : owner[s] = n}
Complete(n) == ngot[n] = ShardsOf(n)

\* a shard result reaches the reduce loop of the node that owns the shard (mapperLocal)
LocalArrive(n, s) ==
    /\ phase = "run" /\ n \in Used /\ s \in ShardsOf(n) \ ngot[n]
    /\ Canon => \A m \in Used : m < n => m \in ndone
    /\ nacc' = [nacc EXCEPT ![n] = [k \in KS |-> Red(k, lim, nacc[n][k], part[s][k])]]
    /\ ngot' = [ngot EXCEPT ![n] = @ \cup {s}]
    /\ hist' = Append(hist, [op |-> "LocalArrive", node |-> n, shard |-> s, acc |-> nacc'[n]])
    /\ UNCHANGED <<phase, kut, sd, tc, part, exv, lim, nn, owner, coord, ndone, cacc, cgot>>

\* the node has reduced all its shards: its response is on its way to the coordinator
NodeDone(n) ==
    /\ phase = "run" /\ n \in Used \ ndone /\ Complete(n)
    /\ ndone' = ndone \cup {n}
    /\ hist' = Append(hist, [op |-> "NodeDone", node |-> n])
    /\ UNCHANGED <<phase, kut, sd, tc, part, exv, lim, nn, owner, coord, nacc, ngot, cacc, cgot>>

\* a node's response reaches the coordinator's reduce loop (mapReduce)
RemoteArrive(n) ==
    /\ phase = "run" /\ n \in ndone \ cgot
    /\ Canon => ndone = Used
    /\ cacc' = [k \in KS |-> Red(k, lim, cacc[k], nacc[n][k])]
    /\ cgot' = cgot \cup {n}
    /\ phase' = IF cgot' = Used THEN "done" ELSE "run"
    /\ hist' = Append(hist, [op |-> "RemoteArrive", node |-> n, acc |-> cacc'])
    /\ UNCHANGED <<kut, sd, tc, part, exv, lim, nn, owner, coord, nacc, ngot, ndone>>

Next ==
    \/ Law \/ ChooseLim \/ ChooseParts \/ ChooseData \/ Derive \/ Place
    \/ \E n \in 0..(N-1) : \E s \in Shards : LocalArrive(n, s)
    \/ \E n \in 0..(N-1) : NodeDone(n)
    \/ \E n \in 0..(N-1) : RemoteArrive(n)

Spec == Init /\ [][Next]_vars

\* ------------------------------------------------------------ properties
\* (M) the coordinator's result is the expected one whatever the placement and the orders
OrderIndependent == (phase = "done" /\ Mode # "laws") => \A k \in KS : cacc[k] = Expect(k)

\* (M) mode data: the answer computed from the data equals the answer defined from the shard partials
\* (evaluated in the one state per dataset that precedes the placement)
DataConsistent == (Mode = "data" /\ phase = "choose" /\ lim > 0 /\ DataChosen) =>
    LET PP == [s \in Shards |-> [k \in KS |-> Ans(k, sd, {s}, lim)]]
    IN \A k \in KS : Ans(k, sd, Shards, lim) = ExpectPartsP(PP, k, lim)

\* (M) the demand on TopN(t, n) is satisfiable: the exact answer meets it
TopNSatisfiable == (Mode = "data" /\ phase = "place") =>
    \A n \in 1..2 : TopNOK(tc, n, ExactTop(tc, n, TPresent(tc)))

\* (M) a node's response is the answer over exactly the shards it owns
NodeAnswers == (Mode = "data" /\ phase \in {"run", "done"} /\ ndone # {}) =>
    \A n \in ndone : \A k \in KS : nacc[n][k] = Ans(k, sd, ShardsOf(n), lim)

\* (M) algebraic laws of every reducer over the partial-result domains and their reductions
Commutative(k, l) == \A a \in LawDom(k, l), b \in LawDom(k, l) : Red(k, l, a, b) = Red(k, l, b, a)
Associative(k, l) == \A a \in LawDom(k, l), b \in LawDom(k, l), c \in LawBase(k, l) :
                        Red(k, l, Red(k, l, a, b), c) = Red(k, l, a, Red(k, l, b, c))
Identity(k, l) == \A a \in LawDom(k, l) : Red(k, l, Ident(k), a) = a /\ Red(k, l, a, Ident(k)) = a
\* (an operator with a parameter: TLC evaluates parameterless constant definitions at start-up)
Laws(KK) == \A k \in KK : \A l \in LimsFor(k) : Commutative(k, l) /\ Associative(k, l) /\ Identity(k, l)
LawsHold == (phase = "law" \/ (phase = "choose" /\ lim = 0)) => Laws(Kinds)

\* the tie clause of the property, stated directly
TieCountsAdd ==
    \A v \in Vals : \A c1 \in 1..MaxCnt, c2 \in 1..MaxCnt :
        /\ SmallerVC([val |-> v, count |-> c1], [val |-> v, count |-> c2]).count = c1 + c2
        /\ LargerVC([val |-> v, count |-> c1], [val |-> v, count |-> c2]).count = c1 + c2

TypeOK == phase \in {"law", "choose", "place", "run", "done"}

\* (G) behaviour emission
Emit == phase = "done" => PrintT(<<"BEH", ToJson(hist)>>)
=============================================================================
