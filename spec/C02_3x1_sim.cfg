CONSTANTS
  K = 3
  M = 1
  Depth = 10
  Kinds = {"slice","btree"}
  Formats = {"pilosa","official"}
  MaxBatch = 3
  RowSizes = {0,1,2}
  Alphabet = {"Add","Remove","AddN","RemoveN","ImportSet","ImportClear","Optimize","Reencode","Hold","Contains","Count","Slice","Max","Min","Views","CountRange"}
INIT Init
NEXT Next
INVARIANT TypeOK
INVARIANT ReplayMatches
INVARIANT ChangedExact
INVARIANT Emit
CHECK_DEADLOCK FALSE
