CONSTANTS
  S = 3
  N = 3
  Mode = "parts"
  Kinds = {"Sum","Min","Max","TopN","Rows","GroupBy","Count","Row","Bool"}
  Lims = {1,2}
  Vals <- ValsA
  MaxCnt = 2
  R = 2
  G = 1
  TR = 3
  TMax = 3
  ColsPer = 1
  Canon = TRUE
  DataSrc = "free"
INIT Init
NEXT Next
INVARIANT OrderIndependent
INVARIANT Emit
CHECK_DEADLOCK FALSE
