CONSTANTS
  NS = {"r"}
  NK = 3
  BatchSet = "two"
  Callers = {1}
  Ops = {"Translate","Restart","RApply","RStop","RResume","RCut"}
  Depth = 5
  Recheck = TRUE
  MaxSeq = 99
  MaxRestart = 99
  Sample = FALSE
INIT Init
NEXT Next
INVARIANT Emit
CHECK_DEADLOCK FALSE
