------------------------------ MODULE ApiGate ------------------------------
(***************************************************************************)
(* C23 - data and schema requests are refused while the cluster is not      *)
(* serving.                                                                 *)
(*                                                                         *)
(* The API surface as a table: every exported method of *API has a request  *)
(* class (Category); every method constant consulted through API.validate   *)
(* guards a request class (GateCat); Required(class, state) is the matrix   *)
(* of the property text:                                                    *)
(*                                                                         *)
(*   class                                     STARTING NORMAL DEGRADED RESIZING *)
(*   query import export schema antientropy     refuse   admit  admit    refuse  *)
(*   clustermsg coordinator transfer abort      free     free   free     admit   *)
(*   membership read                            free     free   free     refuse  *)
(*   info lifecycle (no gate)                   free     free   free     free    *)
(*                                                                         *)
(* "refuse" = the call returns the method-not-allowed error and the holder  *)
(* is untouched; "admit" = the call is not refused with that error;          *)
(* "free" = the property does not say (weakest reading: sentence 1 lists     *)
(* five classes, sentence 3 says what RESIZING serves; status/info/translate *)
(* endpoints are outside the request classes).                               *)
(*                                                                         *)
(* The module is also a small state machine (state, last call) whose Call    *)
(* action admits exactly the outcomes the matrix allows; TraceApiGate binds  *)
(* it to calls made on a real server and to a go/ast walk of api.go.         *)
(***************************************************************************)
EXTENDS Integers, Sequences, FiniteSets

States == {"STARTING", "NORMAL", "DEGRADED", "RESIZING"}

DataCats == {"query", "import", "export", "schema", "antientropy"}
ResizeCats == {"clustermsg", "coordinator", "transfer", "abort"}
OtherGated == {"membership", "read"}
Ungated == {"info", "lifecycle"}

\* every exported method of *API (api.go)
Category == [
    Query |-> "query",
    Import |-> "import", ImportValue |-> "import", ImportRoaring |-> "import",
    ExportCSV |-> "export",
    CreateIndex |-> "schema", DeleteIndex |-> "schema", CreateField |-> "schema", DeleteField |-> "schema",
    DeleteView |-> "schema", ApplySchema |-> "schema", DeleteAvailableShard |-> "schema",
    FragmentBlocks |-> "antientropy", FragmentBlockData |-> "antientropy",
    IndexAttrDiff |-> "antientropy", FieldAttrDiff |-> "antientropy",
    ClusterMessage |-> "clustermsg", SetCoordinator |-> "coordinator",
    FragmentData |-> "transfer", ResizeAbort |-> "abort",
    RemoveNode |-> "membership",
    Index |-> "read", Field |-> "read", Views |-> "read", ShardNodes |-> "read", RecalculateCaches |-> "read",
    Hosts |-> "info", Node |-> "info", Schema |-> "info", MaxShards |-> "info", AvailableShardsByIndex |-> "info",
    StatsWithTags |-> "info", LongQueryTime |-> "info", State |-> "info", Version |-> "info", Info |-> "info",
    GetTranslateData |-> "info", TranslateKeys |-> "info",
    Close |-> "lifecycle" ]

\* every apiMethod constant (api.go): the request class it guards
GateCat == [
    apiQuery |-> "query",
    apiImport |-> "import", apiImportValue |-> "import",
    apiExportCSV |-> "export",
    apiCreateIndex |-> "schema", apiDeleteIndex |-> "schema", apiCreateField |-> "schema", apiDeleteField |-> "schema",
    apiDeleteView |-> "schema", apiApplySchema |-> "schema", apiDeleteAvailableShard |-> "schema",
    apiFragmentBlocks |-> "antientropy", apiFragmentBlockData |-> "antientropy",
    apiIndexAttrDiff |-> "antientropy", apiFieldAttrDiff |-> "antientropy",
    apiClusterMessage |-> "clustermsg", apiSetCoordinator |-> "coordinator",
    apiFragmentData |-> "transfer", apiResizeAbort |-> "abort",
    apiRemoveNode |-> "membership",
    apiIndex |-> "read", apiField |-> "read", apiViews |-> "read", apiShardNodes |-> "read",
    apiRecalculateCaches |-> "read" ]

Methods == DOMAIN Category
Gates == DOMAIN GateCat

Required(cat, st) ==
    IF cat \in DataCats THEN (IF st \in {"STARTING", "RESIZING"} THEN "refuse" ELSE "admit")
    ELSE IF cat \in ResizeCats THEN (IF st = "RESIZING" THEN "admit" ELSE "free")
    ELSE IF cat \in OtherGated THEN (IF st = "RESIZING" THEN "refuse" ELSE "free")
    ELSE "free"

\* outcome of a call: out in {"refused", "ok", "err"} (err = any other error), touched = the
\* holder's digest changed across the call
CallOK(cat, st, out, touched) ==
    CASE Required(cat, st) = "refuse" -> out = "refused" /\ ~touched
      [] Required(cat, st) = "admit" -> out # "refused"
      [] OTHER -> TRUE

\* the state gate itself: validate(g) in state st answered ok (TRUE) or method-not-allowed
GateOK(g, st, ok) ==
    CASE Required(GateCat[g], st) = "refuse" -> ~ok
      [] Required(GateCat[g], st) = "admit" -> ok
      [] OTHER -> TRUE

\* source shape of an entry point: a method of a gated class consults the gate of ITS class,
\* as a guard (an error returns), before anything but tracing boilerplate; an ungated method
\* is of an ungated class
Boilerplate == {"tracing.StartSpanFromContext", "span.Finish", "span.LogKV"}
EntryOK(m, gate, guard, pre) ==
    IF Category[m] \in Ungated THEN TRUE
    ELSE /\ gate \in Gates
         /\ GateCat[gate] = Category[m]
         /\ guard
         /\ pre \subseteq Boilerplate

\* --------------------------------------------------------------------------
\* the property as a state machine
VARIABLES state, last

Init == state = "STARTING" /\ last = [m |-> "", st |-> "", out |-> "", touched |-> FALSE]

SetState(s) == state' = s /\ UNCHANGED last

Call(m, out, touched) ==
    /\ CallOK(Category[m], state, out, touched)
    /\ last' = [m |-> m, st |-> state, out |-> out, touched |-> touched]
    /\ UNCHANGED state

Next ==
    \/ \E s \in States : SetState(s)
    \/ \E m \in Methods : \E out \in {"refused", "ok", "err"} : \E t \in BOOLEAN : Call(m, out, t)

\* sentence 1 and 2
RefusedWhileNotServing ==
    (last.m # "" /\ Category[last.m] \in DataCats /\ last.st \in {"STARTING", "RESIZING"})
        => (last.out = "refused" /\ ~last.touched)
AdmittedWhileServing ==
    (last.m # "" /\ Category[last.m] \in DataCats /\ last.st \in {"NORMAL", "DEGRADED"})
        => last.out # "refused"
\* sentence 3: whatever was served (not refused) during RESIZING is of a resize class or ungated
OnlyResizeClassesServed ==
    (last.m # "" /\ last.st = "RESIZING" /\ last.out # "refused")
        => Category[last.m] \in (ResizeCats \cup Ungated)
\* the two tables agree: every gated class has a gate constant
TablesAgree ==
    /\ \A m \in Methods : Category[m] \notin Ungated => \E g \in Gates : GateCat[g] = Category[m]
    /\ \A g \in Gates : \E m \in Methods : Category[m] = GateCat[g]
=============================================================================
