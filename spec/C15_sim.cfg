CONSTANTS
  Mode = "c15"
  NCols = 6
  Window = FALSE
  Edge = 3
  NRows = 3
  NT = 3
  VAbs = 2
  Exist = TRUE
  Depth = 18
  MaxD = 3
  MaxArity = 3
  MaxStack = 3
  MaxBatch = 4
  MaxSeq = 2
  InitAll = 0
  Warm = 3
  ClassSet = {"push", "push2", "apply", "apply2", "unary", "set", "reset", "setother", "clear", "rowwrite", "import"}
  LeafKinds = {"row", "rowt", "cond", "empty"}
  Script = "none"
INIT Init
NEXT Next
INVARIANT Emit
CHECK_DEADLOCK FALSE
