------------------------------- MODULE Wire -------------------------------
(***************************************************************************)
(* C27 -- internal messages and responses survive encoding unchanged.      *)
(*                                                                         *)
(* One record set per message / request / response / result type the nodes *)
(* exchange (pilosa.Serializer, MarshalInternalMessage).  Field names are  *)
(* the Go struct field names, so the replay driver can build the Go value  *)
(* by reflection and can tell when a struct has a field this module does   *)
(* not know (stale spec => inconclusive run).                              *)
(*                                                                         *)
(* Value tokens (concretised by the driver according to the Go type):      *)
(*   strings  ""  "a"  "u" (a string with BMP and astral characters)       *)
(*   numbers  0 1 plain; 9 = largest value of the Go type; -1 plain;       *)
(*            -9 = smallest value of the (signed) Go type; other numbers   *)
(*            stand for themselves                                         *)
(*   NilP     a nil pointer (nil = empty: it must decode as the empty      *)
(*            struct or nil)                                               *)
(*   <<>>     nil or empty slice                                           *)
(* The property for every emitted value v of type T:                       *)
(*   Unmarshal(Marshal(v)) = v   (nil = empty), same through the type byte *)
(*   of MarshalInternalMessage for the broadcast messages.                 *)
(* Frame condition: the byte string a Marshal / MarshalInternalMessage     *)
(* action returns is a value; no later Marshal action (of another value or *)
(* of the same one) changes it.  The driver therefore also encodes the     *)
(* whole emitted set, types interleaved, keeps every byte string, and only *)
(* then decodes and compares each of them.                                 *)
(* A behaviour is one step [type |-> T, val |-> v].                        *)
(***************************************************************************)
EXTENDS Integers, Sequences, FiniteSets, TLC, Json

CONSTANTS Level   \* "full" | "quick": quick drops the one-field-at-a-time variations of the widest types

VARIABLES hist
vars == <<hist>>

S == {"", "a", "u"}
U == {0, 1, 9}
I == {0, 1, 9, -1, -9}
B == {TRUE, FALSE}
NilP == [isNil |-> TRUE]

(* one-field-at-a-time variation of base records over per-field domains   *)
Vary(bases, dom) ==
  bases \cup UNION {{[b EXCEPT ![f] = v] : b \in bases, v \in dom[f]} : f \in DOMAIN dom}

StrSeqs == {<<>>, <<"a">>, <<"a", "u", "">>}
USeqs   == {<<>>, <<0>>, <<1, 9>>, <<0, 1, 1048577, 9>>}
ISeqs   == {<<>>, <<-9>>, <<1, -1, 9>>}

---------------------------------------------------------------------------
(* cluster types                                                           *)
URI0 == [Scheme |-> "", Host |-> "", Port |-> 0]
URI1 == [Scheme |-> "a", Host |-> "u", Port |-> 9]
URI2 == [Scheme |-> "u", Host |-> "a", Port |-> 1]
URIs == {URI0, URI1, URI2}

Node0 == [ID |-> "", URI |-> URI0, IsCoordinator |-> FALSE, State |-> ""]
Node1 == [ID |-> "a", URI |-> URI1, IsCoordinator |-> TRUE, State |-> "u"]
Node2 == [ID |-> "u", URI |-> URI2, IsCoordinator |-> FALSE, State |-> "a"]
NodesSmall == {Node0, Node1, Node2}
NodeAll == [ID : S, URI : URIs, IsCoordinator : B, State : S]
NodePtrs == NodesSmall \cup {NilP}
NodeSeqs == {<<>>, <<Node1>>, <<Node2, Node0, Node1>>}

IndexOptionsAll == [Keys : B, TrackExistence : B]
IO00 == [Keys |-> FALSE, TrackExistence |-> FALSE]
IO11 == [Keys |-> TRUE, TrackExistence |-> TRUE]
IO10 == [Keys |-> TRUE, TrackExistence |-> FALSE]

FO0 == [Base |-> 0, BitDepth |-> 0, Min |-> 0, Max |-> 0, Keys |-> FALSE, NoStandardView |-> FALSE,
        CacheSize |-> 0, CacheType |-> "", Type |-> "", TimeQuantum |-> ""]
FO1 == [Base |-> 1, BitDepth |-> 1, Min |-> -1, Max |-> 1, Keys |-> TRUE, NoStandardView |-> TRUE,
        CacheSize |-> 1, CacheType |-> "a", Type |-> "a", TimeQuantum |-> "a"]
FO2 == [Base |-> -9, BitDepth |-> 9, Min |-> -9, Max |-> 9, Keys |-> FALSE, NoStandardView |-> TRUE,
        CacheSize |-> 9, CacheType |-> "u", Type |-> "u", TimeQuantum |-> "u"]
FODom == [Base |-> I, BitDepth |-> U, Min |-> I, Max |-> I, Keys |-> B, NoStandardView |-> B,
          CacheSize |-> U, CacheType |-> S, Type |-> S, TimeQuantum |-> S]
FieldOptionsSmall == {FO0, FO1, FO2}
FieldOptionsAll == IF Level = "full" THEN Vary({FO0, FO1, FO2}, FODom) ELSE Vary({FO0, FO1}, FODom)

View(n) == [Name |-> n]
FI0 == [Name |-> "", Options |-> FO0, Views |-> <<>>]
FI1 == [Name |-> "a", Options |-> FO1, Views |-> <<View("a"), View("u")>>]
FI2 == [Name |-> "u", Options |-> FO2, Views |-> <<View("")>>]
(* ShardWidth is a build constant reported by the HTTP schema endpoint only; it is not  *)
(* part of the exchanged value (always zero here)                                        *)
II0 == [Name |-> "", Options |-> IO00, Fields |-> <<>>, ShardWidth |-> 0]
II1 == [Name |-> "a", Options |-> IO11, Fields |-> <<FI1, FI2>>, ShardWidth |-> 0]
II2 == [Name |-> "u", Options |-> IO10, Fields |-> <<FI0>>, ShardWidth |-> 0]
Schema0 == [Indexes |-> <<>>]
Schema1 == [Indexes |-> <<II1>>]
Schema2 == [Indexes |-> <<II2, II0, II1>>]
SchemaPtrs == {Schema0, Schema1, Schema2, NilP}

FS(n, sh) == [Name |-> n, AvailableShards |-> sh]
IS0 == [Name |-> "", Fields |-> <<>>]
IS1 == [Name |-> "a", Fields |-> <<FS("a", <<0, 1, 1048577>>), FS("u", <<>>)>>]
IS2 == [Name |-> "u", Fields |-> <<FS("", <<9>>)>>]
IndexStatusSeqs == {<<>>, <<IS1>>, <<IS2, IS0, IS1>>}

NodeStatusAll == [Node : NodePtrs, Indexes : IndexStatusSeqs, Schema : SchemaPtrs]
NS1 == [Node |-> Node1, Indexes |-> <<IS1>>, Schema |-> Schema1]
NS2 == [Node |-> Node2, Indexes |-> <<IS2, IS0, IS1>>, Schema |-> Schema2]
NS0 == [Node |-> Node0, Indexes |-> <<>>, Schema |-> Schema0]
NodeStatusPtrs == {NS0, NS1, NS2, NilP}

ClusterStatusAll == [ClusterID : S, State : S, Nodes : NodeSeqs]
CS0 == [ClusterID |-> "", State |-> "", Nodes |-> <<>>]
CS1 == [ClusterID |-> "a", State |-> "u", Nodes |-> <<Node1>>]
CS2 == [ClusterID |-> "u", State |-> "a", Nodes |-> <<Node2, Node0, Node1>>]
ClusterStatusPtrs == {CS0, CS1, CS2, NilP}

RS(n, i, f, v, s) == [Node |-> n, Index |-> i, Field |-> f, View |-> v, Shard |-> s]
ResizeSourceSeqs == {<<>>, <<RS(Node1, "a", "u", "a", 9)>>,
                     <<RS(Node2, "u", "a", "", 1), RS(NilP, "", "", "u", 0), RS(Node1, "a", "a", "a", 1048577)>>}

RI0 == [JobID |-> 0, Node |-> Node0, Coordinator |-> Node0, Sources |-> <<>>, NodeStatus |-> NS0, ClusterStatus |-> CS0]
RI1 == [JobID |-> 9, Node |-> Node1, Coordinator |-> Node2, Sources |-> <<RS(Node1, "a", "u", "a", 9)>>,
        NodeStatus |-> NS1, ClusterStatus |-> CS1]
RIDom == [JobID |-> I, Node |-> NodePtrs, Coordinator |-> NodePtrs, Sources |-> ResizeSourceSeqs,
          NodeStatus |-> NodeStatusPtrs, ClusterStatus |-> ClusterStatusPtrs]
ResizeInstructionAll == Vary({RI0, RI1}, RIDom)

---------------------------------------------------------------------------
(* query results                                                           *)
AttrS(v) == [t |-> "s", v |-> v]
AttrI(v) == [t |-> "i", v |-> v]
AttrB(v) == [t |-> "b", v |-> v]
AttrF(v) == [t |-> "f", v |-> v]      \* float token: "f1" 1.5, "f2" -0.25, "f3" 3.0 (integral), "f9" the largest float
AttrN    == [t |-> "nil", v |-> 0]
NoAttrs  == [x \in {} |-> 0]
AttrMaps == {NoAttrs,
             "a" :> AttrS("u"),
             ("a" :> AttrI(-9)) @@ ("u" :> AttrB(TRUE)) @@ ("k" :> AttrF("f1")) @@ ("" :> AttrS("")),
             ("x" :> AttrF("f3")) @@ ("y" :> AttrI(9)) @@ ("z" :> AttrB(FALSE)) @@ ("w" :> AttrF("f9")),
             "n" :> AttrN}

Pair(id, k, c) == [ID |-> id, Key |-> k, Count |-> c]
PairsAll == [ID : U, Key : S, Count : U]
PairSeqs == {<<>>, <<Pair(1, "", 9)>>, <<Pair(9, "u", 1), Pair(0, "a", 0), Pair(1, "", 1)>>}

FieldRow(f, id, k) == [Field |-> f, RowID |-> id, RowKey |-> k]
(* a group member is identified by its row id or by its row key, never both *)
FieldRows == {FieldRow(f, id, "") : f \in S, id \in U} \cup {FieldRow(f, 0, k) : f \in S, k \in {"a", "u"}}
GC(g, c) == [Group |-> g, Count |-> c]
GroupCountSeqs == {<<>>, <<GC(<<>>, 0)>>, <<GC(<<FieldRow("a", 9, "")>>, 9)>>,
                   <<GC(<<FieldRow("a", 1, ""), FieldRow("u", 0, "u")>>, 1), GC(<<FieldRow("", 0, "a"), FieldRow("u", 9, "")>>, 9)>>}
                  \cup {<<GC(<<fr>>, 1)>> : fr \in FieldRows}

RowRes(c, k, a) == [kind |-> "Row", Columns |-> c, Keys |-> k, Attrs |-> a]
Results ==
       {RowRes(c, k, a) : c \in USeqs, k \in StrSeqs, a \in AttrMaps}
  \cup {[kind |-> "RowNil"]}
  \cup {[kind |-> "Pairs", list |-> p] : p \in PairSeqs}
  \cup {[kind |-> "Pair", pair |-> p] : p \in PairsAll}
  \cup {[kind |-> "ValCount", Val |-> v, Count |-> c] : v \in I, c \in I}
  \cup {[kind |-> "Uint64", n |-> n] : n \in U}
  \cup {[kind |-> "Bool", b |-> b] : b \in B}
  \cup {[kind |-> "RowIDs", ids |-> s] : s \in USeqs}
  \cup {[kind |-> "GroupCounts", groups |-> g] : g \in GroupCountSeqs}
  \cup {[kind |-> "RowIdentifiers", Rows |-> r, Keys |-> k] : r \in USeqs, k \in StrSeqs}
  \cup {[kind |-> "Nil"]}

CAS(id, k, a) == [ID |-> id, Key |-> k, Attrs |-> a]
CASSeqs == {<<>>, <<CAS(9, "", "a" :> AttrS("u"))>>,
            <<CAS(0, "u", NoAttrs), CAS(1, "a", ("a" :> AttrI(-9)) @@ ("u" :> AttrB(TRUE)) @@ ("k" :> AttrF("f1")) @@ ("" :> AttrS("")))>>}

R1 == RowRes(<<0, 1, 1048577, 9>>, <<"a", "u", "">>, "a" :> AttrS("u"))
QueryResponseAll ==
       {[Results |-> <<r>>, ColumnAttrSets |-> <<>>, Err |-> ""] : r \in Results}
  \cup {[Results |-> rs, ColumnAttrSets |-> cs, Err |-> e] :
          rs \in {<<>>, <<R1>>,
                  <<[kind |-> "Nil"], R1, [kind |-> "Uint64", n |-> 9], [kind |-> "Pairs", list |-> <<>>],
                    [kind |-> "Bool", b |-> TRUE], [kind |-> "Pair", pair |-> Pair(1, "u", 9)], [kind |-> "RowNil"],
                    [kind |-> "ValCount", Val |-> -9, Count |-> 1], [kind |-> "RowIDs", ids |-> <<1, 9>>],
                    [kind |-> "GroupCounts", groups |-> <<GC(<<FieldRow("a", 9, "")>>, 9)>>],
                    [kind |-> "RowIdentifiers", Rows |-> <<1>>, Keys |-> <<"u">>]>>},
          cs \in CASSeqs, e \in S}

(* Index travels in the URL path of the request, not in the body (always empty here) *)
QueryRequestAll == [Index : {""}, Query : S, Shards : {<<>>, <<0>>, <<1, 9>>}, ColumnAttrs : B,
                    ExcludeRowAttrs : B, ExcludeColumns : B, Remote : B]

---------------------------------------------------------------------------
(* imports and block data                                                  *)
IR0 == [Index |-> "", Field |-> "", Shard |-> 0, RowIDs |-> <<>>, ColumnIDs |-> <<>>, RowKeys |-> <<>>,
        ColumnKeys |-> <<>>, Timestamps |-> <<>>]
IR1 == [Index |-> "a", Field |-> "u", Shard |-> 9, RowIDs |-> <<1, 9>>, ColumnIDs |-> <<0, 1, 1048577, 9>>,
        RowKeys |-> <<"a", "u", "">>, ColumnKeys |-> <<"a">>, Timestamps |-> <<1, -1, 9>>]
IRDom == [Index |-> S, Field |-> S, Shard |-> U, RowIDs |-> USeqs, ColumnIDs |-> USeqs, RowKeys |-> StrSeqs,
          ColumnKeys |-> StrSeqs, Timestamps |-> ISeqs]
ImportRequestAll == Vary({IR0, IR1}, IRDom)

IV0 == [Index |-> "", Field |-> "", Shard |-> 0, ColumnIDs |-> <<>>, ColumnKeys |-> <<>>, Values |-> <<>>]
IV1 == [Index |-> "u", Field |-> "a", Shard |-> 1, ColumnIDs |-> <<1, 9>>, ColumnKeys |-> <<"a", "u", "">>, Values |-> <<1, -1, 9>>]
IVDom == [Index |-> S, Field |-> S, Shard |-> U, ColumnIDs |-> USeqs, ColumnKeys |-> StrSeqs, Values |-> ISeqs]
ImportValueRequestAll == Vary({IV0, IV1}, IVDom)

Bytes == {<<>>, <<0>>, <<1, 255, 0, 58, 48>>}
ViewMaps == {[x \in {} |-> 0]} \cup {"" :> b : b \in Bytes} \cup {("a" :> <<1, 255, 0, 58, 48>>) @@ ("u" :> <<>>) @@ ("standard_2019" :> <<0>>)}
ImportRoaringRequestAll == [Clear : B, Views : ViewMaps]

---------------------------------------------------------------------------
Types == {"CreateShardMessage", "CreateIndexMessage", "DeleteIndexMessage", "CreateFieldMessage",
          "DeleteFieldMessage", "DeleteAvailableShardMessage", "CreateViewMessage", "DeleteViewMessage",
          "ClusterStatus", "ResizeInstruction", "ResizeInstructionComplete", "SetCoordinatorMessage",
          "UpdateCoordinatorMessage", "NodeStateMessage", "RecalculateCaches", "NodeEvent", "NodeStatus",
          "Node", "QueryRequest", "QueryResponse", "ImportRequest", "ImportValueRequest",
          "ImportRoaringRequest", "ImportResponse", "BlockDataRequest", "BlockDataResponse",
          "TranslateKeysRequest", "TranslateKeysResponse"}

Values(t) ==
  CASE t = "CreateShardMessage" -> [Index : S, Field : S, Shard : U]
    [] t = "CreateIndexMessage" -> [Index : S, Meta : IndexOptionsAll \cup {NilP}]
    [] t = "DeleteIndexMessage" -> [Index : S]
    [] t = "CreateFieldMessage" -> [Index : {"", "a"}, Field : {"", "u"}, Meta : FieldOptionsAll \cup {NilP}]
    [] t = "DeleteFieldMessage" -> [Index : S, Field : S]
    [] t = "DeleteAvailableShardMessage" -> [Index : S, Field : S, ShardID : U]
    [] t = "CreateViewMessage" -> [Index : S, Field : S, View : S]
    [] t = "DeleteViewMessage" -> [Index : S, Field : S, View : S]
    [] t = "ClusterStatus" -> ClusterStatusAll
    [] t = "ResizeInstruction" -> ResizeInstructionAll
    [] t = "ResizeInstructionComplete" -> [JobID : I, Node : NodePtrs, Error : S]
    [] t = "SetCoordinatorMessage" -> [New : NodePtrs]
    [] t = "UpdateCoordinatorMessage" -> [New : NodePtrs]
    [] t = "NodeStateMessage" -> [NodeID : S, State : S]
    [] t = "RecalculateCaches" -> {[none |-> TRUE]}
    [] t = "NodeEvent" -> [Event : {0, 1, 2}, Node : NodePtrs]
    [] t = "NodeStatus" -> NodeStatusAll
    [] t = "Node" -> NodeAll
    [] t = "QueryRequest" -> QueryRequestAll
    [] t = "QueryResponse" -> QueryResponseAll
    [] t = "ImportRequest" -> ImportRequestAll
    [] t = "ImportValueRequest" -> ImportValueRequestAll
    [] t = "ImportRoaringRequest" -> ImportRoaringRequestAll
    [] t = "ImportResponse" -> [Err : S]
    [] t = "BlockDataRequest" -> [Index : S, Field : S, View : S, Shard : U, Block : U]
    [] t = "BlockDataResponse" -> [RowIDs : USeqs, ColumnIDs : USeqs]
    [] t = "TranslateKeysRequest" -> [Index : S, Field : S, Keys : StrSeqs]
    [] t = "TranslateKeysResponse" -> [IDs : USeqs]

Init == hist = <<>>

Send == \E t \in Types : \E v \in Values(t) : hist' = <<[type |-> t, val |-> v]>>

Next == Len(hist) < 1 /\ Send

Spec == Init /\ [][Next]_vars

---------------------------------------------------------------------------
TypeOK == Len(hist) <= 1 /\ (Len(hist) = 1 => hist[1].type \in Types)

(* fields that travel outside the encoded value (see above); everything    *)
(* else must take at least two values over the emitted set of its type     *)
OutOfBand == {<<"QueryRequest", "Index">>}

EveryFieldVaries ==
  \A t \in Types \ {"RecalculateCaches"} :
    \A v \in Values(t) : \A f \in DOMAIN v :
      <<t, f>> \in OutOfBand \/ \E w \in Values(t) : f \in DOMAIN w /\ w[f] # v[f]

ASSUME EveryFieldVaries

Emit == Len(hist) = 1 => PrintT(<<"BEH", ToJson(hist)>>)
=============================================================================
