package bsib

import (
	"context"
	"encoding/json"
	"fmt"
	"math/rand"
	"os"
	"runtime"
	"sort"
	"strings"
	"sync/atomic"
	"testing"
	"time"

	"github.com/pilosa/pilosa"
	"github.com/pilosa/pilosa/roaring"
	"github.com/pilosa/pilosa/test"

	"verif/harness/behav"
)

// ---------------------------------------------------------------------------------------
// refinement (C08)

// SProfile maps the abstract rows, columns, time points and wide values of spec/Schema.tla.
type SProfile struct {
	Name    string    `json:"name"`
	Cols    []uint64  `json:"cols"`     // abstract column 0..2 -> id (three different shards)
	ColKeys []string  `json:"col_keys"` // ... -> key (index with keys)
	RowIDs  []uint64  `json:"row_ids"`  // abstract row 1..2 -> id (index 0 unused)
	RowKeys []string  `json:"row_keys"`
	Wide    []int64   `json:"wide"`     // abstract wide value -2..2 -> value
	WideMin int64     `json:"wide_min"` // bounds of the wide field
	WideMax int64     `json:"wide_max"`
}

const tfmt = "2006-01-02T15:04"

const maxI64 = int64(^uint64(0) >> 1)

// five instants T0 < T1 < T2 < T3 < T4 aligned to the finest unit of the quantum
func timesOf(quantum string) []string {
	switch quantum[len(quantum)-1] {
	case 'Y':
		return []string{"2016-01-01T00:00", "2017-01-01T00:00", "2018-01-01T00:00", "2019-01-01T00:00", "2020-01-01T00:00"}
	case 'M':
		return []string{"2018-11-01T00:00", "2018-12-01T00:00", "2019-01-01T00:00", "2019-02-01T00:00", "2019-03-01T00:00"}
	case 'D':
		return []string{"2018-12-30T00:00", "2018-12-31T00:00", "2019-01-01T00:00", "2019-01-02T00:00", "2019-01-03T00:00"}
	default:
		return []string{"2018-12-31T21:00", "2018-12-31T22:00", "2018-12-31T23:00", "2019-01-01T00:00", "2019-01-01T01:00"}
	}
}

func makeSProfile(seed int64, i int) *SProfile {
	r := rand.New(rand.NewSource(seed*1000003 + int64(i)*104729 + 5))
	sh := shardTriples[r.Intn(len(shardTriples))]
	p := &SProfile{ColKeys: []string{"ca", "cb", "cc", "cd"}, RowKeys: []string{"", "ra", "rb", "rc"}}
	for k := 0; k < 3; k++ {
		p.Cols = append(p.Cols, sh[k]*SW+colOffsets[r.Intn(len(colOffsets))])
	}
	p.Cols = append(p.Cols, sh[r.Intn(3)]*SW+555555) // column 3: first used after a restart
	p.RowIDs = [][]uint64{{0, 1, 2, 4}, {0, 3, 70, 71}, {0, 0, 5, 1}, {0, 9, 10, 8}}[r.Intn(4)]
	wides := [][]int64{
		{-(int64(1)<<62 + 5), -(int64(1) << 40), 0, int64(1)<<33 + 1, int64(1)<<62 + 7},
		{-(maxI64), -3, 0, 4, maxI64},
		{-(int64(1) << 50), -1, 0, 1, int64(1) << 61},
	}
	p.Wide = wides[r.Intn(len(wides))]
	p.WideMin, p.WideMax = p.Wide[0], p.Wide[4]
	if r.Intn(2) == 0 && p.WideMin > -(maxI64) {
		p.WideMin, p.WideMax = -(maxI64), maxI64
	}
	p.Name = fmt.Sprintf("cols%v/rows%v/wide%d", p.Cols, p.RowIDs[1:], p.Wide[4])
	return p
}

// fcfg is a field configuration record of the spec.
type fcfg struct {
	Type, Cache, Bounds, Quantum string
	Size                         int
	NoStd, Keys                  bool
}

func fcfgOf(v interface{}) fcfg {
	m := behav.ToMap(v)
	s := func(k string) string { x, _ := m[k].(string); return x }
	b := func(k string) bool { x, _ := m[k].(bool); return x }
	return fcfg{Type: s("type"), Cache: s("cache"), Bounds: s("bounds"), Quantum: s("quantum"), Size: behav.ToInt(m["size"]), NoStd: b("nostd"), Keys: b("keys")}
}

type icfg struct{ Keys, Exist bool }

func icfgOf(v interface{}) icfg {
	m := behav.ToMap(v)
	k, _ := m["keys"].(bool)
	e, _ := m["exist"].(bool)
	return icfg{k, e}
}

func (p *SProfile) bounds(b string) (int64, int64) {
	switch b {
	case "zero":
		return 0, 0
	case "sym":
		return -5, 5
	case "pos":
		return 3, 9
	case "neg":
		return -9, -3
	case "k":
		return 0, 1023
	}
	return p.WideMin, p.WideMax
}

// val maps an abstract integer value of the field's bounds.
func (p *SProfile) val(b string, a int) int64 {
	if b == "wide" {
		return p.Wide[a+2]
	}
	return int64(a)
}

var valsOf = map[string][]int{"zero": {0}, "sym": {-5, -1, 0, 1, 5}, "pos": {3, 4, 9}, "neg": {-9, -4, -3}, "k": {0, 1, 2, 512, 1023}, "wide": {-2, -1, 0, 1, 2}}

func (p *SProfile) fieldOpts(c fcfg) []pilosa.FieldOption {
	var o []pilosa.FieldOption
	switch c.Type {
	case "set":
		o = append(o, pilosa.OptFieldTypeSet(c.Cache, uint32(c.Size)))
	case "mutex":
		o = append(o, pilosa.OptFieldTypeMutex(c.Cache, uint32(c.Size)))
	case "int":
		lo, hi := p.bounds(c.Bounds)
		o = append(o, pilosa.OptFieldTypeInt(lo, hi))
	case "time":
		o = append(o, pilosa.OptFieldTypeTime(pilosa.TimeQuantum(c.Quantum), c.NoStd))
	case "bool":
		o = append(o, pilosa.OptFieldTypeBool())
	}
	if c.Keys {
		o = append(o, pilosa.OptFieldKeys())
	}
	return o
}

// ---------------------------------------------------------------------------------------
// one behaviour on a server

var c08Seq int64

type c08run struct {
	c    *C08Case
	m    *test.Command
	p    *SProfile
	ix   string // index under test
	jx   string // auxiliary index
	ic   icfg
	fc   fcfg
	pos  int    // next step
	pre  map[string]string
	last behav.Step // record whose projection is current
	log  []string
	mm   *mismatch
	done bool
	res  *behav.Result
}

// C08Case is a self-contained replay.
type C08Case struct {
	Prop string          `json:"prop"`
	Beh  behav.Behaviour `json:"beh"`
	Prof *SProfile       `json:"profile"`
	Seed int64           `json:"seed"`
	Idx  int             `json:"idx"`
}

func (r *c08run) api() *pilosa.API { return r.m.API }

func (r *c08run) fail(step int, op, kind, sym, text string) {
	if r.mm == nil {
		r.mm = &mismatch{Step: step, Op: op, Kind: kind, Path: r.fc.Type, Symptom: sym,
			Text: text + " | field " + fmt.Sprintf("%+v", r.fc) + " index " + fmt.Sprintf("%+v", r.ic) + " | profile " + r.p.Name + " | requests: " + lastLog(r.log, 14)}
	}
	r.done = true
}

func (r *c08run) query(ix, pql string) ([]interface{}, error) {
	r.log = append(r.log, pql)
	resp, err := r.api().Query(context.Background(), &pilosa.QueryRequest{Index: ix, Query: pql})
	if err != nil {
		return nil, err
	}
	return resp.Results, nil
}

func (r *c08run) colArg(c int) string {
	if r.ic.Keys {
		return fmt.Sprintf("%q", r.p.ColKeys[c])
	}
	return fmt.Sprint(r.p.Cols[c])
}

func (r *c08run) rowArg(row int) string {
	if r.fc.Type == "bool" {
		return fmt.Sprint(row == 2)
	}
	if r.fc.Keys {
		return fmt.Sprintf("%q", r.p.RowKeys[row])
	}
	return fmt.Sprint(r.p.RowIDs[row])
}

func (r *c08run) rowID(row int) uint64 {
	if r.fc.Type == "bool" {
		return uint64(row - 1)
	}
	return r.p.RowIDs[row]
}

func (r *c08run) timeOf(t int) string { return timesOf(r.fc.Quantum)[t] }

func (r *c08run) createIndex() error {
	ctx := context.Background()
	if _, err := r.api().CreateIndex(ctx, r.ix, pilosa.IndexOptions{Keys: r.ic.Keys, TrackExistence: r.ic.Exist}); err != nil {
		return fmt.Errorf("CreateIndex: %v", err)
	}
	return r.createF()
}

func (r *c08run) createF() error {
	r.log = append(r.log, fmt.Sprintf("CreateField(f, %+v)", r.fc))
	if _, err := r.api().CreateField(context.Background(), r.ix, "f", r.p.fieldOpts(r.fc)...); err != nil {
		return fmt.Errorf("CreateField f %+v: %v", r.fc, err)
	}
	return nil
}

// importBits sends bits through API.Import (one request per bit: the spec applies them in order).
func (r *c08run) importBits(bits [][]int) error {
	for _, b := range bits {
		row, c, t := b[0], b[1], b[2]
		req := &pilosa.ImportRequest{Index: r.ix, Field: "f"}
		if r.ic.Keys {
			req.ColumnKeys = []string{r.p.ColKeys[c]}
		} else {
			req.ColumnIDs = []uint64{r.p.Cols[c]}
			req.Shard = r.p.Cols[c] / SW
		}
		if r.fc.Keys && r.fc.Type != "bool" {
			req.RowKeys = []string{r.p.RowKeys[row]}
		} else {
			req.RowIDs = []uint64{r.rowID(row)}
		}
		if t > 0 {
			ts, err := time.Parse(tfmt, r.timeOf(t))
			if err != nil {
				panic(err)
			}
			req.Timestamps = []int64{ts.UTC().UnixNano()}
		}
		r.log = append(r.log, fmt.Sprintf("Import(%+v)", *req))
		if err := r.api().Import(context.Background(), req); err != nil {
			return err
		}
	}
	return nil
}

func (r *c08run) importVals(pairs [][]int) error {
	for _, cv := range pairs {
		req := &pilosa.ImportValueRequest{Index: r.ix, Field: "f", Values: []int64{r.p.val(r.fc.Bounds, cv[1])}}
		if r.ic.Keys {
			req.ColumnKeys = []string{r.p.ColKeys[cv[0]]}
		} else {
			req.ColumnIDs = []uint64{r.p.Cols[cv[0]]}
			req.Shard = r.p.Cols[cv[0]] / SW
		}
		r.log = append(r.log, fmt.Sprintf("ImportValue(%+v)", *req))
		if err := r.api().ImportValue(context.Background(), req); err != nil {
			return err
		}
	}
	return nil
}

func toIntLists(v interface{}) [][]int {
	var out [][]int
	for _, e := range behav.ToList(v) {
		out = append(out, behav.ToInts(e))
	}
	return out
}

// exec performs one step record (not Restart).
func (r *c08run) exec(i int, st behav.Step) {
	op := st.Str("op")
	r.res.Cover("c08:op:" + op)
	ctx := context.Background()
	var err error
	q := ""
	switch op {
	case "init":
		proj := behav.ToMap(st["st"])
		r.ic, r.fc = icfgOf(proj["icfg"]), fcfgOf(proj["fcfg"])
		r.res.Cover("c08:type:" + r.fc.Type)
		err = r.createIndex()
	case "SetBit":
		q = fmt.Sprintf("Set(%s, f=%s)", r.colArg(st.Int("c")), r.rowArg(st.Int("r")))
		if t := st.Int("t"); t > 0 {
			q = fmt.Sprintf("Set(%s, f=%s, %s)", r.colArg(st.Int("c")), r.rowArg(st.Int("r")), r.timeOf(t))
		}
	case "ClearBit":
		q = fmt.Sprintf("Clear(%s, f=%s)", r.colArg(st.Int("c")), r.rowArg(st.Int("r")))
	case "Store":
		q = fmt.Sprintf("Store(Row(f=%s), f=%s)", r.rowArg(st.Int("rs")), r.rowArg(st.Int("rd")))
	case "ClearRow":
		q = fmt.Sprintf("ClearRow(f=%s)", r.rowArg(st.Int("r")))
	case "SnapSet":
		// a Set that pushes the fragment's op count over MaxOpN: the fragment snapshots
		// (fragments the Set itself creates keep the default MaxOpN)
		pilosa.VerifDurSetMaxOpN(r.m.Server.Holder(), 0)
		_, err = r.query(r.ix, fmt.Sprintf("Set(%s, f=%s)", r.colArg(st.Int("c")), r.rowArg(st.Int("r"))))
		pilosa.VerifDurAwaitSnapshots(r.m.Server.Holder())
		pilosa.VerifDurSetMaxOpN(r.m.Server.Holder(), 10000)
	case "ImportBits":
		err = r.importBits(toIntLists(st["b"]))
	case "SetVal":
		q = fmt.Sprintf("Set(%s, f=%d)", r.colArg(st.Int("c")), r.p.val(r.fc.Bounds, st.Int("v")))
	case "ImportVals":
		err = r.importVals(toIntLists(st["b"]))
	case "SetRowAttr":
		ra := r.rowArg(st.Int("r"))
		if r.fc.Type == "bool" {
			ra = fmt.Sprint(r.rowID(st.Int("r"))) // the rows of a bool field are 0 and 1
		}
		q = fmt.Sprintf("SetRowAttrs(f, %s, x=%d)", ra, st.Int("a"))
	case "SetColAttr":
		q = fmt.Sprintf("SetColumnAttrs(%s, y=%d)", r.colArg(st.Int("c")), st.Int("a"))
	case "CreateG":
		_, err = r.api().CreateField(ctx, r.ix, "g", pilosa.OptFieldTypeSet(pilosa.CacheTypeRanked, 100))
	case "DeleteG":
		err = r.api().DeleteField(ctx, r.ix, "g")
	case "SetG":
		q = fmt.Sprintf("Set(%s, g=1)", r.colArg(st.Int("c")))
	case "AddRemote":
		var f *pilosa.Field
		if f, err = r.api().Field(ctx, r.ix, "f"); err == nil {
			r.log = append(r.log, fmt.Sprintf("Field.AddRemoteAvailableShards(%d)", st.Int("s")))
			err = f.AddRemoteAvailableShards(roaring.NewBitmap(uint64(st.Int("s"))))
		}
	case "DelRemote":
		r.log = append(r.log, fmt.Sprintf("API.DeleteAvailableShard(%d)", st.Int("s")))
		err = r.api().DeleteAvailableShard(ctx, r.ix, "f", uint64(st.Int("s")))
	case "CreateJ":
		if _, err = r.api().CreateIndex(ctx, r.jx, pilosa.IndexOptions{}); err == nil {
			if _, err = r.api().CreateField(ctx, r.jx, "h", pilosa.OptFieldTypeSet(pilosa.CacheTypeLRU, 7)); err == nil {
				_, err = r.query(r.jx, "Set(5, h=2)")
			}
		}
	case "DeleteJ":
		err = r.api().DeleteIndex(ctx, r.jx)
	case "RecreateF":
		r.log = append(r.log, "DeleteField(f)")
		if err = r.api().DeleteField(ctx, r.ix, "f"); err == nil {
			r.fc = fcfgOf(st["cfg"])
			err = r.createF()
		}
	case "RecreateI":
		r.log = append(r.log, "DeleteIndex")
		if err = r.api().DeleteIndex(ctx, r.ix); err == nil {
			r.ic, r.fc = icfgOf(st["icfg"]), fcfgOf(st["cfg"])
			err = r.createIndex()
		}
	default:
		panic("unknown op " + op)
	}
	if err == nil && q != "" {
		_, err = r.query(r.ix, q)
	}
	if err != nil {
		r.fail(i, op, "write", "error", err.Error())
		return
	}
	r.last = st
	if txt, kind := r.specCheck(behav.ToMap(st["st"])); txt != "" {
		r.fail(i, op, kind, "wrong_state", txt)
	}
}

// ---------------------------------------------------------------------------------------
// projection

func js(v interface{}) string {
	b, err := json.Marshal(v)
	if err != nil {
		return "marshal error: " + err.Error()
	}
	return string(b)
}

// rowItems returns the columns of a row result as sorted strings (ids or keys).
func (r *c08run) rowItems(v interface{}) ([]string, map[string]interface{}, error) {
	row, ok := v.(*pilosa.Row)
	if !ok || row == nil {
		return nil, nil, fmt.Errorf("result is %T, not a row", v)
	}
	var out []string
	if r.ic.Keys {
		out = append(out, row.Keys...)
	} else {
		for _, c := range row.Columns() {
			out = append(out, fmt.Sprint(c))
		}
	}
	sort.Strings(out)
	return out, row.Attrs, nil
}

func (r *c08run) wantCols(abs []int) []string {
	var out []string
	for _, c := range abs {
		if r.ic.Keys {
			out = append(out, r.p.ColKeys[c])
		} else {
			out = append(out, fmt.Sprint(r.p.Cols[c]))
		}
	}
	sort.Strings(out)
	return out
}

func sameStrings(a, b []string) bool {
	if len(a) != len(b) {
		return false
	}
	for i := range a {
		if a[i] != b[i] {
			return false
		}
	}
	return true
}

func num(v interface{}) (int64, bool) {
	switch x := v.(type) {
	case int64:
		return x, true
	case int:
		return int64(x), true
	case uint64:
		return int64(x), true
	case float64:
		return int64(x), true
	}
	return 0, false
}

// specCheck compares the server with the projection the specification computed; it returns
// a description of the first difference and the sub-check it belongs to.
func (r *c08run) specCheck(st map[string]interface{}) (string, string) {
	ctx := context.Background()
	ic, fc := icfgOf(st["icfg"]), fcfgOf(st["fcfg"])
	// --- schema and options as reported by the API
	var ii *pilosa.IndexInfo
	hasJ := false
	for _, x := range r.api().Schema(ctx) {
		if x.Name == r.ix {
			ii = x
		}
		if x.Name == r.jx {
			hasJ = true
		}
	}
	if ii == nil {
		return "index missing from the schema", "schema"
	}
	if ii.Options.Keys != ic.Keys || ii.Options.TrackExistence != ic.Exist {
		return fmt.Sprintf("index options %+v, want %+v", ii.Options, ic), "schema:index"
	}
	wantJ, _ := st["hasJ"].(bool)
	if hasJ != wantJ {
		return fmt.Sprintf("auxiliary index present=%v, want %v", hasJ, wantJ), "schema:index2"
	}
	var fo *pilosa.FieldOptions
	hasG := false
	for _, f := range ii.Fields {
		switch f.Name {
		case "f":
			o := f.Options
			fo = &o
		case "g":
			hasG = true
		default:
			return "unexpected field " + f.Name + " in the schema", "schema:fields"
		}
	}
	wantG, _ := st["hasG"].(bool)
	if hasG != wantG {
		return fmt.Sprintf("field g present=%v, want %v", hasG, wantG), "schema:fields"
	}
	if fo == nil {
		return "field f missing from the schema", "schema:fields"
	}
	bad := func(what string, got, want interface{}) (string, string) {
		return fmt.Sprintf("field option %s = %v, want %v (reported options %+v)", what, got, want, *fo), "schema:" + what
	}
	if fo.Type != fc.Type {
		return bad("type", fo.Type, fc.Type)
	}
	if fo.Keys != fc.Keys {
		return bad("keys", fo.Keys, fc.Keys)
	}
	switch fc.Type {
	case "set", "mutex":
		if fo.CacheType != fc.Cache {
			return bad("cacheType", fo.CacheType, fc.Cache)
		}
		if fc.Cache != "none" && int(fo.CacheSize) != fc.Size {
			return bad("cacheSize", fo.CacheSize, fc.Size)
		}
	case "int":
		lo, hi := r.p.bounds(fc.Bounds)
		if fo.Min != lo || fo.Max != hi {
			return bad("min/max", fmt.Sprint(fo.Min, ",", fo.Max), fmt.Sprint(lo, ",", hi))
		}
	case "time":
		if string(fo.TimeQuantum) != fc.Quantum {
			return bad("timeQuantum", fo.TimeQuantum, fc.Quantum)
		}
		if fo.NoStandardView != fc.NoStd {
			return bad("noStandardView", fo.NoStandardView, fc.NoStd)
		}
	}
	// --- data
	if fc.Type == "int" {
		want := map[int][]int{}
		var nn []int
		for _, cv := range toIntLists(st["vals"]) {
			want[cv[1]] = append(want[cv[1]], cv[0])
			nn = append(nn, cv[0])
		}
		q := "Row(f != null) Sum(field=f) Min(field=f) Max(field=f)"
		for _, a := range valsOf[fc.Bounds] {
			q += fmt.Sprintf(" Row(f == %d)", r.p.val(fc.Bounds, a))
		}
		out, err := r.query(r.ix, q)
		if err != nil {
			return q + ": " + err.Error(), "values"
		}
		got, _, err := r.rowItems(out[0])
		if err != nil || !sameStrings(got, r.wantCols(nn)) {
			return fmt.Sprintf("Row(f != null) = %v (%v), want %v", got, err, r.wantCols(nn)), "values:notnull"
		}
		agg := behav.ToMap(st["agg"])
		for k, name := range []string{"sum", "min", "max"} {
			vc := behav.ToInts(agg[name])
			w := pilosa.ValCount{Count: int64(vc[1])}
			if name == "sum" {
				for _, cv := range toIntLists(st["vals"]) {
					w.Val += r.p.val(fc.Bounds, cv[1])
				}
			} else if vc[1] > 0 {
				w.Val = r.p.val(fc.Bounds, vc[0])
			}
			g, bad := valCount(out[1+k])
			if bad != "" || g.Count != w.Count || (w.Count > 0 && g.Val != w.Val) {
				return fmt.Sprintf("%s(field=f) = %+v %s, want %+v", name, g, bad, w), "values:" + name
			}
		}
		for k, a := range valsOf[fc.Bounds] {
			got, _, err := r.rowItems(out[4+k])
			if err != nil || !sameStrings(got, r.wantCols(want[a])) {
				return fmt.Sprintf("Row(f == %d) = %v (%v), want %v", r.p.val(fc.Bounds, a), got, err, r.wantCols(want[a])), "values:eq"
			}
		}
	} else {
		rows := behav.ToList(st["rows"])
		trows := behav.ToList(st["trows"])
		rattr := behav.ToInts(st["rattr"])
		nrows := 3
		if fc.Type == "bool" {
			nrows = 2
		}
		for row := 1; row <= nrows; row++ {
			if row == 3 && rattr[2] == 0 && len(behav.ToInts(rows[2])) == 0 &&
				len(behav.ToInts(behav.ToList(trows[2])[0])) == 0 && len(behav.ToInts(behav.ToList(trows[2])[1])) == 0 {
				// row 3 is first named after a restart: asking for it earlier would create
				// its key (and hide a translation store that forgot its sequence)
				continue
			}
			q := fmt.Sprintf("Row(f=%s)", r.rowArg(row))
			if fc.Type == "time" {
				ts := timesOf(fc.Quantum)
				q += fmt.Sprintf(" Row(f=%s, from='%s', to='%s') Row(f=%s, from='%s', to='%s')", r.rowArg(row), ts[1], ts[2], r.rowArg(row), ts[2], ts[3])
			}
			out, err := r.query(r.ix, q)
			if err != nil {
				return q + ": " + err.Error(), "rows"
			}
			got, attrs, err := r.rowItems(out[0])
			want := r.wantCols(behav.ToInts(rows[row-1]))
			if err != nil || !sameStrings(got, want) {
				return fmt.Sprintf("Row(f=%s) = %v (%v), want %v", r.rowArg(row), got, err, want), "rows:standard"
			}
			x, has := attrs["x"]
			xv, _ := num(x)
			if wa := rattr[row-1]; (wa == 0 && has) || (wa != 0 && (!has || xv != int64(wa))) {
				return fmt.Sprintf("Row(f=%s) attrs = %v, want x=%d", r.rowArg(row), attrs, wa), "rowattrs"
			}
			if fc.Type == "time" {
				tr := behav.ToList(trows[row-1])
				for t := 1; t <= 2; t++ {
					got, _, err := r.rowItems(out[t])
					want := r.wantCols(behav.ToInts(tr[t-1]))
					if err != nil || !sameStrings(got, want) {
						return fmt.Sprintf("Row(f=%s) at time point %d = %v (%v), want %v", r.rowArg(row), t, got, err, want), "rows:time"
					}
				}
			}
		}
	}
	// --- existence, auxiliary field and index
	if ic.Exist {
		out, err := r.query(r.ix, "Not(Union())")
		if err != nil {
			return "Not(Union()): " + err.Error(), "existence"
		}
		got, _, err := r.rowItems(out[0])
		want := r.wantCols(behav.ToInts(st["ex"]))
		if err != nil || !sameStrings(got, want) {
			return fmt.Sprintf("existing columns Not(Union()) = %v (%v), want %v", got, err, want), "existence"
		}
	}
	if wantG {
		out, err := r.query(r.ix, "Row(g=1)")
		if err != nil {
			return "Row(g=1): " + err.Error(), "aux"
		}
		got, _, err := r.rowItems(out[0])
		want := r.wantCols(behav.ToInts(st["gcols"]))
		if err != nil || !sameStrings(got, want) {
			return fmt.Sprintf("Row(g=1) = %v (%v), want %v", got, err, want), "aux"
		}
	}
	if wantJ {
		out, err := r.query(r.jx, "Row(h=2)")
		if err != nil {
			return "Row(h=2): " + err.Error(), "aux"
		}
		if row, ok := out[0].(*pilosa.Row); !ok || fmt.Sprint(row.Columns()) != "[5]" {
			return fmt.Sprintf("auxiliary index Row(h=2) = %v, want [5]", out[0]), "aux"
		}
	}
	// --- shards known to hold data elsewhere
	if fld, err := r.api().Field(ctx, r.ix, "f"); err != nil {
		return "API.Field: " + err.Error(), "schema"
	} else {
		av := fld.AvailableShards()
		want := map[uint64]bool{}
		for _, x := range behav.ToInts(st["remote"]) {
			want[uint64(x)] = true
		}
		for _, x := range []uint64{8, 9} {
			if av.Contains(x) != want[x] {
				return fmt.Sprintf("Field.AvailableShards() = %v, remote shard %d present=%v, want %v", av.Slice(), x, av.Contains(x), want[x]), "shards"
			}
		}
	}
	// --- column attributes (through the store for id columns, through the query for keys)
	cattr := behav.ToMap(st["cattr"])
	idx, err := r.api().Index(ctx, r.ix)
	if err != nil {
		return "API.Index: " + err.Error(), "schema"
	}
	if !ic.Keys {
		for c := 0; c < len(r.p.Cols); c++ {
			wa := behav.ToInt(cattr[fmt.Sprint(c)])
			m, err := idx.ColumnAttrStore().Attrs(r.p.Cols[c])
			if err != nil {
				return "column attrs: " + err.Error(), "colattrs"
			}
			y, has := m["y"]
			yv, _ := num(y)
			if (wa == 0 && has) || (wa != 0 && (!has || yv != int64(wa))) {
				return fmt.Sprintf("column %d attrs = %v, want y=%d", r.p.Cols[c], m, wa), "colattrs"
			}
		}
	}
	return "", ""
}

// project renders the large query alphabet whose answers must be identical before and
// after a restart.
func (r *c08run) project() map[string]string {
	ctx := context.Background()
	out := map[string]string{}
	if err := r.api().RecalculateCaches(ctx); err != nil {
		out["recalculate"] = err.Error()
	}
	for _, ii := range r.api().Schema(ctx) {
		if ii.Name == r.ix || ii.Name == r.jx {
			out["schema:"+strings.TrimPrefix(ii.Name, r.ix[:len(r.ix)-1])] = js(ii)
		}
	}
	idx, err := r.api().Index(ctx, r.ix)
	if err != nil {
		out["index"] = err.Error()
		return out
	}
	out["index.AvailableShards"] = fmt.Sprint(idx.AvailableShards().Slice())
	for _, f := range idx.Fields() {
		if !strings.HasPrefix(f.Name(), "_") {
			// options as the API reports them (the JSON form of the schema endpoint), not the
			// internal Base/BitDepth bookkeeping; the internal existence field is not reported
			out["field:"+f.Name()+".options"] = js(func() interface{} { o := f.Options(); return &o }())
		}
		out["field:"+f.Name()+".AvailableShards"] = fmt.Sprint(f.AvailableShards().Slice())
		if f.Name() == "f" {
			out["field:f.rowattrs"] = dumpAttrs(f.RowAttrStore())
			if r.fc.Type == "int" && !r.ic.Keys {
				for c := 0; c < len(r.p.Cols); c++ {
					// Field.Value opens (creates) the fragment of the column's shard: only
					// columns of shards that hold data are read, so that reading does not
					// change the set of available shards
					if !f.AvailableShards().Contains(r.p.Cols[c] / SW) {
						continue
					}
					v, ok, err := f.Value(r.p.Cols[c])
					out[fmt.Sprintf("field:f.Value(%d)", r.p.Cols[c])] = fmt.Sprint(v, ok, err)
				}
				for _, k := range []string{"Sum", "Min", "Max"} {
					var v, n int64
					var err error
					switch k {
					case "Sum":
						v, n, err = f.Sum(nil, "f")
					case "Min":
						v, n, err = f.Min(nil, "f")
					case "Max":
						v, n, err = f.Max(nil, "f")
					}
					out["field:f."+k] = fmt.Sprint(v, n, err)
				}
			}
		}
	}
	out["index.colattrs"] = dumpAttrs(idx.ColumnAttrStore())
	var qs []string
	if r.fc.Type == "int" {
		qs = append(qs, "Row(f != null)", "Sum(field=f)", "Min(field=f)", "Max(field=f)")
		for _, a := range valsOf[r.fc.Bounds] {
			v := r.p.val(r.fc.Bounds, a)
			for _, op := range []string{"==", "!=", "<", "<=", ">", ">="} {
				qs = append(qs, fmt.Sprintf("Row(f %s %d)", op, v))
			}
			qs = append(qs, fmt.Sprintf("Sum(Row(f >= %d), field=f)", v))
			if v > -(maxI64) && v < maxI64 {
				qs = append(qs, fmt.Sprintf("Row(f > %d)", v-1), fmt.Sprintf("Row(f < %d)", v+1), fmt.Sprintf("Count(Row(f >< [%d, %d]))", v-1, v+1))
			}
		}
		lo, hi := r.p.bounds(r.fc.Bounds)
		qs = append(qs, fmt.Sprintf("Row(f >< [%d, %d])", lo, hi), "Row(f > 0)", "Row(f < 0)", "Row(f == 0)")
	} else {
		rows := []string{r.rowArg(1), r.rowArg(2)}
		if r.fc.Type != "bool" {
			if r.fc.Keys {
				rows = append(rows, `"rz"`)
			} else {
				rows = append(rows, "4242")
			}
		}
		for _, ra := range rows {
			qs = append(qs, fmt.Sprintf("Row(f=%s)", ra), fmt.Sprintf("Count(Row(f=%s))", ra))
			if r.ic.Exist {
				qs = append(qs, fmt.Sprintf("Not(Row(f=%s))", ra))
			}
			if r.fc.Type == "time" {
				ts := timesOf(r.fc.Quantum)
				for _, ab := range [][2]int{{1, 2}, {2, 3}, {1, 3}, {0, 4}, {0, 1}, {3, 4}} {
					qs = append(qs, fmt.Sprintf("Row(f=%s, from='%s', to='%s')", ra, ts[ab[0]], ts[ab[1]]))
				}
			}
		}
		qs = append(qs, "Rows(f)", "Rows(f, limit=1)", "GroupBy(Rows(f))", "Union(Row(f="+rows[0]+"), Row(f="+rows[1]+"))",
			"Intersect(Row(f="+rows[0]+"), Row(f="+rows[1]+"))", "Xor(Row(f="+rows[0]+"), Row(f="+rows[1]+"))")
		if r.fc.Type == "time" {
			ts := timesOf(r.fc.Quantum)
			qs = append(qs, fmt.Sprintf("Rows(f, from='%s', to='%s')", ts[1], ts[3]), fmt.Sprintf("Rows(f, from='%s', to='%s')", ts[2], ts[3]))
		}
		if !r.fc.Keys || r.fc.Type == "bool" {
			qs = append(qs, "MinRow(field=f)", "MaxRow(field=f)")
		}
		if r.fc.Type == "set" || r.fc.Type == "mutex" {
			if r.fc.Cache != "none" {
				qs = append(qs, "TopN(f)", "TopN(f, n=1)", "TopN(f, n=2)", "TopN(f, Row(f="+rows[0]+"), n=2)")
				if !r.fc.Keys {
					qs = append(qs, fmt.Sprintf("TopN(f, ids=[%s, %s])", rows[0], rows[1]))
				}
			}
		}
		for c := 0; c < 3; c++ { // (column 3 may not have a key yet: naming it would create one)
			qs = append(qs, fmt.Sprintf("Rows(f, column=%s)", r.colArg(c)))
		}
	}
	if r.ic.Exist {
		qs = append(qs, "Not(Union())")
	}
	if _, ok := out["field:g.options"]; ok {
		qs = append(qs, "Row(g=1)", "TopN(g)", "Rows(g)")
	}
	for _, q := range qs {
		resp, err := r.api().Query(ctx, &pilosa.QueryRequest{Index: r.ix, Query: q, ColumnAttrs: strings.HasPrefix(q, "Row(")})
		if err != nil {
			out[q] = "error: " + err.Error()
			continue
		}
		out[q] = js(resp.Results[0])
		if pairs, ok := resp.Results[0].([]pilosa.Pair); ok {
			out[q] = topnCanon(pairs, strings.Contains(q, "n="))
		}
		if len(resp.ColumnAttrSets) > 0 {
			out[q] += " columnAttrs=" + js(resp.ColumnAttrSets)
		}
	}
	if _, ok := out["schema:j"]; ok {
		for _, q := range []string{"Row(h=2)", "TopN(h)", "Rows(h)"} {
			res, err := r.query(r.jx, q)
			if err != nil {
				out["j:"+q] = "error: " + err.Error()
			} else if pairs, ok := res[0].([]pilosa.Pair); ok {
				out["j:"+q] = topnCanon(pairs, false)
			} else {
				out["j:"+q] = js(res[0])
			}
		}
	}
	return out
}

// topnCanon renders a TopN answer up to the order among equal counts, which is free; when
// the answer is cut off by n, which of several rows with the same count made the cut is
// free as well, so only the counts are kept.
func topnCanon(pairs []pilosa.Pair, limited bool) string {
	ps := append([]pilosa.Pair(nil), pairs...)
	sort.Slice(ps, func(a, b int) bool {
		if ps[a].Count != ps[b].Count {
			return ps[a].Count > ps[b].Count
		}
		if ps[a].ID != ps[b].ID {
			return ps[a].ID < ps[b].ID
		}
		return ps[a].Key < ps[b].Key
	})
	if limited {
		var counts []uint64
		for _, p := range ps {
			counts = append(counts, p.Count)
		}
		return fmt.Sprint("counts ", counts)
	}
	return js(ps)
}

func dumpAttrs(s pilosa.AttrStore) string {
	blocks, err := s.Blocks()
	if err != nil {
		return "error: " + err.Error()
	}
	all := map[uint64]map[string]interface{}{}
	for _, b := range blocks {
		m, err := s.BlockData(b.ID)
		if err != nil {
			return "error: " + err.Error()
		}
		for id, a := range m {
			if len(a) > 0 {
				all[id] = a
			}
		}
	}
	ids := make([]uint64, 0, len(all))
	for id := range all {
		ids = append(ids, id)
	}
	sort.Slice(ids, func(a, b int) bool { return ids[a] < ids[b] })
	var sb strings.Builder
	for _, id := range ids {
		fmt.Fprintf(&sb, "%d:%s ", id, js(all[id]))
	}
	return sb.String()
}

func diffProj(pre, post map[string]string) string {
	var keys []string
	for k := range pre {
		keys = append(keys, k)
	}
	for k := range post {
		if _, ok := pre[k]; !ok {
			keys = append(keys, k)
		}
	}
	sort.Strings(keys)
	for _, k := range keys {
		a, aok := pre[k]
		b, bok := post[k]
		if aok != bok || a != b {
			return fmt.Sprintf("%s: before restart %s, after restart %s", k, orAbsent(a, aok), orAbsent(b, bok))
		}
	}
	return ""
}

func orAbsent(s string, ok bool) string {
	if !ok {
		return "<absent>"
	}
	if len(s) > 400 {
		return s[:400] + "…"
	}
	return s
}

func classify(diff string) string {
	k := diff
	if i := strings.Index(k, ": before restart"); i >= 0 {
		k = k[:i]
	}
	for _, p := range []string{"schema", "field:f.options", "field:g", "field:f.AvailableShards", "index.AvailableShards", "field:f.Value", "field:f.rowattrs", "index.colattrs", "TopN", "Rows", "GroupBy", "Sum", "Min(", "Max(", "MinRow", "MaxRow", "Not", "Count", "Row(f=", "Row(f ", "j:"} {
		if strings.HasPrefix(k, p) {
			return "restart:" + strings.Trim(p, "(= :")
		}
	}
	return "restart:other"
}

// ---------------------------------------------------------------------------------------
// batches: several behaviours share one server and its restarts

// advance runs steps up to (not including) the next Restart; it reports whether the run
// now waits for a restart (a final restart is always added at the end of the behaviour).
func (r *c08run) advance() bool {
	if r.done {
		return false
	}
	for r.pos < len(r.c.Beh) {
		st := r.c.Beh[r.pos]
		if st.Str("op") == "Restart" {
			break
		}
		pv, stack := behav.Protect(func() { r.exec(r.pos, st) })
		if pv != nil {
			if !behav.PanicInCode(stack) {
				r.res.SetInconclusive(fmt.Sprintf("harness panic: %v\n%s", pv, firstLines(stack, 30)))
				r.done = true
				return false
			}
			r.fail(r.pos, st.Str("op"), "?", "panic", fmt.Sprintf("panic: %v\n%s", pv, firstLines(stack, 30)))
		}
		if r.done {
			return false
		}
		r.pos++
	}
	r.pre = r.project()
	return true
}

// afterRestart compares the server with the pre-restart projection and with the spec.
func (r *c08run) afterRestart() {
	step := r.pos
	if step >= len(r.c.Beh) {
		step = len(r.c.Beh) - 1
		r.done = true // that was the final restart
	}
	r.res.Cover("c08:restart")
	pv, stack := behav.Protect(func() {
		post := r.project()
		if d := diffProj(r.pre, post); d != "" {
			r.fail(step, "Restart", classify(d), "changed_by_restart", d)
			return
		}
		want := r.last["st"]
		if r.pos < len(r.c.Beh) {
			want = r.c.Beh[r.pos]["st"] // the projection recorded for the Restart step itself
		}
		if txt, kind := r.specCheck(behav.ToMap(want)); txt != "" {
			r.fail(step, "Restart", kind, "wrong_state_after_restart", txt)
		}
	})
	if pv != nil {
		if !behav.PanicInCode(stack) {
			r.res.SetInconclusive(fmt.Sprintf("harness panic: %v\n%s", pv, firstLines(stack, 30)))
			r.done = true
			return
		}
		r.fail(step, "Restart", "?", "panic", fmt.Sprintf("panic: %v\n%s", pv, firstLines(stack, 30)))
	}
	if r.pos < len(r.c.Beh) {
		r.pos++ // consume the Restart record
	}
}

// runBatch replays the cases on one fresh server. reopenErr is set when the server failed
// to come back (then the caller re-runs the cases one by one to attribute the failure).
func runBatch(cases []*C08Case, res *behav.Result) (runs []*c08run, reopenErr error) {
	m := test.MustRunCommand()
	dir := m.Config.DataDir
	defer func() {
		func() {
			defer func() { recover() }()
			m.Close()
		}()
		os.RemoveAll(dir)
	}()
	for _, c := range cases {
		n := atomic.AddInt64(&c08Seq, 1)
		runs = append(runs, &c08run{c: c, m: m, p: c.Prof, ix: fmt.Sprintf("c%di", n), jx: fmt.Sprintf("c%dj", n), res: res})
	}
	for phase := 0; phase < 8; phase++ {
		var waiting []*c08run
		for _, r := range runs {
			if r.advance() {
				waiting = append(waiting, r)
			}
		}
		if len(waiting) == 0 {
			break
		}
		if err := m.Reopen(); err != nil {
			for _, r := range waiting {
				r.fail(r.pos, "Restart", "reopen", "reopen_error", err.Error())
			}
			return runs, err
		}
		for _, r := range waiting {
			r.afterRestart()
		}
	}
	return runs, nil
}

func failC08(res *behav.Result, c *C08Case, mm *mismatch) {
	res.Fail(behav.Failure{
		Match:  map[string]string{"op": mm.Op, "kind": mm.Kind, "type": mm.Path, "symptom": mm.Symptom},
		Detail: fmt.Sprintf("%s behaviour #%d: %s", c.Prop, c.Idx, mm.String()),
		Replay: c,
	})
}

// corruptC08 flips one expected value of the projection of the behaviour's last record.
func corruptC08(b behav.Behaviour) {
	st := behav.ToMap(b[len(b)-1]["st"])
	if fcfgOf(st["fcfg"]).Type == "int" {
		vals := behav.ToList(st["vals"])
		if len(vals) > 0 {
			st["vals"] = vals[1:]
		} else {
			st["vals"] = []interface{}{[]interface{}{float64(0), float64(valsOf[fcfgOf(st["fcfg"]).Bounds][0])}}
		}
		return
	}
	rows := behav.ToList(st["rows"])
	r0 := behav.ToInts(rows[0])
	var nr []interface{}
	found := false
	for _, c := range r0 {
		if c == 0 {
			found = true
			continue
		}
		nr = append(nr, float64(c))
	}
	if !found {
		nr = append([]interface{}{float64(0)}, nr...)
	}
	rows[0] = nr
}

func TestC08(t *testing.T) {
	res := behav.NewResult()
	defer func() {
		if err := res.Write(); err != nil {
			t.Fatal(err)
		}
	}()
	if raw, ok := behav.LoadReplay(); ok {
		var c C08Case
		if err := json.Unmarshal(raw, &c); err != nil {
			t.Fatal(err)
		}
		res.Evaluations = 1
		runs, _ := runBatch([]*C08Case{&c}, res)
		if runs[0].mm != nil {
			failC08(res, &c, runs[0].mm)
		}
		return
	}
	behs := behav.LoadEnv()
	seed := behav.Seed()
	if behav.EnvInt("VERIF_CORRUPT", 0) == 1 { // binding self-test: every 5th behaviour must fail
		for i := range behs {
			if i%5 == 2 {
				corruptC08(behs[i])
				res.Cover("c08:selftest_corrupted")
			}
		}
	}
	per := behav.EnvInt("VERIF_BATCH", 24)
	var batches [][]*C08Case
	for i, b := range behs {
		c := &C08Case{Prop: "C08", Beh: b, Prof: makeSProfile(seed, i), Seed: seed, Idx: i}
		if i%per == 0 {
			batches = append(batches, nil)
		}
		batches[len(batches)-1] = append(batches[len(batches)-1], c)
	}
	workers := behav.EnvInt("VERIF_SERVERS", runtime.GOMAXPROCS(0)/2)
	if workers < 2 {
		workers = 2
	}
	t.Setenv("VERIF_WORKERS", fmt.Sprint(workers))
	behav.Parallel(len(batches), func(bi int) {
		runs, rerr := runBatch(batches[bi], res)
		if rerr != nil {
			// the server did not come back: attribute by running every case alone
			res.Cover("c08:batch_reopen_failed")
			runs = nil
			for _, c := range batches[bi] {
				one, _ := runBatch([]*C08Case{c}, res)
				runs = append(runs, one...)
			}
		}
		for k, r := range runs {
			res.CountEval()
			res.CountNontrivial()
			if r.mm != nil {
				failC08(res, r.c, r.mm)
			}
			if k == 0 && bi%(len(batches)/5+1) == 0 {
				res.AddSample(map[string]interface{}{"behaviour": r.c.Beh, "profile": r.p.Name})
			}
		}
	}, func(i int, v interface{}, stack string) {
		res.SetInconclusive(fmt.Sprintf("harness panic outside a replay: %v\n%s", v, firstLines(stack, 30)))
	})
}
