// Package bsib binds spec/BSI.tla (C14) and spec/Schema.tla (C08) to the real code: every
// behaviour TLC emits is executed through API.Query / API.ImportValue / the Field Go API of
// in-process servers, and every answer is compared with the value the specification computed.
package bsib

import (
	"context"
	"fmt"
	"math/rand"
	"os"
	"path/filepath"
	"sort"
	"strings"
	"sync"
	"sync/atomic"
	"testing"
	"time"

	"github.com/pilosa/pilosa"
	"github.com/pilosa/pilosa/test"

	"verif/harness/behav"
)

// SW is the shard width of the build under test.
const SW = uint64(pilosa.ShardWidth)

// ---------------------------------------------------------------------------------------
// data refinement (C14)

// Dim are the constants of the TLC configuration that produced the behaviours.
type Dim struct {
	Min   int  `json:"min"`
	Max   int  `json:"max"`
	NCols int  `json:"ncols"`
	Wide  bool `json:"wide"`
}

// DimFromEnv reads the dimensions handed over by the check.
func DimFromEnv() Dim {
	return Dim{
		Min:   behav.EnvInt("VERIF_MIN", -7),
		Max:   behav.EnvInt("VERIF_MAX", 7),
		NCols: behav.EnvInt("VERIF_NCOLS", 15),
		Wide:  behav.EnvInt("VERIF_WIDE", 0) == 1,
	}
}

// Profile is the refinement of one replay: abstract columns and abstract value indices to
// concrete ones, plus the deployment. It is explicit data so that a replay file is
// self-contained.
type Profile struct {
	Name     string   `json:"name"`
	Min      int      `json:"min"` // abstract bounds
	Max      int      `json:"max"`
	Cols     []uint64 `json:"cols"`  // abstract column -> concrete id (column c in shard Shards[c%3])
	Extra    []uint64 `json:"extra"` // columns of filter row 6 that never hold a value
	VTab     []int64  `json:"vtab"`  // abstract value a in [Min-4, Max+4] -> VTab[a-(Min-4)], strictly increasing
	Nodes    int      `json:"nodes"`
	Exist    bool     `json:"exist"`     // index tracks existence
	GoWrites bool     `json:"go_writes"` // Set steps go through Field.SetValue instead of PQL
}

var colOffsets = []uint64{0, 1, 65535, 65536, 65537, 131071, SW - 65536, SW - 2, SW - 1, 4097, 300000}

var shardTriples = [][3]uint64{{0, 1, 2}, {0, 1, 2}, {0, 1, 3}, {1, 2, 3}, {0, 2, 5}, {3, 4, 7}, {0, 1, 2}}

const huge = int64(1) << 62

// magnitude pool of the wide profiles: small numbers, every power of two with its
// neighbours up to 2^62, values of bit depth 63.
func magnitudePool(r *rand.Rand) []int64 {
	seen := map[int64]bool{}
	var out []int64
	add := func(v int64) {
		if v > 0 && v < (1<<63-1)-16 && !seen[v] {
			seen[v] = true
			out = append(out, v)
		}
	}
	for v := int64(1); v <= 5; v++ {
		add(v)
	}
	for k := uint(2); k <= 62; k++ {
		for d := int64(-1); d <= 1; d++ {
			add(int64(1)<<k + d)
		}
	}
	for i := 0; i < 24; i++ {
		add(r.Int63() >> uint(r.Intn(40)))
	}
	for i := 0; i < 6; i++ {
		add(int64(1)<<62 + r.Int63n(int64(1)<<62-64))
	}
	return out
}

func pickSorted(r *rand.Rand, pool []int64, n int) []int64 {
	r.Shuffle(len(pool), func(a, b int) { pool[a], pool[b] = pool[b], pool[a] })
	out := append([]int64(nil), pool[:n]...)
	sort.Slice(out, func(a, b int) bool { return out[a] < out[b] })
	return out
}

// MakeProfile derives the refinement of case number i deterministically from the seed.
func MakeProfile(d Dim, seed int64, i int, nodes int) *Profile {
	r := rand.New(rand.NewSource(seed*1000003 + int64(i)*7919 + 29))
	p := &Profile{Min: d.Min, Max: d.Max, Nodes: nodes}
	sh := shardTriples[r.Intn(len(shardTriples))]
	offs := append([]uint64(nil), colOffsets...)
	r.Shuffle(len(offs), func(a, b int) { offs[a], offs[b] = offs[b], offs[a] })
	if (d.NCols+2)/3 > len(offs) {
		panic("too many abstract columns for the offset table")
	}
	for c := 0; c < d.NCols; c++ {
		p.Cols = append(p.Cols, sh[c%3]*SW+offs[c/3])
	}
	p.Extra = []uint64{sh[0]*SW + 777, sh[2]*SW + 54321}
	p.Exist = r.Intn(2) == 0
	p.GoWrites = nodes == 1 && r.Intn(4) == 0
	n := d.Max - d.Min + 9
	kind := "id"
	if d.Wide {
		kind = []string{"signed", "signed", "pos", "neg", "mixed"}[r.Intn(5)]
		zero := -(d.Min - 4) // index of abstract 0
		if kind == "signed" && (zero < 0 || zero >= n) {
			kind = "mixed"
		}
		pool := magnitudePool(r)
		switch kind {
		case "signed":
			neg := pickSorted(r, pool, zero)
			pos := pickSorted(r, pool, n-zero-1)
			for k := len(neg) - 1; k >= 0; k-- {
				p.VTab = append(p.VTab, -neg[k])
			}
			p.VTab = append(p.VTab, 0)
			p.VTab = append(p.VTab, pos...)
		case "pos":
			p.VTab = pickSorted(r, pool, n)
		case "neg":
			m := pickSorted(r, pool, n)
			for k := len(m) - 1; k >= 0; k-- {
				p.VTab = append(p.VTab, -m[k])
			}
		default:
			nn := r.Intn(n + 1)
			neg := pickSorted(r, pool, nn)
			pos := pickSorted(r, pool, n-nn)
			for k := len(neg) - 1; k >= 0; k-- {
				p.VTab = append(p.VTab, -neg[k])
			}
			p.VTab = append(p.VTab, pos...)
		}
	} else {
		for a := d.Min - 4; a <= d.Max+4; a++ {
			p.VTab = append(p.VTab, int64(a))
		}
		p.VTab[0], p.VTab[n-1] = -huge, huge
	}
	for k := 1; k < len(p.VTab); k++ {
		if p.VTab[k-1] >= p.VTab[k] {
			panic("value table not strictly increasing")
		}
	}
	p.Name = fmt.Sprintf("%s/shards%v/n%d/exist=%v/gowrites=%v", kind, sh, nodes, p.Exist, p.GoWrites)
	return p
}

// V maps an abstract value index.
func (p *Profile) V(a int) int64 {
	k := a - (p.Min - 4)
	if k < 0 || k >= len(p.VTab) {
		panic(fmt.Sprintf("abstract value %d outside the profile", a))
	}
	return p.VTab[k]
}

// Col maps an abstract column.
func (p *Profile) Col(c int) uint64 { return p.Cols[c] }

// ColSet maps a set of abstract columns to concrete ids (ascending).
func (p *Profile) ColSet(a []int) []uint64 {
	out := make([]uint64, len(a))
	for i, x := range a {
		out[i] = p.Col(x)
	}
	sort.Slice(out, func(i, j int) bool { return out[i] < out[j] })
	return out
}

// ---------------------------------------------------------------------------------------
// servers

// Node is one in-process cluster reused for many behaviours.
type Node struct {
	C test.Cluster
	N int
}

// Pool hands out clusters of 1 and 3 nodes.
type Pool struct {
	one   chan *Node
	three chan *Node
	mu    sync.Mutex
	all   []*Node
	dirs  []string
}

var indexSeq int64

func (p *Pool) start(t testing.TB, n int) *Node {
	c := test.MustRunCluster(t, n)
	nd := &Node{C: c, N: n}
	p.mu.Lock()
	p.all = append(p.all, nd)
	for _, cmd := range c {
		p.dirs = append(p.dirs, cmd.Config.DataDir)
	}
	p.mu.Unlock()
	return nd
}

// NewPool starts nOne single-node servers and nThree 3-node clusters.
func NewPool(t testing.TB, nOne, nThree int) *Pool {
	p := &Pool{one: make(chan *Node, nOne+4), three: make(chan *Node, nThree+4)}
	var wg sync.WaitGroup
	for i := 0; i < nOne; i++ {
		wg.Add(1)
		go func() { defer wg.Done(); p.one <- p.start(t, 1) }()
	}
	for i := 0; i < nThree; i++ {
		wg.Add(1)
		go func() { defer wg.Done(); p.three <- p.start(t, 3) }()
	}
	wg.Wait()
	return p
}

// Get blocks until a cluster of the requested size is free.
func (p *Pool) Get(nodes int) *Node {
	if nodes == 3 {
		return <-p.three
	}
	return <-p.one
}

// Put returns a cluster.
func (p *Pool) Put(n *Node) {
	if n.N == 3 {
		p.three <- n
	} else {
		p.one <- n
	}
}

// Replace discards a cluster whose state can no longer be trusted and starts a fresh one.
func (p *Pool) Replace(t testing.TB, n *Node) {
	func() {
		defer func() { recover() }()
		n.C.Close()
	}()
	p.Put(p.start(t, n.N))
}

// Close stops every cluster and removes the data directories.
func (p *Pool) Close() {
	for _, n := range p.all {
		func() {
			defer func() { recover() }()
			n.C.Close()
		}()
	}
	for _, d := range p.dirs {
		if strings.Contains(filepath.Base(d), "pilosa-") {
			os.RemoveAll(d)
		}
	}
}

// Sess is one dataset replayed on one cluster in a fresh index with an int field f and a
// set field g holding the filter rows.
type Sess struct {
	Nd    *Node
	Index string
	P     *Profile
	rng   *rand.Rand
	Log   []string
	ctx   context.Context
	fld   *pilosa.Field // node 0's field object (Go API path; single node only)
}

func tolerable(err error) bool {
	// In a cluster the broadcast of a new index/field can lose a race against the schema
	// carried by the gossiped node status; the name is unique, so it is the one just created.
	return err == nil || strings.Contains(err.Error(), "already exists")
}

// NewSess creates the index and the fields and stores the filter rows.
func NewSess(nd *Node, p *Profile, filterRows map[int][]int, salt int64) (*Sess, error) {
	s := &Sess{Nd: nd, P: p, ctx: context.Background(), rng: rand.New(rand.NewSource(salt))}
	s.Index = fmt.Sprintf("b%d", atomic.AddInt64(&indexSeq, 1))
	api := nd.C[0].API
	ok := false
	defer func() {
		if !ok {
			s.Close() // do not leave a half-created index behind
		}
	}()
	if _, err := api.CreateIndex(s.ctx, s.Index, pilosa.IndexOptions{TrackExistence: p.Exist}); !tolerable(err) {
		return nil, fmt.Errorf("CreateIndex: %v", err)
	}
	if _, err := api.CreateField(s.ctx, s.Index, "f", pilosa.OptFieldTypeInt(p.V(p.Min), p.V(p.Max))); !tolerable(err) {
		return nil, fmt.Errorf("CreateField f: %v", err)
	}
	if len(filterRows) > 0 {
		if _, err := api.CreateField(s.ctx, s.Index, "g", pilosa.OptFieldTypeSet(pilosa.CacheTypeRanked, 100)); !tolerable(err) {
			return nil, fmt.Errorf("CreateField g: %v", err)
		}
	}
	if nd.N == 1 {
		f, err := api.Field(s.ctx, s.Index, "f")
		if err != nil {
			return nil, fmt.Errorf("Field f: %v", err)
		}
		s.fld = f
	}
	byShard := map[uint64]*pilosa.ImportRequest{}
	for k, cols := range filterRows {
		cc := p.ColSet(cols)
		if k == 6 {
			cc = append(cc, p.Extra...)
		}
		for _, c := range cc {
			sh := c / SW
			if byShard[sh] == nil {
				byShard[sh] = &pilosa.ImportRequest{Index: s.Index, Field: "g", Shard: sh}
			}
			byShard[sh].RowIDs = append(byShard[sh].RowIDs, uint64(k))
			byShard[sh].ColumnIDs = append(byShard[sh].ColumnIDs, c)
		}
	}
	for sh, req := range byShard {
		apis, err := s.owners(sh)
		if err != nil {
			return nil, err
		}
		for _, a := range apis {
			r := *req
			r.RowIDs = append([]uint64(nil), req.RowIDs...)
			r.ColumnIDs = append([]uint64(nil), req.ColumnIDs...)
			if err := a.Import(s.ctx, &r); err != nil {
				return nil, fmt.Errorf("import filter rows: %v", err)
			}
		}
	}
	ok = true
	return s, nil
}

// Close deletes the index.
func (s *Sess) Close() {
	defer func() { recover() }()
	s.Nd.C[0].API.DeleteIndex(s.ctx, s.Index)
}

func (s *Sess) api() *pilosa.API {
	if s.Nd.N == 1 {
		return s.Nd.C[0].API
	}
	return s.Nd.C[s.rng.Intn(s.Nd.N)].API
}

// Query sends PQL and returns the results of its calls.
func (s *Sess) Query(pql string) ([]interface{}, error) {
	s.Log = append(s.Log, pql)
	resp, err := s.api().Query(s.ctx, &pilosa.QueryRequest{Index: s.Index, Query: pql})
	if err != nil {
		return nil, err
	}
	return resp.Results, nil
}

func (s *Sess) owners(shard uint64) ([]*pilosa.API, error) {
	if s.Nd.N == 1 {
		return []*pilosa.API{s.Nd.C[0].API}, nil
	}
	nodes, err := s.Nd.C[0].API.ShardNodes(s.ctx, s.Index, shard)
	if err != nil {
		return nil, err
	}
	var out []*pilosa.API
	for _, n := range nodes {
		for _, cmd := range s.Nd.C {
			if cmd.API.Node().ID == n.ID {
				out = append(out, cmd.API)
			}
		}
	}
	if len(out) == 0 {
		return nil, fmt.Errorf("no owner found for shard %d", shard)
	}
	return out, nil
}

// AwaitShards waits (clusters only) until every node knows that the given shards of the
// index hold data. A node learns of a new shard through a broadcast that the writer stops
// waiting for after 50 ms; a query sent to a node that has not heard of the shard yet leaves
// the shard out. That propagation delay is not what C14 is about.
func (s *Sess) AwaitShards(cols []uint64) {
	if s.Nd.N == 1 {
		return
	}
	deadline := time.Now().Add(10 * time.Second)
	for _, cmd := range s.Nd.C {
		for {
			av := cmd.API.AvailableShardsByIndex(s.ctx)[s.Index]
			ok := av != nil
			for _, c := range cols {
				if ok && !av.Contains(c/SW) {
					ok = false
				}
			}
			if ok || time.Now().After(deadline) {
				break
			}
			time.Sleep(5 * time.Millisecond)
		}
	}
}

func (s *Sess) setMaxOpN(n int) {
	for _, cmd := range s.Nd.C {
		pilosa.VerifDurSetMaxOpN(cmd.Server.Holder(), n)
	}
}

// CV is one (concrete column, concrete value) entry of a value import.
type CV struct {
	Col uint64
	Val int64
}

// ImportValues sends the batch through API.ImportValue, one request per shard (the order of
// the entries is preserved inside each request) to the shard's owners.
func (s *Sess) ImportValues(batch []CV, clear bool, large bool) error {
	s.Log = append(s.Log, fmt.Sprintf("ImportValue(clear=%v, large=%v, %v)", clear, large, batch))
	if large {
		// force fragment.importValue's direct-write path: it is taken when
		// len(batch)*(bitDepth+1)+opN >= MaxOpN (fragments the import itself creates keep
		// the default and take the small path)
		s.setMaxOpN(1)
		defer s.setMaxOpN(10000)
	}
	byShard := map[uint64][]CV{}
	var order []uint64
	for _, e := range batch {
		sh := e.Col / SW
		if _, ok := byShard[sh]; !ok {
			order = append(order, sh)
		}
		byShard[sh] = append(byShard[sh], e)
	}
	for _, sh := range order {
		apis, err := s.owners(sh)
		if err != nil {
			return err
		}
		for _, a := range apis {
			req := &pilosa.ImportValueRequest{Index: s.Index, Field: "f", Shard: sh}
			for _, e := range byShard[sh] {
				req.ColumnIDs = append(req.ColumnIDs, e.Col)
				req.Values = append(req.Values, e.Val)
			}
			if err := a.ImportValue(s.ctx, req, pilosa.OptImportOptionsClear(clear)); err != nil {
				return err
			}
		}
	}
	return nil
}

// ---------------------------------------------------------------------------------------
// result helpers

func u64s(a []uint64) string {
	if len(a) > 40 {
		return fmt.Sprintf("%v…(%d)", a[:40], len(a))
	}
	return fmt.Sprint(a)
}

func equalU64(a, b []uint64) bool {
	if len(a) != len(b) {
		return false
	}
	for i := range a {
		if a[i] != b[i] {
			return false
		}
	}
	return true
}

func rowColumns(v interface{}) ([]uint64, error) {
	r, ok := v.(*pilosa.Row)
	if !ok {
		return nil, fmt.Errorf("result is %T, not a row", v)
	}
	if r == nil {
		return nil, fmt.Errorf("result is a nil row")
	}
	return r.Columns(), nil
}

// mismatch describes the first disagreement of a replay.
type mismatch struct {
	Step    int
	Op      string
	Kind    string // comparison / aggregate / sub-check that disagreed
	Path    string // pql | goapi
	Symptom string
	Text    string
}

func (m *mismatch) String() string {
	return fmt.Sprintf("step %d (%s/%s via %s) %s: %s", m.Step, m.Op, m.Kind, m.Path, m.Symptom, m.Text)
}

func lastLog(log []string, n int) string {
	if len(log) > n {
		return "… " + strings.Join(log[len(log)-n:], " ; ")
	}
	return strings.Join(log, " ; ")
}

func firstLines(s string, n int) string {
	lines := strings.Split(s, "\n")
	if len(lines) > n {
		lines = lines[:n]
	}
	return strings.Join(lines, "\n")
}
