package bsib

import (
	"encoding/json"
	"fmt"
	"runtime"
	"sort"
	"strings"
	"testing"
	"time"

	"github.com/pilosa/pilosa"
	"github.com/pilosa/pilosa/pql"

	"verif/harness/behav"
)

// Case is a self-contained replay: one behaviour under one explicit profile.
type Case struct {
	Prop string          `json:"prop"`
	Beh  behav.Behaviour `json:"beh"`
	Dim  Dim             `json:"dim"`
	Prof *Profile        `json:"profile"`
	Seed int64           `json:"seed"`
	Idx  int             `json:"idx"`
	// More are further read-only final steps of behaviours sharing Beh's prefix (never part
	// of a replay file: a failing one becomes the last step of Beh).
	More []behav.Step `json:"-"`
	// Corrupt flips one expected value of the last step (binding self-test).
	Corrupt bool `json:"-"`
}

var readOnly = map[string]bool{"Range": true, "Between1": true, "Between2": true, "NotNull": true, "Agg": true}

var opTokens = map[string]pql.Token{"==": pql.EQ, "!=": pql.NEQ, "<": pql.LT, "<=": pql.LTE, ">": pql.GT, ">=": pql.GTE}

// c14run is the state of one replay.
type c14run struct {
	s   *Sess
	p   *Profile
	d   Dim
	cur map[int]int // abstract column -> abstract value
	res *behav.Result
}

func pairsOf(v interface{}) map[int]int {
	out := map[int]int{}
	for _, e := range behav.ToList(v) {
		cv := behav.ToInts(e)
		out[cv[0]] = cv[1]
	}
	return out
}

func sortedCols(m map[int]int) []int {
	var out []int
	for c := range m {
		out = append(out, c)
	}
	sort.Ints(out)
	return out
}

func valCount(v interface{}) (pilosa.ValCount, string) {
	switch x := v.(type) {
	case pilosa.ValCount:
		return x, ""
	case *pilosa.ValCount:
		if x != nil {
			return *x, ""
		}
	}
	return pilosa.ValCount{}, fmt.Sprintf("result is %T (%v), not a ValCount", v, v)
}

func (r *c14run) checkRow(got interface{}, want []int) string {
	cols, err := rowColumns(got)
	if err != nil {
		return err.Error()
	}
	exp := r.p.ColSet(want)
	if !equalU64(cols, exp) {
		return fmt.Sprintf("columns = %s, want %s (abstract %v)", u64s(cols), u64s(exp), want)
	}
	return ""
}

// concrete aggregate expected for an abstract (value, count) pair; for Sum the value is
// re-computed over the contributing columns under the value map.
func (r *c14run) wantAgg(kind string, vc []int, cols []int, state map[int]int) pilosa.ValCount {
	w := pilosa.ValCount{Count: int64(vc[1])}
	if kind == "Sum" {
		for _, c := range cols {
			w.Val += r.p.V(state[c])
		}
	} else if vc[1] > 0 {
		w.Val = r.p.V(vc[0])
	}
	return w
}

// aggDiffers compares an aggregate: the count always, the value unless the count is zero
// and the aggregate is an extreme (the extreme of no columns is unspecified).
func aggDiffers(kind string, got, want pilosa.ValCount) bool {
	if got.Count != want.Count {
		return true
	}
	if want.Count == 0 && kind != "Sum" {
		return false
	}
	return got.Val != want.Val
}

func (r *c14run) filterPQL(fk string, fa int) string {
	switch fk {
	case "g":
		return fmt.Sprintf("Row(g=%d)", fa)
	case "gt":
		return fmt.Sprintf("Row(f > %d)", r.p.V(fa))
	case "le":
		return fmt.Sprintf("Row(f <= %d)", r.p.V(fa))
	}
	return ""
}

// fullRead compares the whole projected state after a write: every column's value
// (Field.Value and Row(f == v)), the not-null row and the unfiltered aggregates.
func (r *c14run) fullRead(st behav.Step, i int, mk func(kind, path, sym, text string) *mismatch) *mismatch {
	want := pairsOf(st["vals"])
	r.cur = want
	r.s.AwaitShards(r.p.ColSet(sortedCols(want)))
	agg := behav.ToMap(st["agg"])
	var distinct []int
	byVal := map[int][]int{}
	for _, c := range sortedCols(want) {
		if _, ok := byVal[want[c]]; !ok {
			distinct = append(distinct, want[c])
		}
		byVal[want[c]] = append(byVal[want[c]], c)
	}
	sort.Ints(distinct)
	q := "Row(f != null) Sum(field=f) Min(field=f) Max(field=f)"
	for _, v := range distinct {
		q += fmt.Sprintf(" Row(f == %d)", r.p.V(v))
	}
	out, err := r.s.Query(q)
	if err != nil {
		return mk("state", "pql", "error", q+": "+err.Error())
	}
	if mm := r.checkRow(out[0], sortedCols(want)); mm != "" {
		return mk("state:notnull", "pql", "wrong_state", "Row(f != null): "+mm)
	}
	all := sortedCols(want)
	for k, kind := range []string{"Sum", "Min", "Max"} {
		vc := behav.ToInts(agg[strings.ToLower(kind)])
		w := r.wantAgg(kind, vc, all, want)
		got, bad := valCount(out[1+k])
		if bad != "" {
			return mk("state:"+kind, "pql", "wrong_state", bad)
		}
		if aggDiffers(kind, got, w) {
			return mk("state:"+kind, "pql", "wrong_state", fmt.Sprintf("%s(field=f) = %+v, want %+v", kind, got, w))
		}
		if r.s.fld != nil {
			var gv, gc int64
			var err error
			switch kind {
			case "Sum":
				gv, gc, err = r.s.fld.Sum(nil, "f")
			case "Min":
				gv, gc, err = r.s.fld.Min(nil, "f")
			case "Max":
				gv, gc, err = r.s.fld.Max(nil, "f")
			}
			if err != nil {
				return mk("state:"+kind, "goapi", "error", err.Error())
			}
			if aggDiffers(kind, pilosa.ValCount{Val: gv, Count: gc}, w) {
				return mk("state:"+kind, "goapi", "wrong_state", fmt.Sprintf("Field.%s(nil) = {%d %d}, want %+v", kind, gv, gc, w))
			}
		}
	}
	for k, v := range distinct {
		if mm := r.checkRow(out[4+k], byVal[v]); mm != "" {
			return mk("state:eq", "pql", "wrong_state", fmt.Sprintf("Row(f == %d): %s", r.p.V(v), mm))
		}
	}
	if r.s.fld != nil {
		for c := 0; c < r.d.NCols; c++ {
			gv, ok, err := r.s.fld.Value(r.p.Col(c))
			if err != nil {
				return mk("state:value", "goapi", "error", err.Error())
			}
			wv, wok := want[c]
			if ok != wok || (ok && gv != r.p.V(wv)) {
				ws := "none"
				if wok {
					ws = fmt.Sprint(r.p.V(wv))
				}
				return mk("state:value", "goapi", "wrong_state", fmt.Sprintf("Field.Value(%d) = (%d, %v), want %s (abstract column %d)", r.p.Col(c), gv, ok, ws, c))
			}
		}
		if _, ok, err := r.s.fld.Value(r.p.Extra[0]); err != nil || ok {
			return mk("state:value", "goapi", "wrong_state", fmt.Sprintf("Field.Value(%d) of a column never written: exists=%v err=%v", r.p.Extra[0], ok, err))
		}
	}
	return nil
}

func (r *c14run) batchOf(pairs [][2]int) []CV {
	out := make([]CV, len(pairs))
	for i, cv := range pairs {
		out[i] = CV{Col: r.p.Col(cv[0]), Val: r.p.V(cv[1])}
	}
	return out
}

// step executes one step record and compares everything it returns.
func (r *c14run) step(i int, st behav.Step) *mismatch {
	op := st.Str("op")
	p := r.p
	mk := func(kind, path, sym, text string) *mismatch {
		return &mismatch{Step: i, Op: op, Kind: kind, Path: path, Symptom: sym,
			Text: text + " | profile " + p.Name + fmt.Sprintf(" bounds [%d,%d]", p.V(p.Min), p.V(p.Max)) + " | requests: " + lastLog(r.s.Log, 12)}
	}
	r.res.Cover("c14:op:" + op)
	large := st.Str("path") == "large"
	if st.Has("path") {
		r.res.Cover("c14:path:" + st.Str("path"))
	}
	switch op {
	case "init":
		want := pairsOf(st["vals"])
		cols := sortedCols(want)
		via := st.Str("via")
		r.res.Cover("c14:via:" + via)
		switch via {
		case "set", "setd":
			if via == "setd" {
				sort.Sort(sort.Reverse(sort.IntSlice(cols)))
			}
			for _, c := range cols {
				if mm := r.set(c, want[c], true, mk); mm != nil {
					return mm
				}
			}
		case "imp":
			var b [][2]int
			for _, c := range cols {
				b = append(b, [2]int{c, want[c]})
			}
			if len(b) > 0 {
				if err := r.s.ImportValues(r.batchOf(b), false, large); err != nil {
					return mk("import", "pql", "error", err.Error())
				}
			}
		case "imp1d":
			for k := len(cols) - 1; k >= 0; k-- {
				if err := r.s.ImportValues(r.batchOf([][2]int{{cols[k], want[cols[k]]}}), false, false); err != nil {
					return mk("import", "pql", "error", err.Error())
				}
			}
		default:
			panic("unknown via " + via)
		}
		return r.fullRead(st, i, mk)
	case "Set":
		if mm := r.set(st.Int("c"), st.Int("v"), st.Bool("ch"), mk); mm != nil {
			return mm
		}
		return r.fullRead(st, i, mk)
	case "Import":
		var b [][2]int
		for _, e := range behav.ToList(st["b"]) {
			cv := behav.ToInts(e)
			b = append(b, [2]int{cv[0], cv[1]})
		}
		if err := r.s.ImportValues(r.batchOf(b), false, large); err != nil {
			return mk("import", "pql", "error", err.Error())
		}
		return r.fullRead(st, i, mk)
	case "ImportMap":
		post := pairsOf(st["vals"])
		var b [][2]int
		for _, c := range sortedCols(post) {
			old, had := r.cur[c]
			if st.Str("kind") == "fill" && had && old == post[c] {
				continue // fill writes only the columns that had no value
			}
			b = append(b, [2]int{c, post[c]})
		}
		if len(b) > 0 {
			if err := r.s.ImportValues(r.batchOf(b), false, large); err != nil {
				return mk("import", "pql", "error", err.Error())
			}
		}
		return r.fullRead(st, i, mk)
	case "Clear":
		var b [][2]int
		for _, c := range st.Ints("cs") {
			b = append(b, [2]int{c, st.Int("v")})
		}
		if err := r.s.ImportValues(r.batchOf(b), true, large); err != nil {
			return mk("import-clear", "pql", "error", err.Error())
		}
		return r.fullRead(st, i, mk)
	case "Range":
		cmp := st.Str("cmp")
		pv := p.V(st.Int("p"))
		r.res.Cover("c14:cmp:" + cmp)
		call := "Row"
		if (i+st.Int("p"))%5 == 0 {
			call = "Range" // deprecated spelling of the same call
		}
		q := fmt.Sprintf("%s(f %s %d)", call, cmp, pv)
		out, err := r.s.Query(q)
		if err != nil {
			return mk(cmp, "pql", "error", q+": "+err.Error())
		}
		if mm := r.checkRow(out[0], st.Ints("res")); mm != "" {
			return mk(cmp, "pql", "wrong_result", q+": "+mm)
		}
		if r.s.fld != nil {
			row, err := r.s.fld.Range("f", opTokens[cmp], pv)
			if err != nil {
				return mk(cmp, "goapi", "error", fmt.Sprintf("Field.Range(%s, %d): %v", cmp, pv, err))
			}
			// Field.Range answers nil (no row) for a predicate outside the declared bounds
			// and for a field that has no view yet (nothing was ever written): accepted
			// when the predicate is out of bounds, or as the empty result.
			if row == nil && (pv < p.V(p.Min) || pv > p.V(p.Max) || len(st.Ints("res")) == 0) {
				r.res.Cover("c14:goapi_range_nil")
			} else if mm := r.checkRow(row, st.Ints("res")); mm != "" {
				return mk(cmp, "goapi", "wrong_result", fmt.Sprintf("Field.Range(%s, %d): %s", cmp, pv, mm))
			}
		}
		if len(st.Ints("res")) > 0 {
			r.res.Cover("c14:nonempty_result")
		}
	case "Between1":
		q := fmt.Sprintf("Row(f >< [%d, %d])", p.V(st.Int("a")), p.V(st.Int("b")))
		out, err := r.s.Query(q)
		if err != nil {
			return mk("><", "pql", "error", q+": "+err.Error())
		}
		if mm := r.checkRow(out[0], st.Ints("res")); mm != "" {
			return mk("><", "pql", "wrong_result", q+": "+mm)
		}
	case "Between2":
		lo, hi := "<=", "<="
		if st.Bool("sa") {
			lo = "<"
		}
		if st.Bool("sb") {
			hi = "<"
		}
		q := fmt.Sprintf("Row(%d %s f %s %d)", p.V(st.Int("a")), lo, hi, p.V(st.Int("b")))
		out, err := r.s.Query(q)
		if err != nil {
			return mk("a<f<b", "pql", "error", q+": "+err.Error())
		}
		if mm := r.checkRow(out[0], st.Ints("res")); mm != "" {
			return mk("a<f<b", "pql", "wrong_result", q+": "+mm)
		}
	case "NotNull":
		out, err := r.s.Query("Row(f != null)")
		if err != nil {
			return mk("notnull", "pql", "error", err.Error())
		}
		if mm := r.checkRow(out[0], st.Ints("res")); mm != "" {
			return mk("notnull", "pql", "wrong_result", "Row(f != null): "+mm)
		}
	case "Agg":
		kind, fk, fa := st.Str("kind"), st.Str("fk"), st.Int("fa")
		r.res.Cover("c14:agg:" + kind + ":" + fk)
		w := r.wantAgg(kind, st.Ints("vc"), st.Ints("cols"), r.cur)
		fq := r.filterPQL(fk, fa)
		q := fmt.Sprintf("%s(field=f)", kind)
		if fq != "" {
			q = fmt.Sprintf("%s(%s, field=f)", kind, fq)
		}
		out, err := r.s.Query(q)
		if err != nil {
			return mk(kind, "pql", "error", q+": "+err.Error())
		}
		got, bad := valCount(out[0])
		if bad != "" {
			return mk(kind, "pql", "wrong_result", q+": "+bad)
		}
		if aggDiffers(kind, got, w) {
			sym := "wrong_value"
			if got.Count != w.Count {
				sym = "wrong_count"
			}
			return mk(kind, "pql", sym, fmt.Sprintf("%s = %+v, want %+v (columns %v)", q, got, w, st.Ints("cols")))
		}
		if r.s.fld != nil {
			var filter *pilosa.Row
			if fq != "" {
				fo, err := r.s.Query(fq)
				if err != nil {
					return mk(kind, "pql", "error", fq+": "+err.Error())
				}
				filter, _ = fo[0].(*pilosa.Row)
			}
			var gv, gc int64
			switch kind {
			case "Sum":
				gv, gc, err = r.s.fld.Sum(filter, "f")
			case "Min":
				gv, gc, err = r.s.fld.Min(filter, "f")
			case "Max":
				gv, gc, err = r.s.fld.Max(filter, "f")
			}
			if err != nil {
				return mk(kind, "goapi", "error", err.Error())
			}
			g := pilosa.ValCount{Val: gv, Count: gc}
			if aggDiffers(kind, g, w) {
				sym := "wrong_value"
				if g.Count != w.Count {
					sym = "wrong_count"
				}
				return mk(kind, "goapi", sym, fmt.Sprintf("Field.%s(%s) = %+v, want %+v (columns %v)", kind, fq, g, w, st.Ints("cols")))
			}
		}
		if w.Count > 1 && kind != "Sum" {
			r.res.Cover("c14:extreme_tie")
		}
	default:
		panic("unknown op " + op)
	}
	return nil
}

// set performs one Set step (PQL, or Field.SetValue when the profile says so).
func (r *c14run) set(c, v int, wantChanged bool, mk func(kind, path, sym, text string) *mismatch) *mismatch {
	col, val := r.p.Col(c), r.p.V(v)
	if r.p.GoWrites && r.s.fld != nil {
		ch, err := r.s.fld.SetValue(col, val)
		r.s.Log = append(r.s.Log, fmt.Sprintf("Field.SetValue(%d, %d)", col, val))
		if err != nil {
			return mk("set", "goapi", "error", fmt.Sprintf("Field.SetValue(%d, %d): %v", col, val, err))
		}
		if ch != wantChanged {
			return mk("set", "goapi", "wrong_changed", fmt.Sprintf("Field.SetValue(%d, %d) = %v, want %v", col, val, ch, wantChanged))
		}
		return nil
	}
	q := fmt.Sprintf("Set(%d, f=%d)", col, val)
	out, err := r.s.Query(q)
	if err != nil {
		return mk("set", "pql", "error", q+": "+err.Error())
	}
	if ch, ok := out[0].(bool); !ok || ch != wantChanged {
		return mk("set", "pql", "wrong_changed", fmt.Sprintf("%s returned %v, want %v", q, out[0], wantChanged))
	}
	return nil
}

// corruptStep flips one expected value of a step record (binding self-test).
func corruptStep(st behav.Step, d Dim) behav.Step {
	out := behav.Step{}
	for k, v := range st {
		out[k] = v
	}
	switch {
	case st.Has("res"):
		res := st.Ints("res")
		var nr []interface{}
		found := false
		for _, c := range res {
			if c == 0 {
				found = true
				continue
			}
			nr = append(nr, float64(c))
		}
		if !found {
			nr = append([]interface{}{float64(0)}, nr...)
		}
		out["res"] = nr
	case st.Has("vc"):
		vc := st.Ints("vc")
		out["vc"] = []interface{}{float64(vc[0]), float64(vc[1] + 1)}
	case st.Has("vals"):
		vals := behav.ToList(st["vals"])
		if len(vals) > 0 {
			out["vals"] = vals[1:]
		} else {
			out["vals"] = []interface{}{[]interface{}{float64(0), float64(d.Min)}}
		}
	}
	return out
}

func runC14(nd *Node, c *Case, res *behav.Result) (mm *mismatch, failing behav.Step) {
	if len(c.Beh) == 0 || c.Beh[0].Str("op") != "init" {
		panic("behaviour does not start with init")
	}
	// the filter rows of field g are stored only when some step filters by them
	rows := map[int][]int{}
	needG := false
	for _, st := range append(append([]behav.Step{}, c.Beh...), c.More...) {
		if st.Str("op") == "Agg" && st.Str("fk") == "g" {
			needG = true
		}
	}
	if needG {
		for k, e := range behav.ToList(c.Beh[0]["g"]) {
			rows[k+1] = behav.ToInts(e)
		}
	}
	// Creating the index and its fields is not what is under test; on a loaded machine the
	// schema broadcast of a 3-node cluster can race with the gossiped schema (the peer then
	// opens the same attribute store twice and times out). Retry in a fresh index.
	var s *Sess
	var err error
	for attempt := 0; attempt < 4; attempt++ {
		if s, err = NewSess(nd, c.Prof, rows, c.Seed+int64(c.Idx)); err == nil {
			break
		}
		res.Cover("c14:setup_retry")
		time.Sleep(time.Duration(200*(attempt+1)) * time.Millisecond)
	}
	if err != nil {
		res.SetInconclusive("could not set up an index after 4 attempts: " + err.Error())
		return nil, nil
	}
	defer s.Close()
	r := &c14run{s: s, p: c.Prof, d: c.Dim, res: res, cur: map[int]int{}}
	last := len(c.Beh) - 1
	for i, st := range c.Beh {
		if c.Corrupt && i == last {
			st = corruptStep(st, c.Dim)
		}
		if mm := r.step(i, st); mm != nil {
			return mm, nil
		}
	}
	for _, st := range c.More {
		if mm := r.step(last, st); mm != nil {
			return mm, st
		}
	}
	return nil, nil
}

func failC14(res *behav.Result, c *Case, mm *mismatch) {
	res.Fail(behav.Failure{
		Match: map[string]string{
			"op": mm.Op, "kind": mm.Kind, "path": mm.Path, "symptom": mm.Symptom,
			"nodes": fmt.Sprint(c.Prof.Nodes),
		},
		Detail: fmt.Sprintf("%s behaviour #%d profile %s: %s", c.Prop, c.Idx, c.Prof.Name, mm.String()),
		Replay: c,
	})
}

// protect runs the case, converting panics into a mismatch (in code) or an inconclusive
// result (harness bug). broken reports that the cluster must be replaced.
func protectC14(nd *Node, c *Case, res *behav.Result) (mm *mismatch, failing behav.Step, broken bool) {
	pv, stack := behav.Protect(func() { mm, failing = runC14(nd, c, res) })
	if pv != nil {
		txt := fmt.Sprintf("panic: %v\n%s", pv, firstLines(stack, 40))
		if !behav.PanicInCode(stack) {
			res.SetInconclusive("harness panic: " + txt)
			return nil, nil, true
		}
		return &mismatch{Step: -1, Op: "?", Kind: "?", Path: "?", Symptom: "panic", Text: txt}, nil, true
	}
	return mm, failing, false
}

func TestC14(t *testing.T) {
	res := behav.NewResult()
	defer func() {
		if err := res.Write(); err != nil {
			t.Fatal(err)
		}
	}()
	if raw, ok := behav.LoadReplay(); ok {
		var c Case
		if err := json.Unmarshal(raw, &c); err != nil {
			t.Fatal(err)
		}
		one, three := 1, 0
		if c.Prof.Nodes == 3 {
			one, three = 0, 1
		}
		pool := NewPool(t, one, three)
		defer pool.Close()
		res.Evaluations = 1
		mm, _, _ := protectC14(pool.Get(c.Prof.Nodes), &c, res)
		if mm != nil {
			failC14(res, &c, mm)
		}
		return
	}
	behs := behav.LoadEnv()
	d := DimFromEnv()
	seed := behav.Seed()
	nOne := behav.EnvInt("VERIF_SERVERS", runtime.GOMAXPROCS(0)/2)
	if nOne < 2 {
		nOne = 2
	}
	every3 := behav.EnvInt("VERIF_EVERY3", 7) // every n-th job runs on a 3-node cluster (0: never)
	nThree := 0
	if every3 > 0 {
		nThree = behav.EnvInt("VERIF_CLUSTERS", 1)
	}
	corrupt := behav.EnvInt("VERIF_CORRUPT", 0) == 1
	pool := NewPool(t, nOne, nThree)
	defer pool.Close()

	// Behaviours whose last step is a read are grouped by their common prefix: the prefix is
	// replayed once and every final read is evaluated on the state it produced.
	type job struct {
		bi   int
		more []int
	}
	var jobs []job
	groups := map[string]int{}
	// VERIF_ONEWRITE=1 (sampled histories): TLC prints every successor of a trace's last
	// state; of the behaviours that share a prefix and end in a write only the first is
	// replayed (the others would repeat the same prefix for one more random write).
	oneWrite := behav.EnvInt("VERIF_ONEWRITE", 0) == 1
	writeSeen := map[string]bool{}
	skipped := 0
	for bi, b := range behs {
		if n := len(b); oneWrite && n >= 3 && !readOnly[b[n-1].Str("op")] {
			k := fmt.Sprint(behav.Hash64(fmt.Sprint(b[:n-1])))
			if writeSeen[k] {
				skipped++
				continue
			}
			writeSeen[k] = true
		}
		if n := len(b); n >= 2 && readOnly[b[n-1].Str("op")] {
			k := behav.JSON(b[:n-1])
			if len(k) >= 1500 {
				k = fmt.Sprint(behav.Hash64(fmt.Sprint(b[:n-1])))
			}
			if ji, ok := groups[k]; ok && len(jobs[ji].more) < 400 {
				jobs[ji].more = append(jobs[ji].more, bi)
				continue
			}
			groups[k] = len(jobs)
		}
		jobs = append(jobs, job{bi: bi})
	}
	t.Setenv("VERIF_WORKERS", fmt.Sprint(nOne+nThree))
	for k := 0; k < skipped; k++ {
		res.Cover("c14:skipped_redundant_write_final")
	}
	var distinct behav.Distinct
	behav.Parallel(len(jobs), func(i int) {
		j := jobs[i]
		nodes := 1
		if every3 > 0 && i%every3 == every3-1 {
			nodes = 3
		}
		c := &Case{Prop: "C14", Beh: behs[j.bi], Dim: d, Seed: seed, Idx: j.bi}
		c.Prof = MakeProfile(d, seed, j.bi, nodes)
		for _, mi := range j.more {
			b := behs[mi]
			c.More = append(c.More, b[len(b)-1])
		}
		if corrupt && i%5 == 2 {
			c.Corrupt = true
			c.More = nil
			res.Cover("c14:selftest_corrupted")
		}
		nd := pool.Get(nodes)
		mm, failing, broken := protectC14(nd, c, res)
		if broken {
			pool.Replace(t, nd)
		} else {
			pool.Put(nd)
		}
		for k := 0; k <= len(c.More); k++ {
			res.CountEval()
		}
		if distinct.Add(behav.JSON(c.Beh) + c.Prof.Name) {
			for k := 0; k <= len(c.More); k++ {
				res.CountNontrivial()
			}
		}
		if i%(len(jobs)/5+1) == 0 {
			res.AddSample(map[string]interface{}{"behaviour": c.Beh, "profile": c.Prof.Name})
		}
		if mm != nil {
			if failing != nil {
				c.Beh = append(append(behav.Behaviour{}, c.Beh[:len(c.Beh)-1]...), failing)
			}
			if c.Corrupt {
				res.Cover("c14:selftest_detected")
			}
			failC14(res, c, mm)
		}
	}, func(i int, v interface{}, stack string) {
		res.SetInconclusive(fmt.Sprintf("harness panic outside a replay: %v\n%s", v, firstLines(stack, 30)))
	})
}
