// Package lifecycleb binds spec/Lifecycle.tla to the cluster life cycle code of
// /repo (cluster.go, server.go, api.go): one real node per model node
// (pilosa.VerifLifecycleNode = cluster + holder + Server + API, assembled as
// NewServer does), connected by a network the harness owns: every message a
// node sends (Server.SendTo -> serializer -> InternalClient.SendMessage) is
// queued as bytes and delivered (API.ClusterMessage) when the behaviour says
// so, in any order, possibly twice. Gossip events are NodeEvent messages built
// from the subject's own node value, as the gossip event receiver builds them.
// After every step every running node's state, coordinator, node list (ids,
// node states, coordinator flags), topology and joined flag are compared with
// the model, and the API gate is probed (query / import / schema classes).
package lifecycleb

import (
	"encoding/json"
	"fmt"
	"math/rand"
	"os"
	"path/filepath"
	"sort"
	"strings"
	"sync"
	"sync/atomic"
	"testing"
	"time"

	"github.com/pilosa/pilosa"
	"github.com/pilosa/pilosa/encoding/proto"
	"verif/harness/behav"
)

var ser = proto.Serializer{}

// liveness registry for the confirmNodeDown hook: host -> *int32 (1 = up)
var hosts sync.Map

func init() {
	pilosa.VerifLifecycleConfirmDown = func(uri pilosa.URI) (bool, bool) {
		if p, ok := hosts.Load(uri.Host); ok {
			return atomic.LoadInt32(p.(*int32)) == 0, true
		}
		return false, false
	}
}

var kindByte = map[byte]string{}

func init() {
	n := pilosa.VerifClusterNode("x", "x")
	kindByte[pilosa.VerifGetMessageType(&pilosa.ClusterStatus{})] = "status"
	kindByte[pilosa.VerifGetMessageType(&pilosa.NodeStateMessage{})] = "nodestate"
	kindByte[pilosa.VerifGetMessageType(&pilosa.UpdateCoordinatorMessage{New: n})] = "updcoord"
	kindByte[pilosa.VerifGetMessageType(&pilosa.SetCoordinatorMessage{New: n})] = "setcoord"
}

type qmsg struct {
	step int
	k    string
	to   string
	data []byte
}

type node struct {
	id   string
	host string
	path string
	v    *pilosa.VerifLifecycleNode
	up   *int32
	open bool
}

type config struct {
	HasData  bool `json:"hasData"`
	ReplicaN int  `json:"replicaN"`
	Topo     string `json:"topo"` // ids in every node's .topology file at the beginning, comma separated
}

type sim struct {
	cfg   config
	tag   string
	dir   string
	nodes map[string]*node
	mu    sync.Mutex
	queue []*qmsg
	step  int
}

var simSeq int64

func newSim(cfg config) (*sim, error) {
	dir, err := os.MkdirTemp("", "lc-")
	if err != nil {
		return nil, err
	}
	return &sim{cfg: cfg, tag: fmt.Sprintf("s%d", atomic.AddInt64(&simSeq, 1)), dir: dir, nodes: map[string]*node{}}, nil
}

func (s *sim) close() {
	for _, n := range s.nodes {
		if atomic.LoadInt32(n.up) == 1 && n.v != nil {
			_ = n.v.Close()
		}
		hosts.Delete(n.host)
	}
	_ = os.RemoveAll(s.dir)
}

func (s *sim) node(id string) *node {
	n := s.nodes[id]
	if n == nil {
		n = &node{id: id, host: s.tag + "-" + id, path: filepath.Join(s.dir, id), up: new(int32)}
		s.nodes[id] = n
		hosts.Store(n.host, n.up)
	}
	return n
}

func (s *sim) isUp(id string) bool {
	n := s.nodes[id]
	return n != nil && atomic.LoadInt32(n.up) == 1
}

func (s *sim) send(uri pilosa.URI, msg []byte) error {
	id := strings.TrimPrefix(uri.Host, s.tag+"-")
	if !s.isUp(id) {
		return fmt.Errorf("verif: node %s is not running", id)
	}
	k := kindByte[msg[0]]
	if k == "" {
		k = fmt.Sprintf("type%d", msg[0])
	}
	s.mu.Lock()
	s.queue = append(s.queue, &qmsg{step: s.step, k: k, to: id, data: msg})
	s.mu.Unlock()
	return nil
}

func (s *sim) sentAt(step int) []string {
	s.mu.Lock()
	defer s.mu.Unlock()
	var out []string
	for _, m := range s.queue {
		if m.step == step {
			out = append(out, m.k+">"+m.to)
		}
	}
	sort.Strings(out)
	return out
}

func (s *sim) find(step int, k, to string) *qmsg {
	s.mu.Lock()
	defer s.mu.Unlock()
	for _, m := range s.queue {
		if m.step == step && m.k == k && m.to == to {
			return m
		}
	}
	return nil
}

// view of a node in the model's terms
type view struct {
	St     string
	Co     string
	Nodes  []string // "id/state/flag"
	Topo   []string
	Joined bool
}

func (v view) String() string {
	return fmt.Sprintf("st=%s co=%s nodes=%v topo=%v joined=%v", v.St, v.Co, v.Nodes, v.Topo, v.Joined)
}

func wantView(post map[string]interface{}) view {
	w := view{St: fmt.Sprint(post["st"]), Co: fmt.Sprint(post["co"]), Joined: post["joined"] == true}
	for _, e := range behav.ToList(post["nodes"]) {
		m := behav.ToMap(e)
		w.Nodes = append(w.Nodes, fmt.Sprintf("%v/%v/%v", m["id"], m["s"], m["c"]))
	}
	for _, e := range behav.ToList(post["topo"]) {
		w.Topo = append(w.Topo, fmt.Sprint(e))
	}
	sort.Strings(w.Nodes)
	sort.Strings(w.Topo)
	return w
}

func gotView(n *node) (view, string) {
	lv := n.v.View()
	g := view{St: lv.State, Co: lv.Coordinator, Joined: lv.Joined}
	for _, m := range lv.Nodes {
		g.Nodes = append(g.Nodes, fmt.Sprintf("%v/%v/%v", m.ID, m.State, m.IsCoordinator))
	}
	g.Topo = append(g.Topo, lv.Topology...)
	extra := ""
	if !lv.Sorted {
		extra = "node list not sorted by id or has duplicates"
	} else if !lv.SelfInNodes {
		extra = "the node's own Node object is not the one in its node list"
	} else if !sort.StringsAreSorted(lv.Topology) {
		extra = "topology not sorted"
	}
	sort.Strings(g.Nodes)
	sort.Strings(g.Topo)
	return g, extra
}

func diffView(w, g view) string {
	switch {
	case w.St != g.St:
		return "st"
	case w.Co != g.Co:
		return "co"
	case strings.Join(w.Nodes, ",") != strings.Join(g.Nodes, ","):
		return "nodes"
	case strings.Join(w.Topo, ",") != strings.Join(g.Topo, ","):
		return "topo"
	case w.Joined != g.Joined:
		return "joined"
	}
	return ""
}

type replay struct {
	Beh     behav.Behaviour `json:"beh"`
	Cfg     config          `json:"cfg"`
	Corrupt string          `json:"corrupt,omitempty"`
}

var gates = []string{"apiQuery", "apiImport", "apiCreateIndex"}

func errStr(err error) string {
	if err != nil {
		return "err"
	}
	return "ok"
}

// run replays one behaviour; it returns nil or the failure.
func run(rp replay, res *behav.Result) *behav.Failure {
	s, err := newSim(rp.Cfg)
	if err != nil {
		res.SetInconclusive("harness: " + err.Error())
		return nil
	}
	defer s.close()
	want := map[string]view{}
	handover := "no"
	lastOp := ""
	fail := func(i int, st behav.Step, match map[string]string, detail string) *behav.Failure {
		match["op"] = st.Str("op")
		match["data"] = fmt.Sprint(rp.Cfg.HasData)
		return &behav.Failure{Match: match, Detail: fmt.Sprintf("step %d %s: %s", i+1, behav.JSON(st), detail), Replay: rp}
	}
	for i, st := range rp.Beh {
		op, at, x := st.Str("op"), st.Str("at"), st.Str("x")
		if op == "Viol" {
			// every step of the prefix agreed with the model, so the real nodes are in the
			// state in which the model's property is false
			names := []string{}
			for _, e := range behav.ToList(st["inv"]) {
				names = append(names, fmt.Sprint(e))
			}
			sort.Strings(names)
			return fail(i, st, map[string]string{"symptom": "invariant", "inv": strings.Join(names, "+"), "after": lastOp,
				"state": x, "handover": handover}, "the real nodes reached a state violating "+strings.Join(names, ", ")+
				"; coordinator "+at+": "+want[at].String())
		}
		s.mu.Lock()
		s.step = i + 1
		s.mu.Unlock()
		var herr error
		pv, stack := behav.Protect(func() {
			switch op {
			case "Start":
				n := s.node(at)
				if _, err := os.Stat(n.path); err != nil {
					_ = os.MkdirAll(n.path, 0o777)
					if rp.Cfg.Topo != "" {
						if err := pilosa.VerifLifecycleWriteTopology(n.path, strings.Split(rp.Cfg.Topo, ",")); err != nil {
							panic("harness: " + err.Error())
						}
					}
				}
				if rp.Cfg.HasData {
					_ = os.MkdirAll(filepath.Join(n.path, "i"), 0o777)
				}
				post := behav.ToMap(st["post"])
				n.v = pilosa.VerifLifecycleNew(pilosa.VerifLifecycleOptions{Path: n.path, ID: at, Host: n.host,
					IsCoordinator: fmt.Sprint(post["co"]) == at, ReplicaN: rp.Cfg.ReplicaN, Serializer: ser, Send: s.send})
				n.open = false
				herr = n.v.Setup()
				atomic.StoreInt32(n.up, 1)
			case "Ready":
				n := s.node(at)
				if !n.open {
					if err := n.v.OpenHolder(); err != nil {
						herr = err
						return
					}
					n.open = true
				}
				herr = n.v.SetNodeStateReady()
			case "JoinEvent", "LeaveEvent":
				var meta pilosa.Node
				if s.isUp(x) {
					meta = s.node(x).v.NodeMeta()
				} else {
					meta = *pilosa.VerifClusterNode(x, s.node(x).host)
				}
				ev := pilosa.VerifLifecycleNodeJoin
				if op == "LeaveEvent" {
					ev = pilosa.VerifLifecycleNodeLeave
				}
				buf, err := pilosa.VerifLifecycleEventMessage(ser, ev, meta)
				if err != nil {
					panic(err)
				}
				herr = s.node(at).v.ClusterMessage(buf)
			case "Deliver":
				mk := behav.ToMap(st["mk"])
				m := s.find(behav.ToInt(mk["step"]), fmt.Sprint(mk["k"]), fmt.Sprint(mk["to"]))
				if m == nil {
					panic(fmt.Sprintf("harness: no queued message %v", mk))
				}
				herr = s.node(m.to).v.ClusterMessage(m.data)
			case "SetCoordinator":
				_, _, herr = s.node(at).v.SetCoordinator(x)
			case "RemoveNode":
				herr = s.node(at).v.RemoveNode(x)
			case "Stop":
				n := s.node(at)
				atomic.StoreInt32(n.up, 0)
				_ = n.v.Close()
				n.v = nil
			default:
				panic("harness: unknown op " + op)
			}
		})
		if pv != nil {
			if behav.PanicInCode(stack) && !strings.Contains(fmt.Sprint(pv), "harness:") {
				return fail(i, st, map[string]string{"symptom": "panic"}, fmt.Sprintf("panic: %v\n%s", pv, stack))
			}
			res.SetInconclusive(fmt.Sprintf("harness panic at step %d of %s: %v\n%s", i+1, behav.JSON(rp.Beh), pv, stack))
			return nil
		}
		lastOp = op
		if op == "Stop" {
			delete(want, at)
			continue
		}
		// messages sent by this step (the state re-send of mergeClusterStatus is asynchronous)
		wantSent := []string{}
		for _, e := range behav.ToList(st["sent"]) {
			m := behav.ToMap(e)
			wantSent = append(wantSent, fmt.Sprintf("%v>%v", m["k"], m["to"]))
		}
		sort.Strings(wantSent)
		deadline := time.Now().Add(3 * time.Second)
		for len(s.sentAt(i+1)) < len(wantSent) && time.Now().Before(deadline) {
			time.Sleep(200 * time.Microsecond)
		}
		if op == "Deliver" && len(wantSent) == 0 {
			time.Sleep(300 * time.Microsecond) // room for an unexpected asynchronous send
		}
		wres := st.Str("res")
		if rp.Corrupt == "res" && i == len(rp.Beh)-1 {
			wres = map[string]string{"ok": "err", "err": "ok"}[wres]
		}
		if g := errStr(herr); g != wres {
			return fail(i, st, map[string]string{"symptom": "result", "want": wres}, fmt.Sprintf("handler returned %s (%v), model %s", g, herr, wres))
		}
		if g := s.sentAt(i + 1); strings.Join(g, ",") != strings.Join(wantSent, ",") {
			return fail(i, st, map[string]string{"symptom": "sent"}, fmt.Sprintf("messages sent %v, model %v", g, wantSent))
		}
		w := wantView(behav.ToMap(st["post"]))
		if rp.Corrupt == "state" && i == len(rp.Beh)-1 {
			w.St = map[string]string{"NORMAL": "DEGRADED", "DEGRADED": "STARTING", "STARTING": "NORMAL"}[w.St]
		}
		if prev, ok := want[at]; ok && prev.Co != at && w.Co == at {
			handover = "yes" // a node that was not coordinator became coordinator
		}
		want[at] = w
		ids := make([]string, 0, len(want))
		for id := range want {
			ids = append(ids, id)
		}
		sort.Strings(ids)
		for _, id := range ids {
			g, extra := gotView(s.nodes[id])
			if f := diffView(want[id], g); f != "" {
				return fail(i, st, map[string]string{"symptom": "mismatch", "field": f, "own": fmt.Sprint(id == at)},
					fmt.Sprintf("node %s: real %s; model %s", id, g, want[id]))
			}
			if extra != "" {
				return fail(i, st, map[string]string{"symptom": "structure"}, "node "+id+": "+extra)
			}
			admit := want[id].St == "NORMAL" || want[id].St == "DEGRADED"
			for _, gname := range gates {
				verr, known := pilosa.VerifClusterValidate(s.nodes[id].v.API(), gname)
				if !known {
					res.SetInconclusive("harness: no gate constant " + gname)
					return nil
				}
				if (verr == nil) != admit {
					return fail(i, st, map[string]string{"symptom": "gate", "gate": gname, "state": want[id].St},
						fmt.Sprintf("node %s in %s: validate(%s) = %v, model admits=%v", id, want[id].St, gname, verr, admit))
				}
			}
		}
		res.Cover("op:" + op)
		res.Cover("state:" + w.St)
	}
	return nil
}

func TestLifecycle(t *testing.T) {
	res := behav.NewResult()
	defer func() {
		if err := res.Write(); err != nil {
			t.Fatal(err)
		}
	}()
	if raw, ok := behav.LoadReplay(); ok {
		var rp replay
		if err := json.Unmarshal(raw, &rp); err != nil {
			t.Fatal(err)
		}
		if f := run(rp, res); f != nil {
			res.Fail(*f)
		}
		res.CountEval()
		return
	}
	cfg := config{HasData: behav.EnvInt("VERIF_LC_HASDATA", 1) == 1, ReplicaN: behav.EnvInt("VERIF_LC_REPLICAN", 2), Topo: os.Getenv("VERIF_LC_TOPO")}
	corrupt := os.Getenv("VERIF_LC_CORRUPT")
	behs := behav.LoadEnv()
	if max := behav.EnvInt("VERIF_LC_MAX", 0); max > 0 && len(behs) > max {
		// seeded sample: keep every Viol prefix, thin out the rest
		rnd := rand.New(rand.NewSource(behav.Seed()))
		rnd.Shuffle(len(behs), func(i, j int) { behs[i], behs[j] = behs[j], behs[i] })
		keep := behs[:0]
		for _, b := range behs {
			if len(keep) < max || (len(b) > 0 && b[len(b)-1].Str("op") == "Viol") {
				keep = append(keep, b)
			}
		}
		behs = keep
	}
	distinct := &behav.Distinct{}
	var violSeen sync.Map
	behav.Parallel(len(behs), func(i int) {
		b := behs[i]
		if len(b) == 0 {
			return
		}
		last := b[len(b)-1]
		if last.Str("op") == "Viol" {
			// one replay per (properties, preceding op, coordinator state) is enough
			key := behav.JSON(last["inv"]) + b[len(b)-2].Str("op") + last.Str("x") + fmt.Sprint(len(b) % 2)
			if n, _ := violSeen.LoadOrStore(key, new(int32)); atomic.AddInt32(n.(*int32), 1) > 4 {
				return
			}
		}
		rp := replay{Beh: b, Cfg: cfg, Corrupt: corrupt}
		if f := run(rp, res); f != nil {
			res.Fail(*f)
		}
		res.CountEval()
		if distinct.Add(behav.JSON(b)) {
			res.CountNontrivial()
		}
		if i%97 == 0 {
			res.AddSample(b)
		}
	}, func(i int, v interface{}, stack string) {
		res.SetInconclusive(fmt.Sprintf("harness panic: %v\n%s", v, stack))
	})
}
