// Package isob binds spec/FragIso.tla (C03, fragment level) to the real fragment:
// rows handed out by a shard, derived from them or stored from them must be isolated
// from later writes, snapshots, reopen and close.
package isob

import (
	"encoding/json"
	"fmt"
	"os"
	"path/filepath"
	"runtime/debug"
	"sort"
	"strings"
	"sync/atomic"
	"testing"

	"github.com/pilosa/pilosa"

	"verif/harness/behav"
	"verif/harness/bind/roaringb"
	"verif/harness/gamma"
)

type isoCase struct {
	Beh     behav.Behaviour `json:"beh"`
	Shape   string          `json:"shape"`
	Cache   string          `json:"cache"`
	MaxOpN  int             `json:"maxopn"`
	Seed    int64           `json:"seed"`
	NCols   int             `json:"ncols"`
	RowBase uint64          `json:"rowbase"`
}

// blocks returns the concrete column block of each abstract column (all in shard 0).
func blocks(shape string, ncols int, seed int64) [][]uint64 {
	out := make([][]uint64, ncols)
	for c := 0; c < ncols; c++ {
		base := uint64(c) * 65536 // one container per abstract column by default
		switch shape {
		case "single": // stashed arrays, all columns in one container
			out[c] = []uint64{uint64(c)*3 + 1}
		case "array":
			for i := 0; i < 40; i++ {
				out[c] = append(out[c], base+uint64(i*97+int(seed)%7))
			}
		case "bitmap":
			for i := 0; i < 5000; i++ {
				out[c] = append(out[c], base+uint64(i*2))
			}
		case "run":
			for i := 0; i < 3000; i++ {
				out[c] = append(out[c], base+100+uint64(i))
			}
		case "samecont": // all abstract columns in container 0: array blocks side by side
			for i := 0; i < 30; i++ {
				out[c] = append(out[c], uint64(c*1000+i*3))
			}
		case "edge": // container and shard edges
			e := []uint64{0, 65535, 65536, pilosa.ShardWidth - 1, 131071, 70000}
			out[c] = []uint64{e[c%len(e)]}
		default:
			panic("unknown shape " + shape)
		}
	}
	return out
}

func setOf(bl [][]uint64, abs []int) []uint64 {
	var out []uint64
	for _, c := range abs {
		out = append(out, bl[c]...)
	}
	sort.Slice(out, func(i, j int) bool { return out[i] < out[j] })
	return out
}

func isDead(v []int) bool { return len(v) == 1 && v[0] == -2 }

// fragRows decodes the frag field (a TLA+ function over row ids: JSON object keyed by
// the row id, or an array when the ids happen to be 1..n).
func fragRows(st behav.Step) map[int][]int {
	out := map[int][]int{}
	switch v := st["frag"].(type) {
	case map[string]interface{}:
		for k, x := range v {
			var r int
			fmt.Sscanf(k, "%d", &r)
			out[r] = behav.ToInts(x)
		}
	case []interface{}:
		for i, x := range v {
			out[i+1] = behav.ToInts(x)
		}
	}
	return out
}

var caseSeq int64

func runIso(c *isoCase, cov func(string)) (step int, op, what, detail string) {
	debug.SetPanicOnFault(true)
	bl := blocks(c.Shape, c.NCols, c.Seed)
	dir := filepath.Join(os.Getenv("VERIF_SCRATCH"), fmt.Sprintf("iso-%d-%d", os.Getpid(), atomic.AddInt64(&caseSeq, 1)))
	if err := os.MkdirAll(dir, 0o755); err != nil {
		return 0, "init", "harness", err.Error()
	}
	defer os.RemoveAll(dir)
	fr := pilosa.VerifNewFragment(filepath.Join(dir, "0"), pilosa.VerifFragmentOptions{Shard: 0, CacheType: c.Cache, Kind: "set", MaxOpN: c.MaxOpN})
	if err := fr.Open(); err != nil {
		return 0, "init", "harness", "open: " + err.Error()
	}
	closed := false
	defer func() {
		if !closed {
			fr.Close()
		}
	}()
	held := map[int]*pilosa.Row{}
	rowID := func(r int) uint64 { return c.RowBase + uint64(r) }
	writeCols := func(r int, cols []uint64, clear bool) error {
		if len(cols) <= 4 {
			for _, col := range cols {
				var err error
				if clear {
					_, err = fr.ClearBit(rowID(r), col)
				} else {
					_, err = fr.SetBit(rowID(r), col)
				}
				if err != nil {
					return err
				}
			}
			return nil
		}
		rows := make([]uint64, len(cols))
		for i := range rows {
			rows[i] = rowID(r)
		}
		return fr.BulkImport(rows, append([]uint64(nil), cols...), clear)
	}
	check := func(i int, op string, st behav.Step) (string, string) {
		if st.Bool("open") {
			for r, abs := range fragRows(st) {
				want := setOf(bl, abs)
				got := fr.Row(rowID(r)).Columns()
				if !gamma.Equal(want, got) {
					return "shard_row", fmt.Sprintf("after %s%s shard row %d: %s", op, behav.JSON(st["args"]), r, gamma.Diff(want, got))
				}
			}
		}
		for s, name := range map[int]string{1: "h1", 2: "h2"} {
			abs := st.Ints(name)
			if isDead(abs) {
				continue
			}
			want := setOf(bl, abs)
			got := held[s].Columns()
			if !gamma.Equal(want, got) {
				return "held_" + name, fmt.Sprintf("after %s%s held value %s: %s", op, behav.JSON(st["args"]), name, gamma.Diff(want, got))
			}
			if n := held[s].Count(); n != uint64(len(want)) {
				return "held_count_" + name, fmt.Sprintf("after %s%s held value %s: Count() = %d, want %d", op, behav.JSON(st["args"]), name, n, len(want))
			}
		}
		return "", ""
	}
	for i, st := range c.Beh {
		op := st.Str("op")
		args := behav.ToList(st["args"])
		if cov != nil {
			cov("op:" + op)
		}
		var err error
		switch op {
		case "Init":
			for r, abs := range fragRows(st) {
				if cols := setOf(bl, abs); len(cols) > 0 {
					if err = writeCols(r, cols, false); err != nil {
						return i, op, "harness", err.Error()
					}
				}
			}
		case "Hold":
			held[behav.ToInt(args[0])] = fr.Row(rowID(behav.ToInt(args[1])))
		case "Derive":
			x := fr.Row(rowID(behav.ToInt(args[1])))
			switch args[0].(string) {
			case "Union":
				held[2] = held[1].Union(x)
			case "Intersect":
				held[2] = held[1].Intersect(x)
			case "Difference":
				held[2] = held[1].Difference(x)
			case "Xor":
				held[2] = held[1].Xor(x)
			}
		case "Store":
			_, err = fr.SetRow(held[behav.ToInt(args[1])], rowID(behav.ToInt(args[0])))
		case "SetCol":
			err = writeCols(behav.ToInt(args[0]), bl[behav.ToInt(args[1])], false)
		case "ClearCol":
			err = writeCols(behav.ToInt(args[0]), bl[behav.ToInt(args[1])], true)
		case "Import":
			r := behav.ToInt(args[0])
			cols := setOf(bl, behav.ToInts(args[1]))
			pos := make([]uint64, len(cols))
			for k, col := range cols {
				pos[k] = rowID(r)*pilosa.ShardWidth + col
			}
			data := roaringb.EncodePilosaRef(pos, 0, roaringb.EncStyles[(i+int(c.Seed))%len(roaringb.EncStyles)])
			err = fr.ImportRoaring(data, args[2].(bool))
			for k := range data {
				data[k] = 0xFF // the request buffer is reused by the server
			}
		case "ClearRow":
			_, err = fr.ClearRow(rowID(behav.ToInt(args[0])))
		case "MutHeld":
			for _, col := range bl[behav.ToInt(args[1])] {
				held[behav.ToInt(args[0])].SetBit(col)
			}
		case "MergeHeld":
			held[1].Merge(held[2])
		case "Snapshot":
			err = fr.Snapshot()
		case "Reopen":
			err = fr.Reopen()
		case "Close":
			err = fr.Close()
			closed = true
		default:
			return i, op, "harness", "unknown op " + op
		}
		if err != nil {
			return i, op, "error", fmt.Sprintf("%s%s: %v", op, behav.JSON(st["args"]), err)
		}
		if what, detail := check(i, op, st); what != "" {
			return i, op, what, detail
		}
	}
	return -1, "", "", ""
}

func histString(b behav.Behaviour) string {
	var parts []string
	for _, st := range b {
		if st.Str("op") == "Init" {
			parts = append(parts, "Init"+behav.JSON(st["frag"]))
			continue
		}
		parts = append(parts, st.Str("op")+behav.JSON(st["args"]))
	}
	return strings.Join(parts, " ; ")
}

func TestC03Frag(t *testing.T) {
	res := behav.NewResult()
	defer func() {
		if err := res.Write(); err != nil {
			t.Fatal(err)
		}
	}()
	exec := func(c *isoCase, cov func(string)) {
		var step int
		var op, what, detail string
		pv, stack := behav.Protect(func() { step, op, what, detail = runIso(c, cov) })
		if pv != nil {
			if !behav.PanicInCode(stack) {
				res.SetInconclusive(fmt.Sprintf("harness panic: %v\n%s", pv, stack))
				return
			}
			what, detail = "panic", fmt.Sprintf("panic: %v\n%s", pv, stack)
			if len(detail) > 3000 {
				detail = detail[:3000]
			}
		}
		if what == "harness" {
			res.SetInconclusive(detail)
			return
		}
		if what != "" {
			res.Fail(behav.Failure{
				Match:  map[string]string{"op": op, "symptom": what, "level": "fragment"},
				Detail: fmt.Sprintf("step %d shape %s cache %s maxopn %d: %s\nhistory: %s", step, c.Shape, c.Cache, c.MaxOpN, detail, histString(c.Beh)),
				Replay: c,
			})
		}
	}
	if raw, ok := behav.LoadReplay(); ok {
		var c isoCase
		if err := json.Unmarshal(raw, &c); err != nil {
			t.Fatal(err)
		}
		res.Evaluations = 1
		exec(&c, nil)
		return
	}
	behs := behav.LoadEnv()
	seed := behav.Seed()
	ncols := behav.EnvInt("VERIF_NCOLS", 2)
	shapes := []string{"single", "array", "bitmap", "run", "samecont", "edge"}
	caches := []string{"ranked", "lru", "none"}
	type variant struct {
		shape, cache string
		maxopn       int
	}
	var vars []variant
	if behav.Thorough() {
		for i, s := range shapes {
			vars = append(vars, variant{s, caches[i%3], []int{0, 2, 100000}[i%3]})
		}
	} else {
		vars = []variant{{"single", "ranked", 2}, {shapes[1+int(seed)%5], caches[int(seed)%3], 100000}}
	}
	var distinct behav.Distinct
	total := len(behs) * len(vars)
	behav.Parallel(total, func(i int) {
		bi, vi := i/len(vars), i%len(vars)
		c := &isoCase{Beh: behs[bi], Shape: vars[vi].shape, Cache: vars[vi].cache, MaxOpN: vars[vi].maxopn, Seed: seed, NCols: ncols,
			RowBase: []uint64{0, 99}[(bi+int(seed))%2]}
		exec(c, res.Cover)
		res.CountEval()
		if len(c.Beh) >= 3 && distinct.Add(fmt.Sprintf("%s|%d", histString(c.Beh), vi)) {
			res.CountNontrivial()
		}
		if i%(total/5+1) == 0 {
			res.AddSample(map[string]interface{}{"history": histString(c.Beh), "shape": c.Shape, "cache": c.Cache, "maxopn": c.MaxOpN})
		}
	}, nil)
}
