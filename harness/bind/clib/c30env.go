package clib

import (
	"bytes"
	"context"
	"fmt"
	"math/rand"
	"os"
	"path/filepath"
	"sort"
	"strconv"
	"strings"
	"testing"
	"time"

	"github.com/pilosa/pilosa"
	"github.com/pilosa/pilosa/ctl"
	"github.com/pilosa/pilosa/server"
	"github.com/pilosa/pilosa/test"
)

const (
	ckIndex    = "ck" // the shared column-keyed source index (keys pre-seeded over three shards)
	ckVariants = 12
	maxAbsCols = 6
)

var sw = uint64(pilosa.ShardWidth)

// ckUniverse is the column-key universe of the shared keyed index: for every variant and
// abstract column a block of 1..2 keys whose ids were placed, by a pre-written translate
// log, in the shard the abstract column belongs to (at the shard's first and last
// columns). A keyed index that has been in use for a long time looks like this; a fresh
// one would keep all its columns in shard 0 and the export would never leave that shard.
type ckUniverse struct {
	keys   [ckVariants][maxAbsCols][]string
	ids    [ckVariants][maxAbsCols][]uint64
	shards [ckVariants][3]uint64
}

var ckShardMaps = [][3]uint64{{0, 1, 2}, {0, 2, 3}, {1, 2, 4}}

func buildCK(seed int64) *ckUniverse {
	u := &ckUniverse{}
	classes := make([]string, 0, len(keyClasses))
	for _, c := range keyClasses {
		if c != "crlf" {
			classes = append(classes, c)
		}
	}
	g := newKeyGen(seed*7919+11, classes)
	rng := rand.New(rand.NewSource(seed*104729 + 5))
	for v := 0; v < ckVariants; v++ {
		u.shards[v] = ckShardMaps[v%len(ckShardMaps)]
		for c := 0; c < maxAbsCols; c++ {
			bs := 1 + rng.Intn(2)
			for j := 0; j < bs; j++ {
				var k string
				if v == ckVariants-1 && c == 1 && j == 0 {
					k = g.ofClass("crlf")
				} else if v < len(classes) && c == 0 && j == 0 {
					k = g.ofClass(classes[v]) // every class occurs at least once
				} else {
					k = g.next()
				}
				u.keys[v][c] = append(u.keys[v][c], k)
			}
		}
	}
	return u
}

// place assigns the ids for a given abstract geometry (slots per shard).
func (u *ckUniverse) place(slots int) {
	for v := 0; v < ckVariants; v++ {
		for c := 0; c < maxAbsCols; c++ {
			u.ids[v][c] = nil
			s := c / slots
			if s > 2 {
				s = 2
			}
			shard := u.shards[v][s]
			high := ((c%slots)+v)%2 == 1
			for j := range u.keys[v][c] {
				off := uint64(1 + v*16 + c*2 + j)
				if high {
					off = sw - 1 - uint64(v*16+c*2+j)
				}
				u.ids[v][c] = append(u.ids[v][c], shard*sw+off)
			}
		}
	}
}

// writeLog pre-writes the translate log of the data directory.
func (u *ckUniverse) writeLog(dataDir string) error {
	e := &pilosa.LogEntry{Type: pilosa.LogEntryTypeInsertColumn, Index: []byte(ckIndex)}
	for v := 0; v < ckVariants; v++ {
		for c := 0; c < maxAbsCols; c++ {
			for j, k := range u.keys[v][c] {
				e.IDs = append(e.IDs, u.ids[v][c][j])
				e.Keys = append(e.Keys, []byte(k))
			}
		}
	}
	var buf bytes.Buffer
	if _, err := e.WriteTo(&buf); err != nil {
		return err
	}
	return os.WriteFile(filepath.Join(dataDir, ".keys"), buf.Bytes(), 0o600)
}

// env is one in-process server.
type env struct {
	cmd   *test.Command // the coordinator (primary translate store); the commands talk to it
	nodes test.Cluster
	tf    *pilosa.TranslateFile
	ck    *ckUniverse
	host  string
	dir   string // scratch for csv files
}

func startEnv(tb testing.TB, seed int64, slots, nodes, replicas int) (*env, error) {
	var cl test.Cluster
	if nodes <= 1 {
		m := test.NewCommandNode(true)
		m.Config.Cluster.Disabled = true
		cl = test.Cluster{m}
	} else {
		// partitions are dealt round-robin: the export has to fetch every shard from the
		// node that owns it, the import has to route every shard to its owner
		cl = test.MustNewCluster(tb, nodes, []server.CommandOption{
			server.OptCommandServerOptions(pilosa.OptServerClusterHasher(&test.ModHasher{}))})
	}
	e := &env{cmd: cl[0], nodes: cl, ck: buildCK(seed)}
	e.ck.place(slots)
	for i, m := range cl {
		m.Config.Metric.Diagnostics = false
		m.Config.Translation.MapSize = 512 << 20
		if nodes > 1 && replicas > 1 {
			m.Config.Cluster.ReplicaN = replicas
		}
		// The data directory goes to memory-backed storage when there is one: creating an
		// index or a field syncs several files, which dominates the run on a loaded disk,
		// and the property is not about durability.
		if d, err := os.MkdirTemp("/dev/shm", "verif-clib-"); err == nil {
			if id, err := os.ReadFile(filepath.Join(m.Config.DataDir, ".id")); err == nil {
				os.WriteFile(filepath.Join(d, ".id"), id, 0o600)
			}
			os.RemoveAll(m.Config.DataDir)
			m.Config.DataDir = d
		}
		if i == 0 {
			if err := e.ck.writeLog(m.Config.DataDir); err != nil {
				return nil, err
			}
		}
	}
	if nodes <= 1 {
		if err := cl[0].Start(); err != nil {
			return nil, err
		}
	} else if err := cl.Start(); err != nil {
		return nil, err
	}
	m := cl[0]
	e.tf = pilosa.VerifDurTranslateFile(m.Server.Holder())
	e.host = m.API.Node().URI.HostPort()
	d, err := os.MkdirTemp("", "clib-csv-")
	if err != nil {
		return nil, err
	}
	e.dir = d
	if _, err := m.API.CreateIndex(context.Background(), ckIndex, pilosa.IndexOptions{Keys: true, TrackExistence: true}); err != nil {
		return nil, err
	}
	// the pre-seeded ids must be what the server now answers
	for v := 0; v < ckVariants; v++ {
		for c := 0; c < maxAbsCols; c++ {
			got, err := e.tf.TranslateColumnsToUint64(ckIndex, e.ck.keys[v][c])
			if err != nil {
				return nil, err
			}
			for j := range got {
				if got[j] != e.ck.ids[v][c][j] {
					return nil, fmt.Errorf("pre-seeded key %q has id %d, want %d", e.ck.keys[v][c][j], got[j], e.ck.ids[v][c][j])
				}
			}
		}
	}
	return e, nil
}

func (e *env) close() {
	for _, m := range e.nodes {
		m.Close()
	}
	if e.dir != "" {
		os.RemoveAll(e.dir)
	}
}

// cbit is one concrete bit: ids or keys depending on the mode.
type cbit struct {
	rowID  uint64
	rowKey string
	colID  uint64
	colKey string
}

func (b cbit) rowStr(rowKeyed bool) string {
	if rowKeyed {
		return b.rowKey
	}
	return strconv.FormatUint(b.rowID, 10)
}

func (b cbit) colStr(colKeyed bool) string {
	if colKeyed {
		return b.colKey
	}
	return strconv.FormatUint(b.colID, 10)
}

// importBits writes (or clears) bits through API.Import.
func (e *env) importBits(index, field string, rowKeyed, colKeyed bool, bits []cbit, clear bool) error {
	if len(bits) == 0 {
		return nil
	}
	ctx := context.Background()
	var opts []pilosa.ImportOption
	if clear {
		opts = append(opts, pilosa.OptImportOptionsClear(true))
	}
	if len(e.nodes) == 1 && (rowKeyed || colKeyed) {
		req := &pilosa.ImportRequest{Index: index, Field: field}
		for _, b := range bits {
			if rowKeyed {
				req.RowKeys = append(req.RowKeys, b.rowKey)
			} else {
				req.RowIDs = append(req.RowIDs, b.rowID)
			}
			if colKeyed {
				req.ColumnKeys = append(req.ColumnKeys, b.colKey)
			} else {
				req.ColumnIDs = append(req.ColumnIDs, b.colID)
			}
		}
		return e.cmd.API.Import(ctx, req, opts...)
	}
	// On a cluster the source is written the way the wire protocol delivers an import: keys
	// are translated at the primary store, and every shard's bits are handed, as ids, to
	// EVERY node that owns the shard. The fan-out of the code under test is not used here, so
	// the source is complete on all replicas whatever the import path does.
	if rowKeyed || colKeyed {
		opts = append(opts, pilosa.OptImportOptionsIgnoreKeyCheck(true))
		bits = append([]cbit{}, bits...)
		if rowKeyed {
			keys := make([]string, len(bits))
			for i, b := range bits {
				keys[i] = b.rowKey
			}
			ids, err := e.tf.TranslateRowsToUint64(index, field, keys)
			if err != nil {
				return err
			}
			for i := range bits {
				bits[i].rowID = ids[i]
			}
		}
		if colKeyed {
			keys := make([]string, len(bits))
			for i, b := range bits {
				keys[i] = b.colKey
			}
			ids, err := e.tf.TranslateColumnsToUint64(index, keys)
			if err != nil {
				return err
			}
			for i := range bits {
				bits[i].colID = ids[i]
			}
		}
	}
	byShard := map[uint64]*pilosa.ImportRequest{}
	for _, b := range bits {
		s := b.colID / sw
		r := byShard[s]
		if r == nil {
			r = &pilosa.ImportRequest{Index: index, Field: field, Shard: s}
			byShard[s] = r
		}
		r.RowIDs = append(r.RowIDs, b.rowID)
		r.ColumnIDs = append(r.ColumnIDs, b.colID)
	}
	for _, r := range byShard {
		owners, err := e.owners(index, r.Shard)
		if err != nil {
			return err
		}
		for _, owner := range owners {
			cp := *r
			cp.RowIDs = append([]uint64{}, r.RowIDs...)
			cp.ColumnIDs = append([]uint64{}, r.ColumnIDs...)
			if err := owner.API.Import(ctx, &cp, opts...); err != nil {
				return err
			}
		}
	}
	return nil
}

// ownersExportAgree exports every shard of a field at every node that owns it
// (API.ExportCSV serves a node's own fragment) and compares the owners' records.
func (e *env) ownersExportAgree(index, field string) (string, error) {
	if len(e.nodes) == 1 {
		return "", nil
	}
	f := e.cmd.Server.Holder().Field(index, field)
	if f == nil {
		return "", fmt.Errorf("field %s/%s not found", index, field)
	}
	for _, shard := range f.AvailableShards().Slice() {
		owners, err := e.owners(index, shard)
		if err != nil {
			return "", err
		}
		var first records
		for i, o := range owners {
			var buf bytes.Buffer
			if err := o.API.ExportCSV(context.Background(), index, field, shard, &buf); err != nil && err != pilosa.ErrFragmentNotFound {
				return "", fmt.Errorf("ExportCSV of shard %d at %s: %v", shard, o.API.Node().ID, err)
			}
			recs, err := parseCSV(buf.Bytes())
			if err != nil {
				return "", err
			}
			if i == 0 {
				first = recs
			} else if m, x := recs.diff(first); len(m)+len(x) > 0 {
				return fmt.Sprintf("shard %d: node %s exports %d records, node %s %d: missing %s extra %s", shard,
					o.API.Node().ID, len(recs), owners[0].API.Node().ID, len(first), fmtPairs(m), fmtPairs(x)), nil
			}
		}
	}
	return "", nil
}

// owners lists the nodes that own a shard of an index.
func (e *env) owners(index string, shard uint64) ([]*test.Command, error) {
	if len(e.nodes) == 1 {
		return []*test.Command{e.cmd}, nil
	}
	ns, err := e.cmd.API.ShardNodes(context.Background(), index, shard)
	if err != nil || len(ns) == 0 {
		return nil, fmt.Errorf("shard nodes: %v", err)
	}
	var out []*test.Command
	for _, n := range ns {
		for _, m := range e.nodes {
			if m.API.Node().ID == n.ID {
				out = append(out, m)
			}
		}
	}
	return out, nil
}

// settle waits until every node's translate store has caught up with the primary's
// (replication is asynchronous; an export served by a lagging node would print "" for a
// key it has not heard of yet, which is C24's business, not this property's).
func (e *env) settle(index, field string) error {
	if len(e.nodes) == 1 {
		return nil
	}
	want := pilosa.VerifTranslateSize(e.tf)
	deadline := time.Now().Add(10 * time.Second)
	for _, m := range e.nodes[1:] {
		t := pilosa.VerifDurTranslateFile(m.Server.Holder())
		for pilosa.VerifTranslateSize(t) < want {
			if time.Now().After(deadline) {
				return fmt.Errorf("translate replication did not catch up (%d < %d)", pilosa.VerifTranslateSize(t), want)
			}
			time.Sleep(2 * time.Millisecond)
		}
	}
	// every node must have heard of every shard of the field (shard creation is broadcast
	// with a 50 ms patience; the commands ask one node for the shard range)
	for {
		var first string
		same := true
		for i, m := range e.nodes {
			f := m.Server.Holder().Field(index, field)
			if f == nil {
				same = false
				break
			}
			s := fmt.Sprint(f.AvailableShards().Slice())
			if i == 0 {
				first = s
			} else if s != first {
				same = false
			}
		}
		if same {
			return nil
		}
		if time.Now().After(deadline) {
			return fmt.Errorf("the nodes do not agree on the shards of %s/%s", index, field)
		}
		time.Sleep(2 * time.Millisecond)
	}
}

// records is a multiset of (row string, column string).
type records map[[2]string]int

func (r records) add(row, col string) { r[[2]string{row, col}]++ }

func (r records) diff(want records) (missing, extra [][2]string) {
	for k, n := range want {
		if r[k] < n {
			missing = append(missing, k)
		}
	}
	for k, n := range r {
		if want[k] < n {
			extra = append(extra, k)
		}
	}
	sortPairs(missing)
	sortPairs(extra)
	return
}

func sortPairs(p [][2]string) {
	sort.Slice(p, func(i, j int) bool {
		if p[i][0] != p[j][0] {
			return p[i][0] < p[j][0]
		}
		return p[i][1] < p[j][1]
	})
}

func fmtPairs(p [][2]string) string {
	var s []string
	for i, x := range p {
		if i == 6 {
			s = append(s, "…")
			break
		}
		s = append(s, fmt.Sprintf("(%q,%q)", x[0], x[1]))
	}
	return "[" + strings.Join(s, " ") + "]"
}

// fieldState is what a field holds, read without the commands under test.
type fieldState struct {
	bits     records
	rowKeys  []string // keyed field: the keys the field's translation knows, by id 1..n
	problem  string   // disagreement between two read paths
	replicas string   // an owner of a shard that does not hold all of the shard's bits
}

// readField reads every bit of a field: the row list through the Rows() query, every row
// through Field.Row (all shards), keys through the translate store. For an unkeyed field
// the rows in probe are read through the Row() query as a second read path (one request
// for the row list and all probes: parsing a query costs tens of milliseconds here).
func (e *env) readField(index, field string, rowKeyed, colKeyed bool, probe []uint64) (*fieldState, error) {
	ctx := context.Background()
	st := &fieldState{bits: records{}}
	q := "Rows(" + field + ")"
	if !rowKeyed {
		for _, id := range probe {
			q += fmt.Sprintf("Row(%s=%d)", field, id)
		}
	}
	resp, err := e.cmd.API.Query(ctx, &pilosa.QueryRequest{Index: index, Query: q})
	if err != nil {
		return nil, fmt.Errorf("%s: %v", q, err)
	}
	ri, ok := resp.Results[0].(pilosa.RowIdentifiers)
	if !ok {
		return nil, fmt.Errorf("Rows(): unexpected result %T", resp.Results[0])
	}
	var fs []*pilosa.Field
	for _, m := range e.nodes {
		f := m.Server.Holder().Field(index, field)
		if f == nil {
			return nil, fmt.Errorf("field %s/%s not found on a node", index, field)
		}
		fs = append(fs, f)
	}
	ids := ri.Rows
	names := make([]string, len(ids))
	if rowKeyed {
		if len(ri.Rows) != 0 {
			st.problem = fmt.Sprintf("Rows() of a keyed field returned ids %v", ri.Rows)
		}
		names = ri.Keys
		ids = nil
		if len(names) > 0 {
			if ids, err = e.tf.TranslateRowsToUint64(index, field, names); err != nil {
				return nil, err
			}
		}
		for id := uint64(1); ; id++ {
			k, err := e.tf.TranslateRowToString(index, field, id)
			if err != nil {
				return nil, err
			}
			if k == "" {
				break
			}
			st.rowKeys = append(st.rowKeys, k)
		}
	} else {
		for i, id := range ids {
			names[i] = strconv.FormatUint(id, 10)
		}
	}
	colName := func(c uint64) (string, error) {
		if colKeyed {
			return e.tf.TranslateColumnToString(index, c)
		}
		return strconv.FormatUint(c, 10), nil
	}
	byRow := map[uint64][]string{}
	for i, id := range ids {
		seen := map[uint64]bool{}
		local := make([]map[uint64][]uint64, len(fs)) // node -> shard -> columns it holds itself
		for n, f := range fs {                        // every node holds its own shards of the row
			row, err := f.Row(id)
			if err != nil {
				return nil, err
			}
			local[n] = map[uint64][]uint64{}
			for _, c := range row.Columns() {
				local[n][c/sw] = append(local[n][c/sw], c)
				if seen[c] {
					continue
				}
				seen[c] = true
				cs, err := colName(c)
				if err != nil {
					return nil, err
				}
				byRow[id] = append(byRow[id], cs)
				st.bits.add(names[i], cs)
			}
		}
		// every owner of a shard must hold, in its own fragment, all the bits of the row in
		// that shard (a replica an import skipped is seen here whichever replica a query or
		// an export happens to ask)
		if len(fs) > 1 && st.replicas == "" {
			all := map[uint64]int{}
			for c := range seen {
				all[c/sw]++
			}
			for shard, n := range all {
				owners, err := e.owners(index, shard)
				if err != nil {
					return nil, err
				}
				for _, o := range owners {
					for k, m := range e.nodes {
						if m == o && len(local[k][shard]) != n {
							st.replicas = fmt.Sprintf("row %s shard %d: node %s (an owner of the shard) holds %d of the %d bits: %v",
								names[i], shard, m.API.Node().ID, len(local[k][shard]), n, local[k][shard])
						}
					}
				}
			}
		}
	}
	if !rowKeyed {
		for i, id := range probe {
			qr, ok := resp.Results[1+i].(*pilosa.Row)
			if !ok {
				return nil, fmt.Errorf("Row(): unexpected result %T", resp.Results[1+i])
			}
			var got []string
			if colKeyed {
				got = append(got, qr.Keys...)
			} else {
				for _, c := range qr.Columns() {
					got = append(got, strconv.FormatUint(c, 10))
				}
			}
			a, b := append([]string{}, byRow[id]...), got
			sort.Strings(a)
			sort.Strings(b)
			if strings.Join(a, "\x00") != strings.Join(b, "\x00") && st.problem == "" {
				st.problem = fmt.Sprintf("row %d: Rows()+Field.Row give %q, the Row query %q", id, a, b)
			}
		}
	}
	return st, nil
}

// runExport runs the real export command; toFile selects --output-file against stdout.
func (e *env) runExport(index, field string, toFile bool, tag string) ([]byte, error) {
	var out, errb bytes.Buffer
	ec := ctl.NewExportCommand(strings.NewReader(""), &out, &errb)
	ec.Host = e.host
	ec.Index = index
	ec.Field = field
	path := ""
	if toFile {
		path = filepath.Join(e.dir, tag+".csv")
		ec.Path = path
		defer os.Remove(path)
	}
	if err := ec.Run(context.Background()); err != nil {
		return nil, err
	}
	if toFile {
		return os.ReadFile(path)
	}
	return out.Bytes(), nil
}

// importOpts are the knobs of one run of the import command.
type importOpts struct {
	buf          int
	sort         bool
	fromFile     bool
	createSchema bool
	rowKeyed     bool
	colKeyed     bool
}

// runImport runs the real import command on the CSV.
func (e *env) runImport(index, field string, data []byte, o importOpts, tag string) error {
	var out, errb bytes.Buffer
	ic := ctl.NewImportCommand(bytes.NewReader(data), &out, &errb)
	ic.Host = e.host
	ic.Index = index
	ic.Field = field
	// buf = 0 stands for "one batch": larger than any export of a case. (The command's
	// own default of 10,000,000 allocates 560 MB of pointer-bearing memory per run, which
	// the collector then scans for the rest of the process.)
	ic.BufferSize = 50000
	if o.buf > 0 {
		ic.BufferSize = o.buf
	}
	ic.Sort = o.sort
	if o.createSchema {
		ic.CreateSchema = true
		ic.IndexOptions = pilosa.IndexOptions{Keys: o.colKeyed, TrackExistence: true}
		ic.FieldOptions = pilosa.FieldOptions{Type: pilosa.FieldTypeSet, CacheType: pilosa.DefaultCacheType, CacheSize: pilosa.DefaultCacheSize, Keys: o.rowKeyed}
	}
	if o.fromFile {
		path := filepath.Join(e.dir, tag+"-in.csv")
		if err := os.WriteFile(path, data, 0o600); err != nil {
			return err
		}
		defer os.Remove(path)
		ic.Paths = []string{path}
	} else {
		ic.Paths = []string{"-"}
	}
	return ic.Run(context.Background())
}

// parseCSV reads an export as the multiset of its records with a strict RFC 4180 reader
// of its own (encoding/csv rewrites CR LF inside quoted fields, which would hide or
// invent differences): records end at LF or CR LF outside quotes, fields are separated by
// commas, a field that starts with a double quote extends to the closing quote, "" inside
// stands for one quote, everything else inside quotes is literal.
func parseCSV(data []byte) (records, error) {
	out := records{}
	var rec []string
	var fld []byte
	i, n := 0, len(data)
	endField := func() { rec = append(rec, string(fld)); fld = fld[:0] }
	endRecord := func() error {
		if len(rec) == 1 && rec[0] == "" {
			rec = rec[:0]
			return nil // empty line
		}
		if len(rec) != 2 {
			return fmt.Errorf("record with %d fields: %q", len(rec), rec)
		}
		out.add(rec[0], rec[1])
		rec = rec[:0]
		return nil
	}
	for i < n {
		if data[i] == '"' && len(fld) == 0 {
			i++
			closed := false
			for i < n {
				if data[i] == '"' {
					if i+1 < n && data[i+1] == '"' {
						fld = append(fld, '"')
						i += 2
						continue
					}
					i++
					closed = true
					break
				}
				fld = append(fld, data[i])
				i++
			}
			if !closed {
				return out, fmt.Errorf("unterminated quoted field")
			}
			if i < n && data[i] != ',' && data[i] != '\n' && data[i] != '\r' {
				return out, fmt.Errorf("text after closing quote at byte %d", i)
			}
			continue
		}
		switch c := data[i]; {
		case c == ',':
			endField()
			i++
		case c == '\n' || (c == '\r' && i+1 < n && data[i+1] == '\n'):
			endField()
			if err := endRecord(); err != nil {
				return out, err
			}
			if c == '\r' {
				i++
			}
			i++
		default:
			fld = append(fld, c)
			i++
		}
	}
	if len(fld) > 0 || len(rec) > 0 {
		endField()
		if err := endRecord(); err != nil {
			return out, err
		}
	}
	return out, nil
}

func sortedLines(data []byte) string {
	l := strings.Split(string(data), "\n")
	sort.Strings(l)
	return strings.Join(l, "\n")
}
