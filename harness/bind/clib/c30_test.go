package clib

import (
	"context"
	"encoding/json"
	"fmt"
	"math/rand"
	"os"
	"sort"
	"strconv"
	"strings"
	"sync"
	"testing"

	"github.com/pilosa/pilosa"

	"verif/harness/behav"
)

// c30Case is a self-contained replay: one behaviour of spec/Cli.tla (family c30) under
// the refinement derived from (seed, idx).
type c30Case struct {
	Beh      behav.Behaviour `json:"beh"`
	Seed     int64           `json:"seed"`
	Idx      int             `json:"idx"`
	Slots    int             `json:"slots"`
	Nodes    int             `json:"nodes"`
	Replicas int             `json:"replicas"`
	// Corrupt is the binding self-test: "expect" drops one expected bit, "nocsv" etc.
	Corrupt string `json:"corrupt,omitempty"`
}

// unkeyed row ids (abstract row r -> block) and shard maps for unkeyed columns
var rowIDProfiles = [][3][]uint64{
	{{0}, {1}, {2}},
	{{0}, {1, 2}, {70000}},
	{{3}, {1048576}, {1<<32 + 5, 1<<32 + 6}},
	{{1}, {65535, 65536}, {1 << 40}},
}
var colShardMaps = [][3]uint64{{0, 1, 2}, {0, 2, 5}, {1, 2, 3}, {0, 1, 3}, {2, 3, 7}}

func bitsOf(v interface{}) [][2]int {
	var out [][2]int
	for _, x := range behav.ToList(v) {
		p := behav.ToInts(x)
		out = append(out, [2]int{p[0], p[1]})
	}
	return out
}

// refinement of one case
type c30Ref struct {
	rowKeyed, colKeyed bool
	rowIDs             [3][]uint64
	rowKeys            [3][]string
	colIDs             [maxAbsCols][]uint64
	colKeys            [maxAbsCols][]string
	variant            int
}

func (r *c30Ref) concrete(abs [][2]int) []cbit {
	var out []cbit
	for _, b := range abs {
		row, col := b[0], b[1]
		nr := len(r.rowIDs[row])
		if r.rowKeyed {
			nr = len(r.rowKeys[row])
		}
		nc := len(r.colIDs[col])
		for i := 0; i < nr; i++ {
			for j := 0; j < nc; j++ {
				cb := cbit{colID: r.colIDs[col][j]}
				if r.rowKeyed {
					cb.rowKey = r.rowKeys[row][i]
				} else {
					cb.rowID = r.rowIDs[row][i]
				}
				if r.colKeyed {
					cb.colKey = r.colKeys[col][j]
				}
				out = append(out, cb)
			}
		}
	}
	return out
}

// probe lists the unkeyed row ids of the refinement (read back through the Row query too).
func (r *c30Ref) probe() []uint64 {
	var out []uint64
	if !r.rowKeyed {
		for _, b := range r.rowIDs {
			out = append(out, b...)
		}
	}
	return out
}

func (r *c30Ref) recs(abs [][2]int) records {
	out := records{}
	for _, b := range r.concrete(abs) {
		out.add(b.rowStr(r.rowKeyed), b.colStr(r.colKeyed))
	}
	return out
}

func makeRef(c *c30Case, e *env, mode string) *c30Ref {
	rng := rand.New(rand.NewSource(c.Seed*1000003 + int64(c.Idx)*7919 + 17))
	r := &c30Ref{rowKeyed: mode == "rowkeys" || mode == "both", colKeyed: mode == "colkeys" || mode == "both"}
	r.variant = rng.Intn(ckVariants)
	if r.rowKeyed {
		classes := make([]string, 0, len(keyClasses))
		for _, k := range keyClasses {
			if k != "crlf" {
				classes = append(classes, k)
			}
		}
		g := newKeyGen(rng.Int63(), classes)
		crlfRow := -1
		if rng.Intn(12) == 0 {
			crlfRow = rng.Intn(3)
		}
		for row := 0; row < 3; row++ {
			n := 1 + rng.Intn(2)
			for i := 0; i < n; i++ {
				if row == crlfRow && i == 0 {
					r.rowKeys[row] = append(r.rowKeys[row], g.ofClass("crlf"))
				} else {
					r.rowKeys[row] = append(r.rowKeys[row], g.next())
				}
			}
		}
	} else {
		r.rowIDs = rowIDProfiles[rng.Intn(len(rowIDProfiles))]
	}
	if r.colKeyed {
		for col := 0; col < maxAbsCols; col++ {
			r.colKeys[col] = e.ck.keys[r.variant][col]
			r.colIDs[col] = e.ck.ids[r.variant][col]
		}
	} else {
		sm := colShardMaps[rng.Intn(len(colShardMaps))]
		used := map[uint64]bool{}
		for col := 0; col < maxAbsCols; col++ {
			s := col / c.Slots
			if s > 2 {
				s = 2
			}
			n := 1 + rng.Intn(3)
			for len(r.colIDs[col]) < n {
				var off uint64
				switch rng.Intn(7) {
				case 0:
					off = 0
				case 1:
					off = sw - 1
				case 2:
					off = 1
				case 3:
					off = sw - 2
				case 4:
					off = 65535 + uint64(rng.Intn(2))
				default:
					off = uint64(rng.Int63n(int64(sw)))
				}
				id := sm[s]*sw + off
				if !used[id] {
					used[id] = true
					r.colIDs[col] = append(r.colIDs[col], id)
				}
			}
		}
	}
	return r
}

// runC30 replays one case. It returns nil when the commands agree with the
// specification; inconclusive (non-empty string) when the harness could not set the
// case up.
func runC30(c *c30Case, e *env, cov func(string)) (fail *behav.Failure, inconclusive string) {
	last := c.Beh[len(c.Beh)-1]
	if last.Str("op") != "ExportImport" {
		return nil, "behaviour does not end with ExportImport"
	}
	mode, target, buf := last.Str("mode"), last.Str("target"), last.Int("buf")
	ref := makeRef(c, e, mode)
	ctx := context.Background()
	api := e.cmd.API
	tag := fmt.Sprintf("c%d", c.Idx)

	srcIndex := "s" + tag
	if ref.colKeyed {
		srcIndex = ckIndex
	} else if _, err := api.CreateIndex(ctx, srcIndex, pilosa.IndexOptions{TrackExistence: true}); err != nil {
		return nil, "creating source index: " + err.Error()
	}
	dstIndex := srcIndex
	if target == "other" {
		dstIndex = "t" + tag
	}
	srcField, dstField := "f"+tag+"s", "f"+tag+"t"
	fopts := []pilosa.FieldOption{pilosa.OptFieldTypeSet(pilosa.DefaultCacheType, pilosa.DefaultCacheSize)}
	if ref.rowKeyed {
		fopts = append(fopts, pilosa.OptFieldKeys())
	}
	defer func() {
		if srcIndex == ckIndex {
			api.DeleteField(ctx, ckIndex, srcField)
			if dstIndex == ckIndex {
				api.DeleteField(ctx, ckIndex, dstField)
			}
		} else {
			api.DeleteIndex(ctx, srcIndex)
		}
		if dstIndex != srcIndex {
			api.DeleteIndex(ctx, dstIndex)
		}
	}()
	if _, err := api.CreateField(ctx, srcIndex, srcField, fopts...); err != nil {
		return nil, "creating source field: " + err.Error()
	}

	mk := func(symptom, detail string, keys []string) *behav.Failure {
		return &behav.Failure{
			Match:  map[string]string{"op": "ExportImport", "symptom": symptom, "mode": mode, "keyshape": shapesOf(keys)},
			Detail: fmt.Sprintf("case %d mode=%s target=%s buf=%d: %s", c.Idx, mode, target, buf, detail),
			Replay: c,
		}
	}

	// ---- history: Populate per shard, Clear
	for _, st := range c.Beh[:len(c.Beh)-1] {
		bits := ref.concrete(bitsOf(st["bits"]))
		switch st.Str("op") {
		case "Populate":
			if err := e.importBits(srcIndex, srcField, ref.rowKeyed, ref.colKeyed, bits, false); err != nil {
				return nil, "populating the source: " + err.Error()
			}
		case "Clear":
			if err := e.importBits(srcIndex, srcField, ref.rowKeyed, ref.colKeyed, bits, true); err != nil {
				return nil, "clearing source bits: " + err.Error()
			}
		}
	}
	absBits := bitsOf(last["bits"])
	want := ref.recs(absBits)
	if c.Corrupt == "expect" && len(absBits) > 0 {
		want = ref.recs(absBits[1:])
	}
	// the source must hold what the specification says before the commands run; if it
	// does not, the write path is at fault (C07/C28), not the commands
	if err := e.settle(srcIndex, srcField); err != nil {
		return nil, err.Error()
	}
	src, err := e.readField(srcIndex, srcField, ref.rowKeyed, ref.colKeyed, ref.probe())
	if err != nil {
		return nil, "reading the source: " + err.Error()
	}
	if src.replicas != "" {
		return nil, "source replicas are incomplete: " + src.replicas
	}
	if c.Corrupt != "expect" {
		if m, x := src.bits.diff(want); len(m)+len(x) > 0 {
			return nil, fmt.Sprintf("source field differs from the specification after population: missing %s extra %s", fmtPairs(m), fmtPairs(x))
		}
	}
	if cov != nil {
		cov("mode:" + mode)
		cov(fmt.Sprintf("nodes:%d", len(e.nodes)))
		cov(fmt.Sprintf("replicas:%d", c.Replicas))
		cov("target:" + target)
		cov("buf:" + strconv.Itoa(buf))
		if len(behav.ToList(last["noFragment"])) > 0 {
			cov("shape:shard-without-fragment")
		}
		if len(behav.ToList(last["emptied"])) > 0 {
			cov("shape:emptied-fragment")
		}
		if len(behav.ToList(last["staleRows"])) > 0 && ref.rowKeyed {
			cov("shape:row-key-without-bits")
		}
		if len(absBits) == 0 {
			cov("shape:empty-field")
		}
		n := 0
		for _, v := range want {
			n += v
		}
		if buf > 0 && n%buf != 0 {
			cov("shape:partial-last-batch")
		}
		if buf > 0 && n > 0 && n%buf == 0 {
			cov("shape:full-last-batch")
		}
		for k := range want {
			if ref.rowKeyed {
				cov("rowkey:" + keyShape(k[0]))
			}
			if ref.colKeyed {
				cov("colkey:" + keyShape(k[1]))
			}
		}
	}

	// ---- ExportImport: the real export command ...
	h := behav.Hash64(fmt.Sprintf("%d/%d", c.Seed, c.Idx))
	csvData, err := e.runExport(srcIndex, srcField, h&1 == 0, tag)
	if err != nil {
		return mk("export_error", "export command: "+err.Error(), nil), ""
	}
	// the keys a difference is about: keys of missing records that the other side does
	// not know at all (a key that came back changed); failing that, the keys of the pairs
	keysOf := func(missing [][2]string, other records) []string {
		rk, ck := map[string]bool{}, map[string]bool{}
		for k := range other {
			rk[k[0]], ck[k[1]] = true, true
		}
		var out, all []string
		for _, x := range missing {
			if ref.rowKeyed {
				all = append(all, x[0])
				if !rk[x[0]] {
					out = append(out, x[0])
				}
			}
			if ref.colKeyed {
				all = append(all, x[1])
				if !ck[x[1]] {
					out = append(out, x[1])
				}
			}
		}
		if len(out) == 0 {
			return all
		}
		return out
	}
	got, perr := parseCSV(csvData)
	if perr != nil {
		return mk("csv_malformed", fmt.Sprintf("the export is not RFC 4180 CSV: %v; output %q", perr, clip(csvData)), keysOf(pairsOf(want), nil)), ""
	}
	if m, x := got.diff(want); len(m)+len(x) > 0 {
		return mk("csv_differs", fmt.Sprintf("records of the export differ from the field: missing %s extra %s", fmtPairs(m), fmtPairs(x)), keysOf(m, got)), ""
	}

	// ... and the real import command into an empty field of the same type
	io := importOpts{buf: buf, sort: h&2 != 0, fromFile: h&4 != 0, createSchema: h&8 != 0, rowKeyed: ref.rowKeyed, colKeyed: ref.colKeyed}
	if !io.createSchema {
		if dstIndex != srcIndex {
			if _, err := api.CreateIndex(ctx, dstIndex, pilosa.IndexOptions{Keys: ref.colKeyed, TrackExistence: true}); err != nil {
				return nil, "creating target index: " + err.Error()
			}
		}
		if _, err := api.CreateField(ctx, dstIndex, dstField, fopts...); err != nil {
			return nil, "creating target field: " + err.Error()
		}
	}
	if c.Corrupt == "csv" && len(csvData) > 0 { // self-test: lose the last line of the export
		csvData = csvData[:strings.LastIndex(strings.TrimRight(string(csvData), "\n"), "\n")+1]
	}
	if err := e.runImport(dstIndex, dstField, csvData, io, tag); err != nil {
		return mk("import_error", fmt.Sprintf("import command: %v; input %q", err, clip(csvData)), keysOf(pairsOf(want), nil)), ""
	}
	if cov != nil {
		cov(fmt.Sprintf("import:sort=%v,file=%v,createSchema=%v", io.sort, io.fromFile, io.createSchema))
	}
	if err := e.settle(dstIndex, dstField); err != nil {
		return nil, err.Error()
	}
	dst, err := e.readField(dstIndex, dstField, ref.rowKeyed, ref.colKeyed, ref.probe())
	if err != nil {
		return mk("target_unreadable", "reading the target: "+err.Error(), nil), ""
	}
	if m, x := dst.bits.diff(want); len(m)+len(x) > 0 {
		return mk("target_differs", fmt.Sprintf("bits of the target differ from the source: missing %s extra %s; export %q", fmtPairs(m), fmtPairs(x), clip(csvData)), keysOf(m, dst.bits)), ""
	}
	if src.problem != "" {
		return nil, "read paths of the source disagree: " + src.problem
	}
	if dst.replicas == "" {
		if dst.replicas, err = e.ownersExportAgree(dstIndex, dstField); err != nil {
			return nil, "exporting the target at every owner: " + err.Error()
		}
	}
	if dst.replicas != "" {
		return mk("replica_differs", "after the import command the owners of a shard of the target do not all hold its bits: "+dst.replicas, nil), ""
	}
	if dst.problem != "" {
		return mk("target_reads_disagree", dst.problem, nil), ""
	}
	// keys: the target knows exactly the keys of the bits, each once
	if ref.rowKeyed {
		wantKeys := map[string]bool{}
		for k := range want {
			wantKeys[k[0]] = true
		}
		seen := map[string]bool{}
		var bad []string
		for _, k := range dst.rowKeys {
			if !wantKeys[k] || seen[k] {
				bad = append(bad, k)
			}
			seen[k] = true
		}
		for k := range wantKeys {
			if !seen[k] {
				bad = append(bad, k)
			}
		}
		if len(bad) > 0 {
			sort.Strings(bad)
			return mk("target_keys_differ", fmt.Sprintf("row keys of the target %q, want exactly the keys of the bits; offending %q", dst.rowKeys, bad), bad), ""
		}
	}
	if ref.colKeyed && dstIndex != srcIndex {
		wantKeys := map[string]bool{}
		for k := range want {
			wantKeys[k[1]] = true
		}
		var bad []string
		n := 0
		for id := uint64(1); ; id++ {
			k, err := e.tf.TranslateColumnToString(dstIndex, id)
			if err != nil || k == "" {
				break
			}
			n++
			if !wantKeys[k] {
				bad = append(bad, k)
			}
		}
		if n != len(wantKeys) || len(bad) > 0 {
			return mk("target_keys_differ", fmt.Sprintf("the target index knows %d column keys, want the %d keys of the bits; unexpected %q", n, len(wantKeys), bad), bad), ""
		}
	}
	// re-export of the target: the same records, the same lines
	csv2, err := e.runExport(dstIndex, dstField, h&16 == 0, tag+"r")
	if err != nil {
		return mk("reexport_error", "export command on the target: "+err.Error(), nil), ""
	}
	got2, perr := parseCSV(csv2)
	if perr != nil {
		return mk("reexport_differs", fmt.Sprintf("re-export is not CSV: %v", perr), nil), ""
	}
	if m, x := got2.diff(got); len(m)+len(x) > 0 {
		return mk("reexport_differs", fmt.Sprintf("re-export of the target differs from the export of the source: missing %s extra %s", fmtPairs(m), fmtPairs(x)), keysOf(m, got2)), ""
	}
	if sortedLines(csv2) != sortedLines(csvData) {
		return mk("reexport_differs", fmt.Sprintf("lines of the re-export differ: %q vs %q", clip(csv2), clip(csvData)), nil), ""
	}
	return nil, ""
}

func pairsOf(r records) [][2]string {
	var out [][2]string
	for k := range r {
		out = append(out, k)
	}
	sortPairs(out)
	return out
}

func clip(b []byte) string {
	if len(b) > 600 {
		return string(b[:600]) + "…"
	}
	return string(b)
}

func TestC30(t *testing.T) {
	res := behav.NewResult()
	defer func() {
		if err := res.Write(); err != nil {
			t.Fatal(err)
		}
	}()
	slots := behav.EnvInt("VERIF_SLOTS", 2)
	nodes := behav.EnvInt("VERIF_NODES", 1)
	replicas := behav.EnvInt("VERIF_REPLICAS", 1)
	seed := behav.Seed()
	var cases []*c30Case
	if raw, ok := behav.LoadReplay(); ok {
		var c c30Case
		if err := json.Unmarshal(raw, &c); err != nil {
			t.Fatal(err)
		}
		cases = append(cases, &c)
		seed, slots = c.Seed, c.Slots
		if c.Nodes > 0 {
			nodes = c.Nodes
		}
		if c.Replicas > 0 {
			replicas = c.Replicas
		}
	} else {
		corrupt := os.Getenv("VERIF_CORRUPT")
		for i, b := range behav.LoadEnv() {
			cases = append(cases, &c30Case{Beh: b, Seed: seed, Idx: i, Slots: slots, Nodes: nodes, Replicas: replicas, Corrupt: corrupt})
		}
	}
	var e *env
	var err error
	if pv, stack := behav.Protect(func() { e, err = startEnv(t, seed, slots, nodes, replicas) }); pv != nil || err != nil {
		res.SetInconclusive(fmt.Sprintf("starting the server: %v %v\n%s", err, pv, stack))
		return
	}
	defer e.close()
	var mu sync.Mutex
	nontrivial := behav.Distinct{}
	workers := behav.EnvInt("VERIF_WORKERS", 0)
	if workers == 0 {
		os.Setenv("VERIF_WORKERS", "4")
	}
	behav.Parallel(len(cases), func(i int) {
		c := cases[i]
		fail, inc := runC30(c, e, res.Cover)
		res.CountEval()
		if inc != "" {
			res.SetInconclusive(fmt.Sprintf("case %d: %s", c.Idx, inc))
			return
		}
		if fail != nil {
			res.Fail(*fail)
			return
		}
		last := c.Beh[len(c.Beh)-1]
		if len(behav.ToList(last["bits"])) > 0 && nontrivial.Add(behav.JSON(c.Beh)) {
			res.CountNontrivial()
		}
		mu.Lock()
		if i%97 == 0 {
			res.AddSample(map[string]interface{}{"idx": c.Idx, "last": last})
		}
		mu.Unlock()
	}, func(i int, v interface{}, stack string) {
		c := cases[i]
		if behav.PanicInCode(stack) {
			res.Fail(behav.Failure{
				Match:  map[string]string{"op": "ExportImport", "symptom": "panic"},
				Detail: fmt.Sprintf("case %d: panic %v\n%s", c.Idx, v, stack),
				Replay: c,
			})
		} else {
			res.SetInconclusive(fmt.Sprintf("harness panic in case %d: %v\n%s", c.Idx, v, stack))
		}
	})
	if len(cases) == 0 {
		res.SetInconclusive("no behaviours")
	}
}
